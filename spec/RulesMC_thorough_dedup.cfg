\* C45 leg A thorough (dedup-centred): <=3 rules over groups {g1,g2} x {alert,rec} x a in {absent,"1"} x
\* r in {"1","2"} x state {inactive,firing}; no selector or the single selector {r="1"} (a selector on the
\* replica label).  Every input (28 850); leg B gets all of them.
SPECIFICATION Spec
CONSTANTS MaxRules = 3
          Groups = {"g1", "g2"}
          Types = {"alert", "rec"}
          AVals = {"", "1"}
          RVals = {"1", "2"}
          States = {1, 3}
          MaxSets = 1
          MaxMatchers = 1
          MaxTotal = 1
          MNames = {"r"}
          MTypes = {"EQ"}
          MVals = {"1"}
          CaseMaxRulesWithTwoSets = 3
INVARIANTS C45_ResultSatisfiesProperty SurvivorPredictionHolds
PROPERTY Progress
CHECK_DEADLOCK TRUE
