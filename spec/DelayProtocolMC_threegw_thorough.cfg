\* C34 leg A thorough (phase 2): three gateways with independent sync phases, 3 source blocks, one compaction of any two or three of them (MaxId 4),
\* compactor crash while marking, delete delay 4, ignore delay 2, sync lag <= 2
SPECIFICATION Spec
CONSTANTS NOrig = 3
          MaxId = 4
          DeleteDelay = 4
          IgnoreDelay = 2
          MaxLag = 2
          Gateways = {"g1", "g2", "g3"}
          UseDedup = TRUE
          HalfRule = TRUE
          CaseBlocks = 0
INVARIANTS C34_EveryGatewayServesAll C34_SomeGatewayServesAll
CHECK_DEADLOCK FALSE
