------------------------- MODULE StorePruneEndpointsMC -------------------------
(***************************************************************************)
(* Leg A of C05 (which stores a query can see): the endpoint set in front  *)
(* of the proxy as a state machine over rounds.  Each round the            *)
(* environment changes arbitrarily (per endpoint: listed or not, Info      *)
(* answers or not, which label sets / time range it advertises), the clock *)
(* advances by 1 or by the unhealthy-endpoint timeout, Update runs         *)
(* (RefAfterUpdate: discovered, healthy, unhealthy-but-kept until the      *)
(* timeout, strict endpoints never dropped, metadata kept on failure /     *)
(* replaced on success), and a query is pruned against the refs.           *)
(* Invariants: the property-level clauses UpdateClauses / QueryClauses     *)
(* hold for what the algorithm offers and contacts.                        *)
(***************************************************************************)
EXTENDS StorePrune, TLC, Json, IOUtils, SequencesExt
CONSTANTS NEps, T, MaxRounds, CaseEps, CaseStride

Eps == 1..NEps
L1 == << << <<1, 1>> >> >>        \* {a=1}
L2 == << << <<1, 2>> >> >>        \* {a=2}
Metas == << [lsets |-> L1, smin |-> 0, smax |-> 50], [lsets |-> L2, smin |-> 0, smax |-> 50], [lsets |-> L1, smin |-> 40, smax |-> 50] >>
Never == [kind |-> "any", alts |-> <<>>]
Query == [matchers |-> << [name |-> 1, type |-> "EQ", val |-> 1, re |-> Never] >>, qmin |-> 20, qmax |-> 30]
(* canonical environments: up only if listed, an advertisement only if up *)
EnvU == { ev \in [inspec : BOOLEAN, up : BOOLEAN, m : 1..Len(Metas)] : (ev.up => ev.inspec) /\ (~ev.up => ev.m = 1) }
Dts == {1, T}

VARIABLES strict, env, refs, now, advs, round, clients, contacted
vars == <<strict, env, refs, now, advs, round, clients, contacted>>

Init == /\ strict \in [Eps -> BOOLEAN]
        /\ env = [e \in Eps |-> [inspec |-> FALSE, up |-> FALSE, m |-> 1]]
        /\ refs = [e \in Eps |-> NoRef] /\ now = 100 /\ advs = [e \in Eps |-> {}]
        /\ round = 0 /\ clients = <<>> /\ contacted = <<>>

ClientRec(e) == LET st == RefStore(refs'[e], Metas) IN [e |-> e, lsets |-> st.lsets, smin |-> st.smin, smax |-> st.smax]
Round(ev, dt) ==
    /\ (MaxRounds > 0 => round < MaxRounds)
    /\ env' = ev /\ now' = now + dt /\ round' = round + 1
    /\ refs' = [e \in Eps |-> RefAfterUpdate(refs[e], strict[e], ev[e], now', T)]
    /\ clients' = SetToSeq({ ClientRec(e) : e \in AlgoClients(refs', strict) })
    /\ contacted' = SetToSeq(AlgoContacted(refs', strict, Metas, Query))
    /\ advs' = AdvsAfter(ev, advs)
    /\ UNCHANGED strict
Next == \E ev \in [Eps -> EnvU], dt \in Dts : Round(ev, dt)
Spec == Init /\ [][Next]_vars

C05_OfferedAndFresh == round > 0 => UpdateClauses(strict, Metas, env, clients) = {}
C05_UpStoresContacted == round > 0 => QueryClauses(strict, Metas, env, advs, Query, contacted) = {}
(* sanity of the state machine itself: an unhealthy non-strict endpoint is never offered, and is  *)
(* dropped once it has been unhealthy for the timeout                                             *)
C05_UnhealthyNotOffered == \A e \in Eps : (refs[e].present /\ refs[e].err /\ ~strict[e]) => e \notin AlgoClients(refs, strict)
C05_TimedOutDropped == \A e \in Eps : (refs[e].present /\ ~strict[e] /\ refs[e].err) => (now - refs[e].created < T \/ (refs[e].lastcheck >= 0 /\ now - refs[e].lastcheck < T))

(* Only ages up to the timeout matter, the clock itself and the round counter do not: with this  *)
(* VIEW (and MaxRounds = 0) the exploration covers scenarios of any length.                        *)
Age(t) == IF now - t >= T THEN T ELSE now - t
View == <<strict, env, advs,
          [e \in Eps |-> IF refs[e].present
                           THEN <<Age(refs[e].created), IF refs[e].lastcheck < 0 THEN 0 - 1 ELSE Age(refs[e].lastcheck), refs[e].err, refs[e].meta>>
                           ELSE <<>>]>>

(* leg B: all two-round scenarios over CaseEps endpoints, sampled (the endpoints do not interact in *)
(* Update, so one endpoint is the exhaustive model; the harness runs several side by side)          *)
CasesFile == IF "VERIF_CASES" \in DOMAIN IOEnv THEN IOEnv.VERIF_CASES ELSE "cases.ndjson"
CEps == 1..CaseEps
RoundU == { [env |-> ev, dt |-> dt] : ev \in [CEps -> EnvU], dt \in Dts }
RoundSeq == SetToSeq(RoundU)
NR == Len(RoundSeq)
StrictSeq == SetToSeq([CEps -> BOOLEAN])
CaseAt(k) == LET a == (k % NR) + 1
                 b == ((k \div NR) % NR) + 1
                 c == ((k \div (NR * NR)) % Len(StrictSeq)) + 1
             IN [kind |-> "endpoints", T |-> T, strict |-> StrictSeq[c], metas |-> Metas, query |-> Query,
                 rounds |-> << RoundSeq[a], RoundSeq[b] >>]
NCases == NR * NR * Len(StrictSeq)
CaseSeq == [n \in 1..(NCases \div CaseStride) |-> CaseAt(n * CaseStride - 1)]
ASSUME ndJsonSerialize(CasesFile, CaseSeq)
=============================================================================
