\* C34 non-vacuity: same as quick without duplicate filter but sync lag up to 3 > DeleteDelay - IgnoreDelay: a state in
\* which a gateway cannot serve a sample must be REACHABLE (POSTCONDITION ViolationReachable; one worker)
SPECIFICATION SpecNV
CONSTANTS NOrig = 2
          MaxId = 3
          DeleteDelay = 4
          IgnoreDelay = 2
          MaxLag = 3
          Gateways = {"g1"}
          UseDedup = FALSE
          HalfRule = TRUE
          CaseBlocks = 0
CONSTRAINT NoteViolation
POSTCONDITION ViolationReachable
CHECK_DEADLOCK FALSE
