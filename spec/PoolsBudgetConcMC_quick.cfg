\* C17(b) concurrent, leg A quick: 3 goroutines x 2 rounds, buckets 2/4/8, budget 9, sizes {3,5}; Get is one critical section
SPECIFICATION Spec
CONSTANTS Getters = {1, 2, 3}
          Sizes = {2, 4, 8}
          Max = 9
          ReqSizes = {3, 5}
          Rounds = 2
          AtomicGet = TRUE
INVARIANTS C17_ConcWithinMaximum C17_ConcZeroWhenAllReturned
CHECK_DEADLOCK TRUE
