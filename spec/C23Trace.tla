------------------------------ MODULE C23Trace ------------------------------
(***************************************************************************)
(* Leg C for C23 (case trace); same trace lines as C22Trace: one request   *)
(* shape and fault assignment per line, executed on the real handler once  *)
(* per response order (runs[j].order / status / stored).                   *)
(* Clauses: the three status clauses of ReceiveWrite.C23Violations per run *)
(* and "The outcome is the same for any order of replica responses":       *)
(* all runs of the line (same assignment, different orders) got the same   *)
(* status.                                                                 *)
(***************************************************************************)
EXTENDS TraceLib, ReceiveWrite

NSer(e) == Len(e.in.starts)
Cnt(e, s, o) == Cardinality({ i \in DOMAIN e.in.ers : s \in Range(e.in.ers[i].series) /\ e.in.outs[i] = o })
RunRec(e, r) == [status |-> r.status,
                 series |-> [s \in 1..NSer(e) |-> [ok |-> Cnt(e, s, "ok"), conflict |-> Cnt(e, s, "conflict"),
                                                    unavailable |-> Cnt(e, s, "unavailable"), noconn |-> Cnt(e, s, "noconn"), notready |-> Cnt(e, s, "notready"),
                                                    other |-> Cnt(e, s, "other") + Cnt(e, s, "nodial"),
                                                    stored |-> r.stored[s]]]]
Replicated(e) == e.in.rep # 0
N(e) == ReplicasFor(e.in.rf, Replicated(e))
QS(e) == QuorumsFor(e.in.rf, Replicated(e))

Judge(e) == UNION { JudgeC23(RunRec(e, e.runs[j]), N(e), QS(e)) : j \in DOMAIN e.runs }
            \cup (IF Cardinality({ e.runs[j].status : j \in DOMAIN e.runs }) > 1
                    THEN {"status-independent-of-order"} ELSE {})

Drift(e) == \E j \in DOMAIN e.runs : e.runs[j].status # PredictedStatus(RunRec(e, e.runs[j]), e.in.rf, Replicated(e))

VARIABLE l
TraceInit == l = 1
TraceNext == /\ l <= TraceLen
             /\ \A c \in Judge(Trace[l]) : CaseReject(l, Trace[l], {c})   \* one tuple per clause: TLC wraps long tuples
             /\ (IF Drift(Trace[l]) THEN PrintT(<<"DRIFT", l, Trace[l]["case"]>>) ELSE TRUE)
             /\ l' = l + 1
TraceSpec == TraceInit /\ [][TraceNext]_l
TraceAccepted == TLCGet("stats").diameter = TraceLen + 1
=============================================================================
