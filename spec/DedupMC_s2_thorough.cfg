\* C01 leg A thorough, readers with up to TWO seeks (forwards, backwards = no-op, to the current
\* timestamp, past the end): 2 replicas, at most 3 samples each on a 5-point grid (26^2 = 676
\* layouts + 26 identical), 4 targets
SPECIFICATION Spec
CONSTANTS InitPen = 5
          Grid = {0, 1, 6, 11, 17}
          NumReps = 2
          MaxLen = 3
          Ctr = FALSE
          Starts = {0}
          Incs = {0}
          Targets = {0, 6, 12, 18}
          EmitMod = 1
          MaxSeeks = 2
          Kinds = {"f"}
INVARIANTS C01_StrictlyIncreasing C01_FromSomeReplica C01_UnchangedIfIdentical C01_SeekIsSuffix
           C01_FollowsFullStream StepwiseEqualsFunctional BoundedOutput OnlyDoneIsFinal
CHECK_DEADLOCK FALSE
