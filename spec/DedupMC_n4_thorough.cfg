\* C01 leg A thorough, 4 replicas: at most 2 samples per replica on a 3-point grid (7^4 = 2 401
\* layouts + 7 identical), readers with at most one Seek (3 targets)
SPECIFICATION Spec
CONSTANTS InitPen = 5
          Grid = {0, 1, 7}
          NumReps = 4
          MaxLen = 2
          Ctr = FALSE
          Starts = {0}
          Incs = {0}
          Targets = {0, 5, 8}
          EmitMod = 1
          MaxSeeks = 1
          Kinds = {"f"}
INVARIANTS C01_StrictlyIncreasing C01_FromSomeReplica C01_UnchangedIfIdentical C01_SeekIsSuffix
           C01_FollowsFullStream StepwiseEqualsFunctional BoundedOutput OnlyDoneIsFinal
CHECK_DEADLOCK FALSE
