\* C01 leg A thorough, 4 replicas: all subsets of a 4-point grid with at most 2 samples per replica
\* (11^4 = 14 641 layouts + 11 identical), 3 seek targets
SPECIFICATION Spec
CONSTANTS InitPen = 5
          Grid = {0, 1, 6, 11}
          NumReps = 4
          MaxLen = 2
          Ctr = FALSE
          Starts = {0}
          Incs = {0}
          Targets = {0, 5, 11}
          EmitMod = 1
INVARIANTS C01_StrictlyIncreasing C01_FromSomeReplica C01_UnchangedIfIdentical C01_SeekIsSuffix
           StepwiseEqualsFunctional BoundedOutput OnlyDoneIsFinal
CHECK_DEADLOCK FALSE
