\* C24 leg A thorough (1): 4 requests (request limits are explored by the quick config with liveness and by thorough (2)), max 1..3, all interleavings, safety + liveness;
\* driver scripts: <= 4 requests, <= 6 ops, max 1 and 2 (807 scripts)
SPECIFICATION Spec
CONSTANTS NReq = 4
          MaxSet = {1, 2, 3}
          DoneOnFailedStart = FALSE
          WithLimits = FALSE
          CaseLenReject = 5
          CaseLen = 6
          CaseReq = 4
          CaseMaxSet = {1, 2}
INVARIANTS WithinLimitInv NoPanic SlotsExact
PROPERTIES NoStarvation EventuallyIdle
CHECK_DEADLOCK FALSE
