\* C24 leg A thorough: 5 requests, max 1..3, all interleavings; driver scripts: <= 4 requests, <= 7 ops, max 1 and 2
SPECIFICATION Spec
CONSTANTS NReq = 5
          MaxSet = {1, 2, 3}
          DoneOnFailedStart = FALSE
          CaseLen = 7
          CaseReq = 4
          CaseMaxSet = {1, 2}
INVARIANTS WithinLimitInv NoPanic SlotsExact
PROPERTIES NoStarvation EventuallyIdle
CHECK_DEADLOCK FALSE
