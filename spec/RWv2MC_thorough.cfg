\* C26 leg A thorough: tables of 0..3 symbols, refs 0..4, up to 2 lists of up to 3 refs.
\* cases: 0..3 symbols, refs 0..3, label lists <= 3 refs, at most one exemplar with <= 2 refs
SPECIFICATION Spec
CONSTANTS MaxSym = 3
          MaxRef = 4
          MaxLen = 3
          MaxLists = 2
          BoundsChecked = TRUE
          CaseMaxSym = 3
          CaseMaxRef = 3
          CaseLabelLen = 3
          CaseExLen = 2
INVARIANTS NeverPanics BadRefsRejected RejectsOnlyBad Faithful_
PROPERTIES Terminates
CHECK_DEADLOCK FALSE
