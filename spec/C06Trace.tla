------------------------------ MODULE C06Trace ------------------------------
(***************************************************************************)
(* Leg C for C06.  One trace line per fault case:                          *)
(*   in.stores[i]   [frames, strips, batch, fail: [kind, k]]               *)
(*                  kind "none" | "open" (Series call errors) | "after"    *)
(*                  (stream errors after k responses) | "timeout" (store   *)
(*                  stops answering after k responses)                     *)
(*   in.strategy    "ABORT" | "WARN"                                       *)
(*   in.cfgs[k]     [retr, buf, rb, flag, via]  (flag: abort asked through *)
(*                  the deprecated partial_response_disabled field)        *)
(*   outs[k]        what configuration k observed on a real ProxyStore:    *)
(*                  err ("" = success), nwarn, named[i] (some warning      *)
(*                  names store i), series                                 *)
(* Judged with the property-level operator C06Clauses of ProxyFanout.      *)
(***************************************************************************)
EXTENDS TraceLib, ProxyFanout

(* via = "proxy": ProxyStore.Series with the strategy in the request; via = "querier": through   *)
(* query.Querier.Select with partialResponse = (strategy = "WARN"); there the chunks are decoded *)
(* by the querier and only the label sets are recorded, so the chunk clause is not judged.        *)
(* outs[k].lbl[j] = [api: "names" | "values", err, nwarn, named, got, fwd]: LabelNames /          *)
(* LabelValues of the same ProxyStore over the same stores (a store with a failure point answers  *)
(* them with an error), same strategy; got = the names (values of label 1) returned.               *)
JudgeLabels(e) ==
    UNION { UNION { C06LabelClauses(e.in, e.in.strategy, e.outs[k].lbl[j].api, e.outs[k].lbl[j].err, e.outs[k].lbl[j].nwarn,
                                    e.outs[k].lbl[j].named, Rng(e.outs[k].lbl[j].got)) : j \in DOMAIN e.outs[k].lbl } : k \in DOMAIN e.outs }
JudgeSeries(e) ==
    UNION { C06Clauses(e.in, e.in.strategy, e.outs[k].err, e.outs[k].nwarn, e.outs[k].named, e.outs[k].series)
              \ (IF e.outs[k].via = "querier" THEN {"healthy-chunks-returned"} ELSE {}) : k \in DOMAIN e.outs }

Judge(e) == JudgeSeries(e) \cup JudgeLabels(e)

VARIABLE l
TraceInit == l = 1
TraceNext == /\ l <= TraceLen
             /\ CaseReject(l, Trace[l], Judge(Trace[l]))
             /\ l' = l + 1
TraceSpec == TraceInit /\ [][TraceNext]_l
TraceAccepted == TLCGet("stats").diameter = TraceLen + 1
=============================================================================
