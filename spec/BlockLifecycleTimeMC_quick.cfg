\* C32 leg A quick: 1 s = 4 model-ms; MaxTime with every ms part in [0, 2 s]; retention 0 (off), 1 s, 1.5 s; delete delay 1 s, 1.25 s;
\* partial threshold 1 s; clock 0..16 model-ms, procedures may run at every tick
SPECIFICATION Spec
CONSTANTS Sec = 4
          MaxNow = 16
          Rets = {0, 4, 6}
          Delays = {4, 5}
          Thresholds = {4}
          Truncating = FALSE
PROPERTIES C32_RetentionOnlyWhenOlder C32_CleanerOnlyAfterDelay C32_PartialOnlyWhenStaleAndUnmarked
CHECK_DEADLOCK FALSE
