\* C45 leg A quick: <=2 rules over group {g1} x alert x a in {absent,"1",templated} x r in {"1","2"} x
\* state firing (evaluation time = position); <=2 selector sets, <=2 matchers per set, <=3 matchers in total, matchers
\* a x {EQ,NEQ} x {"","1"}.  Every input (7 095) is model-checked; leg B gets the inputs with <=1 set or <=1 rule (1 911).
SPECIFICATION Spec
CONSTANTS MaxRules = 2
          Groups = {"g1"}
          Types = {"alert"}
          AVals = {"", "1", "T"}
          RVals = {"1", "2"}
          States = {3}
          MaxSets = 2
          MaxMatchers = 2
          MaxTotal = 3
          MNames = {"a"}
          MTypes = {"EQ", "NEQ"}
          MVals = {"", "1"}
          CaseMaxRulesWithTwoSets = 1
INVARIANTS C45_ResultSatisfiesProperty SurvivorPredictionHolds
PROPERTY Progress
CHECK_DEADLOCK TRUE
