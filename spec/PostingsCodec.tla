---------------------------- MODULE PostingsCodec ----------------------------
(***************************************************************************)
(* Posting-list codecs of the store gateway's index cache                  *)
(* (pkg/store/postings_codec.go: diff+varint, snappy / streamed snappy).   *)
(*                                                                         *)
(* A posting list is a sorted (non-decreasing) list of series references.  *)
(* Lists are written as RUNS: a sequence of <<start, step, count>> meaning *)
(* start, start+step, ..., start+(count-1)*step; a list of n arbitrary     *)
(* values is n runs of count 1.  (Long lists - 70 000 entries crossing the *)
(* streamed encoder's 64 KiB chunks - stay small that way.)  Values are    *)
(* integers; only their order matters to the property, so a harness may    *)
(* log order-preserving ranks instead of 64-bit values, as long as the     *)
(* value 0 stays 0 (a fresh iterator's current value is 0).                *)
(*                                                                         *)
(* Property C12: a list encoded with any of the cache codecs decodes to    *)
(* the same list, and Next/Seek/At on the decoded iterator behave as on    *)
(* the original list (index.Postings contract).                            *)
(***************************************************************************)
EXTENDS Integers, Sequences, FiniteSets

(* ------------------------- lists as runs ------------------------- *)
RECURSIVE RunsLen(_)
RunsLen(R) == IF R = <<>> THEN 0 ELSE Head(R)[3] + RunsLen(Tail(R))

RECURSIVE Elem(_, _)                       \* i-th element (1-based), 1 <= i <= RunsLen(R)
Elem(R, i) == IF i <= Head(R)[3] THEN Head(R)[1] + (i - 1) * Head(R)[2]
              ELSE Elem(Tail(R), i - Head(R)[3])

(* number of elements of one run that are < v *)
RunLess(r, v) ==
    IF v <= r[1] THEN 0
    ELSE IF r[2] = 0 THEN r[3]
    ELSE LET k == ((v - r[1] - 1) \div r[2]) + 1 IN IF k > r[3] THEN r[3] ELSE k
RECURSIVE CountLess(_, _)                  \* number of elements < v (the list is sorted)
CountLess(R, v) == IF R = <<>> THEN 0 ELSE RunLess(Head(R), v) + CountLess(Tail(R), v)

RECURSIVE Expand(_)                        \* the explicit sequence (small lists only)
Expand(R) == IF R = <<>> THEN <<>>
             ELSE [k \in 1..Head(R)[3] |-> Head(R)[1] + (k - 1) * Head(R)[2]] \o Expand(Tail(R))
Singletons(s) == [k \in DOMAIN s |-> <<s[k], 0, 1>>]

(* ------------------------- property level ------------------------- *)
(* The index.Postings contract, written from its documentation:                                  *)
(*   Next  advances the iterator and returns true if another value was found;                    *)
(*   Seek(v) advances the iterator to value v or greater and returns true if a value was found   *)
(*           (an iterator whose current value is already >= v does not move);                    *)
(*   At    returns the value at the current position; only meaningful after a successful         *)
(*         Next or Seek.                                                                         *)
(* Abstract iterator state over a list of n elements: [p, ex] - p in 0..n is the index of the    *)
(* current element (0: none yet), ex: a call has returned false (exhausted).                     *)
(* What is left open by the contract is accepted either way:                                     *)
(*  - Seek(0) on a fresh iterator: every Prometheus Postings (ListPostings, bigEndianPostings)   *)
(*    answers true without moving because its current value 0 is >= 0 (At = 0); moving to the    *)
(*    first element is accepted as well;                                                         *)
(*  - At after a call that returned false: not judged;                                           *)
(*  - Seek(v) after exhaustion with v <= the largest element: not judged (implementations        *)
(*    compare v with their last current value, which the contract does not define, and which is  *)
(*    0 for a list without elements); with v > 0 and larger than every element it must return    *)
(*    false; Next after exhaustion must return false.                                            *)
(* A step is judged on a SET of possible abstract states (the Seek(0) case can leave two).       *)

Fresh == {[p |-> 0, ex |-> FALSE]}

NextOutcomes(R, st, ret, at) ==
    LET n == RunsLen(R) IN
    IF ~st.ex /\ st.p < n
      THEN IF ret /\ at = Elem(R, st.p + 1) THEN {[p |-> st.p + 1, ex |-> FALSE]} ELSE {}
      ELSE IF ~ret THEN {[p |-> st.p, ex |-> TRUE]} ELSE {}

SeekOutcomes(R, st, v, ret, at) ==
    LET n == RunsLen(R) IN
    IF st.ex
      THEN IF v > 0 /\ (n = 0 \/ v > Elem(R, n)) /\ ret THEN {} ELSE {st}
    ELSE IF st.p >= 1 /\ Elem(R, st.p) >= v
      THEN IF ret /\ at = Elem(R, st.p) THEN {st} ELSE {}
    ELSE LET c == CountLess(R, v) + 1
             j == IF c > st.p + 1 THEN c ELSE st.p + 1       \* first index > p whose element is >= v
             advance == IF j <= n
                          THEN IF ret /\ at = Elem(R, j) THEN {[p |-> j, ex |-> FALSE]} ELSE {}
                          ELSE IF ~ret THEN {[p |-> st.p, ex |-> TRUE]} ELSE {}
             zero == IF st.p = 0 /\ v = 0 /\ ret /\ at = 0 THEN {st} ELSE {}
         IN  advance \cup zero

(* op = <<"n">> or <<"s", v>>;  S = set of possible abstract states before the call *)
StepStates(R, S, op, ret, at) ==
    UNION { IF op[1] = "n" THEN NextOutcomes(R, st, ret, at) ELSE SeekOutcomes(R, st, op[2], ret, at) : st \in S }

(* ------------------------- algorithm level ------------------------- *)
(* Encoding: the list becomes the sequence of differences to the previous value (first: to 0);   *)
(* each difference is a uvarint of Width(d) bytes.  The model keeps a varint as Width(d) tokens   *)
(* <<d, k>> (k-th byte of the varint of d); a varint is complete when its last token is there.   *)
(* Width is a parameter: real uvarints need 1 byte below 2^7, 2 below 2^14, ...; the model uses   *)
(* a small threshold so that multi-byte varints straddle the small model chunks.                 *)
Diffs(s) == [k \in DOMAIN s |-> IF k = 1 THEN s[1] ELSE s[k] - s[k - 1]]
Width(d, w2) == IF d < w2 THEN 1 ELSE 2
RECURSIVE Tokens(_, _)
Tokens(ds, w2) == IF ds = <<>> THEN <<>>
                  ELSE [k \in 1..Width(Head(ds), w2) |-> <<Head(ds), k>>] \o Tokens(Tail(ds), w2)
(* the streamed encoder hands the byte stream to a framed snappy writer: chunks of <= cs bytes *)
RECURSIVE Chunks(_, _)
Chunks(toks, cs) == IF toks = <<>> THEN <<>>
                    ELSE IF Len(toks) <= cs THEN <<toks>>
                    ELSE <<SubSeq(toks, 1, cs)>> \o Chunks(SubSeq(toks, cs + 1, Len(toks)), cs)

(* Decbuf.Uvarint64 on buffer b: <<ok, value, rest>>; fails (buffer untouched) when b holds no  *)
(* complete varint.                                                                              *)
ReadUvarint(b, w2) ==
    IF b = <<>> THEN <<FALSE, 0, b>>
    ELSE LET w == Width(b[1][1], w2) IN
         IF Len(b) < w THEN <<FALSE, 0, b>> ELSE <<TRUE, b[1][1], SubSeq(b, w + 1, Len(b))>>

(* Iterator state of both decoders: cur (current value, 0 when fresh), b (decoded bytes not yet  *)
(* consumed), input (chunks not yet read; the non-streamed codec has all bytes in b at once).    *)
(* streamedDiffVarintPostings.Next: read a uvarint; on failure append the next chunk to what is  *)
(* left (readNextChunk(remainder)) and retry; no chunk left: false.  diffVarintPostings.Next is  *)
(* the same with no chunks.                                                                      *)
RECURSIVE AlgoNext(_, _)
AlgoNext(it, w2) ==
    LET r == ReadUvarint(it.b, w2) IN
    IF r[1] THEN [ret |-> TRUE, it |-> [it EXCEPT !.cur = it.cur + r[2], !.b = r[3]]]
    ELSE IF it.input = <<>> THEN [ret |-> FALSE, it |-> it]
    ELSE AlgoNext([it EXCEPT !.b = it.b \o Head(it.input), !.input = Tail(it.input)], w2)

(* Seek: `if cur >= x return true`, else Next until At >= x. *)
RECURSIVE AlgoSeek(_, _, _)
AlgoSeek(it, v, w2) ==
    IF it.cur >= v THEN [ret |-> TRUE, it |-> it]
    ELSE LET r == AlgoNext(it, w2) IN
         IF ~r.ret THEN r ELSE AlgoSeek(r.it, v, w2)

AlgoStep(it, op, w2) == IF op[1] = "n" THEN AlgoNext(it, w2) ELSE AlgoSeek(it, op[2], w2)

(* cs = 0: one buffer (diff+varint+snappy, and raw diff+varint); cs > 0: streamed with chunks  *)
AlgoOpen(s, w2, cs) ==
    LET toks == Tokens(Diffs(s), w2) IN
    IF cs = 0 THEN [cur |-> 0, b |-> toks, input |-> <<>>]
    ELSE [cur |-> 0, b |-> <<>>, input |-> Chunks(toks, cs)]

(* run a whole op sequence: sequence of <<ret, at>> *)
RECURSIVE AlgoRun(_, _, _)
AlgoRun(it, ops, w2) ==
    IF ops = <<>> THEN <<>>
    ELSE LET r == AlgoStep(it, Head(ops), w2) IN <<<<r.ret, r.it.cur>>>> \o AlgoRun(r.it, Tail(ops), w2)

(* ------------------------- algorithm level, part 2 ------------------------- *)
(* The streamed codec over the CACHED BYTES.  The encoder cuts the varint stream into chunks of  *)
(* at most K bytes (the snappy framing cuts at 64 KiB); a multi-byte varint may straddle a cut.  *)
(* Each chunk is stored compressed ("c") or, when it does not compress, as it is ("u").  The     *)
(* decoder walks the cached bytes chunk by chunk; the bytes of a varint that were left over from  *)
(* the previous chunk (the remainder) are joined with the next chunk.  Go slices alias: the        *)
(* remainder of an uncompressed chunk is a view INTO the cached bytes, the remainder of a         *)
(* compressed chunk a view into the decoder's decode buffer (which the next decode overwrites),   *)
(* and append(remainder, chunk...) writes IN PLACE behind the remainder when the underlying array *)
(* is long enough - into the cached bytes.  readNextChunk therefore copies the remainder first.   *)
(*                                                                                               *)
(* Cells: <<"t", d, k>> k-th byte of the varint of d; <<"h", c, 0>> header of chunk c;           *)
(* <<"z", c, 0>> the compressed payload of chunk c (one cell: shorter than what it decodes to).  *)
MTokens(s, w2) == LET t == Tokens(Diffs(s), w2) IN [i \in DOMAIN t |-> <<"t", t[i][1], t[i][2]>>]
MChunks(s, w2, K) == Chunks(MTokens(s, w2), K)
RECURSIVE MMemFrom(_, _, _)
MMemFrom(chunks, kinds, c) ==
    IF c > Len(chunks) THEN <<>>
    ELSE <<<<"h", c, 0>>>> \o (IF kinds[c] = "u" THEN chunks[c] ELSE <<<<"z", c, 0>>>>) \o MMemFrom(chunks, kinds, c + 1)
MMem(chunks, kinds) == MMemFrom(chunks, kinds, 1)

(* views (Go slices): none; a range of the cached bytes; a range of the decode buffer; or a      *)
(* privately allocated array                                                                      *)
VNone == [a |-> "none"]
VMem(lo, hi) == [a |-> "mem", lo |-> lo, hi |-> hi]
VBuf(lo, hi) == [a |-> "buf", lo |-> lo, hi |-> hi]
VOwn(d) == [a |-> "own", data |-> d]
VContents(v, mem, buf) == CASE v.a = "none" -> <<>>
                            [] v.a = "mem" -> SubSeq(mem, v.lo, v.hi)
                            [] v.a = "buf" -> SubSeq(buf, v.lo, v.hi)
                            [] v.a = "own" -> v.data
VLen(v) == CASE v.a = "none" -> 0
             [] v.a = "own" -> Len(v.data)
             [] OTHER -> IF v.hi >= v.lo THEN v.hi - v.lo + 1 ELSE 0
VDrop(v, w) == IF v.a = "own" THEN VOwn(SubSeq(v.data, w + 1, Len(v.data)))
               ELSE IF v.a = "none" THEN v ELSE [v EXCEPT !.lo = v.lo + w]

(* What readNextChunk does with the remainder before it decodes / joins.  The code copies it in   *)
(* both branches.  (Sanity: CopyBeforeDecode(v) == v.a = "buf" and CopyBeforeJoin == FALSE - "the *)
(* copy is only needed when the remainder lives in the decode buffer" - corrupts the cached       *)
(* bytes; PostingsCodecMemMC then fails.)                                                         *)
CopyBeforeDecode(v) == TRUE
CopyBeforeJoin == TRUE

WriteAt(arr, at, d) == [i \in DOMAIN arr |-> IF i >= at /\ i < at + Len(d) THEN d[i - at + 1] ELSE arr[i]]

(* iterator: [pos, b, buf, cur, err]; pos = next unread cell of the cached bytes.                  *)
MOpen == [pos |-> 1, b |-> VNone, buf |-> <<>>, cur |-> 0, err |-> FALSE]

(* readNextChunk(remainder = it.b): [ok, it, mem] *)
MReadChunk(it, mem, chunks, kinds) ==
    IF it.pos > Len(mem) THEN [ok |-> FALSE, it |-> it, mem |-> mem]                       \* normal EOF
    ELSE IF mem[it.pos][1] # "h" \/ mem[it.pos][2] \notin DOMAIN chunks
      THEN [ok |-> FALSE, it |-> [it EXCEPT !.err = TRUE], mem |-> mem]                      \* unknown chunk type / garbage
    ELSE
    LET c == mem[it.pos][2]
        toks == chunks[c]
        n == Len(toks)
        rem == it.b
        rl == VLen(rem)
    IN  IF kinds[c] = "c"
        THEN IF it.pos + 1 > Len(mem) \/ mem[it.pos + 1] # <<"z", c, 0>>
               THEN [ok |-> FALSE, it |-> [it EXCEPT !.err = TRUE], mem |-> mem]             \* mismatched checksum
             ELSE LET rem1 == IF rl > 0 /\ CopyBeforeDecode(rem) THEN VOwn(VContents(rem, mem, it.buf)) ELSE rem
                      buf2 == toks \o SubSeq(it.buf, n + 1, Len(it.buf))                    \* s2.Decode(it.buf, ...)
                  IN  IF rl = 0 THEN [ok |-> TRUE, mem |-> mem, it |-> [it EXCEPT !.pos = it.pos + 2, !.buf = buf2, !.b = VBuf(1, n)]]
                      ELSE IF rem1.a = "mem" /\ rem1.hi + n <= Len(mem)                      \* append in place, into the cached bytes
                        THEN [ok |-> TRUE, mem |-> WriteAt(mem, rem1.hi + 1, toks),
                              it |-> [it EXCEPT !.pos = it.pos + 2, !.buf = buf2, !.b = VMem(rem1.lo, rem1.hi + n)]]
                      ELSE [ok |-> TRUE, mem |-> mem,
                            it |-> [it EXCEPT !.pos = it.pos + 2, !.buf = buf2, !.b = VOwn(VContents(rem1, mem, buf2) \o toks)]]
        ELSE IF it.pos + n > Len(mem) \/ SubSeq(mem, it.pos + 1, it.pos + n) # toks
               THEN [ok |-> FALSE, it |-> [it EXCEPT !.err = TRUE], mem |-> mem]             \* short read / mismatched checksum
             ELSE LET rem1 == IF rl > 0 /\ CopyBeforeJoin THEN VOwn(VContents(rem, mem, it.buf)) ELSE rem
                  IN  IF rl = 0 THEN [ok |-> TRUE, mem |-> mem, it |-> [it EXCEPT !.pos = it.pos + 1 + n, !.b = VMem(it.pos + 1, it.pos + n)]]
                      ELSE IF rem1.a = "mem" /\ rem1.hi + n <= Len(mem)
                        THEN [ok |-> TRUE, mem |-> WriteAt(mem, rem1.hi + 1, toks),
                              it |-> [it EXCEPT !.pos = it.pos + 1 + n, !.b = VMem(rem1.lo, rem1.hi + n)]]
                      ELSE [ok |-> TRUE, mem |-> mem,
                            it |-> [it EXCEPT !.pos = it.pos + 1 + n, !.b = VOwn(VContents(rem1, mem, it.buf) \o toks)]]

(* Decbuf.Uvarint64 on the view: <<ok, value, width>>; garbage cells never form a varint *)
MReadUvarint(cells, w2) ==
    IF cells = <<>> \/ cells[1][1] # "t" THEN <<FALSE, 0, 0>>
    ELSE LET w == Width(cells[1][2], w2) IN
         IF Len(cells) < w \/ \E k \in 1..w : cells[k] # <<"t", cells[1][2], k>> THEN <<FALSE, 0, 0>>
         ELSE <<TRUE, cells[1][2], w>>

(* Next on the cached bytes: [ret, it, mem] *)
RECURSIVE MNext(_, _, _, _, _)
MNext(it, mem, chunks, kinds, w2) ==
    LET r == MReadUvarint(VContents(it.b, mem, it.buf), w2) IN
    IF r[1] THEN [ret |-> TRUE, mem |-> mem, it |-> [it EXCEPT !.cur = it.cur + r[2], !.b = VDrop(it.b, r[3])]]
    ELSE LET rc == MReadChunk(it, mem, chunks, kinds) IN
         IF ~rc.ok THEN [ret |-> FALSE, mem |-> rc.mem, it |-> rc.it]
         ELSE MNext(rc.it, rc.mem, chunks, kinds, w2)

(* ------------------------- algorithm level, part 3: which decoder reads which entry ----------- *)
(* A cache entry starts with the prefix of the codec that wrote it ("dvs", "dss"; dss2 writes     *)
(* "dss" too) or has none (raw big-endian postings, be32).  Entry points: hdr = decodePostings     *)
(* (prefix -> codec, anything else: error), cached = decodeCachedPostings (prefix -> codec,        *)
(* anything else: read as raw), dvs / dss = a codec's own decoder (checks its prefix).             *)
EncPrefix(enc) == CASE enc \in {"dss", "dss2"} -> "dss" [] enc = "dvs" -> "dvs" [] OTHER -> ""
EncFormat(enc) == CASE enc \in {"dss", "dss2"} -> "streamed" [] enc = "dvs" -> "block" [] OTHER -> "raw"
(* the payload format an entry point will parse a blob with this prefix as, or "refuse" *)
ParsesAs(dec, prefix) ==
    CASE dec = "hdr" -> (IF prefix = "dvs" THEN "block" ELSE IF prefix = "dss" THEN "streamed" ELSE "refuse")
      [] dec = "cached" -> (IF prefix = "dvs" THEN "block" ELSE IF prefix = "dss" THEN "streamed" ELSE "raw")
      [] dec = "dvs" -> (IF prefix = "dvs" THEN "block" ELSE "refuse")
      [] dec = "dss" -> (IF prefix = "dss" THEN "streamed" ELSE "refuse")
(* "list": the original list comes out; "refuse": an error.  A payload parsed as another format  *)
(* is garbage to that parser; the formats are self-checking (snappy framing / block length /      *)
(* "4 * count bytes follow"), so the parser refuses.                                               *)
DecodeOutcome(enc, dec) == IF ParsesAs(dec, EncPrefix(enc)) = EncFormat(enc) THEN "list" ELSE "refuse"
=============================================================================
