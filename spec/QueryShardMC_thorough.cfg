\* C44 leg A thorough: 2 shards, worlds of <= 2 series, values {1,2}, ops sum/max, depth 2, all chains of depth 3
SPECIFICATION Spec
CONSTANTS NShards = 2
          MaxSeries = 2
          Vals = {1, 2}
          Ops = {"sum", "max"}
          WithLrep = TRUE
          Depth2 = TRUE
          Depth3 = "all"
INVARIANT C44_ShardedEqualsUnsharded
CHECK_DEADLOCK FALSE
