------------------------------ MODULE ReadPath ------------------------------
(***************************************************************************)
(* The Thanos read path: stores -> proxy (fan-out merge) -> querier        *)
(* (overlap split -> chunk-concatenating iterator -> penalty dedup).       *)
(* pkg/query/querier.go (selectFn), pkg/query/iter.go (chunkSeriesIterator)*)
(* pkg/dedup/iter.go (overlapSplitSet, dedupSeriesSet/Iterator),           *)
(* pkg/store/proxy_merge.go (responseDeduplicator).                        *)
(*                                                                         *)
(* World: a set of REPLICA SERIES.  A replica series is                    *)
(*   [lbls    |-> label set (function name -> value),                      *)
(*    samples |-> strictly increasing sequence of <<t, v>>,                *)
(*    chunks  |-> sequence of [lo, hi, st]: the samples lo..hi (positions  *)
(*                in `samples`) form one chunk held by store st; chunks    *)
(*                may overlap and may be spread over stores]               *)
(* A LOGICAL series is the set of replica series whose label sets agree    *)
(* after the replica labels RL are removed.                                *)
(*                                                                         *)
(* Property C04: dedup on  => one output series per label set minus the    *)
(* replica labels; identical replicas => exactly the logical samples.      *)
(* dedup off => every replica is its own series with its own samples.      *)
(* "dedup off" is the same relation with RL = {}.                          *)
(***************************************************************************)
EXTENDS Integers, Sequences, FiniteSets, SequencesExt, TLC

RangeOf(s) == { s[i] : i \in DOMAIN s }
TOf(s) == s[1]
MinOf(S) == CHOOSE x \in S : \A y \in S : x <= y

(* ======================= property level ================================ *)
(* Label set without the replica labels ("after removing the replica labels"). *)
Strip(l, RL) == [k \in (DOMAIN l) \ RL |-> l[k]]

(* Samples inside the queried time range.  *)
InRange(ss, lo, hi) == SelectSeq(ss, LAMBDA s : s[1] >= lo /\ s[1] <= hi)

(* The logical series named l: all replica series that carry l once RL is removed. *)
Group(reps, RL, l) == { r \in reps : Strip(r.lbls, RL) = l }

(* Label sets the answer may / must contain.  A series all of whose samples lie  *)
(* outside the query range may be reported (empty) or not: weakest reading.      *)
MayLsets(reps, RL) == { Strip(r.lbls, RL) : r \in reps }
MustLsets(reps, RL, lo, hi) == { Strip(r.lbls, RL) : r \in { x \in reps : InRange(x.samples, lo, hi) # <<>> } }

IdenticalGroup(G) == \A x, y \in G : x.samples = y.samples

(* "returns one series per label set after removing the replica labels":     *)
(* out is a sequence of [lbls, samples].                                      *)
OneSeriesPerLset(out, reps, RL, lo, hi) ==
    LET ls == [i \in DOMAIN out |-> out[i].lbls] IN
    /\ \A i, j \in DOMAIN ls : i # j => ls[i] # ls[j]
    /\ MustLsets(reps, RL, lo, hi) \subseteq RangeOf(ls)
    /\ RangeOf(ls) \subseteq MayLsets(reps, RL)

(* "when the replicas hold identical samples that series has exactly those    *)
(* samples" (a single replica is trivially identical; with RL = {} this is    *)
(* "every replica ... with its own samples").  The statement does not say     *)
(* that nothing outside the queried range is returned (the real querier may   *)
(* hand out the first sample after maxt, see notes/C04.md), so exactness is   *)
(* judged inside the query range - weakest reading; what lies outside is      *)
(* still subject to Provenance.                                               *)
ExactWhenIdentical(o, reps, RL, lo, hi) ==
    LET G == Group(reps, RL, o.lbls) IN
    (G # {} /\ IdenticalGroup(G)) =>
        InRange(o.samples, lo, hi) = InRange((CHOOSE r \in G : TRUE).samples, lo, hi)

(* "with replica data": every returned sample is a sample one replica of that  *)
(* logical series holds.                                                       *)
Provenance(o, reps, RL) ==
    LET G == Group(reps, RL, o.lbls)
        have == UNION { RangeOf(r.samples) : r \in G } IN
    \A i \in DOMAIN o.samples : o.samples[i] \in have

(* ---- which part of the world a query can see ---------------------------- *)
(* S = the stores that take part: all of them, or only those the store         *)
(* matchers select, minus stores that are down while the warn strategy lets     *)
(* the query go on.  A replica series is seen through its chunks on S.          *)
ChunksOn(r, S) == SelectSeq(r.chunks, LAMBDA c : c.st \in S)
Scoped(reps, S) == { [r EXCEPT !.chunks = ChunksOn(r, S)] : r \in { x \in reps : ChunksOn(x, S) # <<>> } }
VisibleSamples(r) ==
    LET ps == SetToSortSeq(UNION { c.lo..c.hi : c \in RangeOf(r.chunks) }, LAMBDA a, b : a < b)
    IN [k \in DOMAIN ps |-> r.samples[ps[k]]]
(* what the property-level operators above take as `reps` *)
Visible(reps) == { [lbls |-> r.lbls, samples |-> VisibleSamples(r)] : r \in reps }

(* ---- querier behaviour beyond C04 (extensions) ------------------------------ *)
(* max-source-resolution: a store is never asked for data coarser than allowed,  *)
(* and for functions that need two samples per range not coarser than range/2.   *)
TwoSampleFuncs == {"rate", "irate", "increase", "delta", "idelta", "deriv", "predict_linear",
                   "holt_winters", "double_exponential_smoothing"}
MaxResOK(asked, allowed, fn, rng) ==
    asked <= allowed /\ ((fn \in TwoSampleFuncs /\ rng > 0) => asked <= rng \div 2)
(* the range a store is asked for covers the querier's range *)
RangeCovers(rmin, rmax, lo, hi) == rmin <= lo /\ rmax >= hi

(* ---- downsampled data (phase 2) --------------------------------------------- *)
(* A store may hold a chunk also in downsampled form: per window one sample of    *)
(* each aggregate.  Which aggregate a query reads is fixed by its PromQL function *)
(* (querier: aggrsFromFunc); without a matching function the average sum/count.   *)
AggrKind(fn) ==
    CASE fn \in {"min", "min_over_time"} -> "min"
      [] fn \in {"max", "max_over_time"} -> "max"
      [] fn \in {"count", "count_over_time"} -> "count"
      [] fn \in {"sum_over_time"} -> "sum"
      [] fn \in {"increase", "rate", "irate", "resets", "xincrease", "xrate"} -> "counter"
      [] OTHER -> "avg"
(* what a query with function fn sees of chunk c of replica r: the aggregate of   *)
(* its downsampled form when the store serves that form, else the raw samples     *)
EffChunk(r, c, served, fn) == IF served THEN c.agg[AggrKind(fn)] ELSE SubSeq(r.samples, c.lo, c.hi)
SampleLess(a, b) == a[1] < b[1] \/ (a[1] = b[1] /\ a[2] < b[2])
(* a replica series as the query sees it through the stores S: union of its chunks *)
EffSamples(r, S, Served(_), fn) ==
    LET ks == SelectSeq([k \in DOMAIN r.chunks |-> k], LAMBDA k : r.chunks[k].st \in S)
        qs == SelectSeq([i \in DOMAIN ks |-> EffChunk(r, r.chunks[ks[i]], Served(r.chunks[ks[i]]), fn)],
                        LAMBDA q : q # <<>>)
    IN IF \A i \in 1..(Len(qs) - 1) : qs[i][Len(qs[i])][1] < qs[i + 1][1][1]
         THEN FoldLeft(LAMBDA acc, q : acc \o q, <<>>, qs)           \* chunks in time order: plain concatenation
         ELSE SetToSortSeq(UNION { RangeOf(qs[i]) : i \in DOMAIN qs }, SampleLess)
(* two chunks of one replica never disagree about a timestamp *)
ConsistentSamples(ss) == \A i \in 1..(Len(ss) - 1) : ss[i][1] < ss[i + 1][1]
EffView(reps, S, Served(_), fn) ==
    { [lbls |-> r.lbls, id |-> r.id, samples |-> EffSamples(r, S, Served, fn)]
      : r \in { x \in reps : \E k \in DOMAIN x.chunks : x.chunks[k].st \in S } }

(* C02 seen end to end: replicas of a counter that never decrease give an answer   *)
(* that never decreases (the counter dedup path may shift values, never down).     *)
NonDecreasing(ss) == \A i \in 1..(Len(ss) - 1) : ss[i][1] < ss[i + 1][1] /\ ss[i][2] <= ss[i + 1][2]
TimeProvenance(o, reps, RL) ==
    LET have == UNION { { x[1] : x \in RangeOf(r.samples) } : r \in Group(reps, RL, o.lbls) } IN
    \A i \in DOMAIN o.samples : o.samples[i][1] \in have

(* ---- metadata calls (phase 2) -------------------------------------------------- *)
(* LabelNames / LabelValues of the same querier: with dedup on the replica labels   *)
(* are gone; everything the visible series in range carry is listed; nothing is      *)
(* listed that no series of the world carries; each entry once.                      *)
NamesMust(reps, RL, lo, hi) == UNION { DOMAIN Strip(r.lbls, RL) : r \in { x \in reps : InRange(x.samples, lo, hi) # <<>> } }
NamesMay(reps, RL) == UNION { DOMAIN Strip(r.lbls, RL) : r \in reps }
ValuesMust(reps, RL, n, lo, hi) ==
    { Strip(r.lbls, RL)[n] : r \in { x \in reps : n \in DOMAIN Strip(x.lbls, RL) /\ InRange(x.samples, lo, hi) # <<>> } }
ValuesMay(reps, RL, n) == { Strip(r.lbls, RL)[n] : r \in { x \in reps : n \in DOMAIN Strip(x.lbls, RL) } }
NoDuplicates(s) == \A i, j \in DOMAIN s : i # j => s[i] # s[j]

(* the downsampled form of a sample sequence: windows of res grid points (grid: t = idx*step+off), *)
(* one sample per window at the window's last grid point                                           *)
AggForm(ss, res, step, off) ==
    LET win(x) == (((x[1] - off) \div step) + res - 1) \div res
        ws == SetToSortSeq({ win(ss[i]) : i \in DOMAIN ss }, LAMBDA a, b : a < b)
        mem(w) == SelectSeq(ss, LAMBDA x : win(x) = w)
        tw(w) == w * res * step + off
        vals(w) == [i \in DOMAIN mem(w) |-> mem(w)[i][2]]
        sum(w) == FoldLeft(LAMBDA a, b : a + b, 0, vals(w))
        mn(w) == CHOOSE v \in RangeOf(vals(w)) : \A u \in RangeOf(vals(w)) : v <= u
        mx(w) == CHOOSE v \in RangeOf(vals(w)) : \A u \in RangeOf(vals(w)) : v >= u
    IN [count   |-> [i \in DOMAIN ws |-> <<tw(ws[i]), Len(mem(ws[i]))>>],
        sum     |-> [i \in DOMAIN ws |-> <<tw(ws[i]), sum(ws[i])>>],
        min     |-> [i \in DOMAIN ws |-> <<tw(ws[i]), mn(ws[i])>>],
        max     |-> [i \in DOMAIN ws |-> <<tw(ws[i]), mx(ws[i])>>],
        counter |-> [i \in DOMAIN ws |-> <<tw(ws[i]), vals(ws[i])[Len(vals(ws[i]))]>>],
        avg     |-> [i \in DOMAIN ws |-> <<tw(ws[i]), sum(ws[i]) \div Len(mem(ws[i]))>>]]
NoAgg == [count |-> <<>>, sum |-> <<>>, min |-> <<>>, max |-> <<>>, counter |-> <<>>, avg |-> <<>>]

(* ======================= algorithm level =============================== *)
(* Chunks as the querier sees them: [min, max, samples, tie].  Two chunks with *)
(* the same samples have the same bytes (XOR encoding is a function of the     *)
(* samples), so `samples` is the chunk's identity for the proxy's hash-based   *)
(* removal of identical chunks.  tie is the arbitrary order (byte comparison)  *)
(* the proxy gives to different chunks with equal [min,max].                   *)
ChunkOf(r, c, tie) ==
    LET ss == SubSeq(r.samples, c.lo, c.hi) IN
    [min |-> ss[1][1], max |-> ss[Len(ss)][1], samples |-> ss, tie |-> tie]

(* querier: maxResolutionFromSelectHints *)
MaxResFromHints(maxres, rng, fn) ==
    IF rng > 0 /\ fn \in TwoSampleFuncs THEN (IF rng \div 2 < maxres THEN rng \div 2 ELSE maxres) ELSE maxres
(* chunkSeries.Iterator: getFirstIterator(c.<aggregate of the function>, c.Raw); the default        *)
(* COUNT+SUM selection reads raw data as it is and downsampled data as sum/count                    *)
ChunkOfEff(r, c, served, fn, tie) ==
    LET ss == EffChunk(r, c, served, fn) IN
    [min |-> ss[1][1], max |-> ss[Len(ss)][1], samples |-> ss, tie |-> tie]

(* A store returns the chunks that overlap the requested range.  *)
ChunkOverlaps(ch, lo, hi) == ch.max >= lo /\ ch.min <= hi

ChunkLess(a, b) ==
    \/ a.min < b.min
    \/ a.min = b.min /\ a.max < b.max
    \/ a.min = b.min /\ a.max = b.max /\ a.tie < b.tie

(* Proxy: series with equal label sets from all stores become one series whose *)
(* chunks are the distinct chunks, ordered by (min, max, bytes).               *)
(* chs: set of chunks of one label set (all stores).                           *)
DistinctChunks(chs) ==
    { c \in chs : \A d \in chs : d.samples = c.samples => d.tie >= c.tie }
MergeChunks(chs) == SetToSortSeq(DistinctChunks(chs), ChunkLess)

(* dedup.NewOverlapSplit: first-fit of the time-ordered chunks into chains of  *)
(* non-overlapping chunks ("fake replicas").                                   *)
PlaceChunk(chains, c) ==
    LET fits == { i \in 1..Len(chains) : chains[i][Len(chains[i])].max < c.min } IN
    IF fits = {} THEN Append(chains, <<c>>)
    ELSE LET i == MinOf(fits) IN [chains EXCEPT ![i] = Append(@, c)]
OverlapSplit(chunks) == FoldLeft(PlaceChunk, <<>>, chunks)

(* chunkSeriesIterator: chunk after chunk, skipping in the next chunk whatever *)
(* is not after the last sample already returned.                              *)
AppendChunk(acc, c) ==
    acc \o SelectSeq(c.samples, LAMBDA s : acc = <<>> \/ s[1] > acc[Len(acc)][1])
ChainSamples(chain) == FoldLeft(AppendChunk, <<>>, chain)

(* boundedSeriesIterator: the samples of the chain inside [mint, maxt].          *)
(* Abstraction: the real iterator's Seek(x) only refuses x > maxt, so it may     *)
(* stop on - and the outermost dedup iterator may hand out - the first sample    *)
(* AFTER maxt.  Nothing before that point is affected (a leaf parked on such a   *)
(* sample loses every comparison against in-range samples), so the model cuts    *)
(* the chain at maxt and predicts the answer INSIDE the query range only.        *)
Bounded(ss, lo, hi) == InRange(ss, lo, hi)

(* position of the first sample at or after x, starting at i (Len+1 = exhausted) *)
RECURSIVE SeekFrom(_, _, _)
SeekFrom(s, i, x) == IF i > Len(s) \/ s[i][1] >= x THEN i ELSE SeekFrom(s, i + 1, x)

(* dedupSeriesIterator (penalty algorithm) over two sample sequences.  Both      *)
(* inputs are consumed through Next/Seek after an initial Next, so an inner      *)
(* dedup iterator behaves as the sequence of its own output.                     *)
InitialPenalty == 5000
NoT == -1                       \* "lastT = math.MinInt64": nothing returned yet

RECURSIVE PenaltyLoop(_, _, _, _, _, _, _, _)
PenaltyLoop(a, b, ia, ib, lastT, penA, penB, out) ==
    LET ja == IF lastT = NoT THEN ia ELSE SeekFrom(a, ia, lastT + 1 + penA)
        jb == IF lastT = NoT THEN ib ELSE SeekFrom(b, ib, lastT + 1 + penB)
    IN
    IF ja > Len(a) THEN
        IF jb > Len(b) THEN out
        ELSE PenaltyLoop(a, b, ja, jb, b[jb][1], penA, 0, Append(out, b[jb]))
    ELSE IF jb > Len(b) THEN
        PenaltyLoop(a, b, ja, jb, a[ja][1], 0, penB, Append(out, a[ja]))
    ELSE IF a[ja][1] <= b[jb][1] THEN
        PenaltyLoop(a, b, ja, jb, a[ja][1], 0,
                    IF lastT = NoT THEN InitialPenalty ELSE 2 * (a[ja][1] - lastT),
                    Append(out, a[ja]))
    ELSE
        PenaltyLoop(a, b, ja, jb, b[jb][1],
                    IF lastT = NoT THEN InitialPenalty ELSE 2 * (b[jb][1] - lastT), 0,
                    Append(out, b[jb]))
PenaltyMerge(a, b) == PenaltyLoop(a, b, 1, 1, NoT, 0, 0, <<>>)

(* dedupSeries.Iterator: left fold over the replicas (chains) of one label set.  *)
DedupFold(seqs) == IF seqs = <<>> THEN <<>> ELSE FoldLeft(PenaltyMerge, seqs[1], Tail(seqs))

(* The whole sample pipeline for one label set, given the chunks the stores      *)
(* returned for it.                                                              *)
PipelineDedup(chs, lo, hi) ==
    LET chains == OverlapSplit(MergeChunks(chs))
    IN DedupFold([i \in 1..Len(chains) |-> Bounded(ChainSamples(chains[i]), lo, hi)])
PipelinePlain(chs, lo, hi) == Bounded(ChainSamples(MergeChunks(chs)), lo, hi)

(* Chunks of the replicas in G that the stores hand to the proxy for [lo, hi].  *)
(* The tie of a chunk is its replica's `id` (any total order will do).          *)
GroupChunks(G, lo, hi) ==
    { ch \in UNION { { ChunkOf(r, r.chunks[k], r.id) : k \in DOMAIN r.chunks } : r \in G } :
        ChunkOverlaps(ch, lo, hi) }

(* Known finding "overlap-penalty-gap" (notes/C04.md): with dedup on, chunks of   *)
(* ONE logical series that overlap in time without being identical (the same     *)
(* replica served by two stores with different chunk cuts, overlapping blocks)   *)
(* are spread over several chains; if the first chain does not hold every        *)
(* sample, the penalty dedup switches chains late (it skips 2 x the last delta   *)
(* on the chain it did not read) and drops samples although every replica is     *)
(* identical.  Measured on the real code: one replica, chunks [1..4] and [3..6]  *)
(* of a 10 s series => samples 5 and 6 are not returned.                         *)
(* The class, decided from the input alone: the first chain of the overlap split *)
(* lacks a sample of the (identical) logical series in range.  When the first    *)
(* chain is complete the fold provably returns exactly the logical samples       *)
(* (TLC: C04_ExactWhenIdentical).                                                *)
FirstChainIncomplete(chs, lo, hi, logical) ==
    chs # {} /\ LET chains == OverlapSplit(MergeChunks(chs)) IN
                InRange(ChainSamples(chains[1]), lo, hi) # InRange(logical, lo, hi)
=============================================================================
