\* C01 leg A quick: 2 replicas, all subsets of a 6-point grid (4 096 layouts + 64 identical-replica
\* layouts), InitPen 5 (x1000 ms); per layout one reader from the start and one seek-first reader
\* per target (5 targets)
SPECIFICATION Spec
CONSTANTS InitPen = 5
          Grid = {0, 1, 4, 6, 11, 17}
          NumReps = 2
          MaxLen = 6
          Ctr = FALSE
          Starts = {0}
          Incs = {0}
          Targets = {0, 3, 6, 12, 18}
          EmitMod = 1
INVARIANTS C01_StrictlyIncreasing C01_FromSomeReplica C01_UnchangedIfIdentical C01_SeekIsSuffix
           StepwiseEqualsFunctional BoundedOutput OnlyDoneIsFinal
CHECK_DEADLOCK FALSE
