\* C01 leg A quick: 2 replicas, all subsets of a 5-point grid (1 024 layouts + 32 identical-replica
\* layouts), InitPen 5 (x1000 ms); per layout one reader from the start and every reader that mixes
\* Next with at most one Seek(x) (3 targets) at any position (seek-first included).
\* StepwiseEqualsFunctional / OnlyDoneIsFinal are checked in the thorough tier (cost).
SPECIFICATION Spec
CONSTANTS InitPen = 5
          Grid = {0, 1, 6, 11, 17}
          NumReps = 2
          MaxLen = 5
          Ctr = FALSE
          Starts = {0}
          Incs = {0}
          Targets = {0, 6, 18}
          EmitMod = 1
          MaxSeeks = 1
          Kinds = {"f"}
INVARIANTS C01_StrictlyIncreasing C01_FromSomeReplica C01_UnchangedIfIdentical C01_SeekIsSuffix
           C01_FollowsFullStream BoundedOutput
CHECK_DEADLOCK FALSE
