\* C06 leg A (label APIs) quick: 2 stores, each healthy or failing, stripping replica labels or not, both strategies, both APIs, any answer order
SPECIFICATION Spec
CONSTANTS NStores = 2
INVARIANT C06_LabelsStrategyHonoured
CHECK_DEADLOCK TRUE
