------------------------------ MODULE PlannerMC ------------------------------
(***************************************************************************)
(* Leg A of C30: the transcribed planner, planned and applied until it     *)
(* returns no plan, for EVERY block layout inside small constants.         *)
(*                                                                         *)
(* phase "build": the layout is built block by block (shapes in canonical  *)
(* non-decreasing order, so every multiset of shapes is built once; ids    *)
(* are 1..n).  phase "plan": one action per iteration of the               *)
(* sync -> group -> plan -> compact loop: the planner is called on the     *)
(* blocks sorted by mint (every order of ties), the plan is applied.       *)
(* phase "done": the planner returned no plan.                             *)
(***************************************************************************)
EXTENDS Planner, TLC, Json, IOUtils, SequencesExt
CONSTANTS Ranges,      \* compaction ranges, e.g. <<1, 2, 4>>
          LoNeg, Hi,   \* time grid -LoNeg..Hi (a cfg file cannot write a negative number)
          MaxLen,      \* longest block
          MaxBlocks,   \* blocks per layout
          MaxNC, MaxTomb, MaxFailed,   \* how many blocks may carry each flag
          TombVals,    \* NumTombstones values; with NumSeries = 19: 0 none, 1 exactly 5 % (not "more than"), 2 = 10 %
          Sizes,       \* index sizes
          Modes,       \* planner variants [kind, thr, ds]: kind "tsdb" (NewPlanner), "size"
                       \* (WithLargeTotalIndexSizeFilter, threshold thr), "vdown" (WithVerticalCompaction-
                       \* DownsampleFilter around it; ds = the group is downsampled); thr = 0: no limit
          CaseBlocks, CaseFlagBlocks   \* leg B: layouts serialised for the harness (plain / flagged blocks)

(* range lists for the configs (a cfg file cannot write a tuple) *)
R124 == <<1, 2, 4>>
R139 == <<1, 3, 9>>
R1248 == <<1, 2, 4, 8>>
R12 == <<1, 2>>

Lo == 0 - LoNeg

VARIABLES phase, bs, nid, kind, thr, ds, last
vars == <<phase, bs, nid, kind, thr, ds, last>>
(* last: [in |-> planner input with the marks present after planning, plan |-> ids, m |-> measure before] *)

ModesTsdb == { [kind |-> "tsdb", thr |-> 0, ds |-> FALSE] }
ModesFilters == { [kind |-> "size", thr |-> 3, ds |-> FALSE], [kind |-> "vdown", thr |-> 3, ds |-> FALSE],
                  [kind |-> "vdown", thr |-> 0, ds |-> TRUE], [kind |-> "vdown", thr |-> 3, ds |-> TRUE] }
ModesFiltersT == ModesFilters \cup { [kind |-> "size", thr |-> 4, ds |-> FALSE], [kind |-> "vdown", thr |-> 4, ds |-> TRUE] }
Shape(lo, hi, nc, tomb, failed, isz) ==
    [mint |-> lo, maxt |-> hi, nc |-> nc, tomb |-> tomb, ser |-> 19, failed |-> failed, isz |-> isz]
Intervals == { <<lo, hi>> \in (Lo..Hi) \X (Lo..Hi) : lo < hi /\ hi - lo <= MaxLen }
Shapes == { Shape(iv[1], iv[2], nc, tomb, failed, isz) :
              iv \in Intervals, nc \in (IF MaxNC > 0 THEN BOOLEAN ELSE {FALSE}), tomb \in TombVals,
              failed \in (IF MaxFailed > 0 THEN BOOLEAN ELSE {FALSE}), isz \in Sizes }
(* a total order on shapes, to build each multiset once *)
Key(b) == <<b.mint, b.maxt, IF b.nc THEN 1 ELSE 0, b.tomb, IF b.failed THEN 1 ELSE 0, b.isz>>
RECURSIVE LexLeq(_, _, _)
LexLeq(a, b, i) == IF i > Len(a) THEN TRUE
                   ELSE IF a[i] < b[i] THEN TRUE ELSE IF a[i] > b[i] THEN FALSE ELSE LexLeq(a, b, i + 1)
ShapeLeq(a, b) == LexLeq(Key(a), Key(b), 1)

Count(s, P(_)) == Cardinality({ i \in DOMAIN s : P(s[i]) })
FlagsOK(s) == /\ Count(s, LAMBDA b : b.nc) <= MaxNC
              /\ Count(s, LAMBDA b : b.tomb > 0) <= MaxTomb
              /\ Count(s, LAMBDA b : b.failed) <= MaxFailed

(* all orders of B that are sorted by mint *)
RECURSIVE SortedSeqs(_)
SortedSeqs(B) ==
    IF B = {} THEN {<<>>}
    ELSE LET m == MinOf({ b.mint : b \in B }) IN
         UNION { { <<b>> \o t : t \in SortedSeqs(B \ {b}) } : b \in { x \in B : x.mint = m } }

NoLast == [in |-> {}, plan |-> <<>>, m |-> 0]

Init == /\ phase = "build" /\ bs = <<>> /\ nid = 1
        /\ \E m \in Modes : kind = m.kind /\ thr = m.thr /\ ds = m.ds
        /\ last = NoLast

AddBlock == /\ phase = "build" /\ Len(bs) < MaxBlocks
            /\ \E sh \in Shapes :
                 /\ IF bs = <<>> THEN TRUE ELSE ShapeLeq(bs[Len(bs)], sh)
                 /\ FlagsOK(Append(bs, sh))
                 /\ bs' = Append(bs, [id |-> nid, mint |-> sh.mint, maxt |-> sh.maxt, nc |-> sh.nc, tomb |-> sh.tomb, ser |-> sh.ser, failed |-> sh.failed, isz |-> sh.isz])
            /\ nid' = nid + 1
            /\ UNCHANGED <<phase, kind, thr, ds, last>>

Start == /\ phase = "build" /\ bs # <<>>
         /\ phase' = "plan"
         /\ bs' \in SortedSeqs(SeqSet(bs))
         /\ UNCHANGED <<nid, kind, thr, ds, last>>

(* One iteration: plan on the current blocks; no plan -> fixpoint; else apply.  *)
Step == /\ phase = "plan"
        /\ LET r == PlanAlgo(kind, Ranges, bs, thr, ds)
               B == WithMarksSet(SeqSet(bs), r.marks)
               pids == IdsOf(r.plan)
           IN /\ last' = [in |-> B, plan |-> pids, m |-> Measure(B)]
              /\ IF r.plan = <<>>
                   THEN /\ phase' = "done" /\ bs' = WithMarks(bs, r.marks) /\ UNCHANGED nid
                   ELSE /\ phase' = "plan" /\ nid' = nid + 1
                        /\ bs' \in SortedSeqs(ApplySet(B, pids, nid))
        /\ UNCHANGED <<kind, thr, ds>>

Next == AddBlock \/ Start \/ Step
Spec == Init /\ [][Next]_vars /\ WF_vars(AddBlock) /\ WF_vars(Start) /\ WF_vars(Step)

(* ---------------- C30 on the algorithm ---------------- *)
(* every plan the algorithm returns satisfies the per-plan clauses *)
PlanSafe == PlanClauses(last.in, Ranges, last.plan) = {}
(* at the fixpoint the blocks do not overlap *)
FixpointOK == phase = "done" => FinalClauses(SeqSet(bs)) = {}
(* planning + applying ends: the measure strictly decreases with every applied plan *)
Variant == [][phase = "plan" /\ phase' = "plan" => Measure(SeqSet(bs')) < last'.m]_vars
Terminates == <>(phase = "done")
(* stronger than the statement, design assurance for the transcription: the planner input  *)
(* stays sorted, plans are contiguous-in-time subsets in input order                         *)
SortedInput == \A i \in 1..(Len(bs) - 1) : phase # "build" => bs[i].mint <= bs[i + 1].mint
(* Go's two-branch window computation is floor alignment *)
WindowIsFloor == \A t \in (Lo - 2)..(Hi + 2), r \in RangeSet(Ranges) : GoWindow(t, r) = Window(t, r)

View == <<phase, bs, nid, kind, thr, ds>>

(* ---------------- leg B: layouts handed to the harness ---------------- *)
CasesFile == IF "VERIF_CASES" \in DOMAIN IOEnv THEN IOEnv.VERIF_CASES ELSE "cases.ndjson"
PlainShapes == { Shape(iv[1], iv[2], FALSE, 0, FALSE, isz) : iv \in Intervals, isz \in Sizes }
RECURSIVE Multisets(_, _)       \* non-decreasing (canonical) sequences of length <= n over the shapes S
Multisets(S, n) ==
    IF n = 0 THEN {<<>>}
    ELSE LET prev == Multisets(S, n - 1) IN
         prev \cup UNION { { Append(s, sh) : sh \in { x \in S : IF s = <<>> THEN TRUE ELSE ShapeLeq(s[Len(s)], x) } } :
                            s \in { x \in prev : Len(x) = n - 1 } }
FlagShapes == { Shape(iv[1], iv[2], nc, tomb, failed, isz) :
                  iv \in Intervals, nc \in BOOLEAN, tomb \in TombVals,
                  failed \in (IF MaxFailed > 0 THEN BOOLEAN ELSE {FALSE}), isz \in Sizes }
CaseFlagsOK(s) == /\ Count(s, LAMBDA b : b.nc) <= Max2(MaxNC, 1)
                  /\ Count(s, LAMBDA b : b.tomb > 0) <= MaxTomb
                  /\ Count(s, LAMBDA b : b.failed) <= MaxFailed
CaseLayouts ==
    { s \in Multisets(PlainShapes, CaseBlocks) : s # <<>> }
    \cup { s \in Multisets(FlagShapes, CaseFlagBlocks) : s # <<>> /\ CaseFlagsOK(s) }
CaseSeq == SetToSeq({ [ranges |-> Ranges, blocks |-> s, kind |-> m.kind, thr |-> m.thr, ds |-> m.ds] : s \in CaseLayouts, m \in Modes })
ASSUME ndJsonSerialize(CasesFile, CaseSeq)
=============================================================================
