\* C24 leg A quick: 3 requests, max 1 or 2, all interleavings incl. cancel while queued / running;
\* driver scripts: <= 3 requests, <= 5 ops, max 1
SPECIFICATION Spec
CONSTANTS NReq = 3
          MaxSet = {1, 2}
          DoneOnFailedStart = FALSE
          WithLimits = TRUE
          CaseLenReject = 4
          CaseLen = 5
          CaseReq = 3
          CaseMaxSet = {1}
INVARIANTS WithinLimitInv NoPanic SlotsExact
PROPERTIES NoStarvation EventuallyIdle
CHECK_DEADLOCK FALSE
