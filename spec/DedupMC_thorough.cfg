\* C01 leg A thorough: 2 replicas, all subsets of a 7-point grid (16 384 layouts + 128 identical),
\* InitPen 5 (x1000 ms); one reader from the start and one seek-first reader per target (8 targets)
SPECIFICATION Spec
CONSTANTS InitPen = 5
          Grid = {0, 1, 4, 6, 11, 17, 30}
          NumReps = 2
          MaxLen = 7
          Ctr = FALSE
          Starts = {0}
          Incs = {0}
          Targets = {0, 1, 3, 6, 11, 12, 18, 31}
          EmitMod = 1
INVARIANTS C01_StrictlyIncreasing C01_FromSomeReplica C01_UnchangedIfIdentical C01_SeekIsSuffix
           StepwiseEqualsFunctional BoundedOutput OnlyDoneIsFinal
CHECK_DEADLOCK FALSE
