\* C01 leg A thorough: 2 replicas, all subsets of a 6-point grid (4 096 layouts + 64 identical),
\* InitPen 5 (x1000 ms); one reader from the start and every reader mixing Next with at most one
\* Seek(x) (6 targets) at any position
SPECIFICATION Spec
CONSTANTS InitPen = 5
          Grid = {0, 1, 4, 6, 11, 17}
          NumReps = 2
          MaxLen = 6
          Ctr = FALSE
          Starts = {0}
          Incs = {0}
          Targets = {0, 1, 3, 6, 12, 18}
          EmitMod = 1
          MaxSeeks = 1
          Kinds = {"f"}
INVARIANTS C01_StrictlyIncreasing C01_FromSomeReplica C01_UnchangedIfIdentical C01_SeekIsSuffix
           C01_FollowsFullStream StepwiseEqualsFunctional BoundedOutput OnlyDoneIsFinal
CHECK_DEADLOCK FALSE
