------------------------------ MODULE HashringMC ------------------------------
(***************************************************************************)
(* Leg A for C18 "hashring placement: distinct, deterministic,             *)
(* zone-balanced".  Runs the replica-selection loop (HashringLoop) for     *)
(* every zone layout, ring order and rf in small scope and checks what     *)
(* C18 demands of its result:                                              *)
(*   C18_Distinct        replicas are pairwise distinct endpoints          *)
(*   C18_ZoneBalanced    per-zone counts differ by <= 1 whenever the zones *)
(*                       can accommodate that (CanBalance)                 *)
(*   C18_OrderFree       listing the endpoints in another order (which     *)
(*                       renumbers endpointIndex) gives the same endpoints *)
(*   C18_CanBalanceForm  the closed form of CanBalance used by the trace   *)
(*                       spec equals its definition (exists a balanced     *)
(*                       allocation within the zone capacities)            *)
(*   C18_Function        the functional form SectionReplicas (used for the *)
(*                       conformance comparison in C18Trace) equals what   *)
(*                       the step machine computes                         *)
(* and, as ASSUMEs, the same for hashmod (sorted endpoints, (h+n) mod len).*)
(* Leg B: zone-size vectors x rf x algorithm for the harness.              *)
(***************************************************************************)
EXTENDS HashringLoop, Json, IOUtils, SequencesExt
CONSTANTS CaseMaxN, CaseMaxRF

Spec == LoopSpec

C18_Distinct == HNoDup(reps) /\ Len(reps) <= rf
C18_ZoneBalanced == LoopDone /\ CanBalance(rf, az) => ZoneBalanced(Chosen, az)
(* stronger, explains why the greedy walk works: while balancing is possible the partial     *)
(* choice is balanced at every step                                                           *)
C18_AlwaysBalanced == Walking /\ CanBalance(rf, az) => ZoneBalanced(Chosen, az)
C18_CanBalanceForm == Walking /\ reps = <<>> => CanBalance(rf, az) = CanBalanceDef(rf, az)
C18_Function == LoopDone => reps = SectionReplicas(ring, az, rf, 1)

(* Renumbering endpoints (= listing them in another order): swapping two adjacent numbers    *)
(* generates every permutation, so invariance under each swap is invariance under all.       *)
Swap(a, n) == [k \in 1..n |-> IF k = a THEN a + 1 ELSE IF k = a + 1 THEN a ELSE k]
C18_OrderFree ==
    Walking /\ reps = <<>> =>
      LET n == Len(az)
          base == SectionReplicas(ring, az, rf, 1)
      IN \A a \in 1..(n - 1) :
           LET p == Swap(a, n)                                    \* p is its own inverse
               ring2 == [k \in DOMAIN ring |-> p[ring[k]]]
               az2 == [k \in 1..n |-> az[p[k]]]
               got == SectionReplicas(ring2, az2, rf, 1)
           IN [k \in DOMAIN got |-> p[got[k]]] = base

(* hashmod: any hash value, any rf <= n: distinct; sorted list => order-free by construction *)
ASSUME \A n \in 1..MaxN, h \in 0..(2 * MaxN), r \in 1..MaxN :
         r <= n => HNoDup(HashmodReplicas([k \in 1..n |-> k], h, r))

ZoneVecs == { v \in [1..4 -> 0..CaseMaxN] :
                /\ v[1] >= 1
                /\ \A k \in 1..3 : v[k] >= v[k + 1]
                /\ v[1] + v[2] + v[3] + v[4] <= CaseMaxN }
VecN(v) == v[1] + v[2] + v[3] + v[4]
Cases == { [zones |-> v, rf |-> r] : v \in ZoneVecs, r \in 1..CaseMaxRF } 
CaseSel == { c \in Cases : c.rf <= VecN(c.zones) }
CasesFile == IF "VERIF_CASES" \in DOMAIN IOEnv THEN IOEnv.VERIF_CASES ELSE "cases.ndjson"
ASSUME ndJsonSerialize(CasesFile, SetToSeq(CaseSel))
=============================================================================
