\* C48 leg A quick, family "time": grid 0..3; one series, all 40 chunk layouts x (76 interval lists of one request
\* + 100 pairs of single-interval requests) = 7 040 inputs; leg B gets the 3 040 one-request inputs.
SPECIFICATION Spec
CONSTANTS Family = "time"
          G = 3
          LTwo = FALSE
          EmitTwoRequests = FALSE
          Relabel = "none"
INVARIANTS C48_ResultSatisfiesProperty FunctionalFormAgrees
PROPERTY Progress
CHECK_DEADLOCK TRUE
