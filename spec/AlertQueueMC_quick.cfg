\* C46 leg A quick: cap 2, batch 1, 2 pushers x 2 pushes of size 1..3, 1 popper; all interleavings
SPECIFICATION Spec
CONSTANTS Cap = 2
          MaxBatch = 1
          Pushers = {"p1", "p2"}
          Poppers = {"c1"}
          PushSizes = {1, 3}
          PushesEach = 2
INVARIANTS Bounded FifoDropOldest PoppedInOrder NoLostWakeup
PROPERTIES PushRefines PopRefines EventuallyDrained
VIEW View
CHECK_DEADLOCK FALSE
