\* C28 leg A quick: blocks with 1..2 segment files, every procedure / pre-state, <= 1 crash at any point;
\* generated cases carry <= 1 crash point
SPECIFICATION Spec
CONSTANTS MaxSeg = 2
          MaxCrashes = 1
          MaxDeny = {99, 1}
          CaseCrashes = 1
INVARIANTS C28_MetaImpliesAllFiles C28_MarkKeptUntilLast DoneMeansDone
PROPERTIES Terminates AlgoStepsHold
CHECK_DEADLOCK FALSE
