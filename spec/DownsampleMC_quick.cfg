\* C36 leg A quick: grid 0..8, <= 3 samples, values {1,2} or NaN, r = 3, numChunks {1,3}
\* 2 620 series x 2 chunk counts, all of them also go to the harness (leg B)
SPECIFICATION Spec
CONSTANTS GridLen = 9
          MaxSamples = 3
          Vals = {1, 2}
          Tokens = {"NaN"}
          Resolutions = {3}
          Counts = {1, 3}
          CaseSamples = 3
INVARIANTS C36_EmittedExact C36_Done C37_Level1 StepsAgreeWithAlgoRaw AdjTableIsAdjDef
PROPERTY AlwaysProgress
CHECK_DEADLOCK TRUE
