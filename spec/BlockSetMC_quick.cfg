\* C15 leg A quick: instants 0..3, layouts of <= 2 blocks (18 block types: 3 resolutions x 6 intervals,
\* multisets), 10 query ranges + 3 empty ranges x 3 max resolutions; all <=3-block layouts go to the harness
SPECIFICATION Spec
CONSTANTS Grid = 3
          MaxBlocks = 2
          CaseBlocks = 3
          WithMatchers = FALSE
INVARIANT C15_SelectionSatisfiesProperty
INVARIANT FunctionalFormAgrees
INVARIANT StackBounded
INVARIANT C15_Terminates
CHECK_DEADLOCK TRUE
