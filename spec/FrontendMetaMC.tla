--------------------------- MODULE FrontendMetaMC ---------------------------
(***************************************************************************)
(* Leg A of C42, phase 2: the labels tripperware (split by interval ->      *)
(* results cache with the whole-response extractor) for label-name,         *)
(* label-value and series requests, and instant queries passing through.    *)
(* State = the cache; one step = one request (or the loss of an entry).     *)
(* Checked on every transition: nothing the direct answer contains is lost, *)
(* nothing is invented; an instant query is answered exactly; cached        *)
(* extents hold exactly what the querier answers for their range (which is  *)
(* why answers are supersets only within an extent).                        *)
(***************************************************************************)
EXTENDS Frontend, TLC, Json, IOUtils, SequencesExt
CONSTANTS T, Ivs, MinExt, WorldIds, MaxHist, Kinds,
          CaseGrid    \* start/end values of the request pairs serialised for the harness ({} = none)

Always == <<[lo |-> 0, hi |-> T]>>
World(i) ==
    CASE i = 1 -> <<Always, <<[lo |-> T \div 2, hi |-> T]>>>>
      [] i = 2 -> <<<<[lo |-> 0, hi |-> 1], [lo |-> T - 1, hi |-> T]>>, <<[lo |-> 3, hi |-> 3]>>>>
      [] OTHER -> <<Always>>

VARIABLES cache, cfg, w, q, resp, n
vars == <<cache, cfg, w, q, resp, n>>
View == <<cache, cfg, w, IF MaxHist = 0 THEN 0 ELSE n>>
NoQuery == [kind |-> -1, s |-> 0, e |-> 0]

Init == /\ cache = << >> /\ n = 0 /\ q = NoQuery /\ resp = {}
        /\ cfg \in { [iv |-> i, minext |-> MinExt] : i \in Ivs }
        /\ w \in { World(i) : i \in WorldIds }
Ask(x) == /\ (MaxHist = 0 \/ n < MaxHist) /\ n' = n + 1
          /\ LET d == MetaFrontendDo(cfg, w, cache, x) IN cache' = d.cache /\ resp' = d.resp
          /\ q' = x /\ UNCHANGED <<cfg, w>>
Lose(k) == /\ cache' = [j \in DOMAIN cache \ {k} |-> cache[j]]
           /\ q' = NoQuery /\ resp' = {} /\ UNCHANGED <<cfg, w, n>>
Requests == { [kind |-> k, s |-> a, e |-> b] : k \in Kinds, a \in 0..T, b \in 0..T }
Next == (\E x \in Requests : x.s <= x.e /\ (x.kind = 0 => x.s = x.e) /\ Ask(x)) \/ (\E k \in DOMAIN cache : Lose(k))
Spec == Init /\ [][Next]_vars

AnswerOK == q.kind >= 0 =>
              /\ MetaNothingLost(resp, w, q.s, q.e)
              /\ MetaNothingInvented(resp, w)
              /\ (q.kind = 0 => resp = MetaDirect(w, q.s, q.s))
C42_MetaAnswers == [][AnswerOK']_vars
C42_MetaExtentsHoldDirectData ==
    \A k \in DOMAIN cache : \A i \in DOMAIN cache[k] :
        LET x == cache[k][i] IN x.resp = MetaDirect(w, x.start, x.end) /\ x.start <= x.end
C42_MetaExtentsOrdered ==
    \A k \in DOMAIN cache : \A i \in DOMAIN cache[k] : i > 1 => cache[k][i - 1].end < cache[k][i].start

(* ---- leg B: every pair of label-name requests over CaseGrid, per interval and world ---- *)
CasesFile == IF "VERIF_CASES" \in DOMAIN IOEnv THEN IOEnv.VERIF_CASES ELSE "cases_meta.ndjson"
GenQ == { [kind |-> 1, s |-> a, e |-> b] : a \in CaseGrid, b \in CaseGrid }
CaseSet == { [iv |-> i, world |-> World(wi), minext |-> MinExt, T |-> T, hist |-> <<x, y>>] :
                i \in Ivs, wi \in WorldIds, x \in { g \in GenQ : g.s <= g.e }, y \in { g \in GenQ : g.s <= g.e } }
ASSUME ndJsonSerialize(CasesFile, SetToSeq(CaseSet))
=============================================================================
