----------------------------- MODULE ProxyFanout -----------------------------
(***************************************************************************)
(* StoreAPI fan-out of the querier / proxy                                 *)
(* (pkg/store/proxy.go ProxyStore.Series, pkg/store/proxy_merge.go,        *)
(*  pkg/store/batchable.go, pkg/losertree/tree.go).                        *)
(*                                                                         *)
(* Vocabulary (shared by the model ProxyFanoutMC, ProxyFanoutRingMC and    *)
(* the trace specs C03Trace, C06Trace):                                    *)
(*                                                                         *)
(*  label set  a sequence of <<name, value>> pairs of integers, names      *)
(*             strictly increasing.  Integers stand for strings; the       *)
(*             harness maps them to strings whose byte order is the        *)
(*             integer order, so LsCmp below is labels.Compare.            *)
(*  chunk      [mint, maxt, f, h]: f is the 6-tuple of payload ids of the  *)
(*             sub-chunks <<raw, count, sum, min, max, counter>> (0 =      *)
(*             field absent); a raw chunk has only f[1], an aggregated     *)
(*             chunk of a downsampled block has some of f[2..6].  h says   *)
(*             whether the store sent precomputed hashes (irrelevant for   *)
(*             the identity of the chunk).                                 *)
(*  frame      [ls, chunks]: one Series message of a store.  A series may  *)
(*             span several consecutive frames of one store.  A frame with *)
(*             a field k = "h" / "w" is a hints / warning message (ls and  *)
(*             chunks empty); k = "s" or no k is a series frame.  Non-     *)
(*             series frames may stand anywhere in a stream.               *)
(*  store      [frames, strips, batch, fail]: the label-sorted frame       *)
(*             sequence it streams; strips = it honours                    *)
(*             without_replica_labels itself (else the proxy must strip    *)
(*             and re-sort); batch = it packs that many frames into one    *)
(*             message (0/1 = one frame per message); fail = where its     *)
(*             stream breaks (C06).                                        *)
(*  world      [stores, without]: without = the replica label names the    *)
(*             request asks to drop.                                       *)
(*  output     sequence of [ls, chunks] as received by the caller, batches *)
(*             expanded.                                                   *)
(***************************************************************************)
EXTENDS Integers, Sequences, FiniteSets

Rng(s) == { s[i] : i \in DOMAIN s }

(* ---------------- labels ---------------- *)
PairLess(p, q) == p[1] < q[1] \/ (p[1] = q[1] /\ p[2] < q[2])

(* labels.Compare: pairwise (name, then value), then the shorter one first.  -1 / 0 / 1  *)
RECURSIVE LsCmp(_, _)
LsCmp(x, y) ==
    IF x = <<>> /\ y = <<>> THEN 0
    ELSE IF x = <<>> THEN -1
    ELSE IF y = <<>> THEN 1
    ELSE IF PairLess(Head(x), Head(y)) THEN -1
    ELSE IF PairLess(Head(y), Head(x)) THEN 1
    ELSE LsCmp(Tail(x), Tail(y))

(* the label set a client asked for: replica label names removed *)
Strip(ls, without) == SelectSeq(ls, LAMBDA p : p[1] \notin without)

(* ---------------- chunks ---------------- *)
(* identity of a chunk: time range and every sub-chunk payload *)
Ident(c) == [mint |-> c.mint, maxt |-> c.maxt, f |-> c.f]
TimeLeq(c, d) == c.mint < d.mint \/ (c.mint = d.mint /\ c.maxt <= d.maxt)

(* ======================= property level (C03) ======================= *)
Without(w) == Rng(w.without)
IsSeries(fr) == "k" \notin DOMAIN fr \/ fr.k = "s"
(* A store whose stream breaks (C06: fail.kind # "none"; a store record without the field does *)
(* not fail) has returned the messages before the breaking point (k counts messages).          *)
Fails(st) == "fail" \in DOMAIN st /\ st.fail.kind # "none"
ReturnedOf(st) ==
    IF Fails(st) /\ st.fail.kind \in {"after", "timeout"}
      THEN SubSeq(st.frames, 1, IF st.fail.k < Len(st.frames) THEN st.fail.k ELSE Len(st.frames))
    ELSE IF Fails(st) THEN <<>>
    ELSE st.frames
SeriesIn(frs) == { fr \in frs : IsSeries(fr) }
AllFrames(w) == SeriesIn(UNION { Rng(w.stores[i].frames) : i \in DOMAIN w.stores })
FramesOf(w, S) == SeriesIn(UNION { Rng(w.stores[i].frames) : i \in S })
(* what must be in the response: everything the stores that did not fail streamed; what may be  *)
(* in it: also what a failing store returned before it failed (weakest reading: the statement   *)
(* is about stores that stream their series; a broken stream is C06's subject)                   *)
RequiredFrames(w) == SeriesIn(UNION { Rng(w.stores[i].frames) : i \in { j \in DOMAIN w.stores : ~Fails(w.stores[j]) } })
AllowedFrames(w) == SeriesIn(UNION { Rng(ReturnedOf(w.stores[i])) : i \in DOMAIN w.stores })
NoStoreFails(w) == \A i \in DOMAIN w.stores : ~Fails(w.stores[i])

(* label sets as requested (replica labels stripped) *)
LsetsOfFrames(frs, without) == { Strip(fr.ls, without) : fr \in frs }
ExpLsets(w) == LsetsOfFrames(RequiredFrames(w), Without(w))
MayLsets(w) == LsetsOfFrames(AllowedFrames(w), Without(w))

(* the distinct chunks the stores returned for label set ls *)
ChunksOfFrames(frs, without, ls) ==
    { Ident(c) : c \in UNION { Rng(fr.chunks) : fr \in { g \in frs : Strip(g.ls, without) = ls } } }
ExpChunks(w, ls) == ChunksOfFrames(RequiredFrames(w), Without(w), ls)
MayChunks(w, ls) == ChunksOfFrames(AllowedFrames(w), Without(w), ls)

OutLsets(o) == { o[i].ls : i \in DOMAIN o }
OutChunks(o, ls) == UNION { Rng(o[i].chunks) : i \in { j \in DOMAIN o : o[j].ls = ls } }

(* Clauses of C03 violated by output o for world w.  Each clause is one    *)
(* phrase of the statement.                                                 *)
C03Clauses(w, o) ==
    (* "the proxied Series response is sorted by labels" *)
    (IF \A i \in 1..(Len(o) - 1) : LsCmp(o[i].ls, o[i + 1].ls) <= 0
       THEN {} ELSE {"response-sorted-by-labels"})
    \cup
    (* "lists each label set once" *)
    (IF \A i, j \in DOMAIN o : i # j => o[i].ls # o[j].ls
       THEN {} ELSE {"each-label-set-once"})
    \cup
    (* every series some store streamed is in the response, and nothing else *)
    (IF ExpLsets(w) \subseteq OutLsets(o) THEN {} ELSE {"no-series-lost"})
    \cup
    (IF OutLsets(o) \subseteq MayLsets(w) THEN {} ELSE {"no-series-invented"})
    \cup
    (* "carries exactly the distinct chunks that the stores returned for it" *)
    (IF \A ls \in OutLsets(o) \cap ExpLsets(w) : ExpChunks(w, ls) \subseteq OutChunks(o, ls)
       THEN {} ELSE {"no-chunk-lost"})
    \cup
    (IF \A ls \in OutLsets(o) \cap MayLsets(w) : OutChunks(o, ls) \subseteq MayChunks(w, ls)
       THEN {} ELSE {"no-chunk-invented"})
    \cup
    (IF \A i \in DOMAIN o : Cardinality(Rng(o[i].chunks)) = Len(o[i].chunks)
       THEN {} ELSE {"identical-chunks-listed-once"})
    \cup
    (* "ordered by time" *)
    (IF \A i \in DOMAIN o : \A k \in 1..(Len(o[i].chunks) - 1) : TimeLeq(o[i].chunks[k], o[i].chunks[k + 1])
       THEN {} ELSE {"chunks-ordered-by-time"})

(* "The result is the same for lazy and eager retrieval, any buffer size and any response batch  *)
(* size": two outputs are the same result when they list the same label sets in the same order  *)
(* with the same chunk sets (chunks with equal time range may be listed in any order).           *)
Canon(o) == [i \in DOMAIN o |-> [ls |-> o[i].ls, chunks |-> Rng(o[i].chunks)]]
SameResult(o1, o2) == Canon(o1) = Canon(o2)

(* ======================= property level (C06) ======================= *)
(* fail = [kind, k]: "none"; "open" (the Series call itself errors); "after" (the stream errors  *)
(* after k responses); "timeout" (after k responses the store stops answering until the          *)
(* response timeout cancels it).                                                                   *)
Failing(w) == { i \in DOMAIN w.stores : w.stores[i].fail.kind # "none" }
Healthy(w) == DOMAIN w.stores \ Failing(w)

(* e: strategy in {"ABORT","WARN"}, err = "" or the error text, nwarn = number of warnings      *)
(* received, named[i] = some warning names store i, o = output.                                  *)
C06Clauses(w, strategy, err, nwarn, named, o) ==
    (* "a request with the abort strategy fails" *)
    (IF strategy = "ABORT" /\ Failing(w) # {} /\ err = "" THEN {"abort-fails-when-a-store-fails"} ELSE {})
    \cup
    (* "a request with the warn strategy succeeds" *)
    (IF strategy = "WARN" /\ err # "" THEN {"warn-succeeds"} ELSE {})
    \cup
    (* "reports at least one warning for that store": a warning naming each failed store, or,    *)
    (* should warnings not be attributable, at least as many warnings as failed stores           *)
    (IF strategy = "WARN" /\ err = "" /\ Failing(w) # {}
        /\ ~((\A i \in Failing(w) : named[i]) \/ nwarn >= Cardinality(Failing(w)))
       THEN {"warn-reports-each-failed-store"} ELSE {})
    \cup
    (* "still returns every series from the stores that did not fail" *)
    (IF strategy = "WARN" /\ err = ""
        /\ ~(LsetsOfFrames(FramesOf(w, Healthy(w)), Without(w)) \subseteq OutLsets(o))
       THEN {"healthy-series-returned"} ELSE {})
    \cup
    (IF strategy = "WARN" /\ err = ""
        /\ ~(\A ls \in LsetsOfFrames(FramesOf(w, Healthy(w)), Without(w)) \cap OutLsets(o) :
                ChunksOfFrames(FramesOf(w, Healthy(w)), Without(w), ls) \subseteq OutChunks(o, ls))
       THEN {"healthy-chunks-returned"} ELSE {})
    \cup
    (* no failure at all: both strategies succeed without warnings about stores *)
    (IF Failing(w) = {} /\ err # "" THEN {"no-failure-no-error"} ELSE {})


(* ---- C06 for the label APIs (ProxyStore.LabelNames / LabelValues): the same sentences, the     *)
(* result being a set of names (values of label 1) instead of series.  A store with a failure     *)
(* point answers the unary call with an error; a healthy store answers with the label names of    *)
(* its series (replica labels it strips itself left out) / the values of label 1.                 *)
StoreNames(w, st) ==
    { p[1] : p \in UNION { Rng(fr.ls) : fr \in SeriesIn(Rng(st.frames)) } } \ (IF st.strips THEN Without(w) ELSE {})
StoreValues(st) == { p[2] : p \in { q \in UNION { Rng(fr.ls) : fr \in SeriesIn(Rng(st.frames)) } : q[1] = 1 } }
HealthyLabelResults(w, api) ==
    UNION { (IF api = "names" THEN StoreNames(w, w.stores[i]) ELSE StoreValues(w.stores[i])) : i \in Healthy(w) }
C06LabelClauses(w, strategy, api, err, nwarn, named, got) ==
    (IF strategy = "ABORT" /\ Failing(w) # {} /\ err = "" THEN {"labels-abort-fails-when-a-store-fails"} ELSE {})
    \cup (IF strategy = "WARN" /\ err # "" THEN {"labels-warn-succeeds"} ELSE {})
    \cup (IF strategy = "WARN" /\ err = "" /\ Failing(w) # {}
              /\ ~((\A i \in Failing(w) : named[i]) \/ nwarn >= Cardinality(Failing(w)))
             THEN {"labels-warn-reports-each-failed-store"} ELSE {})
    \cup (IF strategy = "WARN" /\ err = "" /\ ~(HealthyLabelResults(w, api) \subseteq got)
             THEN {"labels-healthy-results-returned"} ELSE {})
    \cup (IF Failing(w) = {} /\ err # "" THEN {"labels-no-failure-no-error"} ELSE {})

(* ======================= algorithm level ======================= *)
(* What the code does, as functions (the step-wise state machine is ProxyFanoutMC).             *)

(* sort.Slice stand-in: stable insertion sorts (no operator arguments, so that they can be     *)
(* RECURSIVE)                                                                                   *)
FrameLeq(a, b) == LsCmp(a.ls, b.ls) <= 0
RECURSIVE InsertFrame(_, _)
InsertFrame(s, x) ==
    IF s = <<>> THEN <<x>>
    ELSE IF ~FrameLeq(Head(s), x) THEN <<x>> \o s
    ELSE <<Head(s)>> \o InsertFrame(Tail(s), x)
RECURSIVE SortFrames(_)
SortFrames(s) == IF s = <<>> THEN <<>> ELSE InsertFrame(SortFrames(SubSeq(s, 1, Len(s) - 1)), s[Len(s)])

(* eagerRespSet + sortWithoutLabels for a store that cannot strip; otherwise the stream as is *)
StripFrame(fr, without) == IF IsSeries(fr) THEN [fr EXCEPT !.ls = Strip(fr.ls, without)] ELSE fr
(* sortWithoutLabels: labels stripped, non-series frames moved to the front, series re-sorted *)
Resorted(frs, without) ==
    SelectSeq(frs, LAMBDA g : ~IsSeries(g))
    \o SortFrames([i \in DOMAIN SelectSeq(frs, IsSeries) |-> StripFrame(SelectSeq(frs, IsSeries)[i], without)])
StreamOf(st, without) ==
    IF st.strips \/ without = {} THEN st.frames ELSE Resorted(st.frames, without)
(* the eager respSet always runs sortWithoutLabels (with nothing to strip for a store that      *)
(* strips itself): its non-series frames come first                                              *)
EagerStreamOf(st, without) ==
    IF st.strips \/ without = {} THEN Resorted(st.frames, {}) ELSE Resorted(st.frames, without)

(* responseDeduplicator.chainSeriesAndRemIdenticalChunks: a chunk is identified by the hashes of *)
(* all its sub-chunks together; the first of each identity is kept; the kept chunks are sorted   *)
(* by AggrChunk.Compare (mint, maxt, then payload bytes -- here: payload ids).                    *)
RECURSIVE TupleLeq(_, _)
TupleLeq(a, b) == IF a = <<>> THEN TRUE ELSE IF Head(a) # Head(b) THEN Head(a) < Head(b) ELSE TupleLeq(Tail(a), Tail(b))
ChunkLeq(c, d) ==
    IF c.mint # d.mint THEN c.mint < d.mint
    ELSE IF c.maxt # d.maxt THEN c.maxt < d.maxt
    ELSE TupleLeq(c.f, d.f)
RECURSIVE InsertChunk(_, _)
InsertChunk(s, x) ==
    IF s = <<>> THEN <<x>>
    ELSE IF ~ChunkLeq(Head(s), x) THEN <<x>> \o s
    ELSE <<Head(s)>> \o InsertChunk(Tail(s), x)
RECURSIVE SortChunks(_)
SortChunks(s) == IF s = <<>> THEN <<>> ELSE InsertChunk(SortChunks(SubSeq(s, 1, Len(s) - 1)), s[Len(s)])
DedupKey(c) == c.f            \* all sub-chunk hashes together (payload id = hash, no collisions)
RECURSIVE KeepFirst(_, _)
KeepFirst(cs, seen) ==
    IF cs = <<>> THEN <<>>
    ELSE IF DedupKey(Head(cs)) \in seen THEN KeepFirst(Tail(cs), seen)
    ELSE <<Ident(Head(cs))>> \o KeepFirst(Tail(cs), seen \cup {DedupKey(Head(cs))})
RECURSIVE ConcatChunks(_)
ConcatChunks(frs) == IF frs = <<>> THEN <<>> ELSE Head(frs).chunks \o ConcatChunks(Tail(frs))
Chain(frs) == [ls |-> frs[1].ls, chunks |-> SortChunks(KeepFirst(ConcatChunks(frs), {}))]

(* batchableServer: messages of at most b series, b <= 1 sends them one by one; a non-series  *)
(* response first flushes the series collected so far and travels alone                          *)
RECURSIVE BatchFold(_, _, _)
BatchFold(o, b, pend) ==
    IF o = <<>> THEN (IF pend = <<>> THEN <<>> ELSE <<pend>>)
    ELSE IF ~IsSeries(Head(o)) THEN (IF pend = <<>> THEN <<>> ELSE <<pend>>) \o <<<<Head(o)>>>> \o BatchFold(Tail(o), b, <<>>)
    ELSE IF b <= 1 THEN <<<<Head(o)>>>> \o BatchFold(Tail(o), b, <<>>)
    ELSE IF Len(pend) + 1 >= b THEN <<Append(pend, Head(o))>> \o BatchFold(Tail(o), b, <<>>)
    ELSE BatchFold(Tail(o), b, Append(pend, Head(o)))
Batches(o, b) == BatchFold(o, b, <<>>)
RECURSIVE FlattenMsgs(_)
FlattenMsgs(ms) == IF ms = <<>> THEN <<>> ELSE Head(ms) \o FlattenMsgs(Tail(ms))

(* the whole merge as a function: all frames of all streams, stably sorted by label set,        *)
(* grouped, chained.  (The order of frames with equal label sets does not influence Chain.)      *)
RECURSIVE ConcatStreams(_, _, _)
ConcatStreams(w, S, i) == IF i > Len(w.stores) THEN <<>>
                          ELSE (IF i \in S THEN StreamOf(w.stores[i], Without(w)) ELSE <<>>) \o ConcatStreams(w, S, i + 1)
RECURSIVE GroupChain(_)
GroupChain(frs) ==
    IF frs = <<>> THEN <<>>
    ELSE LET same == SelectSeq(frs, LAMBDA g : g.ls = frs[1].ls)
             rest == SelectSeq(frs, LAMBDA g : g.ls # frs[1].ls)
         IN <<Chain(same)>> \o GroupChain(rest)
SeriesOf(seq) == SelectSeq(seq, IsSeries)
(* (a failing store contributes what it returned before it failed) *)
RECURSIVE ConcatReturned(_, _)
ConcatReturned(w, i) == IF i > Len(w.stores) THEN <<>>
                        ELSE StreamOf([w.stores[i] EXCEPT !.frames = ReturnedOf(w.stores[i])], Without(w)) \o ConcatReturned(w, i + 1)
AlgoOutput(w) == GroupChain(SortFrames(SeriesOf(ConcatReturned(w, 1))))
=============================================================================
