---------------------------- MODULE HashringLoop ----------------------------
(***************************************************************************)
(* Step-wise machine of the replica-selection loop of                      *)
(* calculateSectionReplicas (pkg/receive/hashring.go) for ONE start        *)
(* section: one action per iteration of the inner `for` loop.  Shared by   *)
(* HashringMC (C18: safety of the result) and HashringBuildMC (C19:        *)
(* termination).                                                           *)
(*                                                                         *)
(* Enumerated: endpoint count n <= MaxN, every zone layout of the n        *)
(* endpoints up to renaming (zone sizes non-increasing, <= MaxZones),      *)
(* sections per endpoint s in SecChoices with n*s <= MaxSecs, EVERY ring   *)
(* order up to renaming endpoints within a zone (hash functions are        *)
(* uninterpreted; phase "place"), every rf <= n.  The walk                 *)
(* starts at ring position 1: rotating a ring order gives another ring     *)
(* order, so all start sections are covered.                               *)
(*                                                                         *)
(* Rule = "fixed"  : the zone rule of the code as it is now;               *)
(* Rule = "prefix" : the rule before the C19 fix (used once by hand to see *)
(*                   TLC find the non-terminating lasso; not in any cfg    *)
(*                   that the driver runs).                                *)
(***************************************************************************)
EXTENDS Hashring, TLC
CONSTANTS MaxN, MaxZones, SecChoices, MaxSecs, Rule
VARIABLES phase, secs, az, ring, rf, pos, reps, idle
lvars == <<phase, secs, az, ring, rf, pos, reps, idle>>

(* Phase "place": the ring is laid out section by section -- every order of the sections of  *)
(* the endpoints (secs sections each).  Endpoints of the same zone are interchangeable, so   *)
(* they are made to first appear in increasing order (renaming endpoints within a zone maps  *)
(* every other ring onto one of these and preserves every property checked).                  *)
LoopInit ==
    /\ phase = "place" /\ ring = <<>> /\ rf = 0 /\ pos = 0 /\ reps = <<>> /\ idle = 0
    /\ \E n \in 1..MaxN : /\ az \in HLayouts(n, MaxZones)
                         /\ secs \in { s \in SecChoices : n * s <= MaxSecs }

Owned(k) == Cardinality({ p \in DOMAIN ring : ring[p] = k })
Place == /\ phase = "place" /\ Len(ring) < Len(az) * secs
         /\ \E k \in DOMAIN az :
              /\ Owned(k) < secs
              /\ \A k0 \in DOMAIN az : (k0 < k /\ az[k0] = az[k]) => Owned(k0) > 0
              /\ ring' = Append(ring, k)
         /\ UNCHANGED <<phase, secs, az, rf, pos, reps, idle>>
(* the ring is complete: pick the replication factor and start the walk at position 1 *)
Begin == /\ phase = "place" /\ Len(ring) = Len(az) * secs
         /\ rf' \in 1..Len(az)
         /\ phase' = "walk" /\ pos' = 1
         /\ UNCHANGED <<secs, az, ring, reps, idle>>

Walking == phase = "walk"
Running == Walking /\ Len(reps) < rf
Chosen == HSeqRange(reps)
Blocks(z) == IF Rule = "fixed" THEN ZoneBlocks(ZoneSpread(Chosen, az), ZoneCaps(az), z)
                               ELSE ZoneBlocksPrefix(ZoneSpread(Chosen, az), z)
Advance == pos' = (pos % Len(ring)) + 1
Bump == idle' = IF idle < Len(ring) THEN idle + 1 ELSE idle     \* saturating: keeps the space finite

(* `if _, ok := replicas[rep.endpointIndex]; ok { continue }` *)
SkipUsed == /\ Running /\ ring[pos] \in Chosen
            /\ Advance /\ Bump /\ UNCHANGED <<phase, secs, az, ring, rf, reps>>
(* `if len(azSpread) > 1 && azSpread[rep.az] > 0 && azSpread[rep.az] > least { continue }` *)
SkipZone == /\ Running /\ ring[pos] \notin Chosen /\ Blocks(az[ring[pos]])
            /\ Advance /\ Bump /\ UNCHANGED <<phase, secs, az, ring, rf, reps>>
(* accept the endpoint as the next replica *)
Pick == /\ Running /\ ring[pos] \notin Chosen /\ ~Blocks(az[ring[pos]])
        /\ reps' = Append(reps, ring[pos])
        /\ Advance /\ idle' = 0 /\ UNCHANGED <<phase, secs, az, ring, rf>>

LoopNext == Place \/ Begin \/ SkipUsed \/ SkipZone \/ Pick
LoopSpec == LoopInit /\ [][LoopNext]_lvars /\ WF_lvars(LoopNext)

LoopDone == Walking /\ Len(reps) = rf
=============================================================================
