---------------------------- MODULE HashringLoop ----------------------------
(***************************************************************************)
(* Step-wise machine of the replica-selection loop of                      *)
(* calculateSectionReplicas (pkg/receive/hashring.go) for ONE start        *)
(* section: one action per iteration of the inner `for` loop.  Shared by   *)
(* HashringMC (C18: safety of the result) and HashringBuildMC (C19:        *)
(* termination).                                                           *)
(*                                                                         *)
(* Init enumerates: endpoint count n <= MaxN, every zone layout of the n   *)
(* endpoints up to renaming (zone sizes non-increasing, <= MaxZones),      *)
(* sections per endpoint s in SecChoices with n*s <= MaxSecs, EVERY ring   *)
(* order (hash functions are uninterpreted), every rf <= n.  The walk      *)
(* starts at ring position 1: rotating a ring order gives another ring     *)
(* order, so all start sections are covered.                               *)
(*                                                                         *)
(* Rule = "fixed"  : the zone rule of the code as it is now;               *)
(* Rule = "prefix" : the rule before the C19 fix (used once by hand to see *)
(*                   TLC find the non-terminating lasso; not in any cfg    *)
(*                   that the driver runs).                                *)
(***************************************************************************)
EXTENDS Hashring, TLC
CONSTANTS MaxN, MaxZones, SecChoices, MaxSecs, Rule
VARIABLES az, ring, rf, pos, reps, idle
lvars == <<az, ring, rf, pos, reps, idle>>

Layouts(n) == { a \in [1..n -> 1..MaxZones] :
                  /\ a[1] = 1
                  /\ \A k \in 1..(n - 1) : a[k + 1] >= a[k] /\ a[k + 1] <= a[k] + 1
                  /\ \A z \in 1..(MaxZones - 1) : ZoneCap(a, z) >= ZoneCap(a, z + 1) }
Rings(n, s) == { r \in [1..(n * s) -> 1..n] :
                  \A k \in 1..n : Cardinality({ p \in 1..(n * s) : r[p] = k }) = s }

LoopInit ==
    \E n \in 1..MaxN, s \in SecChoices :
        /\ n * s <= MaxSecs
        /\ az \in Layouts(n)
        /\ ring \in Rings(n, s)
        /\ rf \in 1..n
        /\ pos = 1 /\ reps = <<>> /\ idle = 0

Running == Len(reps) < rf
Chosen == HSeqRange(reps)
Blocks(z) == IF Rule = "fixed" THEN ZoneBlocks(ZoneSpread(Chosen, az), ZoneCaps(az), z)
                               ELSE ZoneBlocksPrefix(ZoneSpread(Chosen, az), z)
Advance == pos' = (pos % Len(ring)) + 1
Bump == idle' = IF idle < Len(ring) THEN idle + 1 ELSE idle     \* saturating: keeps the space finite

(* `if _, ok := replicas[rep.endpointIndex]; ok { continue }` *)
SkipUsed == /\ Running /\ ring[pos] \in Chosen
            /\ Advance /\ Bump /\ UNCHANGED <<az, ring, rf, reps>>
(* `if len(azSpread) > 1 && azSpread[rep.az] > 0 && azSpread[rep.az] > least { continue }` *)
SkipZone == /\ Running /\ ring[pos] \notin Chosen /\ Blocks(az[ring[pos]])
            /\ Advance /\ Bump /\ UNCHANGED <<az, ring, rf, reps>>
(* accept the endpoint as the next replica *)
Pick == /\ Running /\ ring[pos] \notin Chosen /\ ~Blocks(az[ring[pos]])
        /\ reps' = Append(reps, ring[pos])
        /\ Advance /\ idle' = 0 /\ UNCHANGED <<az, ring, rf>>

LoopNext == SkipUsed \/ SkipZone \/ Pick
LoopSpec == LoopInit /\ [][LoopNext]_lvars /\ WF_lvars(LoopNext)

LoopDone == Len(reps) = rf
=============================================================================
