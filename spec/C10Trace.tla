------------------------------ MODULE C10Trace ------------------------------
(***************************************************************************)
(* Leg C for C10.  One trace line per world and query history:             *)
(*   blocks[b]   [ext, series]: the blocks as the Prometheus TSDB reader   *)
(*               sees them over all time; series[i] = [id, ls, chunks],    *)
(*               chunks = <<mint, maxt, crc of the samples>> in time order *)
(*   qs[k]       one query of the history, in order:                       *)
(*     ms, mint, maxt   the selectors [name, type, kind, alts] and range   *)
(*     loaded     positions (in blocks) of the blocks that were in the     *)
(*                bucket at the store's last SyncBlocks before the query   *)
(*     oracle     frames [ls, chunks] of tsdb.OpenBlock + ChunkQuerier     *)
(*     res[g]     one group of identical answers of the real BucketStore:  *)
(*                who = "<store configuration>#cold|warm|again", frames    *)
(*                in arrival order, err                                    *)
(*   syncerrs    errors SyncBlocks returned (none expected)                *)
(* Judged with the property-level operators of Postings only.              *)
(***************************************************************************)
EXTENDS TraceLib, Postings

BlockOf(jb) == [ext |-> jb.ext, series |-> PRange(jb.series)]
BlocksOf(e) == { BlockOf(e.blocks[b]) : b \in DOMAIN e.blocks }
QueryOf(jq) == [ms |-> PRange(jq.ms), mint |-> jq.mint, maxt |-> jq.maxt]

(* an answer as a set of [ls, chunks]: frames with the same labels are one series *)
AnswerSet(frames) ==
    LET lss == { frames[i].ls : i \in DOMAIN frames }
    IN  { [ls |-> L, chunks |-> UNION { PRange(frames[i].chunks) : i \in { j \in DOMAIN frames : frames[j].ls = L } }] : L \in lss }

JudgeQuery(blocks, jq) ==
    LET want == Select(blocks, QueryOf(jq))                 \* the statement, on the world
        tsdb == AnswerSet(jq.oracle)                        \* "reading the same blocks with the Prometheus TSDB reader"
        answers == { AnswerSet(jq.res[g].frames) : g \in { x \in DOMAIN jq.res : jq.res[x].err = "" } }
    IN  (IF \A g \in DOMAIN jq.res : jq.res[g].err = "" THEN {} ELSE {"answers-without-error"})
        \cup (IF \A a \in answers : a = tsdb THEN {} ELSE {"equals-the-direct-tsdb-read"})
        \cup (IF \A a \in answers : a = want THEN {} ELSE {"exactly-the-matching-series-and-overlapping-chunks"})
        \cup (IF Cardinality(answers) <= 1 THEN {} ELSE {"independent-of-cache-lazy-batch-sampling"})

(* "For any set of blocks in object storage ...": the set the store has loaded = what was in the *)
(* bucket at its last sync                                                                       *)
LoadedBlocks(e, jq) == { BlockOf(e.blocks[b]) : b \in PRange(jq.loaded) }
JudgeLine(e) == UNION { JudgeQuery(LoadedBlocks(e, e.qs[k]), e.qs[k]) : k \in DOMAIN e.qs }
                \cup (IF e.syncerrs = <<>> THEN {} ELSE {"block-sync-succeeds"})

(* Model conformance (never a verdict): the algorithm-level model of one block - external-label *)
(* matchers decided on the block (labelMatchers), the rest through the posting groups, chunks    *)
(* through the decodeSeriesForTime walk - predicts the answer.                                    *)
AlgoBlock(b, q) ==
    LET extMs == { m \in q.ms : LVal(b.ext, m.name) # "" }
        blockMs == q.ms \ extMs
    IN  IF \E m \in extMs : ~Matches(m, b.ext[m.name]) THEN {}
        ELSE LET ids == ExpandNames(b.series, blockMs, {})
             IN  { <<b, s>> : s \in { x \in b.series : x.id \in ids /\ ChunkWalk(x.chunks, q.mint, q.maxt) # {} } }
AlgoSelect(blocks, q) ==
    LET hits == UNION { AlgoBlock(b, q) : b \in blocks }
        lss == { FullLs(h[1], h[2]) : h \in hits }
    IN  { [ls |-> L, chunks |-> UNION { ChunkWalk(h[2].chunks, q.mint, q.maxt) : h \in { x \in hits : FullLs(x[1], x[2]) = L } }] : L \in lss }
Drift(e) ==
    \E k \in DOMAIN e.qs : \E g \in DOMAIN e.qs[k].res :
        e.qs[k].res[g].err = "" /\ AnswerSet(e.qs[k].res[g].frames) # AlgoSelect(LoadedBlocks(e, e.qs[k]), QueryOf(e.qs[k]))

VARIABLE l
TraceInit == l = 1
TraceNext == /\ l <= TraceLen
             /\ CaseReject(l, Trace[l], JudgeLine(Trace[l]))
             /\ (IF Drift(Trace[l]) THEN PrintT(<<"DRIFT", l, Trace[l]["case"]>>) ELSE TRUE)
             /\ l' = l + 1
TraceSpec == TraceInit /\ [][TraceNext]_l
TraceAccepted == TLCGet("stats").diameter = TraceLen + 1
=============================================================================
