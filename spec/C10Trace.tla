------------------------------ MODULE C10Trace ------------------------------
(***************************************************************************)
(* Leg C for C10.  One trace line per world and query history:             *)
(*   ds          TRUE when the world has downsampled blocks                *)
(*   blocks[b]   [ext, series, res, mint, maxt]: the blocks as the TSDB    *)
(*               sees them over all time; series[i] = [id, ls, chunks],    *)
(*               chunks = <<mint, maxt, crc of the samples>> in time order *)
(*   qs[k]       one query of the history, in order:                       *)
(*     ms, mint, maxt   the selectors [name, type, kind, alts] and range   *)
(*     loaded     positions (in blocks) of the blocks that were in the     *)
(*                bucket at the store's last SyncBlocks before the query   *)
(*     maxres, aggrs   max_resolution_window and the requested aggregates  *)
(*                (1 count, 2 sum, 3 min, 4 max, 5 counter)                *)
(*     oracle[i]  frames [ls, chunks] of tsdb.OpenBlock + ChunkQuerier on  *)
(*                the i-th loaded block; a chunk's content is <<crc>> (raw) *)
(*                or five crcs of the aggregates (-1: not requested)       *)
(*     res[g]     one group of identical answers of the real BucketStore:  *)
(*                who = "<store configuration>#cold|warm|again", frames    *)
(*                in arrival order, err                                    *)
(*   syncerrs    errors SyncBlocks returned (none expected)                *)
(*   crash       "" or how the process running the stores died (cases with *)
(*               small chunk-size estimates run in a child process)        *)
(* Judged with the property-level operators of Postings only.              *)
(***************************************************************************)
EXTENDS TraceLib, Postings
BS == INSTANCE BlockSet

BlockOf(jb) == [ext |-> jb.ext, series |-> PRange(jb.series)]
BlocksOf(e) == { BlockOf(e.blocks[b]) : b \in DOMAIN e.blocks }
QueryOf(jq) == [ms |-> PRange(jq.ms), mint |-> jq.mint, maxt |-> jq.maxt]

BlockOfQ(jb, A) == [ext |-> jb.ext, series |-> { ProjSeries(s, A) : s \in PRange(jb.series) }]

(* an answer as a set of [ls, chunks]: frames with the same labels are one series *)
AnswerSet(frames) ==
    LET lss == { frames[i].ls : i \in DOMAIN frames }
    IN  { [ls |-> L, chunks |-> UNION { PRange(frames[i].chunks) : i \in { j \in DOMAIN frames : frames[j].ls = L } }] : L \in lss }
RECURSIVE ConcatAll(_)
ConcatAll(ss) == IF ss = <<>> THEN <<>> ELSE Head(ss) \o ConcatAll(Tail(ss))

(* Which of the loaded blocks may be read for a request (property C15, per stream = per external *)
(* label set): blocks not coarser than max_resolution_window that overlap the range and together  *)
(* cover what the allowed blocks cover.  Without downsampled blocks: all loaded blocks.           *)
BSBlock(e, b) == [id |-> b, res |-> e.blocks[b].res, min |-> e.blocks[b].mint, max |-> e.blocks[b].maxt]
Acceptable(e, jq) ==
    LET L == PRange(jq.loaded)
        q == [mint |-> jq.mint, maxt |-> jq.maxt, maxres |-> jq.maxres]
        streams == { e.blocks[b].ext : b \in L }
        okFor(S, x) == LET G == { BSBlock(e, b) : b \in { y \in L : e.blocks[y].ext = x } }
                           SG == { g \in G : g.id \in S }
                       IN  /\ \A g \in SG : g.res <= q.maxres /\ BS!Overlaps(g, q)
                           /\ ~BS!CoverageHole(G, SG, q)
    IN  IF ~e.ds THEN {L} ELSE { S \in SUBSET L : \A x \in streams : okFor(S, x) }

(* positions (within jq.loaded / jq.oracle) of the loaded blocks in S *)
OracleOf(jq, S) == ConcatAll([i \in DOMAIN jq.loaded |-> IF jq.loaded[i] \in S THEN jq.oracle[i] ELSE <<>>])

JudgeQuery(e, jq) ==
    LET A == PRange(jq.aggrs)
        cands == Acceptable(e, jq)
        want(S) == Select({ BlockOfQ(e.blocks[b], A) : b \in S }, QueryOf(jq))     \* the statement, on the world
        tsdb(S) == AnswerSet(OracleOf(jq, S))                 \* "reading the same blocks with the Prometheus TSDB reader"
        answers == { AnswerSet(jq.res[g].frames) : g \in { x \in DOMAIN jq.res : jq.res[x].err = "" } }
    IN  (IF \A g \in DOMAIN jq.res : jq.res[g].err = "" THEN {} ELSE {"answers-without-error"})
        \cup (IF \A a \in answers : \E S \in cands : a = tsdb(S) THEN {} ELSE {"equals-the-direct-tsdb-read"})
        \cup (IF \A a \in answers : \E S \in cands : a = want(S) THEN {} ELSE {"exactly-the-matching-series-and-overlapping-chunks"})
        \cup (IF Cardinality(answers) <= 1 THEN {} ELSE {"independent-of-cache-lazy-batch-sampling"})

(* "For any set of blocks in object storage ...": the set the store has loaded = what was in the *)
(* bucket at its last sync                                                                       *)
JudgeLine(e) == UNION { JudgeQuery(e, e.qs[k]) : k \in DOMAIN e.qs }
                \cup (IF e.syncerrs = <<>> THEN {} ELSE {"block-sync-succeeds"})
                \cup (IF e.crash = "" THEN {} ELSE {"answers-without-crashing"})    \* the statement presupposes an answer

(* Model conformance (never a verdict): the algorithm-level model of one block - external-label *)
(* matchers decided on the block (labelMatchers), the rest through the posting groups, chunks    *)
(* through the decodeSeriesForTime walk - predicts the answer.                                    *)
AlgoBlock(b, q) ==
    LET extMs == { m \in q.ms : LVal(b.ext, m.name) # "" }
        blockMs == q.ms \ extMs
    IN  IF \E m \in extMs : ~Matches(m, b.ext[m.name]) THEN {}
        ELSE LET ids == ExpandNames(b.series, blockMs, {})
             IN  { <<b, s>> : s \in { x \in b.series : x.id \in ids /\ ChunkWalk(x.chunks, q.mint, q.maxt) # {} } }
AlgoSelect(blocks, q) ==
    LET hits == UNION { AlgoBlock(b, q) : b \in blocks }
        lss == { FullLs(h[1], h[2]) : h \in hits }
    IN  { [ls |-> L, chunks |-> UNION { ChunkWalk(h[2].chunks, q.mint, q.maxt) : h \in { x \in hits : FullLs(x[1], x[2]) = L } }] : L \in lss }
(* the blocks the algorithm-level getFor (BlockSet.tla) selects, per stream *)
AlgoBlocks(e, jq) ==
    LET L == PRange(jq.loaded)
        q == [mint |-> jq.mint, maxt |-> jq.maxt, maxres |-> jq.maxres]
    IN  UNION { BS!SeqRange(BS!GetFor({ BSBlock(e, b) : b \in { y \in L : e.blocks[y].ext = x } }, q)) : x \in { e.blocks[b].ext : b \in L } }
Drift(e) ==
    \E k \in DOMAIN e.qs : \E g \in DOMAIN e.qs[k].res :
        /\ e.qs[k].res[g].err = "" /\ e.qs[k].maxres >= 0
        /\ AnswerSet(e.qs[k].res[g].frames) #
             AlgoSelect({ BlockOfQ(e.blocks[b], PRange(e.qs[k].aggrs)) : b \in AlgoBlocks(e, e.qs[k]) }, QueryOf(e.qs[k]))

VARIABLE l
TraceInit == l = 1
TraceNext == /\ l <= TraceLen
             /\ CaseReject(l, Trace[l], JudgeLine(Trace[l]))
             /\ (IF Drift(Trace[l]) THEN PrintT(<<"DRIFT", l, Trace[l]["case"]>>) ELSE TRUE)
             /\ l' = l + 1
TraceSpec == TraceInit /\ [][TraceNext]_l
TraceAccepted == TLCGet("stats").diameter = TraceLen + 1
=============================================================================
