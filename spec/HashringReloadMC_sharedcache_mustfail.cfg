\* C27 reload VARIANT, not run by the driver (tenant cache survives the swap): C27_Reload must be violated; 3 catalogue configurations + unloadable content, 2 rewrites of the file,
\* 2 request processes, 2 requests
SPECIFICATION Spec
CONSTANTS MaxWrites = 2
          Procs = {1, 2}
          MaxReqs = 2
          CatalogSize = 3
          SharedCache = TRUE
INVARIANT C27_Reload
INVARIANT C27_NoGap
INVARIANT C27_InForce
PROPERTY C27_Converges
CHECK_DEADLOCK FALSE
