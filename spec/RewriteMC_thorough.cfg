\* C48 leg A thorough, family "time": grid 0..4; one series, all 121 chunk layouts x (136 interval lists of one
\* request + 225 pairs of single-interval requests) = 43 681 inputs; leg B gets the 16 456 one-request inputs.
SPECIFICATION Spec
CONSTANTS Family = "time"
          G = 4
          LTwo = FALSE
          EmitTwoRequests = FALSE
          Relabel = "none"
INVARIANTS C48_ResultSatisfiesProperty FunctionalFormAgrees
PROPERTY Progress
CHECK_DEADLOCK TRUE
