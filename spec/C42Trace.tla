------------------------------ MODULE C42Trace ------------------------------
(***************************************************************************)
(* Leg C for C42.  One trace line per history:                             *)
(*   in.world    per series (index = id, label order) its presence windows *)
(*               <<[lo, hi], ...>> (ms); in.vunit: value(k, t) =           *)
(*               k * 10^6 + t \div vunit  ("data that does not change")    *)
(*   in.iv, in.align, in.par   split interval (ms), step align, parallelism*)
(*   in.hist[i]  the i-th range query [s, e, st] (ms) (+ lose: drop a      *)
(*               cache entry before it)                                    *)
(*   steps[i].got  [err, series: <<[k, ts, vs], ...>>] the answer the real *)
(*               frontend chain gave;  steps[i].ext the cache extents      *)
(*               <<step, start, end>> afterwards; steps[i].lost dropped keys*)
(* Verdict: property-level operators only (Reference = direct evaluation). *)
(***************************************************************************)
EXTENDS TraceLib, Frontend

Val(k, t, vunit) == k * 1000000 + (t \div vunit)

GotResp(g) ==
    [k \in { g.series[j].k : j \in DOMAIN g.series } |->
        g.series[CHOOSE j \in DOMAIN g.series : g.series[j].k = k].ts]

(* "a sequence of range queries answered through the results cache returns the same series   *)
(* and samples as answering each query directly"                                              *)
(* Phase 2, querier faults: hist[i].fault = [n, k, code]: the n-th distinct downstream request of the   *)
(* query fails its first k attempts with HTTP status `code`; in.retries = MaxRetries of the retry        *)
(* middleware (documented: "retries requests if they fail with 500 or a non-HTTP error", at most        *)
(* max-retries-per-request attempts); steps[i].ftrig = failures injected, steps[i].fatt = attempts the   *)
(* faulted request saw.  A query may only fail if a fault was injected into it that the retries cannot   *)
(* absorb; an answered query must be right whatever failed before (no duplicated or dropped steps, no   *)
(* cache pollution by failed attempts); 4xx answers are not retried; attempts are bounded.              *)
Attempts(m) == IF m < 1 THEN 1 ELSE m
Is5xx(c) == c >= 500 /\ c < 600
JudgeStep(in, q, st) ==
    LET g == st.got
        absorbable == Is5xx(q.fault.code) /\ q.fault.k < Attempts(in.retries)
    IN
    (IF st.ftrig > 0 /\ ~Is5xx(q.fault.code) /\ st.fatt # 1 THEN {"client-error-not-retried"} ELSE {})
    \cup (IF st.ftrig > 0 /\ Is5xx(q.fault.code) /\ st.fatt > Attempts(in.retries) THEN {"retries-bounded"} ELSE {})
    \cup
    IF g.err # "" THEN (IF st.ftrig = 0 THEN {"answered"}          \* a failed query returns neither series nor samples
                       ELSE IF absorbable THEN {"retried-to-success"} ELSE {})
    ELSE LET ref == Reference(in.world, [s |-> q.s, e |-> q.e, st |-> q.st], in.align)
             got == GotResp(g)
         IN (IF Cardinality(DOMAIN got) # Len(g.series) THEN {"each-series-once"} ELSE {})
            \cup (IF DOMAIN got # DOMAIN ref THEN {"same-series"} ELSE {})
            \cup (IF \E k \in DOMAIN got \cap DOMAIN ref : got[k] # ref[k] THEN {"same-timestamps"} ELSE {})
            \cup (IF \E j \in DOMAIN g.series : \E i \in DOMAIN g.series[j].ts :
                        g.series[j].vs[i] # Val(g.series[j].k, g.series[j].ts[i], in.vunit)
                  THEN {"same-values"} ELSE {})
JudgeRange(e) == UNION { JudgeStep(e.in, e.in.hist[i], e.steps[i]) : i \in DOMAIN e.in.hist }

(* ---- phase 2: metadata histories (in.meta = TRUE): hist[i] = [kind, s, e], kind 0 instant query,     *)
(* 1 label names, 2 label values, 3 series; steps[i].got = [err, ids] the series ids the answer names;  *)
(* steps[i].passed: an instant query reached the querier exactly once with its own time.               *)
(* The cache serves these requests too; label APIs may answer supersets, so: nothing the direct        *)
(* answer has may be lost, nothing may be invented, instant queries are answered exactly.              *)
JudgeMetaStep(in, q, st) ==
    IF st.got.err # "" THEN {"meta-answered"}
    ELSE LET ids == { st.got.ids[j] : j \in DOMAIN st.got.ids } IN
         (IF ~MetaNothingLost(ids, in.world, q.s, q.e) THEN {"meta-nothing-lost"} ELSE {})
         \cup (IF ~MetaNothingInvented(ids, in.world) THEN {"meta-nothing-invented"} ELSE {})
         \cup (IF q.kind = 0 /\ (ids # MetaDirect(in.world, q.s, q.s) \/ ~st.passed) THEN {"instant-passes-through"} ELSE {})
JudgeMeta(e) == UNION { JudgeMetaStep(e.in, e.in.hist[i], e.steps[i]) : i \in DOMAIN e.in.hist }
Judge(e) == IF e.in.meta THEN JudgeMeta(e) ELSE JudgeRange(e)

(* ---- model conformance (never a verdict): run the algorithm-level cache model along the history ---- *)
CommonSteps == {43200000, 21600000, 10800000, 7200000, 3600000, 1800000, 900000, 600000, 300000,
                120000, 60000, 30000, 20000, 15000, 10000, 5000, 1000}
ModelCfg(in) == [iv |-> in.iv, minext |-> 300000, common |-> CommonSteps, align |-> in.align,
                 matching |-> FALSE, gridfix |-> TRUE]
Without(cache, lost) == [k \in DOMAIN cache \ { lost[j] : j \in DOMAIN lost } |-> cache[k]]
RECURSIVE DriftFrom(_, _, _)
DriftFrom(e, i, cache) ==
    IF i > Len(e.in.hist) THEN FALSE
    ELSE LET q == e.in.hist[i]
             d == FrontendDo(ModelCfg(e.in), e.in.world, Without(cache, e.steps[i].lost), [s |-> q.s, e |-> q.e, st |-> q.st])
             g == e.steps[i].got
         IN \/ g.err # ""
            \/ GotResp(g) # d.resp
            \/ { e.steps[i].ext[j] : j \in DOMAIN e.steps[i].ext } # CacheRanges(d.cache)
            \/ DriftFrom(e, i + 1, d.cache)
RECURSIVE MetaDriftFrom(_, _, _)
MetaDriftFrom(e, i, cache) ==
    IF i > Len(e.in.hist) THEN FALSE
    ELSE LET d == MetaFrontendDo([iv |-> e.in.iv, minext |-> 300000], e.in.world, Without(cache, e.steps[i].lost), e.in.hist[i])
             g == e.steps[i].got
         IN \/ g.err # ""
            \/ { g.ids[j] : j \in DOMAIN g.ids } # d.resp
            \/ { e.steps[i].ext[j] : j \in DOMAIN e.steps[i].ext } # CacheRanges(d.cache)
            \/ MetaDriftFrom(e, i + 1, d.cache)
(* histories with an injected failure are not predicted (which sub-requests ran before the failure is not modelled) *)
Faulty(e) == \E i \in DOMAIN e.steps : e.steps[i].ftrig > 0
Drift(e) == IF e.in.meta THEN MetaDriftFrom(e, 1, << >>) ELSE (~Faulty(e) /\ DriftFrom(e, 1, << >>))

VARIABLE l
TraceInit == l = 1
TraceNext == /\ l <= TraceLen
             /\ CaseReject(l, Trace[l], Judge(Trace[l]))
             /\ (IF Drift(Trace[l]) THEN PrintT(<<"DRIFT", l, Trace[l]["case"]>>) ELSE TRUE)
             /\ l' = l + 1
TraceSpec == TraceInit /\ [][TraceNext]_l
TraceAccepted == TLCGet("stats").diameter = TraceLen + 1
=============================================================================
