------------------------------ MODULE C42Trace ------------------------------
(***************************************************************************)
(* Leg C for C42.  One trace line per history:                             *)
(*   in.world    per series (index = id, label order) its presence windows *)
(*               <<[lo, hi], ...>> (ms); in.vunit: value(k, t) =           *)
(*               k * 10^6 + t \div vunit  ("data that does not change")    *)
(*   in.iv, in.align, in.par   split interval (ms), step align, parallelism*)
(*   in.hist[i]  the i-th range query [s, e, st] (ms) (+ lose: drop a      *)
(*               cache entry before it)                                    *)
(*   steps[i].got  [err, series: <<[k, ts, vs], ...>>] the answer the real *)
(*               frontend chain gave;  steps[i].ext the cache extents      *)
(*               <<step, start, end>> afterwards; steps[i].lost dropped keys*)
(* Verdict: property-level operators only (Reference = direct evaluation). *)
(***************************************************************************)
EXTENDS TraceLib, Frontend

Val(k, t, vunit) == k * 1000000 + (t \div vunit)

GotResp(g) ==
    [k \in { g.series[j].k : j \in DOMAIN g.series } |->
        g.series[CHOOSE j \in DOMAIN g.series : g.series[j].k = k].ts]

(* "a sequence of range queries answered through the results cache returns the same series   *)
(* and samples as answering each query directly"                                              *)
JudgeStep(in, q, g) ==
    IF g.err # "" THEN {"answered"}          \* a failed query returns neither series nor samples
    ELSE LET ref == Reference(in.world, [s |-> q.s, e |-> q.e, st |-> q.st], in.align)
             got == GotResp(g)
         IN (IF Cardinality(DOMAIN got) # Len(g.series) THEN {"each-series-once"} ELSE {})
            \cup (IF DOMAIN got # DOMAIN ref THEN {"same-series"} ELSE {})
            \cup (IF \E k \in DOMAIN got \cap DOMAIN ref : got[k] # ref[k] THEN {"same-timestamps"} ELSE {})
            \cup (IF \E j \in DOMAIN g.series : \E i \in DOMAIN g.series[j].ts :
                        g.series[j].vs[i] # Val(g.series[j].k, g.series[j].ts[i], in.vunit)
                  THEN {"same-values"} ELSE {})
Judge(e) == UNION { JudgeStep(e.in, e.in.hist[i], e.steps[i].got) : i \in DOMAIN e.in.hist }

(* ---- model conformance (never a verdict): run the algorithm-level cache model along the history ---- *)
CommonSteps == {43200000, 21600000, 10800000, 7200000, 3600000, 1800000, 900000, 600000, 300000,
                120000, 60000, 30000, 20000, 15000, 10000, 5000, 1000}
ModelCfg(in) == [iv |-> in.iv, minext |-> 300000, common |-> CommonSteps, align |-> in.align,
                 matching |-> FALSE, gridfix |-> TRUE]
Without(cache, lost) == [k \in DOMAIN cache \ { lost[j] : j \in DOMAIN lost } |-> cache[k]]
RECURSIVE DriftFrom(_, _, _)
DriftFrom(e, i, cache) ==
    IF i > Len(e.in.hist) THEN FALSE
    ELSE LET q == e.in.hist[i]
             d == FrontendDo(ModelCfg(e.in), e.in.world, Without(cache, e.steps[i].lost), [s |-> q.s, e |-> q.e, st |-> q.st])
             g == e.steps[i].got
         IN \/ g.err # ""
            \/ GotResp(g) # d.resp
            \/ { e.steps[i].ext[j] : j \in DOMAIN e.steps[i].ext } # CacheRanges(d.cache)
            \/ DriftFrom(e, i + 1, d.cache)
Drift(e) == DriftFrom(e, 1, << >>)

VARIABLE l
TraceInit == l = 1
TraceNext == /\ l <= TraceLen
             /\ CaseReject(l, Trace[l], Judge(Trace[l]))
             /\ (IF Drift(Trace[l]) THEN PrintT(<<"DRIFT", l, Trace[l]["case"]>>) ELSE TRUE)
             /\ l' = l + 1
TraceSpec == TraceInit /\ [][TraceNext]_l
TraceAccepted == TLCGet("stats").diameter = TraceLen + 1
=============================================================================
