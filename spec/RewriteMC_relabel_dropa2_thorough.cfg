\* C48 phase 2 leg A, relabel "dropa2" before deletion; family "labels": one series over labels a in {absent,1,2} x b in {absent,1}; one request with 1..2
\* matchers from a pool of 7 (EQ/NEQ/RE/NRE, incl. a="" and negative matchers on missing labels), whole-series and
\* interval deletions; all inputs handed to leg B.
SPECIFICATION Spec
CONSTANTS Family = "labels"
          G = 4
          LTwo = FALSE
          EmitTwoRequests = TRUE
          Relabel = "dropa2"
INVARIANTS C48_ResultSatisfiesProperty FunctionalFormAgrees
PROPERTY Progress
CHECK_DEADLOCK TRUE
