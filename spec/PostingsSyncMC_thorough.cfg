\* C10 leg A (block-set dynamics) thorough: 4 blocks (two halves, their compaction, another stream), 5 selector sets,
\* upload / delete / compact / sync / query / evict, <= 6 steps
SPECIFICATION Spec
CONSTANTS MaxSteps = 6
INVARIANT C10_AnswerIsSelectionOverLoadedBlocks
INVARIANT LoadedFollowsBucketAtSync
CHECK_DEADLOCK FALSE
