\* C01 leg A quick, 3 replicas (nested iterator dd(dd(r1,r2),r3)): at most 2 samples per replica on a
\* 4-point grid with gaps beyond the penalty (11^3 = 1 331 layouts + 11 identical), readers mixing
\* Next with at most one Seek (2 targets)
SPECIFICATION Spec
CONSTANTS InitPen = 5
          Grid = {0, 1, 6, 11}
          NumReps = 3
          MaxLen = 2
          Ctr = FALSE
          Starts = {0}
          Incs = {0}
          Targets = {5, 11}
          EmitMod = 1
          MaxSeeks = 1
          Kinds = {"f"}
INVARIANTS C01_StrictlyIncreasing C01_FromSomeReplica C01_UnchangedIfIdentical C01_SeekIsSuffix
           C01_FollowsFullStream BoundedOutput
CHECK_DEADLOCK FALSE
