\* C01 leg A quick, 3 replicas (nested iterator dd(dd(r1,r2),r3)): all subsets of a 4-point grid
\* (4 096 layouts + 16 identical), 3 seek targets
SPECIFICATION Spec
CONSTANTS InitPen = 5
          Grid = {0, 1, 6, 11}
          NumReps = 3
          MaxLen = 4
          Ctr = FALSE
          Starts = {0}
          Incs = {0}
          Targets = {0, 5, 11}
          EmitMod = 1
INVARIANTS C01_StrictlyIncreasing C01_FromSomeReplica C01_UnchangedIfIdentical C01_SeekIsSuffix
           StepwiseEqualsFunctional BoundedOutput OnlyDoneIsFinal
CHECK_DEADLOCK FALSE
