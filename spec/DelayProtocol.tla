---------------------------- MODULE DelayProtocol ----------------------------
(***************************************************************************)
(* C34: the delay protocol between the compactor and the store gateways.   *)
(*                                                                         *)
(* The compactor replaces blocks: it uploads a result, marks the sources   *)
(* for deletion (deletion-mark.json carries the time) and deletes a marked *)
(* block once its mark is older than the delete delay (meta.json first,    *)
(* then the data).  It plans only with blocks whose mark is at most        *)
(* deleteDelay/2 old.  Each store gateway periodically syncs: it loads the *)
(* blocks selected by SGServes (Compaction.tla: blocks with meta.json,     *)
(* marks older than the ignore delay hidden, duplicates hidden) and then   *)
(* answers queries from the loaded set, reading block data from the        *)
(* bucket, until its next sync.                                            *)
(*                                                                         *)
(* This module holds the property-level definitions; the processes are in  *)
(* DelayProtocolMC.                                                        *)
(***************************************************************************)
EXTENDS Compaction

(* A gateway can answer a query only if every block it has loaded is still intact in the bucket   *)
(* (a Series call fails when a loaded block's files are gone), and then returns what they hold.   *)
(* loaded: set of ids; intact: set of ids whose data files are all in the bucket; smp: id -> toks *)
Queryable(loaded, intact) == loaded \subseteq intact
Serves(loaded, intact, smp, x) == Queryable(loaded, intact) /\ \E i \in loaded : x \in smp[i]

(* "every source sample remains served by some store gateway at all times" *)
SomeGatewayServesAll(loadedOf, gateways, intact, smp, universe) ==
    \A x \in universe : \E g \in gateways : Serves(loadedOf[g], intact, smp, x)
(* stronger, what replication of gateways is for: every gateway alone serves everything *)
EveryGatewayServesAll(loadedOf, gateways, intact, smp, universe) ==
    \A x \in universe : \A g \in gateways : Serves(loadedOf[g], intact, smp, x)

(* what the protocol demands of the configuration: the gateways hide marked blocks strictly before *)
(* the compactor may delete them, and sync often enough to notice in between                        *)
DelaysOrdered(ignoreDelay, deleteDelay) == ignoreDelay < deleteDelay
LagWithinBound(syncInterval, ignoreDelay, deleteDelay) == syncInterval < deleteDelay - ignoreDelay
=============================================================================
