------------------------ MODULE DownsampleCounterMC ------------------------
(***************************************************************************)
(* Leg A for C37 and C38: a raw counter series is downsampled to r1 and    *)
(* the result again to r2 = r1 * Mult, one step per iteration of the two   *)
(* outer loops                                                             *)
(*   RawBatchStep  downsampleRawLoop: one batch -> one level-1 chunk       *)
(*   AggrPart      downsampleAggrLoop: one part (consecutive level-1       *)
(*                 chunks) -> one level-2 chunk (downsampleFloatAggrBatch: *)
(*                 re-aggregation of count/sum/min/max, counter through    *)
(*                 the reset-applying iterator with first / last raw value *)
(*                 kept)                                                   *)
(* (the inner per-sample loop is checked step by step in DownsampleMC and  *)
(* tied to the closed form there), for EVERY raw series over a small grid  *)
(* (values >= 0 with resets, NaN / stale tokens), every pair of target     *)
(* chunk counts.  After each level the counter aggregate is read through   *)
(* the reset-applying iterator.                                            *)
(***************************************************************************)
EXTENDS Downsample, TLC, Json, IOUtils, SequencesExt

CONSTANTS GridLen, MaxSamples, Vals, Tokens,
          R1,             \* level-1 window length
          Mults,          \* level-2 window length = R1 * m, m \in Mults
          Counts1,        \* target chunk counts of level 1
          Counts2,        \* target chunk counts of level 2 (capped at the number of level-1 chunks)
          CaseSamples,
          CaseCounts1     \* leg B: level-1 chunk counts handed to the harness (subset of Counts1)

VARIABLES tset, raw, m, nc1, nc2, pc, p, c1, rest, c2
vars == <<tset, raw, m, nc1, nc2, pc, p, c1, rest, c2>>

R2 == R1 * m

Grid == 0..(GridLen - 1)
Cells == (Vals \X {"F"}) \cup ({0} \X Tokens)
SeriesOn(T) ==
    LET tseq == SetToSortSeq(T, <) IN
    { [ts |-> tseq, vs |-> [i \in 1..Len(tseq) |-> f[tseq[i]][1]], ks |-> [i \in 1..Len(tseq) |-> f[tseq[i]][2]]]
        : f \in [T -> Cells] }
TimeSets(maxn) == { S \in SUBSET Grid : Cardinality(S) <= maxn }
RawSeries(maxn) == UNION { SeriesOn(T) : T \in TimeSets(maxn) }
NoRaw == [ts |-> <<>>, vs |-> <<>>, ks |-> <<>>]

(* timestamps in Init, values in Assign: only so that TLC enumerates in parallel *)
Init ==
    /\ tset \in TimeSets(MaxSamples)
    /\ m \in Mults /\ nc1 \in Counts1 /\ nc2 \in Counts2
    /\ raw = NoRaw
    /\ pc = "assign" /\ p = 1 /\ c1 = <<>> /\ rest = <<>> /\ c2 = <<>>

Assign ==
    /\ pc = "assign"
    /\ raw' \in SeriesOn(tset)
    /\ pc' = "l1"
    /\ UNCHANGED <<tset, m, nc1, nc2, p, c1, rest, c2>>

(* downsampleRawLoop, one iteration.  *)
RawBatchStep ==
    /\ pc = "l1" /\ p <= N(raw)
    /\ LET j == RawBatchEnd(raw, R1, (N(raw) \div nc1) + 1, p)
           b == RawBatch(raw, p, j)
       IN /\ p' = j + 1
          /\ c1' = IF b = <<>> THEN c1 ELSE Append(c1, FloatBatchChunk(b, R1))
    /\ UNCHANGED <<tset, raw, m, nc1, nc2, pc, rest, c2>>

(* level 1 finished; a series without chunks is not written to the block.  *)
RawDone ==
    /\ pc = "l1" /\ p > N(raw)
    /\ rest' = c1
    /\ pc' = IF c1 = <<>> THEN "done" ELSE "l2"
    /\ UNCHANGED <<tset, raw, m, nc1, nc2, p, c1, c2>>

(* downsampleAggrLoop, one iteration: parts of Len(c1) \div numChunks chunks.  The real chunk *)
(* count comes from targetChunkCount; the loop needs it to be <= the number of chunks.       *)
NC2 == Min2(nc2, Len(c1))
AggrPart ==
    /\ pc = "l2" /\ rest # <<>>
    /\ LET j == Min2(Len(c1) \div NC2, Len(rest))
       IN /\ c2' = Append(c2, AggrPartChunk(SubSeq(rest, 1, j), R2))
          /\ rest' = SubSeq(rest, j + 1, Len(rest))
    /\ UNCHANGED <<tset, raw, m, nc1, nc2, pc, p, c1>>

AggrDone ==
    /\ pc = "l2" /\ rest = <<>>
    /\ pc' = "done"
    /\ UNCHANGED <<tset, raw, m, nc1, nc2, p, c1, rest, c2>>

Done == pc = "done" /\ UNCHANGED vars
Next == Assign \/ RawBatchStep \/ RawDone \/ AggrPart \/ AggrDone \/ Done
Spec == Init /\ [][Next]_vars

(* ---- C37 ---- *)
(* at every step: what the iterator yields over the chunks written so far is adjusted *)
C37_Level1 == pc \in {"l1", "l2", "done"} => EmittedAdjusted(raw, CounterIter(c1))
C37_Level2 == pc \in {"l2", "done"} => EmittedAdjusted(raw, CounterIter(c2))
C37_NonEmpty == pc = "done" => EmittedNonEmpty(raw, CounterIter(c1)) /\ EmittedNonEmpty(raw, CounterIter(c2))
(* the last emitted value is the fully adjusted last raw value: the raw increase survives *)
LastOf(s) == s[Len(s)]
C37_IncreasePreserved ==
    pc = "done" /\ AllNum(raw) # {} =>
        LET want == LastOf(AdjTable(raw)) IN
        LastOf(CounterIter(c1).vs) = want /\ LastOf(CounterIter(c2).vs) = want

(* ---- C38 ---- *)
Consumed == SubSeq(c1, 1, Len(c1) - Len(rest))      \* level-1 chunks already re-aggregated
C38_TotalsConserved == pc \in {"l2", "done"} => TotalsConserved(Consumed, c2)
C38_Ordered == pc \in {"l2", "done"} => OutputsOrdered(c2)
C38_WithinSpan == pc = "done" /\ c1 # <<>> =>
    LET T == Flat(c1, "ts") IN OutputsWithin(c2, T[1], T[Len(T)])
(* beyond the statement, useful for the model: level 2 is exact for the r2 windows whenever   *)
(* the whole series is one part                                                               *)
L2ExactWhenOnePart == pc = "done" /\ NC2 = 1 /\ c1 # <<>> => ChunksExact(raw, R2, c2) /\ ChunksTotalsEqual(raw, c2)
(* chunk metas of level 2 stay ordered (what a block index requires)  *)
L2ChunksOrdered == pc = "done" => ChunksOrdered(c2)

StepsAgreeWithAlgo == pc = "done" => /\ c1 = AlgoRaw(raw, R1, nc1)
                                     /\ c1 # <<>> => c2 = AlgoAggr(c1, R2, NC2)

Progress == pc # "done" => (pc = "assign" \/ p' > p \/ Len(rest') < Len(rest) \/ pc' # pc)
AlwaysProgress == [][Progress]_vars      \* with deadlock checking on: termination

(* ---- leg B ---- *)
CasesFile == IF "VERIF_CASES" \in DOMAIN IOEnv THEN IOEnv.VERIF_CASES ELSE "cases.ndjson"
CaseSeq == SetToSeq({ [ts |-> s.ts, vs |-> s.vs, ks |-> s.ks, r |-> R1, m |-> mm, nc1 |-> a, nc2 |-> b, glen |-> GridLen]
                        : s \in RawSeries(CaseSamples), mm \in Mults, a \in CaseCounts1, b \in Counts2 })
ASSUME ndJsonSerialize(CasesFile, CaseSeq)
=============================================================================
