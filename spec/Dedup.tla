------------------------------- MODULE Dedup -------------------------------
(***************************************************************************)
(* Replica deduplication of one series (pkg/dedup/iter.go).                *)
(*                                                                         *)
(* A replica is a sequence of samples <<t, v>> with strictly increasing t  *)
(* (integers: ms timestamps, integral values).  The penalty algorithm      *)
(* merges the replicas of one series pairwise, left to right               *)
(* (dedupSeries.Iterator: it = dd(dd(r1, r2), r3) ...).                    *)
(*                                                                         *)
(* Part 1 - property level: what C01 / C02 demand of the merged stream,    *)
(*          written from the statements in properties.jsonl.               *)
(* Part 2 - algorithm level: a transcription of dedupSeriesIterator        *)
(*          (state lastT, penA, penB, useA; constructor pre-advance, Next, *)
(*          Seek) and of counterErrAdjustSeriesIterator.                   *)
(* The step-wise state machine over the same operators is DedupMC.         *)
(***************************************************************************)
EXTENDS Integers, Sequences, FiniteSets, SequencesExt

CONSTANT InitPen      \* penalty when no delta is known yet (5000 ms in the code)

(* A sample is <<t, v>> (float sample) or <<t, v, k>> with k = "h" (native histogram) or    *)
(* "fh" (float histogram); for histograms v identifies the histogram (its count).            *)
T(e) == e[1]
V(e) == e[2]
Kind(e) == IF Len(e) = 3 THEN e[3] ELSE "f"

(* ======================= Part 1: property level ======================= *)

(* C01 "the result has strictly increasing timestamps" *)
StrictlyIncreasing(s) == \A i \in 1..(Len(s) - 1) : T(s[i]) < T(s[i + 1])

(* C01 "every sample it yields is a sample one of the replicas holds at that timestamp" *)
SampleSet(reps) == UNION { { reps[r][j] : j \in DOMAIN reps[r] } : r \in DOMAIN reps }
FromSomeReplica(out, reps) == LET S == SampleSet(reps) IN \A i \in DOMAIN out : out[i] \in S

(* C01 "a single replica, or a set of identical replicas, comes out unchanged" *)
AllIdentical(reps) == \A r \in DOMAIN reps : reps[r] = reps[1]
UnchangedIfIdentical(out, reps) == (Len(reps) >= 1 /\ AllIdentical(reps)) => out = reps[1]

(* C01 "a reader that first seeks to t sees exactly the suffix (from t on) of what a reader *)
(* iterating from the start sees": full = stream of the reader iterating from the start.    *)
SuffixFrom(s, x) == SelectSeq(s, LAMBDA e : T(e) >= x)
SeekIsSuffix(full, x, got) == got = SuffixFrom(full, x)

(* The same sentence for a reader that seeks in mid-stream, with the contract of              *)
(* chunkenc.Iterator ("Seek advances to the first sample with timestamp >= t; if the current  *)
(* sample already has this property it is a no-op"): whatever sequence of Next / Seek(x) calls *)
(* a reader makes, it moves a cursor over the stream `full` of the reader iterating from the   *)
(* start.  log[k] = [op |-> "next" | "seek", x, ok, s]: the k-th call, whether it found a      *)
(* sample, and the sample (<<>> if none).  A reader stops at the first call that finds none.   *)
StepPos(full, p, e) ==
    IF e.op = "next" THEN (IF p >= Len(full) THEN Len(full) + 1 ELSE p + 1)
    ELSE IF p >= 1 /\ p <= Len(full) /\ T(full[p]) >= e.x THEN p
    ELSE LET from == IF p = 0 THEN 1 ELSE p + 1
         IN Len(full) + 1 - Cardinality({ j \in from..Len(full) : T(full[j]) >= e.x })
FollowsFullStream(full, log) ==
    LET pos[k \in 0..Len(log)] == IF k = 0 THEN 0 ELSE StepPos(full, pos[k - 1], log[k])
    IN \A k \in 1..Len(log) :
         IF pos[k] <= Len(full) THEN log[k].ok /\ log[k].s = full[pos[k]] ELSE ~log[k].ok
(* the samples a reader received *)
Received(log) == LET okk == SelectSeq(log, LAMBDA e : e.ok) IN [k \in DOMAIN okk |-> okk[k].s]

(* C02 "over replicas whose values never decrease, the deduplicated series never decreases" *)
ValuesNeverDecrease(s) == \A i \in 1..(Len(s) - 1) : V(s[i]) <= V(s[i + 1])
AllMonotone(reps) == \A r \in DOMAIN reps : ValuesNeverDecrease(reps[r])
CounterNeverDecreases(out, reps) == AllMonotone(reps) => ValuesNeverDecrease(out)

(* ====================== Part 2: algorithm level ======================= *)
(* Iterator states are trees:                                             *)
(*  leaf: [k="leaf", s, i, adj, ctr]  i = 0 before the first Next,        *)
(*        1..Len(s) positioned, Len(s)+1 exhausted; adj = errAdjust of    *)
(*        counterErrAdjustSeriesIterator (ctr) - stays 0 for the no-op    *)
(*        adjustable iterator.                                            *)
(*  dd:   [k="dd", a, b, aok, bok, has, lastT, penA, penB, useA, lastA]   *)
(*        aok/bok = aval/bval # ValNone; has = (lastT # MinInt64);        *)
(*        lastA = (lastIter = a).                                         *)
(* Next/Seek return [it |-> new state, ok |-> a sample is available].     *)

Leaf(s, ctr) == [k |-> "leaf", s |-> s, i |-> 0, adj |-> 0, ctr |-> ctr]

RECURSIVE ItNext(_), ItSeek(_, _), ItAtT(_), ItAt(_), ItAdjust(_, _), DDSeekLoop(_, _)

LeafNext(it) ==
    LET n == Len(it.s)
        j == IF it.i >= n THEN n + 1 ELSE it.i + 1
    IN [it |-> [it EXCEPT !.i = j], ok |-> j <= n]

(* chunkenc.Iterator.Seek: no-op when the current sample already has t >= x, else advance.  *)
LeafSeek(it, x) ==
    LET n == Len(it.s)
        from == IF it.i = 0 THEN 1 ELSE it.i
        c == Cardinality({ j \in from..n : T(it.s[j]) >= x })     \* s is increasing: a tail
        j == n + 1 - c
    IN [it |-> [it EXCEPT !.i = j], ok |-> j <= n]

Positioned(it) == IF it.k = "leaf" THEN it.i >= 1 /\ it.i <= Len(it.s)
                  ELSE IF it.useA THEN it.aok ELSE it.bok

(* AtT follows useA, At follows lastIter (as in the code).  *)
ItAtT(it) == IF it.k = "leaf" THEN T(it.s[it.i])
             ELSE IF it.useA THEN ItAtT(it.a) ELSE ItAtT(it.b)
ItAt(it) == IF it.k = "leaf"
              THEN IF Kind(it.s[it.i]) = "f" THEN <<T(it.s[it.i]), V(it.s[it.i]) + it.adj>> ELSE it.s[it.i]
            ELSE IF it.lastA THEN ItAt(it.a) ELSE ItAt(it.b)
(* the chunkenc.ValueType the last Next/Seek returned *)
ItKind(it) == Kind(ItAt(it))

(* adjustAtValue(last): a counter replica whose current value is below the last emitted value  *)
(* is shifted up by the difference; dd forwards to the sides that hold a float sample          *)
(* (histograms are not adjusted: TODO in the code).                                           *)
ItAdjust(it, last) ==
    IF it.k = "leaf"
      THEN IF it.ctr /\ last > V(it.s[it.i]) + it.adj
             THEN [it EXCEPT !.adj = last - V(it.s[it.i])]
             ELSE it
      ELSE [it EXCEPT !.a = IF it.aok /\ ItKind(it.a) = "f" THEN ItAdjust(it.a, last) ELSE it.a,
                      !.b = IF it.bok /\ ItKind(it.b) = "f" THEN ItAdjust(it.b, last) ELSE it.b]

(* newDedupSeriesIterator: both sides are advanced once by the constructor.  *)
DDNew(a, b) ==
    LET ra == ItNext(a)
        rb == ItNext(b)
    IN [k |-> "dd", a |-> ra.it, b |-> rb.it, aok |-> ra.ok, bok |-> rb.ok,
        has |-> FALSE, lastT |-> 0, penA |-> 0, penB |-> 0, useA |-> TRUE, lastA |-> TRUE]

(* dedupSeriesIterator.Next.  With lastT = MinInt64 the seeks are no-ops.  *)
DDNext(it) ==
    LET isF == IF it.useA THEN it.aok /\ ItKind(it.a) = "f"         \* lastFloatVal(): ok
               ELSE it.bok /\ ItKind(it.b) = "f"
        lastV == IF isF THEN V(ItAt(it)) ELSE 0
        sa == IF ~it.aok THEN [it |-> it.a, ok |-> FALSE]
              ELSE IF it.has THEN ItSeek(it.a, it.lastT + 1 + it.penA)
              ELSE [it |-> it.a, ok |-> TRUE]
        sb == IF ~it.bok THEN [it |-> it.b, ok |-> FALSE]
              ELSE IF it.has THEN ItSeek(it.b, it.lastT + 1 + it.penB)
              ELSE [it |-> it.b, ok |-> TRUE]
        base == [it EXCEPT !.a = sa.it, !.b = sb.it, !.aok = sa.ok, !.bok = sb.ok]
        picked ==
          IF ~sa.ok THEN
             IF sb.ok THEN [base EXCEPT !.useA = FALSE, !.has = TRUE, !.lastT = ItAtT(sb.it),
                                        !.lastA = FALSE, !.penB = 0]
                      ELSE [base EXCEPT !.useA = FALSE]
          ELSE IF ~sb.ok THEN [base EXCEPT !.useA = TRUE, !.has = TRUE, !.lastT = ItAtT(sa.it),
                                           !.lastA = TRUE, !.penA = 0]
          ELSE LET ta == ItAtT(sa.it)
                   tb == ItAtT(sb.it)
               IN IF ta <= tb
                    THEN [base EXCEPT !.useA = TRUE, !.penA = 0,
                                      !.penB = IF it.has THEN 2 * (ta - it.lastT) ELSE InitPen,
                                      !.has = TRUE, !.lastT = ta, !.lastA = TRUE]
                    ELSE [base EXCEPT !.useA = FALSE, !.penB = 0,
                                      !.penA = IF it.has THEN 2 * (tb - it.lastT) ELSE InitPen,
                                      !.has = TRUE, !.lastT = tb, !.lastA = FALSE]
        (* deferred: on a replica switch adjust both sides to the value emitted before *)
        adj == IF picked.useA # it.useA /\ isF THEN ItAdjust(picked, lastV) ELSE picked
    IN [it |-> adj, ok |-> sa.ok \/ sb.ok]

(* dedupSeriesIterator.Seek: "don't use underlying Seek, but iterate over next to not miss   *)
(* gaps".  When nothing has been returned yet (lastT = MinInt64) the iterator first does a   *)
(* Next, so that both replicas are consulted (the fix of C01); then it loops Next while the  *)
(* current timestamp is below x.  The final a.Seek(ts)/b.Seek(ts) is a no-op.                *)
DDSeekLoop(it, x) ==
    IF ~Positioned(it) THEN [it |-> it, ok |-> FALSE]
    ELSE IF ItAtT(it) >= x THEN [it |-> it, ok |-> TRUE]
    ELSE LET r == DDNext(it) IN IF r.ok THEN DDSeekLoop(r.it, x) ELSE r
DDSeek(it, x) ==
    IF ~it.has THEN LET r == DDNext(it) IN IF r.ok THEN DDSeekLoop(r.it, x) ELSE r
    ELSE DDSeekLoop(it, x)

ItNext(it) == IF it.k = "leaf" THEN LeafNext(it) ELSE DDNext(it)
ItSeek(it, x) == IF it.k = "leaf" THEN LeafSeek(it, x) ELSE DDSeek(it, x)

(* dedupSeriesSet.At / dedupSeries.Iterator: one replica is returned as it is; otherwise the *)
(* replicas are folded left to right, each wrapped in the (counter or no-op) adjustable       *)
(* iterator.                                                                                  *)
RECURSIVE BuildFrom(_, _, _, _)
BuildFrom(it, reps, r, ctr) ==
    IF r > Len(reps) THEN it ELSE BuildFrom(DDNew(it, Leaf(reps[r], ctr)), reps, r + 1, ctr)
Build(reps, ctr) == IF Len(reps) = 1 THEN Leaf(reps[1], FALSE)
                    ELSE BuildFrom(Leaf(reps[1], ctr), reps, 2, ctr)

(* The stream a reader obtains with Next, Next, ... *)
RECURSIVE Drain(_)
Drain(it) == LET r == ItNext(it) IN IF r.ok THEN <<ItAt(r.it)>> \o Drain(r.it) ELSE <<>>
RunNext(reps, ctr) == Drain(Build(reps, ctr))
(* ... and with Seek(x), Next, Next, ... *)
RunSeek(reps, ctr, x) ==
    LET r == ItSeek(Build(reps, ctr), x) IN IF r.ok THEN <<ItAt(r.it)>> \o Drain(r.it) ELSE <<>>

(* ... and with an arbitrary script of calls: ops[k] = [op |-> "next" | "seek", x |-> target]; *)
(* the reader stops at the first call that finds no sample.  Result: the log (see part 1).     *)
RECURSIVE OpsFrom(_, _, _)
OpsFrom(it, ops, k) ==
    IF k > Len(ops) THEN <<>>
    ELSE LET r == IF ops[k].op = "next" THEN ItNext(it) ELSE ItSeek(it, ops[k].x)
             e == [op |-> ops[k].op, x |-> ops[k].x, ok |-> r.ok, s |-> IF r.ok THEN ItAt(r.it) ELSE <<>>]
         IN <<e>> \o (IF r.ok THEN OpsFrom(r.it, ops, k + 1) ELSE <<>>)
RunOps(reps, ctr, ops) == OpsFrom(Build(reps, ctr), ops, 1)

(* The chain algorithm (deduplicationFunc = "chain": prometheus' ChainedSeriesMerge) keeps one  *)
(* sample per distinct timestamp of any replica, in time order; which replica supplies a        *)
(* timestamp several hold is left open ("one sample from random overlapped ones is kept").      *)
ChainTimes(reps) ==
    SetToSortSeq(UNION { { T(reps[r][j]) : j \in DOMAIN reps[r] } : r \in DOMAIN reps }, LAMBDA a, b : a < b)

=============================================================================
