\* NOT part of the check - expected to FAIL (C17_ConcWithinMaximum): check-then-act variant of Get; 2 goroutines x 2 rounds, buckets 2/4/8, budget 9, sizes {3,5}; Get is split into test and accounting
SPECIFICATION Spec
CONSTANTS Getters = {1, 2}
          Sizes = {2, 4, 8}
          Max = 9
          ReqSizes = {3, 5}
          Rounds = 2
          AtomicGet = FALSE
INVARIANTS C17_ConcWithinMaximum C17_ConcZeroWhenAllReturned
CHECK_DEADLOCK TRUE
