\* C25 leg A thorough: strings {"", "a", "ab"}; one or two tenants with <= 1 series each, label
\* lists 0..1, optional exemplar with 0..1 labels (12 432 requests); payload slice: 648 histogram shapes
\* (two reset hints) x samples {0,1,2} x exemplars {0,1,2}
SPECIFICATION Spec
CONSTANTS Strs3 <- StrsNone
          ExLabelMax = 1
          TwoSeries = FALSE
          Hints = {"0", "2"}
          SampleCounts = {0, 1, 2}
          ExemplarCounts = {0, 1, 2}
INVARIANTS TableDistinct VisitedInterned OffsetsWellFormed ResolutionInvertsInterning
           C25_Lossless C25_LosslessWithoutCustomValues StepsMatchFunctions
PROPERTY Terminates
CHECK_DEADLOCK FALSE
