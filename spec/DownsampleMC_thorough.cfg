\* C36 leg A thorough: grid 0..9, <= 4 samples, values {1,2} or NaN or stale marker,
\* r in {3,4}, numChunks 1..3: 62 201 series x 6 (about 2.6 M states); series with <= 3 samples go to the harness
SPECIFICATION Spec
CONSTANTS GridLen = 10
          MaxSamples = 4
          Vals = {1, 2}
          Tokens = {"NaN", "STALE"}
          Resolutions = {3, 4}
          Counts = {1, 2, 3}
          CaseSamples = 3
INVARIANTS C36_EmittedExact C36_Done C37_Level1 StepsAgreeWithAlgoRaw AdjTableIsAdjDef
PROPERTY AlwaysProgress
CHECK_DEADLOCK TRUE
