\* C16 leg A thorough: 3 readers x 2 calls, 2 idle sweeps, 1 Close, load may fail; all interleavings (safety)
SPECIFICATION Spec
CONSTANTS Readers = {"r1", "r2", "r3"}
          Calls = 2
          Sweeps = 2
          Closers = {"closer"}
          LoadMayFail = TRUE
          HoldAnswers = FALSE
INVARIANTS UseOnlyLoadedOpen NeverUseClosed ClosedOnlyUnused CleanResults MutexOK
CHECK_DEADLOCK TRUE
