\* C22 leg A quick: one series rf 1..3 (rf 4 in the thorough tier), two series rf 2 on 3 nodes, all six outcomes, local replica,
\* fresh and already-replicated requests, every fault assignment x every accounting order, timeout at any moment.
\* cases: one series rf 1..4 (all multisets x all arrangements), replicated rf 1..3
SPECIFICATION Spec
CONSTANTS RF1 = {1, 2, 3}
          RF2 = {2}
          N2 = 3
          Outcomes = {"ok", "conflict", "unavailable", "other", "noconn", "notready"}
          Outcomes2 = {"ok", "conflict", "unavailable", "noconn"}
          ReplThresholdIsQuorum = FALSE
          StaleMapReused = FALSE
          WithTimeout = TRUE
          CaseRF1 = {1, 2, 3, 4}
          CaseRFLocal = {1, 2, 3}
          CaseRF2 = {}
          CaseOutcomes = {"ok", "conflict", "unavailable", "other", "noconn"}
INVARIANTS C22Inv C23Inv OrderIndependent EarlyOnlyWhenDetermined
PROPERTIES Terminates
CHECK_DEADLOCK FALSE
