--------------------------- MODULE DelayProtocolMC ---------------------------
(***************************************************************************)
(* Leg A of C34: compactor and store gateways as independent processes     *)
(* over one bucket, all interleavings, integer time.                       *)
(*                                                                         *)
(* Time is relative: a deletion mark is stored as its age (capped at       *)
(* DeleteDelay+1: all older marks behave alike), a gateway as the time     *)
(* since its last sync.  Tick advances every age by one and is enabled     *)
(* only while no gateway would exceed the sync-lag bound MaxLag (the       *)
(* premise of C34: "sync lag bounded below the difference of the delays"). *)
(* The compactor is never forced to act (it may be slow or down).          *)
(***************************************************************************)
EXTENDS DelayProtocol, TLC, Json, IOUtils, SequencesExt
CONSTANTS NOrig,        \* original blocks 1..NOrig, block i holds sample token i
          MaxId,        \* ids available (originals + compaction results)
          DeleteDelay,  \* compactor --delete-delay (ticks)
          IgnoreDelay,  \* store --ignore-deletion-marks-delay (ticks)
          MaxLag,       \* longest time between two syncs of one gateway (ticks)
          Gateways,     \* set of store gateways
          UseDedup,     \* gateways also hide duplicates (the code: TRUE; FALSE = the delays alone)
          HalfRule,     \* compactor plans only with blocks whose mark is at most DeleteDelay/2 old (the code: TRUE)
          CaseBlocks    \* leg B: bucket states of up to this many blocks are handed to the harness

VARIABLES bk,       \* id -> [src, data, meta, mark (NoMark or age)]
          nextId,
          toMark,   \* sources of the last compaction still to be marked
          loaded,   \* gateway -> ids loaded at its last sync
          since     \* gateway -> ticks since its last sync
vars == <<bk, nextId, toMark, loaded, since>>

Ids == 1..MaxId
Absent == [src |-> {}, data |-> FALSE, meta |-> FALSE, mark |-> NoMark]
Universe == 1..NOrig
Smp == [i \in Ids |-> IF i <= NOrig THEN {i} ELSE bk[i].src]
Intact == { i \in Ids : bk[i].data }
Obs == { [id |-> i, grp |-> 1, src |-> bk[i].src, meta |-> bk[i].meta, complete |-> bk[i].data, markAge |-> bk[i].mark] :
           i \in { j \in Ids : bk[j].meta \/ bk[j].data } }
IdsOf(B) == { b.id : b \in B }

Init == /\ bk = [i \in Ids |-> IF i <= NOrig THEN [src |-> {i}, data |-> TRUE, meta |-> TRUE, mark |-> NoMark] ELSE Absent]
        /\ nextId = NOrig + 1 /\ toMark = {}
        /\ loaded = [g \in Gateways |-> 1..NOrig] /\ since = [g \in Gateways |-> 0]

(* ---- compactor ---- *)
(* its view after a sync: blocks with meta.json, minus marks older than DeleteDelay/2, minus duplicates *)
CView == LET cands == { b \in Obs : b.meta /\ (HalfRule => ~(b.markAge # NoMark /\ b.markAge > DeleteDelay \div 2)) }
         IN  IdsOf(Kept(cands))
CDups == LET cands == { b \in Obs : b.meta /\ (HalfRule => ~(b.markAge # NoMark /\ b.markAge > DeleteDelay \div 2)) }
         IN  IdsOf(cands) \ IdsOf(Kept(cands))
(* compact any two or more blocks of the view: the result is uploaded (data, then meta.json: visible at once here, *)
(* a gateway syncing in between sees nothing of it), the sources are marked afterwards, one by one                 *)
Compact(P) == /\ toMark = {} /\ nextId <= MaxId
              /\ P \subseteq CView /\ Cardinality(P) >= 2
              /\ bk' = [bk EXCEPT ![nextId] = [src |-> UNION { bk[i].src : i \in P }, data |-> TRUE, meta |-> TRUE, mark |-> NoMark]]
              /\ nextId' = nextId + 1 /\ toMark' = P
              /\ UNCHANGED <<loaded, since>>
MarkSrc(i) == /\ i \in toMark
              /\ bk' = [bk EXCEPT ![i].mark = IF @ = NoMark THEN 0 ELSE @]
              /\ toMark' = toMark \ {i}
              /\ UNCHANGED <<nextId, loaded, since>>
(* the compactor crashes while marking: it forgets which sources were left *)
CrashCompactor == /\ toMark # {} /\ toMark' = {}
                  /\ UNCHANGED <<bk, nextId, loaded, since>>
(* garbage collection after a restart: duplicates that are not marked yet *)
GC(i) == /\ toMark = {} /\ i \in CDups /\ bk[i].mark = NoMark
         /\ bk' = [bk EXCEPT ![i].mark = 0]
         /\ UNCHANGED <<nextId, toMark, loaded, since>>
(* the cleaner: marked longer than DeleteDelay: meta.json first, then the rest *)
CleanMeta(i) == /\ bk[i].meta /\ bk[i].mark # NoMark /\ bk[i].mark > DeleteDelay
                /\ bk' = [bk EXCEPT ![i].meta = FALSE]
                /\ UNCHANGED <<nextId, toMark, loaded, since>>
CleanData(i) == /\ ~bk[i].meta /\ bk[i].data /\ bk[i].mark # NoMark /\ bk[i].mark > DeleteDelay
                /\ bk' = [bk EXCEPT ![i] = [Absent EXCEPT !.src = bk[i].src]]
                /\ UNCHANGED <<nextId, toMark, loaded, since>>

(* ---- store gateways ---- *)
Sync(g) == /\ loaded' = [loaded EXCEPT ![g] = IF UseDedup THEN IdsOf(SGServes(Obs, IgnoreDelay))
                                                            ELSE IdsOf(Candidates(Obs, IgnoreDelay))]
           /\ since' = [since EXCEPT ![g] = 0]
           /\ UNCHANGED <<bk, nextId, toMark>>

(* ---- time ---- *)
Tick == /\ \A g \in Gateways : since[g] + 1 <= MaxLag
        /\ bk' = [i \in Ids |-> IF bk[i].mark # NoMark /\ bk[i].mark <= DeleteDelay THEN [bk[i] EXCEPT !.mark = @ + 1] ELSE bk[i]]
        /\ since' = [g \in Gateways |-> since[g] + 1]
        /\ UNCHANGED <<nextId, toMark, loaded>>

Next == \/ \E P \in SUBSET Ids : Compact(P)
        \/ \E i \in Ids : MarkSrc(i) \/ GC(i) \/ CleanMeta(i) \/ CleanData(i)
        \/ CrashCompactor
        \/ \E g \in Gateways : Sync(g)
        \/ Tick
Spec == Init /\ [][Next]_vars

(* ---------------- C34 ---------------- *)
C34_EveryGatewayServesAll == EveryGatewayServesAll(loaded, Gateways, Intact, Smp, Universe)
C34_SomeGatewayServesAll == SomeGatewayServesAll(loaded, Gateways, Intact, Smp, Universe)
(* Non-vacuity, checked mechanically: in a configuration whose lag bound is too wide the property must be      *)
(* violated in some reachable state.  NoteViolation is a state constraint that is always TRUE and records a    *)
(* violation in TLC register 2; the POSTCONDITION ViolationReachable demands that one was seen (run with one   *)
(* worker).                                                                                                    *)
NoteViolation == IF C34_EveryGatewayServesAll THEN TRUE ELSE TLCSet(2, TRUE)
InitReg == TLCSet(2, FALSE)
ViolationReachable == TLCGet(2) = TRUE
SpecNV == (Init /\ InitReg) /\ [][Next]_vars
(* the premise is satisfiable with these constants, otherwise the check would be vacuous *)
ASSUME DelaysOrdered(IgnoreDelay, DeleteDelay)

(* ---------------- leg B: bucket states for the real fetcher filters ---------------- *)
(* every assignment of <= CaseBlocks blocks: sources, meta.json present or not (partial block), mark age class  *)
CasesFile == IF "VERIF_CASES" \in DOMAIN IOEnv THEN IOEnv.VERIF_CASES ELSE "cases.ndjson"
SrcChoices == (SUBSET (1..2)) \ {{}}
AgeChoices == {NoMark, 0, IgnoreDelay, IgnoreDelay + 1, DeleteDelay + 1}
BlockChoices == { [src |-> s, meta |-> m, age |-> a] : s \in SrcChoices, m \in BOOLEAN, a \in AgeChoices }
RECURSIVE Seqs(_, _)
Seqs(S, n) == IF n = 0 THEN {<<>>} ELSE LET p == Seqs(S, n - 1) IN p \cup { Append(s, x) : s \in { y \in p : Len(y) = n - 1 }, x \in S }
(* all states of <= 2 blocks; states of up to CaseBlocks blocks over the age classes around the ignore delay *)
SmallChoices == { b \in BlockChoices : b.age \in {NoMark, IgnoreDelay, IgnoreDelay + 1} }
CaseStates == (Seqs(BlockChoices, IF CaseBlocks < 2 THEN CaseBlocks ELSE 2) \cup Seqs(SmallChoices, CaseBlocks)) \ {<<>>}
CaseSeq == SetToSeq({ [blocks |-> [k \in DOMAIN s |-> [src |-> SetToSeq(s[k].src), meta |-> s[k].meta, age |-> s[k].age]],
                        ignoreTicks |-> IgnoreDelay, deleteTicks |-> DeleteDelay] : s \in CaseStates })
ASSUME ndJsonSerialize(CasesFile, CaseSeq)
=============================================================================
