------------------------------ MODULE C17Trace ------------------------------
(***************************************************************************)
(* Leg C for C17.  Two kinds of cases in one trace:                        *)
(*  in.kind = "budget"  one line: a Get/Put sequence on a real             *)
(*      BucketedPool[byte] (in.sizes, in.max, in.ops) with the observed    *)
(*      steps[k] = [op, sz, ok, cap, used]; judged with BudgetClauses.     *)
(*  in.kind = "conc"    one line: in.goroutines goroutines doing in.iters   *)
(*      Get(about in.ask)/Put rounds each on one real BucketedPool[byte]   *)
(*      whose budget in.max admits only a few of them at once, the process *)
(*      pinned to one cpu; observed: maxused = largest UsedBytes() seen    *)
(*      by a continuously sampling monitor and after every operation,      *)
(*      maxheld = most bytes held at once (counted by the harness, never   *)
(*      more than really checked out), finalused = UsedBytes() at the end; *)
(*      judged with ConcBudgetClauses.                                     *)
(*  in.kind = "shard"   a header line, then one line per operation on the  *)
(*      ProxyStore's sync.Pool of shard-matcher buffers, reported by the   *)
(*      hooks in ShardInfo.Matcher (after Get) and ShardMatcher.Close      *)
(*      (before Put) during concurrent sharded Series requests:            *)
(*         Get  buf, pool      Put  buf, pool      End                     *)
(*      buf is the identity (pointer) of the buffer.  The spec keeps the   *)
(*      set of buffers currently taken and judges every step with          *)
(*      GetClauses / PutClauses; after a rejected step it follows the      *)
(*      recording so the rest of the case is still examined.               *)
(* Order: a Put is logged before the buffer enters the pool and a Get      *)
(* after it left, so for one buffer the log order is the pool order.       *)
(***************************************************************************)
EXTENDS TraceLib, Pools

VARIABLES l, owned
tvars == <<l, owned>>
TraceInit == l = 1 /\ owned = {}
IsEvent(n) == l <= TraceLen /\ Trace[l].ev = n /\ l' = l + 1

Header == /\ IsEvent("case")
          /\ owned' = {}
          /\ IF Trace[l].in.kind = "budget"
               THEN CaseReject(l, Trace[l], BudgetClauses(Trace[l].in.max, Trace[l].steps))
               ELSE IF Trace[l].in.kind = "conc"
               THEN CaseReject(l, Trace[l], ConcBudgetClauses(Trace[l].in.max, Trace[l].maxused, Trace[l].maxheld, Trace[l].finalused))
               ELSE TRUE
GetEv == /\ IsEvent("Get")
         /\ CaseReject(l, Trace[l], GetClauses(owned, <<Trace[l].pool, Trace[l].buf>>))
         /\ owned' = owned \cup {<<Trace[l].pool, Trace[l].buf>>}
PutEv == /\ IsEvent("Put")
         /\ CaseReject(l, Trace[l], PutClauses(owned, <<Trace[l].pool, Trace[l].buf>>))
         /\ owned' = owned \ {<<Trace[l].pool, Trace[l].buf>>}
EndEv == IsEvent("End") /\ UNCHANGED owned

(* model conformance of (b): the transcription of Get/Put predicts every step *)
RECURSIVE StepsConform(_, _, _, _, _)
StepsConform(sizes, max, steps, k, used) ==
    IF k > Len(steps) THEN TRUE
    ELSE LET s == steps[k] IN
         IF s.op = "get"
           THEN LET r == AlgoGet(sizes, max, used, s.sz) IN
                r.ok = s.ok /\ r.cap = s.cap /\ r.used = s.used /\ StepsConform(sizes, max, steps, k + 1, r.used)
           ELSE AlgoPut(used, s.cap) = s.used /\ StepsConform(sizes, max, steps, k + 1, s.used)
DriftNote == IF l <= TraceLen /\ Trace[l].ev = "case" /\ Trace[l].in.kind = "budget"
                /\ ~StepsConform(Trace[l].in.sizes, Trace[l].in.max, Trace[l].steps, 1, 0)
               THEN PrintT(<<"DRIFT", l, Trace[l]["case"]>>) ELSE TRUE

TraceNext == DriftNote /\ (Header \/ GetEv \/ PutEv \/ EndEv)
TraceSpec == TraceInit /\ [][TraceNext]_tvars
TraceAccepted == TLCGet("stats").diameter = TraceLen + 1
=============================================================================
