\* C20 leg A quick: ring after the addition has <= 6 endpoints (1 section each) or <= 4 endpoints
\* (2 sections each); every section order, rf <= 3, every start section; cases: rings of 1..8 nodes
SPECIFICATION Spec
CONSTANTS MaxN = 6
          SecChoices = {1, 2}
          MaxSecs = 8
          MaxRF = 3
          CaseMaxN = 8
INVARIANT C20_OnlyOntoNew
INVARIANT C20_SameOrder
INVARIANT C20_Function
PROPERTY C20_Terminates
CHECK_DEADLOCK FALSE
