\* C40 leg A quick: encoder cap K = 2; 2 series, each on any non-empty subset of a 5-point grid,
\* stored in one chunk or cut into two (80 chunkings per series; 6 400 pairs + 80 byte-identical
\* pairs); InitPen 1 (model time = downsampling steps)
SPECIFICATION Spec
CONSTANTS InitPen = 1
          K = 2
          Grid = {0, 1, 2, 3, 4}
          NSeries = 2
          MaxLen = 5
          WithCounterInputs = FALSE
INVARIANTS C40_EveryAggregateSampleKept EachChunkComplete NothingInvented ChunksInOrder OnlyDoneIsFinal
CHECK_DEADLOCK FALSE
