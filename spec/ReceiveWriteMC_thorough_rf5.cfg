\* C22 leg A thorough (2): one series rf 5, answers ok/conflict/unavailable/other, timeout at any moment; emits no cases
SPECIFICATION Spec
CONSTANTS RF1 = {5}
          RF2 = {}
          N2 = 3
          Outcomes = {"ok", "conflict", "unavailable", "other"}
          Outcomes2 = {"ok"}
          ReplThresholdIsQuorum = FALSE
          StaleMapReused = FALSE
          WithTimeout = TRUE
          CaseRF1 = {}
          CaseRFLocal = {}
          CaseRF2 = {}
          CaseOutcomes = {"ok", "conflict", "unavailable", "other", "noconn"}
INVARIANTS C22Inv C23Inv OrderIndependent EarlyOnlyWhenDetermined
PROPERTIES Terminates
CHECK_DEADLOCK FALSE
