------------------------------ MODULE C14Trace ------------------------------
(***************************************************************************)
(* Leg C for C14.  The harness runs histories of reads and evictions       *)
(* against a real storecache.CachingBucket over an in-memory bucket and a  *)
(* lossy cache.  Lines:                                                    *)
(*   case   a history without reads (nothing to judge)                     *)
(*   op     one read: op in {getrange, get, exists, attrs, iter}, name,    *)
(*          off, len, read (bytes read from a Get before closing, -1 =     *)
(*          to EOF), rec (recursive Iter);                                 *)
(*          got  = the caching bucket's answer,                            *)
(*          want = the underlying bucket's answer to the same call,        *)
(*          both [kind, n, sha, data, val, names (, msg)]:                 *)
(*            kind  data | notfound | error | bool | attrs | names | panic *)
(*                  | hang (no progress inside the read for 90 s)          *)
(*            n     number of bytes read, sha a digest of them, data the   *)
(*                  bytes themselves when n <= 32 (else <<>>)              *)
(*            val   Exists answer / size@mtime of Attributes, as a string  *)
(*            names the listing, in callback order                         *)
(*          size, S, M, hit (cached subrange starts of the object before   *)
(*          the read), attrhit, breqs (<<off, len>> of the GetRange calls  *)
(*          that reached the underlying bucket), snap (hit/attrhit/breqs   *)
(*          are meaningful: sequential read through the test cache; FALSE  *)
(*          for concurrent reads and for the real in-memory cache          *)
(*          backend): model conformance only.                              *)
(*          The first line of a case also carries in = the world,          *)
(*          configuration and history (for replay).                        *)
(* Every op line is judged on its own with the property-level operator     *)
(* Transparent of CachingBucket.tla.                                       *)
(***************************************************************************)
EXTENDS TraceLib, CachingBucket

(* What an answer consists of for the statement: the kind of outcome and the bytes / value /      *)
(* listing; the wording of an error is not part of it.                                            *)
Ans(a) == [kind |-> a.kind, n |-> a.n, sha |-> a.sha, data |-> a.data, val |-> a.val, names |-> a.names]

(* "every read through the caching bucket (range reads, full reads, existence, attributes,       *)
(* listings) returns the same bytes and answers as the underlying bucket" -- one clause name per *)
(* kind of read.                                                                                  *)
Clause(op) == CASE op = "getrange" -> "range-read-same-bytes-as-bucket"
                [] op = "get" -> "full-read-same-bytes-as-bucket"
                [] op = "exists" -> "existence-same-answer-as-bucket"
                [] op = "attrs" -> "attributes-same-answer-as-bucket"
                [] op = "iter" -> "listing-same-answer-as-bucket"
                [] OTHER -> "same-answer-as-bucket"

Judge(e) == IF e.ev # "op" THEN {}
            ELSE IF Transparent(Ans(e.got), Ans(e.want)) THEN {} ELSE {Clause(e.op)}

(* Model conformance (never a verdict): the sub-requests the algorithm-level model plans for     *)
(* this GetRange, given the cached subranges before the call, against the GetRange calls that    *)
(* reached the bucket.                                                                            *)
Drift(e) == /\ e.ev = "op" /\ e.op = "getrange" /\ e.size >= 0 /\ e.snap /\ e.got.kind \notin {"panic", "hang"}
            /\ LET pred == IF e.off < 0 \/ e.len <= 0 THEN {<<e.off, e.len>>}
                           ELSE PlanReqs(Plan(e.size, e.S, e.M, e.off, e.len, Range(e.hit)), e.off, e.len)
                   obs == { <<e.breqs[i][1], e.breqs[i][2]>> : i \in DOMAIN e.breqs }
               IN pred # obs

VARIABLE l
TraceInit == l = 1
TraceNext == /\ l <= TraceLen
             /\ CaseReject(l, Trace[l], Judge(Trace[l]))
             /\ (IF Drift(Trace[l]) THEN PrintT(<<"DRIFT", l, Trace[l]["case"]>>) ELSE TRUE)
             /\ l' = l + 1
TraceSpec == TraceInit /\ [][TraceNext]_l
TraceAccepted == TLCGet("stats").diameter = TraceLen + 1
=============================================================================
