\* C34 leg A quick: 2 source blocks, up to 2 compactions, delete delay 4 ticks, ignore delay 2 (the ratio of the
\* defaults 48h : 24h), sync lag <= 2 = DeleteDelay - IgnoreDelay (integer time: hidden from age 3, deletable from
\* age 5, so two ticks always contain a sync), 1 gateway, duplicate filter OFF (the delays alone carry the property); all interleavings
SPECIFICATION Spec
CONSTANTS NOrig = 2
          MaxId = 4
          DeleteDelay = 4
          IgnoreDelay = 2
          MaxLag = 2
          Gateways = {"g1"}
          UseDedup = FALSE
          HalfRule = TRUE
          CaseBlocks = 0
INVARIANTS C34_EveryGatewayServesAll C34_SomeGatewayServesAll
CHECK_DEADLOCK FALSE
