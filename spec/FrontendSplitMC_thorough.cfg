\* C41 leg A thorough: start,end in 0..30, step 1..8, interval 1..10 (range) + labels/series ranges;
\* arithmetic = set equivalence over 0..4
SPECIFICATION Spec
CONSTANTS MaxT = 30
          MaxStep = 8
          MaxIv = 10
          DynLevel = 1
          EqT = 4
INVARIANTS C41_RangeExactlyOnce C41_RangeAligned C41_WellFormed C41_MetaCovers FunctionalFormAgrees ArithAgreesOnOutput C41_NotStuck C41_DynIntervalSane
PROPERTIES C41_Progress
CHECK_DEADLOCK FALSE
