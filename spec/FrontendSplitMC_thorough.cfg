\* C41 leg A thorough: start,end in 0..40, step 1..9, interval 1..12 (range) + labels/series ranges;
\* arithmetic = set equivalence over 0..5
SPECIFICATION Spec
CONSTANTS MaxT = 40
          MaxStep = 9
          MaxIv = 12
          EqT = 5
INVARIANTS C41_RangeExactlyOnce C41_RangeAligned C41_WellFormed C41_MetaCovers FunctionalFormAgrees ArithAgreesOnOutput C41_NotStuck
PROPERTIES C41_Progress
CHECK_DEADLOCK FALSE
