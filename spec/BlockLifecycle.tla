--------------------------- MODULE BlockLifecycle ---------------------------
(***************************************************************************)
(* Blocks in object storage: the bucket / object model shared by the       *)
(* block-lifecycle properties C28, C31, C32, C33, C35 (and used by the     *)
(* compaction properties), with                                            *)
(*   - PROPERTY-LEVEL operators: what the property statements demand,      *)
(*     written from the statements (used by the MC modules as invariants   *)
(*     and by the trace specs C28Trace ... C35Trace as the only source of  *)
(*     verdicts), and                                                      *)
(*   - ALGORITHM-LEVEL operators: transcriptions of what the thanos code   *)
(*     does (pkg/block/block.go, pkg/block/fetcher.go,                     *)
(*     pkg/shipper/shipper.go, pkg/replicate/scheme.go,                    *)
(*     pkg/compact/{retention,blocks_cleaner,clean}.go), used by the MC    *)
(*     modules as the checked algorithm and by the trace specs for the     *)
(*     informational DRIFT report only.                                    *)
(*                                                                         *)
(* Bucket model.  A bucket is a set of objects [b, f, s]: b the block the  *)
(* object belongs to (directory = block id), f the file path inside the    *)
(* block directory, s the size in bytes.  Uploading and deleting ONE       *)
(* object is atomic; nothing else is.  A crash leaves the bucket exactly   *)
(* as the last completed object operation left it.                         *)
(***************************************************************************)
EXTENDS Integers, Sequences, FiniteSets

MetaF == "meta.json"
MarkF == "deletion-mark.json"
IndexF == "index"

BLRange(s) == { s[i] : i \in DOMAIN s }

HasObj(objs, b, f) == \E o \in objs : o.b = b /\ o.f = f
HasObjSized(objs, b, f, s) == \E o \in objs : o.b = b /\ o.f = f /\ o.s = s
BlocksIn(objs) == { o.b : o \in objs }
ObjsOf(objs, b) == { o \in objs : o.b = b }

(***************************************************************************)
(* ------------------------- C28, property level ------------------------- *)
(* "a block whose meta.json is present in the bucket has all the index and *)
(*  chunk files that meta.json lists with their recorded sizes"            *)
(* listed = the entries [b, f, s] of the meta.json objects currently in    *)
(* the bucket (meta.json's own entry carries no size and is left out).     *)
(* The operator yields the blocks that violate the sentence.               *)
(***************************************************************************)
C28_Incomplete(objs, listed) ==
    { x.b : x \in { y \in listed : HasObj(objs, y.b, MetaF) /\ ~HasObjSized(objs, y.b, y.f, y.s) } }

(* A block is complete: meta.json present and everything it lists present. *)
BlockComplete(objs, listed, b) == HasObj(objs, b, MetaF) /\ b \notin C28_Incomplete(objs, listed)

(***************************************************************************)
(* "a block whose deletion was started but not finished keeps its deletion *)
(*  mark until all other files are gone"                                   *)
(* Deletion of b has started once an object of b was deleted; the clause   *)
(* speaks about blocks that carried a deletion mark when that happened.    *)
(* delMarked = set of such blocks whose deletion is not finished.          *)
(***************************************************************************)
OtherFilesRemain(objs, b) == \E o \in objs : o.b = b /\ o.f # MarkF
C28_MarkLost(objs, delMarked) == { b \in delMarked : OtherFilesRemain(objs, b) /\ ~HasObj(objs, b, MarkF) }
(* delMarked after an object of block b was deleted (prev = bucket before, objs = after);   *)
(* a block none of whose objects remain is finished.                                        *)
DelMarkedAfterDelete(delMarked, prev, objs, b) ==
    { x \in (IF HasObj(prev, b, MarkF) THEN delMarked \cup {b} ELSE delMarked) : x \in BlocksIn(objs) }

(***************************************************************************)
(* ------------------------ C28, algorithm level ------------------------- *)
(* Order constraints of the procedures as the code has them today          *)
(* (block.upload: chunks, index, meta.json last; replication the same;     *)
(* block.Delete: meta.json first, deletion-mark.json last).  files = the   *)
(* data files (index + segments) of block b, as [b, f, s] records.         *)
(* Used for DRIFT only.                                                    *)
(***************************************************************************)
AlgoUploadStepOK(prev, files, b, f) ==
    CASE f = MetaF  -> \A x \in files : HasObjSized(prev, x.b, x.f, x.s)
      [] f = IndexF -> \A x \in files : x.f = IndexF \/ HasObjSized(prev, x.b, x.f, x.s)
      [] OTHER      -> TRUE
AlgoDeleteStepOK(prev, b, f) ==
    CASE f = MetaF -> TRUE
      [] f = MarkF -> ~\E o \in prev : o.b = b /\ o.f # MarkF
      [] OTHER     -> ~HasObj(prev, b, MetaF)

(***************************************************************************)
(* ------------------------- C35, property level ------------------------- *)
(* A local block is [b, level, empty, files] (files = its data files on    *)
(* disk as [b, f, s]).  "every local non-empty block that is eligible for  *)
(* upload": non-empty, and of compaction level 1 unless uploading of       *)
(* compacted blocks is enabled.                                            *)
(***************************************************************************)
C35_Eligible(blk, uploadCompacted) == ~blk.empty /\ (blk.level <= 1 \/ uploadCompacted)

(* "is present in the bucket with all its files and the current external labels": meta.json     *)
(* present, every file meta.json lists present (C28), every data file of the local block        *)
(* present with its size, and every current external label [n, v] in the uploaded meta.json     *)
(* (blabels = label entries [b, n, v] of the meta.json objects in the bucket).                  *)
C35_Shipped(blk, objs, listed, blabels, cur) ==
    /\ BlockComplete(objs, listed, blk.b)
    /\ \A x \in blk.files : HasObjSized(objs, blk.b, x.f, x.s)
    /\ \A lab \in cur : \E y \in blabels : y.b = blk.b /\ y.n = lab.n /\ y.v = lab.v
(* "After a successful shipper sync ...": the local blocks violating the sentence *)
C35_NotShipped(locals, uploadCompacted, objs, listed, blabels, cur) ==
    { blk.b : blk \in { x \in locals : C35_Eligible(x, uploadCompacted) /\ ~C35_Shipped(x, objs, listed, blabels, cur) } }

(* "the shipper never records as uploaded a block that was not seen complete in the bucket":    *)
(* everComplete = blocks that were complete in the bucket at some earlier moment.               *)
C35_RecordedUnseen(uploaded, everComplete) == uploaded \ everComplete
CompleteBlocks(objs, listed) == { b \in BlocksIn(objs) : BlockComplete(objs, listed, b) }

(* ---------------- C35 extension (phase 2): removal of local data ----------------------------- *)
(* The receiver's MultiTSDB removes local data in two ways, both guarded only by the shipper     *)
(* file: pruning an idle tenant removes the tenant's whole directory; the local TSDB retention   *)
(* deletes old local blocks.  Composed with "the shipper never records as uploaded a block that  *)
(* was not seen complete in the bucket" this must give: local data is removed only after it was  *)
(* shipped.                                                                                      *)
(* Pruning: every non-empty block [b, level, empty, files] the directory held must be in the     *)
(* bucket, complete, with the tenant's external labels, when the directory goes away.            *)
C35_PrunedUnshipped(blocks, objs, listed, blabels, cur) == C35_NotShipped(blocks, TRUE, objs, listed, blabels, cur)
(* Local retention: a non-empty local block that disappeared must have been seen complete.       *)
C35_LocalGoneUnseen(gone, everComplete) == gone \ everComplete

(* ------------------------ C35, algorithm level -------------------------- *)
(* What Shipper.Sync writes into thanos.shipper.json when it returns nil: the local blocks it    *)
(* uploaded or found in the bucket (= the eligible ones) and the local blocks it had recorded    *)
(* before.  Used for DRIFT only.                                                                  *)
AlgoShipperFile(locals, uploadCompacted, before) ==
    { x.b : x \in { y \in locals : C35_Eligible(y, uploadCompacted) \/ y.b \in before } }

(***************************************************************************)
(* ------------------------- C31, property level ------------------------- *)
(* A block meta is [id, src, grp]: id (distinct; the ULID order is the     *)
(* order of ids), src = set of source blocks it was built from, grp = its  *)
(* compaction group (resolution + external labels).  all = the metas given *)
(* to the duplicate filter, keptIds = ids it left.                         *)
(* "hides a block only if another block kept in the same compaction group  *)
(*  was built from all of the hidden block's sources"                      *)
(***************************************************************************)
C31_Covered(b, kept) == \E k \in kept : k.id # b.id /\ k.grp = b.grp /\ b.src \subseteq k.src
C31_KeptOf(all, keptIds) == { k \in all : k.id \in keptIds }
C31_HiddenUncovered(all, keptIds) ==
    { b.id : b \in { x \in all : x.id \notin keptIds /\ ~C31_Covered(x, C31_KeptOf(all, keptIds)) } }
(* "the kept blocks together still cover every source" (per group: groups never share data) *)
C31_SourcesOf(S) == UNION { b.src : b \in S }
C31_SourcesLost(all, keptIds) ==
    { g \in { b.grp : b \in all } :
        C31_SourcesOf({ b \in all : b.grp = g }) # C31_SourcesOf({ b \in C31_KeptOf(all, keptIds) : b.grp = g }) }

(* ------------------------ C31, algorithm level -------------------------- *)
(* DefaultDeduplicateFilter.filterGroup: sort by number of sources descending, then by ULID;     *)
(* walk the list keeping a covering set; a block whose sources are contained in the sources of   *)
(* a member of the covering set is a duplicate, otherwise it joins the covering set.             *)
C31_Before(a, b) == Cardinality(a.src) > Cardinality(b.src) \/ (Cardinality(a.src) = Cardinality(b.src) /\ a.id < b.id)
C31_First(S) == CHOOSE x \in S : \A y \in S \ {x} : C31_Before(x, y)
RECURSIVE AlgoCoverFold(_, _)
AlgoCoverFold(rest, cover) ==
    IF rest = {} THEN cover
    ELSE LET c == C31_First(rest) IN
         AlgoCoverFold(rest \ {c}, IF \E p \in cover : c.src \subseteq p.src THEN cover ELSE cover \cup {c})
AlgoDedupKeptIds(all) ==
    UNION { { k.id : k \in AlgoCoverFold({ b \in all : b.grp = g }, {}) } : g \in { b.grp : b \in all } }

(***************************************************************************)
(* ------------------------- C33, property level ------------------------- *)
(* "If reading any block's metadata or markers fails in a sync, the        *)
(*  compactor neither compacts, marks nor deletes any block in that        *)
(*  iteration."                                                            *)
(* Events: Iter (a compactor iteration begins), SyncBegin / SyncEnd (one   *)
(* sync of the block view), ReadFail (a bucket read failed; insync = it    *)
(* happened inside a sync), Mut (a mutating bucket call; ok = it changed   *)
(* the bucket).  dirty = a read failed in the latest sync and no new sync  *)
(* or iteration has begun since.  Weakest reading: a later sync that       *)
(* starts afresh (or the next iteration) lifts the ban.                    *)
(***************************************************************************)
C33_DirtyAfter(dirty, e) ==
    CASE e.ev = "Iter" \/ e.ev = "SyncBegin" -> FALSE
      [] e.ev = "ReadFail" -> (dirty \/ e.insync)
      [] OTHER -> dirty
C33_Forbidden(dirty, e) == dirty /\ e.ev = "Mut" /\ e.ok

(***************************************************************************)
(* ------------------------- C32, property level ------------------------- *)
(* Times are integer milliseconds.  A block holds samples in               *)
(* [MinTime, MaxTime), so its newest possible sample is at MaxTime - 1.    *)
(* "Retention marks a block for deletion only when its newest sample is    *)
(*  older than the retention configured for its resolution": with age =    *)
(* now - MaxTime, the newest sample is older than ret iff age + 1 > ret;   *)
(* ret = 0 means retention is disabled for that resolution (never mark).   *)
(***************************************************************************)
C32_RetentionMayMark(age, ret) == ret > 0 /\ age + 1 > ret
(* "the cleaner removes only blocks whose deletion mark is older than the delete delay": markAge = now minus the   *)
(* (second-granular) DeletionTime the mark records, in ms (weakest reading, DESIGN 2.2)                           *)
C32_CleanerMayDelete(markAge, delay) == markAge > delay
(* "partial uploads are removed only after they have been untouched for the abort threshold and only if they are   *)
(*  not already scheduled for deletion": untouched = time since the newest modification of any of its objects       *)
C32_PartialMayRemove(untouched, threshold, marked) == untouched >= threshold /\ ~marked

(* ------------------------ C32, algorithm level -------------------------- *)
(* retention.go (after the fix of the second-truncation): now.After(MaxTime + ret), ret.Seconds() = 0 skips        *)
AlgoRetentionMarks(age, ret) == ret # 0 /\ age > ret
(* retention.go before the fix: MaxTime truncated to whole seconds (sec = ms per second); kept for the record and   *)
(* for the non-vacuity check of the model: maxT, now absolute                                                      *)
AlgoRetentionMarksTruncating(now, maxT, ret, sec) == ret # 0 /\ now > (maxT \div sec) * sec + ret
(* blocks_cleaner.go: time.Since(time.Unix(DeletionTime, 0)).Seconds() > deleteDelay.Seconds() *)
AlgoCleanerDeletes(markAge, delay) == markAge > delay
(* clean.go: skip when marked; skip when time.Since(lastModified) <= PartialUploadThresholdAge *)
AlgoPartialRemoves(untouched, threshold, marked) == ~marked /\ untouched > threshold

=============================================================================
