\* C03 leg A quick: 2 stores, <= 2 frames per store, <= 3 frames in all; frames: 2 label sets (replica label in the
\* middle) x 3 chunk lists (raw, aggregated, none), or a hints message; lazy and eager; response batch 2
SPECIFICATION Spec
CONSTANTS NStores = 2
          MaxPerStore = 2
          MaxTotal = 3
          NLsets = 2
          NChunkLists = 3
          NNonSeries = 1
          Eager = {FALSE, TRUE}
          RespBatch = {2}
          CaseStores = 2
          CasePerStore = 2
          CaseTotal = 3
          CaseStride = 4
INVARIANTS C03_Response C03_EmittedIsFinal C03_Batching C03_TieIndependent C03_NonSeriesCarried
PROPERTY C03_Progresses
CHECK_DEADLOCK TRUE
