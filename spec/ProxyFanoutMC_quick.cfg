\* C03 leg A quick: 2 stores, <= 2 frames per store, <= 3 frames in all, 2 label sets (replica label in the
\* middle), 4 chunk lists (raw, aggregated, none, aggregated sharing a sub-chunk), response batch 0 and 2
SPECIFICATION Spec
CONSTANTS NStores = 2
          MaxPerStore = 2
          MaxTotal = 3
          NLsets = 2
          NChunkLists = 4
          RespBatch = {0, 2}
          CaseStores = 2
          CasePerStore = 2
          CaseTotal = 3
          CaseStride = 4
INVARIANTS C03_Response C03_EmittedIsFinal C03_Batching C03_TieIndependent
PROPERTY C03_Progresses
CHECK_DEADLOCK TRUE
