------------------------ MODULE DownsampleBatchingMC ------------------------
(***************************************************************************)
(* Leg A for C38 (and C37), second model: how downsampleAggrLoop cuts MANY *)
(* input aggregate chunks into batches.  The input is a series of n 5 m    *)
(* chunks (one sample each, all different, so that losing or repeating any *)
(* chunk changes the totals), n = 1..MaxChunks; numChunks in Counts        *)
(* (<= n); the coarser window holds W input samples, W in Widths, so parts *)
(* cut windows in every possible way.  One step per loop iteration:        *)
(*     batchSize = len(chks) / numChunks          (integer division)       *)
(*     j = min(batchSize, len(rest)); part = rest[:j]; rest = rest[j:]     *)
(* so len = q * batchSize + rem with every remainder 0 <= rem < batchSize  *)
(* enumerated (a short tail batch exists whenever rem > 0).                *)
(* Checked: every input chunk belongs to exactly one batch; totals of the  *)
(* consumed chunks are conserved after every step; output timestamps       *)
(* ascend, stay inside the input span and the last output lies in the      *)
(* window of the last input sample.                                        *)
(***************************************************************************)
EXTENDS Downsample, TLC, Json, IOUtils, SequencesExt

CONSTANTS MaxChunks, Counts, Widths

VARIABLES n, nc, w, pc, rest, done, batches, c2
vars == <<n, nc, w, pc, rest, done, batches, c2>>

(* input chunk k: one sample at t = k-1 standing for k raw samples with sum 2k+1, min k, max  *)
(* 3k of a counter whose raw value is k throughout the chunk                                   *)
InChunk(k) == [mint |-> k - 1, maxt |-> k - 1, ts |-> <<k - 1>>, cnt |-> <<k>>, sum |-> <<2 * k + 1>>,
               min |-> <<k>>, max |-> <<3 * k>>, cts |-> <<k - 1, k - 1, k - 1>>, cvs |-> <<k, k, k>>]
Input == [k \in 1..n |-> InChunk(k)]

Init ==
    /\ n \in 1..MaxChunks /\ nc \in Counts /\ nc <= n /\ w \in Widths
    /\ pc = "loop" /\ rest = Input /\ done = 0 /\ batches = <<>> /\ c2 = <<>>

BatchSize == n \div nc

(* one iteration of `for len(chks) > 0`  *)
AggrPart ==
    /\ pc = "loop" /\ rest # <<>>
    /\ LET j == Min2(BatchSize, Len(rest)) IN
       /\ c2' = Append(c2, AggrPartChunk(SubSeq(rest, 1, j), w))
       /\ batches' = Append(batches, (done + 1)..(done + j))
       /\ done' = done + j
       /\ rest' = SubSeq(rest, j + 1, Len(rest))
    /\ UNCHANGED <<n, nc, w, pc>>

Finish ==
    /\ pc = "loop" /\ rest = <<>>
    /\ pc' = "done"
    /\ UNCHANGED <<n, nc, w, rest, done, batches, c2>>

Done == pc = "done" /\ UNCHANGED vars
Next == AggrPart \/ Finish \/ Done
Spec == Init /\ [][Next]_vars

(* ---- properties ---- *)
(* every input chunk belongs to exactly one batch  *)
BatchesDisjoint == \A a, b \in DOMAIN batches : a # b => batches[a] \cap batches[b] = {}
BatchesNonEmpty == \A a \in DOMAIN batches : batches[a] # {}
BatchesCoverAll == pc = "done" => UNION { batches[a] : a \in DOMAIN batches } = 1..n
BatchesConsecutive == UNION { batches[a] : a \in DOMAIN batches } = 1..done
(* C38 after every step, against the chunks consumed so far  *)
C38_TotalsConserved == TotalsConserved(SubSeq(Input, 1, done), c2)
C38_AllConsumed == pc = "done" => done = n /\ TotalsConserved(Input, c2)
C38_Ordered == OutputsOrdered(c2)
C38_WithinSpan == pc = "done" => OutputsWithin(c2, 0, n - 1)
C38_LastWindow == pc = "done" => LastWindowHasOutput(Input, c2, w)
(* C37: the counter read through the reset-applying iterator is the raw value (no resets here) *)
C37_Counter == LET em == CounterIter(c2) IN
               \A i \in DOMAIN em.ts : em.ts[i] <= done - 1 /\ em.vs[i] = em.ts[i] + 1
L2ChunksOrdered == ChunksOrdered(c2)
(* number of output chunks: q full batches plus a tail batch when there is a remainder  *)
OutputCount == pc = "done" => Len(c2) = (n \div BatchSize) + (IF n % BatchSize = 0 THEN 0 ELSE 1)
StepsAgreeWithAlgo == pc = "done" => c2 = AlgoAggr(Input, w, nc)

Progress == pc # "done" => Len(rest') < Len(rest) \/ pc' = "done"
AlwaysProgress == [][Progress]_vars      \* with deadlock checking on: termination

(* ---- leg B: every (number of input chunks, numChunks) pair goes to the harness ---- *)
CasesFile == IF "VERIF_CASES" \in DOMAIN IOEnv THEN IOEnv.VERIF_CASES ELSE "cases.ndjson"
CaseSeq == SetToSeq(UNION { { [n |-> a, nc2 |-> b] : b \in { c \in Counts : c <= a } } : a \in 1..MaxChunks })
ASSUME ndJsonSerialize(CasesFile, CaseSeq)
=============================================================================
