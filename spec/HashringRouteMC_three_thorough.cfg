\* C27 leg A thorough (2): lists of <= 3 hashrings; patterns of length 1 over {a,b,*,?}, exact or glob;
\* tenants over {a,b} of length <= 2; 2 concurrent requests
SPECIFICATION Spec
CONSTANTS Alphabet = {"a", "b", "*", "?"}
          Letters = {"a", "b"}
          MaxPatLen = 1
          MaxEntries = 3
          Procs = {1, 2}
INVARIANT C27_Routed
INVARIANT C27_FirstInOrder
INVARIANT C27_CacheSound
CHECK_DEADLOCK FALSE
