\* C07/C08 leg A quick: stored names {a,b} x value {x}, <=1 series; external labels over {a,r} with
\* values {x,e} (a="x" collides with equal value, a="e" with a different one); replica lists over
\* {a,r}; <=1 matcher over {a,b,r} of all four types; one slot, one time range; one block; all five
\* store kinds (sidecar with two option sets, receiver with tenants x,e and tenant label r).
SPECIFICATION Spec
CONSTANTS SNames = {"a", "b"}
          SVals = {"x"}
          ENames = {"a", "r"}
          EVals = {"x", "e"}
          RNames = {"a", "r"}
          MNames = {"a", "b", "r"}
          MVals = {"x"}
          AltSeqs <- MC_AltOne
          MaxSeries = 1
          MaxMatchers = 1
          SlotSets = {{0}}
          Ranges <- MC_OneRange
          TwoBlocks = FALSE
          W = 7200000
          KindSet = {"tsdb", "bucket", "proxy", "prom", "recv"}
          PromOpts <- MC_PromOptsTwo
          TLabel = "r"
          TenantIds = {"x", "e"}
INVARIANTS C08_ExtLabelsOverride C08_ContradictionEmpty C08_AllContradictedNothing C08_PresentRefines
           C07_Covered C07_ReplicaLabelsDropped
CHECK_DEADLOCK FALSE
