\* C40 leg A thorough, known finding: inputs shaped like real counter aggregates (extra leading raw
\* sample) are generated and excluded by the constraint NotKnownFindingCase (6 400 of 12 880 inputs);
\* dropping the CONSTRAINT line makes TLC report C40_EveryAggregateSampleKept violated.
SPECIFICATION Spec
CONSTANTS InitPen = 1
          K = 2
          Grid = {0, 1, 2, 3, 4}
          NSeries = 2
          MaxLen = 5
          WithCounterInputs = TRUE
CONSTRAINT NotKnownFindingCase
INVARIANTS C40_EveryAggregateSampleKept EachChunkComplete NothingInvented ChunksInOrder
CHECK_DEADLOCK FALSE
