----------------------------- MODULE LazyHeaderMC -----------------------------
(***************************************************************************)
(* Leg A for C16: the RWMutex protocol of LazyBinaryReader with all        *)
(* interleavings of reader calls, idle sweeps and Close.                   *)
(*                                                                         *)
(* RWMutex = number of read-lock holders rc + write-lock holder w; a       *)
(* pending Lock blocks new RLocks (Go's writer preference) through the set *)
(* ww of waiting writers.  One action per lock operation / critical        *)
(* section of the code:                                                    *)
(*                                                                         *)
(*  reader call   rlock -> check -> (use | runlock -> lock -> (waited |    *)
(*                load) -> unlock -> rlock2 -> recheck2 -> (use | fail)) -> *)
(*                use -> work -> runlock_end                               *)
(*  sweep/close   lock -> decide (loaded and idle: close it) -> unlock     *)
(***************************************************************************)
EXTENDS LazyHeader, TLC, Json, IOUtils, SequencesExt
CONSTANTS Readers, Calls,       \* reader processes, calls per reader
          Sweeps,               \* idle sweeps of the pool goroutine
          Closers,              \* processes calling Close once (0 or 1 element)
          LoadMayFail,          \* NewBinaryReader may fail (readerErr is then sticky)
          HoldAnswers           \* model the caller reading an answer that aliases the header after the call

Sweeper == "sweeper"
Procs == Readers \cup Closers \cup {Sweeper}

VARIABLES rc, w, ww,            \* RWMutex
          loaded, err, nextGen, \* r.reader (gen or None), r.readerErr, number of loads so far
          closed,               \* gens whose BinaryReader was closed
          pc, left,             \* per process: program counter, calls / sweeps left
          using,                \* per reader: the gen it is using (local copy of r.reader)
          results               \* per reader: outcomes of finished calls ("ok" | "error")
vars == <<rc, w, ww, loaded, err, nextGen, closed, pc, left, using, results>>

Init == /\ rc = 0 /\ w = "" /\ ww = {}
        /\ loaded = None /\ err = FALSE /\ nextGen = 1 /\ closed = {}
        /\ pc = [p \in Procs |-> "idle"]
        /\ left = [p \in Procs |-> IF p \in Readers THEN Calls ELSE IF p = Sweeper THEN Sweeps ELSE 1]
        /\ using = [p \in Readers |-> None]
        /\ results = [p \in Readers |-> <<>>]

Goto(p, l) == pc' = [pc EXCEPT ![p] = l]

(* ---- RWMutex ---- *)
RLock(p, from, to) == /\ pc[p] = from /\ w = "" /\ ww = {}
                      /\ rc' = rc + 1 /\ Goto(p, to) /\ UNCHANGED <<w, ww>>
RUnlock(p, from, to) == /\ pc[p] = from /\ rc' = rc - 1 /\ Goto(p, to) /\ UNCHANGED <<w, ww>>
(* Lock: announce (blocks new readers), then acquire when no holder is left *)
LockWait(p, from, to) == /\ pc[p] = from /\ ww' = ww \cup {p} /\ Goto(p, to) /\ UNCHANGED <<rc, w>>
LockAcq(p, from, to) == /\ pc[p] = from /\ rc = 0 /\ w = ""
                        /\ w' = p /\ ww' = ww \ {p} /\ Goto(p, to) /\ UNCHANGED rc
Unlock(p, from, to) == /\ pc[p] = from /\ w = p /\ w' = "" /\ Goto(p, to) /\ UNCHANGED <<rc, ww>>

hdr == <<loaded, err, nextGen, closed>>
mtx == <<rc, w, ww>>

Finish(p, outcome) == /\ results' = [results EXCEPT ![p] = Append(@, outcome)]
                      /\ left' = [left EXCEPT ![p] = @ - 1]

(* ---- one Reader call (PostingsOffsets, LabelValues, ...) ---- *)
Reader(p) ==
    \/ /\ left[p] > 0 /\ RLock(p, "idle", "check") /\ UNCHANGED <<hdr, left, using, results>>
    \/ /\ pc[p] = "check"                                   \* load(): fast path under the read lock
       /\ IF loaded # None THEN Goto(p, "use")
          ELSE IF err THEN Goto(p, "fail")
          ELSE Goto(p, "upgrade")
       /\ UNCHANGED <<mtx, hdr, left, using, results>>
    \/ /\ RUnlock(p, "upgrade", "lockw") /\ UNCHANGED <<hdr, left, using, results>>
    \/ /\ LockWait(p, "lockw", "locka") /\ UNCHANGED <<hdr, left, using, results>>
    \/ /\ LockAcq(p, "locka", "load") /\ UNCHANGED <<hdr, left, using, results>>
    \/ /\ pc[p] = "load" /\ (loaded # None \/ err)          \* WAITER path: somebody else loaded (or failed)
       /\ Goto(p, "waited")                                 \* while this call waited for the write lock;
       /\ UNCHANGED <<mtx, hdr, left, using, results>>      \* it returns without loading ...
    \/ /\ pc[p] = "waited"                                  \* ... through the same deferred Unlock / RLock /
       /\ Goto(p, "unlockw")                                \* re-check as the loader (an unload may land in
       /\ UNCHANGED <<mtx, hdr, left, using, results>>      \* the gap of the waiter just as well)
    \/ /\ pc[p] = "load" /\ loaded = None /\ ~err           \* LOADER path: NewBinaryReader
       /\ \/ loaded' = nextGen /\ nextGen' = nextGen + 1 /\ UNCHANGED <<err, closed>>
          \/ LoadMayFail /\ err' = TRUE /\ UNCHANGED <<loaded, nextGen, closed>>
       /\ Goto(p, "unlockw") /\ UNCHANGED <<mtx, left, using, results>>
    \/ /\ Unlock(p, "unlockw", "rlock2") /\ UNCHANGED <<hdr, left, using, results>>
    \/ /\ RLock(p, "rlock2", "recheck") /\ UNCHANGED <<hdr, left, using, results>>
    \/ /\ pc[p] = "recheck"                                 \* the deferred re-check after the lock upgrade
       /\ IF err THEN Goto(p, "fail")
          ELSE IF loaded = None THEN Goto(p, "fail")        \* errUnloadedWhileLoading
          ELSE Goto(p, "use")
       /\ UNCHANGED <<mtx, hdr, left, using, results>>
    \/ /\ pc[p] = "use"                                     \* r.reader is read: the call starts using it
       /\ using' = [using EXCEPT ![p] = loaded]
       /\ Goto(p, "work") /\ UNCHANGED <<mtx, hdr, left, results>>
    \/ /\ pc[p] = "work"                                    \* BinaryReader.X() reads the mmap
       /\ Goto(p, "endok") /\ UNCHANGED <<mtx, hdr, left, using, results>>
    \/ /\ ~HoldAnswers /\ RUnlock(p, "endok", "idle") /\ Finish(p, "ok")
       /\ using' = [using EXCEPT ![p] = None] /\ UNCHANGED hdr
    \/ /\ HoldAnswers /\ RUnlock(p, "endok", "hold")       \* the call returned; its answer still aliases
       /\ UNCHANGED <<hdr, left, using, results>>          \* the header's mmap (LabelValues, LookupSymbol)
    \/ /\ pc[p] = "hold"                                    \* the caller reads the answer
       /\ Goto(p, "idle") /\ Finish(p, "ok")
       /\ using' = [using EXCEPT ![p] = None] /\ UNCHANGED <<mtx, hdr>>
    \/ /\ RUnlock(p, "fail", "idle") /\ Finish(p, "error") /\ UNCHANGED <<hdr, using>>

(* ---- unloadIfIdleSince(ts): sweeper (ts > 0: only when idle) and Close (ts = 0) ---- *)
Unloader(p) ==
    \/ /\ left[p] > 0 /\ LockWait(p, "idle", "locka") /\ UNCHANGED <<hdr, left, using, results>>
    \/ /\ LockAcq(p, "locka", "decide") /\ UNCHANGED <<hdr, left, using, results>>
    \/ /\ pc[p] = "decide"
       /\ \/ /\ loaded # None                               \* idle (or Close): close and forget
             /\ closed' = closed \cup {loaded} /\ loaded' = None /\ UNCHANGED <<err, nextGen>>
          \/ /\ loaded = None \/ p = Sweeper                \* already unloaded / not idle
             /\ UNCHANGED hdr
       /\ Goto(p, "unlockw") /\ UNCHANGED <<mtx, left, using, results>>
    \/ /\ Unlock(p, "unlockw", "idle") /\ left' = [left EXCEPT ![p] = @ - 1]
       /\ UNCHANGED <<hdr, using, results>>

AllDone == \A p \in Procs : pc[p] = "idle" /\ left[p] = 0
Next == (\E p \in Readers : Reader(p)) \/ (\E p \in Closers \cup {Sweeper} : Unloader(p))
        \/ (AllDone /\ UNCHANGED vars)
Spec == Init /\ [][Next]_vars
FairSpec == Spec /\ (\A p \in Readers : SF_vars(Reader(p)))
                 /\ (\A q \in Closers \cup {Sweeper} : SF_vars(Unloader(q)))

(* ---- C16 ---- *)
InUse == [g \in 1..(nextGen - 1) |-> Cardinality({ p \in Readers : pc[p] \in {"work", "endok"} /\ using[p] = g })]
(* a call starts using only the loaded, open header, and holds the read lock while using it *)
UseOnlyLoadedOpen == \A p \in Readers : pc[p] = "use" => UseOK(loaded, loaded, closed) /\ rc > 0 /\ w = ""
(* never answers from a closed header *)
NeverUseClosed == \A p \in Readers : pc[p] \in {"work", "endok"} => using[p] # None /\ using[p] \notin closed
ClosedOnlyUnused == \A g \in closed : CloseOK(g, InUse)
(* KNOWN FINDING (key aliased-answer-after-unload): LabelValues / LookupSymbol answers alias the    *)
(* mmapped header and are read by the caller after the read lock is released; this invariant is    *)
(* FALSE in the model with HoldAnswers = TRUE (LazyHeaderMC_alias.cfg, not part of the check) and  *)
(* is the class the harness tags; the configurations of the check use HoldAnswers = FALSE, i.e.    *)
(* they prove the protocol for everything but the lifetime of aliasing answers.                    *)
HeldAnswersReadable == \A p \in Readers : pc[p] = "hold" => using[p] \notin closed
(* every call returns the loaded answer or a clean error *)
CleanResults == \A p \in Readers : \A j \in 1..Len(results[p]) : results[p][j] \in {"ok", "error"}
MutexOK == rc >= 0 /\ (w # "" => rc = 0)
(* all calls, sweeps and Close terminate (no deadlock through the lock upgrade) *)
Terminates == <>AllDone

(* ---- leg B: scenario shapes for the concurrent driver of the real LazyBinaryReader ---- *)
CasesFile == IF "VERIF_CASES" \in DOMAIN IOEnv THEN IOEnv.VERIF_CASES ELSE "cases.ndjson"
CaseSet == { [readers |-> r, calls |-> c, sweeps |-> s, closer |-> cl] :
               r \in 1..Cardinality(Readers), c \in 1..Calls, s \in 0..Sweeps, cl \in BOOLEAN }
ASSUME ndJsonSerialize(CasesFile, SetToSeq(CaseSet))
=============================================================================
