--------------------------- MODULE HashringShardMC ---------------------------
(***************************************************************************)
(* Leg A for C21 "shuffle-sharded tenants get stable, correctly sized      *)
(* sub-rings".  Two phases.                                                *)
(*                                                                         *)
(* Phase "select" is getTenantShard (pkg/receive/hashring.go), one action  *)
(* per iteration of its loops: the zones are processed in ANY order (Go    *)
(* map iteration), for each zone `take` picks are made, each pick draws a  *)
(* pseudo-random ring position (uninterpreted: any position; recorded in   *)
(* `drawn`) and walks the zone's sections to the first endpoint not yet    *)
(* selected.  Init enumerates zone layouts, the section order of each      *)
(* zone's ring (s sections per endpoint), and the shard size.  With zone   *)
(* awareness disabled the code treats all endpoints as one zone: that is   *)
(* the one-zone layout here.                                               *)
(*                                                                         *)
(* Phase "serve" is getTenantShardCached: an LRU cache of CacheCap entries *)
(* in front of the computation, two tenants, any request sequence.         *)
(***************************************************************************)
EXTENDS Hashring, TLC, Json, IOUtils, SequencesExt
CONSTANTS MaxN, MaxZones, SecChoices, MaxSecs, MaxSize, MaxTake, CacheCap, MaxReqs, CaseMaxN

VARIABLES az, zring, size, take,             \* configuration (fixed after Init)
          phase, todo, cur, i, p, j, sel,    \* loops of getTenantShard
          final, drawn,                      \* result so far; positions drawn per zone
          cache, lastReq, lastAns, nreq      \* getTenantShardCached
vars == <<az, zring, size, take, phase, todo, cur, i, p, j, sel, final, drawn, cache, lastReq, lastAns, nreq>>
cfgv == <<az, zring, size, take>>
cachev == <<cache, lastReq, lastAns, nreq>>

NodesIn(a, z) == { k \in DOMAIN a : a[k] = z }
(* ring orders of one zone: every endpoint s times, endpoints named in first-appearance order *)
FirstAt(r, k) == HMin({ q \in DOMAIN r : r[q] = k })
ZRings(N, s) == { r \in [1..(Cardinality(N) * s) -> N] :
                    /\ \A k \in N : Cardinality({ q \in DOMAIN r : r[q] = k }) = s
                    /\ \A k1, k2 \in N : k1 < k2 => FirstAt(r, k1) < FirstAt(r, k2) }

Init ==
    /\ \E n \in 1..MaxN, s \in SecChoices :
         /\ n * s <= MaxSecs
         /\ az \in HLayouts(n, MaxZones)
         /\ zring \in [ZoneSet(az) -> UNION { ZRings(NodesIn(az, z), s) : z \in ZoneSet(az) }]
         /\ \A z \in ZoneSet(az) : zring[z] \in ZRings(NodesIn(az, z), s)
    /\ size \in 1..MaxSize
    /\ take = ShardPerZone(size, az)
    /\ take <= MaxTake
    /\ phase = "select" /\ todo = ZoneSet(az) /\ cur = 0 /\ i = 0 /\ p = 0 /\ j = 0 /\ sel = {}
    /\ final = {} /\ drawn = [z \in ZoneSet(az) |-> <<>>]
    /\ cache = <<>> /\ lastReq = 0 /\ lastAns = {} /\ nreq = 0

(* `if take > len(azNodes) { return error }` -- checked per zone when the zone is reached *)
Refuse == /\ phase = "select" /\ cur = 0
          /\ \E z \in todo : take > ZoneCap(az, z)
          /\ phase' = "error"
          /\ UNCHANGED <<cfgv, todo, cur, i, p, j, sel, final, drawn, cachev>>
(* `for az, azNodes := range nodesByAZ` *)
StartZone == /\ phase = "select" /\ cur = 0
             /\ \E z \in todo : /\ take <= ZoneCap(az, z)
                                /\ cur' = z /\ todo' = todo \ {z}
             /\ i' = 0 /\ p' = 0 /\ j' = 0 /\ sel' = {}
             /\ UNCHANGED <<cfgv, phase, final, drawn, cachev>>
(* `randomPos := r.Uint64(); startIdx := sort.Search(...)` *)
Draw == /\ phase = "select" /\ cur # 0 /\ p = 0 /\ i < take
        /\ \E q \in 1..Len(zring[cur]) : p' = q /\ drawn' = [drawn EXCEPT ![cur] = Append(@, q)]
        /\ j' = 0
        /\ UNCHANGED <<cfgv, phase, todo, cur, i, sel, final, cachev>>
(* inner `for j := range len(azSections)`: endpoint already selected -> next section *)
InnerSkip == /\ phase = "select" /\ cur # 0 /\ p # 0 /\ j < Len(zring[cur])
             /\ zring[cur][p] \in sel
             /\ p' = (p % Len(zring[cur])) + 1 /\ j' = j + 1
             /\ UNCHANGED <<cfgv, phase, todo, cur, i, sel, final, drawn, cachev>>
(* ... not selected yet -> take it, `break` *)
InnerTake == /\ phase = "select" /\ cur # 0 /\ p # 0 /\ j < Len(zring[cur])
             /\ zring[cur][p] \notin sel
             /\ sel' = sel \cup {zring[cur][p]} /\ final' = final \cup {zring[cur][p]}
             /\ i' = i + 1 /\ p' = 0 /\ j' = 0
             /\ UNCHANGED <<cfgv, phase, todo, cur, drawn, cachev>>
(* the inner loop ran off its end without a `break` (must be unreachable) *)
InnerExhausted == /\ phase = "select" /\ cur # 0 /\ p # 0 /\ j >= Len(zring[cur])
                  /\ i' = i + 1 /\ p' = 0 /\ j' = 0
                  /\ UNCHANGED <<cfgv, phase, todo, cur, sel, final, drawn, cachev>>
ZoneDone == /\ phase = "select" /\ cur # 0 /\ p = 0 /\ i = take
            /\ cur' = 0
            /\ phase' = IF todo = {} THEN "serve" ELSE "select"
            /\ UNCHANGED <<cfgv, todo, i, p, j, sel, final, drawn, cachev>>

(* ---- phase "serve": requests of tenants 1 and 2 through the LRU cache ---- *)
(* tenant 1's shard is the one just computed, tenant 2's an unrelated value *)
ShardVal(t) == IF t = 1 THEN final ELSE {0}
Request(t) ==
    /\ phase = "serve" /\ nreq < MaxReqs
    /\ lastReq' = t /\ nreq' = nreq + 1
    /\ IF \E k \in DOMAIN cache : cache[k].t = t
         THEN LET k == CHOOSE k \in DOMAIN cache : cache[k].t = t
              IN /\ lastAns' = cache[k].v
                 /\ cache' = Append(SelectSeq(cache, LAMBDA c : c.t # t), cache[k])      \* most recent last
         ELSE /\ lastAns' = ShardVal(t)
              /\ cache' = LET c2 == Append(cache, [t |-> t, v |-> ShardVal(t)])
                          IN IF Len(c2) > CacheCap THEN Tail(c2) ELSE c2                   \* evict the oldest
    /\ UNCHANGED <<cfgv, phase, todo, cur, i, p, j, sel, final, drawn>>

Next == Refuse \/ StartZone \/ Draw \/ InnerSkip \/ InnerTake \/ InnerExhausted \/ ZoneDone
        \/ Request(1) \/ Request(2)
Spec == Init /\ [][Next]_vars /\ WF_vars(Next)

Selected == phase = "serve"
(* C21 "the set contains the configured number of nodes per availability zone" *)
C21_Size == Selected => ShardSizeOK(final, size, az, TRUE)
(* C21 "the same set of nodes every time": the set is a function of the drawn positions alone *)
(* (not of the order in which zones are processed)                                           *)
C21_Deterministic == Selected => final = UNION { ZoneShard(zring[z], drawn[z]) : z \in ZoneSet(az) }
C21_InnerLoopFinds == ~ENABLED InnerExhausted
C21_WithinZone == final \subseteq DOMAIN az /\ (cur # 0 => sel \subseteq NodesIn(az, cur))
(* C21 "(cached or not)": whatever the cache does, a tenant is answered with its own shard *)
C21_CacheTransparent == lastReq # 0 => lastAns = ShardVal(lastReq)
C21_RefusedOnlyWhenTooSmall == phase = "error" => \E z \in ZoneSet(az) : take > ZoneCap(az, z)
C21_Terminates == <>(phase \in {"serve", "error"})

(* Leg B: zone-size vectors x shard size x zone awareness *)
ZoneVecs == { v \in [1..4 -> 0..CaseMaxN] :
                /\ v[1] >= 1
                /\ \A k \in 1..3 : v[k] >= v[k + 1]
                /\ v[1] + v[2] + v[3] + v[4] <= CaseMaxN }
Cases == { [zones |-> v, size |-> sz, zoneaware |-> za] : v \in ZoneVecs, sz \in 1..6, za \in BOOLEAN }
CaseSel == { c \in Cases : c.size <= c.zones[1] + c.zones[2] + c.zones[3] + c.zones[4] + 1 }
CasesFile == IF "VERIF_CASES" \in DOMAIN IOEnv THEN IOEnv.VERIF_CASES ELSE "cases.ndjson"
ASSUME ndJsonSerialize(CasesFile, SetToSeq(CaseSel))
=============================================================================
