\* C14 leg A thorough, third run (overlapping GetRange calls): object sizes 0..3, subrange sizes 1..2,
\* max sub-requests 0..1; from EVERY sound cache content two GetRange calls p, q (any offsets/lengths)
\* that begin (cache Fetch) and end (bucket requests, Stores, answer) in any interleaving, with
\* arbitrary evictions in between.  Emits no cases.
SPECIFICATION Spec
CONSTANTS Sizes = {0, 1, 2, 3}
          SubSizes = {1, 2}
          MaxSubs = {0, 1}
          MaxCacheables = {2}
          MaxOps = 2
          Inductive = TRUE
          Procs = {"p", "q"}
          HistSizes = {}
          HistLen = 0
INVARIANTS CacheSound TransparentInv
PROPERTY TransparentStep
VIEW View
CHECK_DEADLOCK FALSE
