\* C05 leg A thorough: <= 2 advertised label sets (of 9), <= 2 matchers (of 36), 8 time-range relations; every 25th case to the harness
SPECIFICATION Spec
CONSTANTS MaxLsets = 2
          MaxMatchers = 2
          CaseStride = 25
INVARIANTS C05_PruningSound C05_LoopsEqualFunction
CHECK_DEADLOCK TRUE
