------------------------------ MODULE C41Trace ------------------------------
(***************************************************************************)
(* Leg C for C41.  One trace line per request:                             *)
(*   in.kind   "range" | "labels" | "label_values" | "series"              *)
(*   in.s, in.e, in.step, in.iv   the request and the split interval (ms)  *)
(*   direct    [ran, err, subs]: what splitQuery returned                  *)
(*   e2e       [ran, err, subs]: the sub-requests a recording downstream   *)
(*             received behind the real tripperware chain (sorted by start)*)
(*   subs[i] = [start, end, step]                                          *)
(* Judged with the property-level operators of Frontend only; the interval *)
(* plays no role in the verdict (any split that satisfies the statement is *)
(* accepted).  The statement of C41, sentence by sentence:                 *)
(***************************************************************************)
EXTENDS TraceLib, Frontend

(* Clause names are kept short: the driver only recognises a REJECT tuple that TLC prints on ONE  *)
(* line (< 80 columns), so each observation is reported by its own CaseReject.                  *)
Names(tag) ==
    IF tag = "direct"
    THEN [fail |-> "direct:failed", wf |-> "direct:wellformed", al |-> "direct:aligned",
          once |-> "direct:exactly-once", cov |-> "direct:cover"]
    ELSE [fail |-> "e2e:failed", wf |-> "e2e:wellformed", al |-> "e2e:aligned",
          once |-> "e2e:exactly-once", cov |-> "e2e:cover"]

JudgeObs(in, o, n) ==
    IF ~o.ran THEN {}
    (* the inputs are valid requests (start <= end, step > 0, <= 11000 points): a split that    *)
    (* fails or panics evaluates none of the original timestamps                                 *)
    ELSE IF o.err # "" THEN {n.fail}
    ELSE IF in.kind = "range" THEN
        (* a sub-query is a range query: end < start is refused by the query_range API *)
        (IF ~AllWellFormed(o.subs) THEN {n.wf} ELSE {})
        \cup
        (* "every sub-query stays aligned with the original step" *)
        (IF ~AllAligned(in.s, in.step, o.subs) THEN {n.al} ELSE {})
        \cup
        (* "the sub-queries' evaluation timestamps together are exactly the original query's      *)
        (* timestamps, each appearing once" (arithmetic form; defined for well-formed aligned      *)
        (* sub-queries, otherwise one of the clauses above already rejects)                        *)
        (IF AllWellFormed(o.subs) /\ AllAligned(in.s, in.step, o.subs)
            /\ ~StepsExactlyOnceArith(in.s, in.e, in.step, o.subs) THEN {n.once} ELSE {})
    ELSE
        (* "label and series requests are split into ranges that together cover the original range" *)
        (IF ~CoversArith(in.s, in.e, o.subs) THEN {n.cov} ELSE {})

JudgeDirect(e) == JudgeObs(e.in, e.direct, Names("direct"))
JudgeE2E(e) == JudgeObs(e.in, e.e2e, Names("e2e"))

(* Model conformance (never a verdict): the algorithm-level transcription predicts the exact list. *)
IsDyn(in) == "dyn" \in DOMAIN in
Interval(in) == IF IsDyn(in) THEN DynInterval(in.e - in.s, in.dyn.min, in.dyn.max, in.dyn.shards) ELSE in.iv
Predicted(in) == IF in.kind = "range" THEN SplitRange(in.s, in.e, in.step, Interval(in)) ELSE SplitMeta(in.s, in.e, in.iv)
Drift(e) ==
    \/ e.direct.ran /\ e.direct.err = "" /\ e.direct.subs # Predicted(e.in)
    \/ e.e2e.ran /\ e.e2e.err = "" /\ e.e2e.subs # Predicted(e.in)

VARIABLE l
TraceInit == l = 1
TraceNext == /\ l <= TraceLen
             /\ CaseReject(l, Trace[l], JudgeDirect(Trace[l]))
             /\ CaseReject(l, Trace[l], JudgeE2E(Trace[l]))
             /\ (IF Drift(Trace[l]) THEN PrintT(<<"DRIFT", l, Trace[l]["case"]>>) ELSE TRUE)
             /\ l' = l + 1
TraceSpec == TraceInit /\ [][TraceNext]_l
TraceAccepted == TLCGet("stats").diameter = TraceLen + 1
=============================================================================
