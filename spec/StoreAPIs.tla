------------------------------ MODULE StoreAPIs ------------------------------
(***************************************************************************)
(* Store API contracts of the three thanos stores that answer Series /     *)
(* LabelNames / LabelValues:                                               *)
(*   tsdb    store.TSDBStore   (pkg/store/tsdb.go)   over a local TSDB     *)
(*   bucket  store.BucketStore (pkg/store/bucket.go) over blocks in object *)
(*           storage, every block with its own external labels            *)
(*   proxy   store.ProxyStore  (pkg/store/proxy.go)  fanning out to both   *)
(*                                                                         *)
(* A small world with exact finite semantics:                              *)
(*   label set   function name -> value (absent name = value "")           *)
(*   series      [l |-> label set, slots |-> set of time slots]; a series  *)
(*               has one chunk per slot k covering                         *)
(*               [k*W + W/4, k*W + W/2]                                    *)
(*   source      [ext |-> label set, series |-> set of series]: the head   *)
(*               of the TSDB store or one block of the bucket store        *)
(*   matcher     [n, t \in {EQ,NEQ,RE,NRE}, k \in {set,any,nonempty},      *)
(*               alts]: value pattern = one of alts (a literal for EQ/NEQ, *)
(*               an alternation of literals for RE/NRE, "" allowed), `.*`, *)
(*               or `.+`                                                   *)
(*   request     [ms |-> set of matchers, rl |-> replica label names to    *)
(*               drop, mint, maxt]                                         *)
(*                                                                         *)
(* Part 1 is PROPERTY level (written from the statements of C07/C08/C09),  *)
(* part 2 is ALGORITHM level (a transcription of what the code does).      *)
(* Only part 1 ever judges the real code (C07Trace/C08Trace/C09Trace).     *)
(***************************************************************************)
EXTENDS Integers, Sequences, FiniteSets

SaRange(s) == { s[i] : i \in DOMAIN s }
SaMin(a, b) == IF a < b THEN a ELSE b

(* ---------------- label sets ---------------- *)
LVal(ls, n) == IF n \in DOMAIN ls THEN ls[n] ELSE ""

(* label sets arrive from JSON as sequences of <<name, value>> pairs (order as sent) *)
PairNames(ps) == { ps[i][1] : i \in DOMAIN ps }
NoDupNames(ps) == Cardinality(PairNames(ps)) = Len(ps)
LsOf(ps) == [ n \in PairNames(ps) |-> ps[CHOOSE i \in DOMAIN ps : ps[i][1] = n][2] ]
LsPairs(ls) == { <<n, ls[n]>> : n \in DOMAIN ls }

(* ---------------- matchers ---------------- *)
ValIn(m, x) == CASE m.k = "set" -> x \in SaRange(m.alts)
                 [] m.k = "any" -> TRUE
                 [] m.k = "nonempty" -> x # ""
Matches(m, x) == IF m.t \in {"EQ", "RE"} THEN ValIn(m, x) ELSE ~ValIn(m, x)

(* ---------------- time ---------------- *)
ChunkMin(W, k) == k * W + (W \div 4)
ChunkMax(W, k) == k * W + (W \div 2)
SeriesInRange(W, s, mint, maxt) == \E k \in s.slots : ChunkMin(W, k) <= maxt /\ ChunkMax(W, k) >= mint
ChunksInRange(W, s, mint, maxt) == { k \in s.slots : ChunkMin(W, k) <= maxt /\ ChunkMax(W, k) >= mint }

(***************************************************************************)
(* PART 1 -- PROPERTY LEVEL                                                *)
(***************************************************************************)

(* C08, sentence 1: "Every series returned by a store carries the store's  *)
(* external labels, which override same-named labels stored in the data,   *)
(* minus any labels the request asked to drop as replica labels."          *)
(* The presentation of stored label set s by a store with external labels  *)
(* E for a request dropping the names R:                                   *)
Present(s, E, R) ==
    [ n \in (DOMAIN s \cup DOMAIN E) \ R |-> IF n \in DOMAIN E THEN E[n] ELSE s[n] ]

(* C08, sentence 2: "A request whose selectors contradict the store's      *)
(* external labels returns no series."  A selector contradicts E when it   *)
(* names an external label and does not accept its value.                  *)
Contradicts(ms, E) == \E m \in ms : m.n \in DOMAIN E /\ ~Matches(m, E[m.n])

(* What a store may return for a request, as far as C08 is concerned: the  *)
(* presentation of some stored series of some source whose external labels *)
(* the selectors do not contradict.  (Which of them are selected is C10.)  *)
C08Allowed(srcs, ms, R) ==
    UNION { { Present(s.l, src.ext, R) : s \in src.series } : src \in { x \in srcs : ~Contradicts(ms, x.ext) } }
C08Presentable(srcs, R) ==
    UNION { { Present(s.l, src.ext, R) : s \in src.series } : src \in srcs }

(* Judging one Series answer; out = sequence of label-pair sequences (one per frame).          *)
C08Clauses(srcs, ms, R, out) ==
    (* a label set has one value per name: the external value REPLACES the stored one *)
    (IF \E i \in DOMAIN out : ~NoDupNames(out[i]) THEN {"one-value-per-label-name"} ELSE {})
    \cup
    (* sentence 1, for every frame (a series split over frames keeps its labels in each) *)
    (IF \E i \in DOMAIN out : NoDupNames(out[i]) /\ LsOf(out[i]) \notin C08Presentable(srcs, R)
       THEN {"ext-labels-override-stored-minus-replica-labels"} ELSE {})
    \cup
    (* sentence 2 *)
    (IF \E i \in DOMAIN out : NoDupNames(out[i]) /\ LsOf(out[i]) \in C08Presentable(srcs, R)
                              /\ LsOf(out[i]) \notin C08Allowed(srcs, ms, R)
       THEN {"selectors-contradicting-ext-labels-return-nothing"} ELSE {})

(* C07: "For the same selectors and time range, every label name and every *)
(* value of a label that appears on a series returned by a store's Series  *)
(* call is also returned by that store's label-names and label-values      *)
(* calls, including external labels and excluding labels requested to be   *)
(* dropped as replica labels."  Weakest reading: the label APIs may return *)
(* supersets.  series = set of label sets the Series call returned, names  *)
(* = set returned by LabelNames, values = function name -> set returned by *)
(* LabelValues(name) for the names that were asked.                        *)
C07NamesMissing(series, names) == { n \in UNION { DOMAIN ls : ls \in series } : n \notin names }
C07ValuesMissing(series, values) ==
    { p \in UNION { LsPairs(ls) : ls \in series } : p[1] \in DOMAIN values /\ p[2] \notin values[p[1]] }
C07Covered(series, names, values) ==
    C07NamesMissing(series, names) = {} /\ C07ValuesMissing(series, values) = {}

(* C09: "A Series call that succeeds never returns more series than the    *)
(* configured series limit or more chunks than the configured chunk limit, *)
(* and a request that would exceed a limit fails with a resource-exhausted *)
(* error instead of returning truncated data silently."  Limit 0 = none.   *)
(* Weakest reading: a request may be refused although its true counts are  *)
(* below the limits.                                                       *)
Exceeds(n, limit) == limit > 0 /\ n > limit
C09SuccessWithinLimits(ok, nSeries, nChunks, sLimit, cLimit) ==
    ok => ~Exceeds(nSeries, sLimit) /\ ~Exceeds(nChunks, cLimit)
C09ExceedingFails(code, trueSeries, trueChunks, sLimit, cLimit) ==
    (Exceeds(trueSeries, sLimit) \/ Exceeds(trueChunks, cLimit)) => code = "ResourceExhausted"

(***************************************************************************)
(* PART 2 -- ALGORITHM LEVEL                                               *)
(***************************************************************************)

(* matchesExternalLabels (prometheus.go) / bucketBlockSet.labelMatchers /  *)
(* bucketBlock.FilterExtLabelsMatchers: matchers on an external label name *)
(* are checked against the external value and dropped; the rest is kept.   *)
FilterExt(ms, E) == { m \in ms : m.n \notin DOMAIN E }

(* postings + series selection on the STORED labels, chunks overlapping the range *)
SelectStored(W, src, ms1, mint, maxt) ==
    { s \in src.series : SeriesInRange(W, s, mint, maxt) /\ \A m \in ms1 : Matches(m, LVal(s.l, m.n)) }
MatchStored(src, ms1) == { s \in src.series : \A m \in ms1 : Matches(m, LVal(s.l, m.n)) }

(* labelpb.ExtendSortedLabels(rmLabels(stored, R), rmLabels(ext, R)) in the TSDB store;          *)
(* rmLabels(ExtendSortedLabels(stored, rmLabels(ext, R)), R) in the bucket store: both are      *)
AlgoPresent(s, E, R) ==
    LET s1 == [ n \in DOMAIN s \ R |-> s[n] ]
        e1 == [ n \in DOMAIN E \ R |-> E[n] ]
    IN [ n \in DOMAIN s1 \cup DOMAIN e1 |-> IF n \in DOMAIN e1 THEN e1[n] ELSE s1[n] ]

(* ---- Series ---- result: [kind |-> "ok" | "invalid", out |-> set of label sets] *)
TsdbSeries(W, src, req) ==
    IF Contradicts(req.ms, src.ext) THEN [kind |-> "ok", out |-> {}]
    ELSE IF FilterExt(req.ms, src.ext) = {} THEN [kind |-> "invalid", out |-> {}]   \* "no matchers specified"
    ELSE [kind |-> "ok",
          out |-> { AlgoPresent(s.l, src.ext, req.rl) :
                      s \in SelectStored(W, src, FilterExt(req.ms, src.ext), req.mint, req.maxt) }]

BlockSeries(W, src, req) ==
    IF Contradicts(req.ms, src.ext) THEN {}
    ELSE IF FilterExt(req.ms, src.ext) = {} THEN {}          \* ExpandedPostings: no matchers -> nothing
    ELSE { AlgoPresent(s.l, src.ext, req.rl) :
             s \in SelectStored(W, src, FilterExt(req.ms, src.ext), req.mint, req.maxt) }
BucketSeries(W, blocks, req) ==
    [kind |-> "ok", out |-> UNION { BlockSeries(W, b, req) : b \in blocks }]

ProxySeries(W, head, blocks, req) ==
    IF req.ms = {} THEN [kind |-> "invalid", out |-> {}]
    ELSE [kind |-> "ok", out |-> TsdbSeries(W, head, req).out \cup BucketSeries(W, blocks, req).out]

(* ---- time range of a source as the label APIs see it ---- *)
SrcSlots(src) == UNION { s.slots : s \in src.series }
SrcMinT(W, src) == ChunkMin(W, CHOOSE k \in SrcSlots(src) : \A j \in SrcSlots(src) : k <= j)
SrcMaxT(W, src) == ChunkMax(W, CHOOSE k \in SrcSlots(src) : \A j \in SrcSlots(src) : k >= j)
(* block [MinTime, MaxTime) with MaxTime = last sample + 1 vs closed request interval;        *)
(* the head is consulted when the request overlaps [head min, head max]: the same test       *)
SrcOverlaps(W, src, mint, maxt) ==
    src.series # {} /\ SrcMinT(W, src) <= maxt /\ mint <= SrcMaxT(W, src)

StoredNames(ss) == UNION { DOMAIN s.l : s \in ss }
StoredValues(ss, n) == { LVal(s.l, n) : s \in ss } \ {""}

(* ---- LabelNames ---- *)
TsdbNames(W, src, req) ==
    IF Contradicts(req.ms, src.ext) \/ ~SrcOverlaps(W, src, req.mint, req.maxt) THEN {}
    ELSE LET res == StoredNames(MatchStored(src, FilterExt(req.ms, src.ext)))   \* head: not time filtered
         IN IF res = {} THEN {} ELSE res \cup (DOMAIN src.ext \ req.rl)

BlockNames(W, src, req) ==
    IF Contradicts(req.ms, src.ext) \/ ~SrcOverlaps(W, src, req.mint, req.maxt) THEN {}
    ELSE IF FilterExt(req.ms, src.ext) = {}
           THEN StoredNames(src.series) \cup (DOMAIN src.ext \ req.rl)          \* index-header fast path
           ELSE UNION { DOMAIN ls : ls \in BlockSeries(W, src, req) }            \* via series
BucketNames(W, blocks, req) == UNION { BlockNames(W, b, req) : b \in blocks }
ProxyNames(W, head, blocks, req) == TsdbNames(W, head, req) \cup BucketNames(W, blocks, req)

(* ---- LabelValues(n) ---- *)
TsdbValues(W, src, req, n) ==
    IF n \in req.rl \/ Contradicts(req.ms, src.ext) THEN {}
    ELSE LET ms1 == FilterExt(req.ms, src.ext) IN
         IF n \in DOMAIN src.ext
           THEN (* external label: its value, if no other matcher is left (not even the time range
                   is looked at) or some series matches the rest within the range *)
                IF ms1 = {} \/ SelectStored(W, src, ms1, req.mint, req.maxt) # {} THEN {src.ext[n]} ELSE {}
           ELSE IF ~SrcOverlaps(W, src, req.mint, req.maxt) THEN {}
                ELSE StoredValues(MatchStored(src, ms1), n)                 \* head: not time filtered

NonEmptyMatcher(n) == [n |-> n, t |-> "NEQ", k |-> "set", alts |-> <<"">>]
HasNameEq(ms) == \E m \in ms : m.n = "__name__" /\ m.t = "EQ"
BlockValues(W, src, req, n) ==
    IF n \in req.rl \/ Contradicts(req.ms, src.ext) \/ ~SrcOverlaps(W, src, req.mint, req.maxt) THEN {}
    ELSE LET ms1 == FilterExt(req.ms, src.ext)
             ms2 == IF ~HasNameEq(req.ms) /\ ms1 # {} /\ n \notin DOMAIN src.ext
                      THEN ms1 \cup {NonEmptyMatcher(n)} ELSE ms1      \* `name != ""` injection
         IN IF ms2 = {}
              THEN StoredValues(src.series, n) \cup (IF n \in DOMAIN src.ext THEN {src.ext[n]} ELSE {})
              ELSE { LVal(AlgoPresent(s.l, src.ext, {}), n) :        \* no replica-label removal on this path
                       s \in SelectStored(W, src, ms2, req.mint, req.maxt) } \ {""}
BucketValues(W, blocks, req, n) == UNION { BlockValues(W, b, req, n) : b \in blocks }
(* the proxy prunes stores by their advertised time range: the TSDB store advertises           *)
(* [first sample, +infinity), so it is not asked when the request ends before its first sample *)
ProxyAsksHead(W, head, req) == head.series # {} /\ req.maxt >= SrcMinT(W, head)
ProxyValues(W, head, blocks, req, n) ==
    (IF ProxyAsksHead(W, head, req) THEN TsdbValues(W, head, req, n) ELSE {}) \cup BucketValues(W, blocks, req, n)

(* ---- one entry point per store kind ---- *)
AlgoSeries(kind, W, head, blocks, req) ==
    CASE kind = "tsdb" -> TsdbSeries(W, head, req)
      [] kind = "bucket" -> BucketSeries(W, blocks, req)
      [] kind = "proxy" -> ProxySeries(W, head, blocks, req)
AlgoNames(kind, W, head, blocks, req) ==
    CASE kind = "tsdb" -> TsdbNames(W, head, req)
      [] kind = "bucket" -> BucketNames(W, blocks, req)
      [] kind = "proxy" -> ProxyNames(W, head, blocks, req)
AlgoValues(kind, W, head, blocks, req, n) ==
    CASE kind = "tsdb" -> TsdbValues(W, head, req, n)
      [] kind = "bucket" -> BucketValues(W, blocks, req, n)
      [] kind = "proxy" -> ProxyValues(W, head, blocks, req, n)
Sources(kind, head, blocks) ==
    CASE kind = "tsdb" -> {head} [] kind = "bucket" -> blocks [] kind = "proxy" -> {head} \cup blocks
(***************************************************************************)
(* Phase 2: the other StoreAPI implementations behind the same contracts.  *)
(*   prom  store.PrometheusStore (sidecar) in front of the Prometheus HTTP *)
(*         API over the head: remote read (streamed chunks, or the old     *)
(*         sampled response), /series for SkipChunks, /labels and          *)
(*         /label/<n>/values (with matchers only for Prometheus >= 2.24,   *)
(*         otherwise derived from /series)                                 *)
(*   recv  the receiver: one TSDBStore per tenant (external labels = the   *)
(*         receiver's labels overridden by tenant-label = tenant id)       *)
(*         behind a ProxyStore without deduplication                       *)
(* opt = [skip |-> SkipChunks, samples |-> sampled remote read,            *)
(*        pmatch |-> Prometheus label calls support matchers]              *)
(***************************************************************************)
TenantExt(E, tl, id) == [ n \in DOMAIN E \cup {tl} |-> IF n = tl THEN id ELSE E[n] ]

(* a sample (not just a chunk) inside the range: what a sampled remote read returns *)
SeriesHasSampleInRange(W, s, mint, maxt) ==
    \E k \in s.slots : (mint <= ChunkMin(W, k) /\ ChunkMin(W, k) <= maxt) \/ (mint <= ChunkMax(W, k) /\ ChunkMax(W, k) <= maxt)

(* The Prometheus HTTP API (/series, /labels and /label/<n>/values with match[]) refuses a selector *)
(* set in which every matcher also matches the empty string ("match[] must contain at least one    *)
(* non-empty matcher"); remote read has no such rule.                                               *)
MatchesEmptyAll(ms1) == ms1 # {} /\ \A m \in ms1 : Matches(m, "")
PromRefuses(ms, E) == MatchesEmptyAll(FilterExt(ms, E))

PromSelect(W, src, ms1, req, opt) ==
    IF ~opt.skip     \* remote read (streamed or sampled): Prometheus trims chunks to the range
      THEN { s \in MatchStored(src, ms1) : SeriesHasSampleInRange(W, s, req.mint, req.maxt) }
      ELSE SelectStored(W, src, ms1, req.mint, req.maxt)     \* /series: chunk overlap
PromSeries(W, src, req, opt) ==
    IF Contradicts(req.ms, src.ext) THEN [kind |-> "ok", out |-> {}]
    ELSE IF FilterExt(req.ms, src.ext) = {} THEN [kind |-> "invalid", out |-> {}]
    ELSE IF opt.skip /\ PromRefuses(req.ms, src.ext) THEN [kind |-> "invalid", out |-> {}]   \* /series says 400
    ELSE [kind |-> "ok",
          out |-> { AlgoPresent(s.l, src.ext, req.rl) : s \in PromSelect(W, src, FilterExt(req.ms, src.ext), req, opt) }]
PromNames(W, src, req, opt) ==
    IF Contradicts(req.ms, src.ext) THEN {}
    ELSE LET ms1 == FilterExt(req.ms, src.ext)
             res == IF ms1 = {} \/ opt.pmatch
                      THEN (IF SrcOverlaps(W, src, req.mint, req.maxt) THEN StoredNames(MatchStored(src, ms1)) ELSE {})
                      ELSE StoredNames(SelectStored(W, src, ms1, req.mint, req.maxt))     \* via /series
         IN IF res = {} THEN {} ELSE res \cup (DOMAIN src.ext \ req.rl)
PromValues(W, src, req, n, opt) ==
    IF n \in req.rl \/ Contradicts(req.ms, src.ext) THEN {}
    ELSE LET ms1 == FilterExt(req.ms, src.ext) IN
         IF n \in DOMAIN src.ext
           THEN IF ms1 = {} \/ SelectStored(W, src, ms1, req.mint, req.maxt) # {} THEN {src.ext[n]} ELSE {}
           ELSE IF ms1 = {} \/ opt.pmatch
                  THEN (IF SrcOverlaps(W, src, req.mint, req.maxt) THEN StoredValues(MatchStored(src, ms1), n) ELSE {})
                  ELSE StoredValues(SelectStored(W, src, ms1, req.mint, req.maxt), n)

(* receiver: the proxy needs a matcher; every tenant store answers like a TSDB store *)
RecvSeries(W, tenants, req) ==
    IF req.ms = {} THEN [kind |-> "invalid", out |-> {}]
    ELSE [kind |-> "ok", out |-> UNION { TsdbSeries(W, t, req).out : t \in tenants }]
RecvNames(W, tenants, req) == UNION { TsdbNames(W, t, req) : t \in tenants }
RecvValues(W, tenants, req, n) ==
    UNION { IF ProxyAsksHead(W, t, req) THEN TsdbValues(W, t, req, n) ELSE {} : t \in tenants }

(* world record wd = [W, head, blocks, tenants]; entry points for all five store kinds *)
AlgoSeriesW(kind, wd, req, opt) ==
    CASE kind = "prom" -> PromSeries(wd.W, wd.head, req, opt)
      [] kind = "recv" -> RecvSeries(wd.W, wd.tenants, req)
      [] OTHER -> AlgoSeries(kind, wd.W, wd.head, wd.blocks, req)
AlgoNamesW(kind, wd, req, opt) ==
    CASE kind = "prom" -> PromNames(wd.W, wd.head, req, opt)
      [] kind = "recv" -> RecvNames(wd.W, wd.tenants, req)
      [] OTHER -> AlgoNames(kind, wd.W, wd.head, wd.blocks, req)
AlgoValuesW(kind, wd, req, n, opt) ==
    CASE kind = "prom" -> PromValues(wd.W, wd.head, req, n, opt)
      [] kind = "recv" -> RecvValues(wd.W, wd.tenants, req, n)
      [] OTHER -> AlgoValues(kind, wd.W, wd.head, wd.blocks, req, n)
SourcesW(kind, wd) ==
    CASE kind = "prom" -> {wd.head}
      [] kind = "recv" -> wd.tenants
      [] OTHER -> Sources(kind, wd.head, wd.blocks)
=============================================================================
