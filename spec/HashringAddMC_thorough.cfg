\* C20 leg A thorough: ring after the addition has <= 7 endpoints (1 section each) or <= 5 endpoints
\* (2 sections each); every section order, rf <= 4, every start section; cases: rings of 1..12 nodes
SPECIFICATION Spec
CONSTANTS MaxN = 7
          SecChoices = {1, 2}
          MaxSecs = 10
          MaxRF = 4
          CaseMaxN = 12
INVARIANT C20_OnlyOntoNew
INVARIANT C20_SameOrder
INVARIANT C20_Function
CHECK_DEADLOCK FALSE
