\* C42 leg A thorough (1): ONE interval (grid 0..7, interval 8), steps {1,2,4} all "common",
\* min extent off, worlds 1..5; every reachable cache content = histories of any length
SPECIFICATION Spec
CONSTANTS T = 7
          StepSet = {1, 2, 4}
          Common = {1, 2, 4}
          Ivs = {8}
          MinExt = 100
          WorldIds = {1, 2, 3, 4, 5}
          GridFix = TRUE
          Unaligned = FALSE
          MaxHist = 0
          HistLen = 2
          CaseWorlds = {}
INVARIANTS RespIsDirect C42_ExtentsHoldDirectData C42_ExtentsOrdered
PROPERTIES C42_ResponsesAreDirect
VIEW View
CHECK_DEADLOCK FALSE
