\* C42 leg A thorough (1): ONE interval (grid 0..6, interval 7), steps {1,2,4} all "common",
\* min extent off, worlds 2,4,5; every reachable cache content = histories of any length
SPECIFICATION Spec
CONSTANTS T = 6
          StepSet = {1, 2, 4}
          Common = {1, 2, 4}
          Ivs = {7}
          MinExt = 100
          WorldIds = {2, 4, 5}
          GridFix = TRUE
          Unaligned = FALSE
          MaxHist = 0
          HistLen = 2
          CaseWorlds = {}
INVARIANTS RespIsDirect C42_ExtentsHoldDirectData C42_ExtentsOrdered
PROPERTIES C42_ResponsesAreDirect
VIEW View
CHECK_DEADLOCK FALSE
