------------------------------ MODULE C38Trace ------------------------------
(***************************************************************************)
(* Leg C for C38 (case trace).  Same lines as C37Trace; used here:         *)
(*   obs[i].c1         decoded 5 m aggregate chunks of series i: the INPUT *)
(*                     of the re-downsampling (observed from the code)     *)
(*   obs[i].c2         decoded 1 h aggregate chunks: its OUTPUT            *)
(*   hasblk, blk1      block mode: <<mint, maxt>> of the 5 m block         *)
(*   ok, aligned       all decoded numbers are integers / the four         *)
(*                     aggregates of every chunk share their timestamps    *)
(* Judged with the property-level operators of Downsample only.            *)
(***************************************************************************)
EXTENDS TraceLib, Downsample

(* "the input's time span": the series' own span (chunk metas and samples), widened to the  *)
(* span of the block it lives in when there is one (weakest reading).                        *)
SpanLo(e, c1) == LET a == Min2(c1[1].mint, c1[1].ts[1]) IN IF e.hasblk THEN Min2(a, e.blk1[1]) ELSE a
SpanHi(e, c1) == LET c == c1[Len(c1)]
                     a == Max2(c.maxt, c.ts[Len(c.ts)])
                 IN IF e.hasblk THEN Max2(a, e.blk1[2]) ELSE a

SeriesClauses(e, o) ==
    IF o.c1 = <<>> THEN (IF o.c2 = <<>> THEN {} ELSE {"totals-conserved"})   \* nothing in, nothing out
    ELSE
      \* "preserves the total sample count, the total sum, the overall minimum and the overall
      \*  maximum of every series"
      (IF TotalsConserved(o.c1, o.c2) THEN {} ELSE {"totals-conserved"})
      \* "keeps output timestamps ordered"
      \cup (IF OutputsOrdered(o.c2) THEN {} ELSE {"output-timestamps-ordered"})
      \* "within the input's time span"
      \cup (IF OutputsWithin(o.c2, SpanLo(e, o.c1), SpanHi(e, o.c1)) THEN {} ELSE {"output-timestamps-within-input-span"})
      \* the output reaches the end of the input (otherwise the totals of the series' tail are lost):
      \* the last output lies in the 1 h window of the last input sample
      \cup (IF LastWindowHasOutput(o.c1, o.c2, 3600000) THEN {} ELSE {"last-output-in-window-of-last-input-sample"})

Judge(e) ==
    IF e.got.kind # "ok" THEN {"re-downsampling-succeeds"}
    ELSE IF ~e.ok \/ ~e.aligned THEN {"totals-conserved"}    \* integers in, integers out; one timestamp per output
    ELSE UNION { SeriesClauses(e, e.obs[i]) : i \in DOMAIN e.obs }

(* Model conformance (never a verdict): the 1 h chunks are what the transcription makes of   *)
(* the observed 5 m chunks (loop and chunks mode, where the chunk count is known).                      *)
Drift(e) ==
    /\ e.got.kind = "ok" /\ e.ok /\ e.aligned /\ e.in.mode \in {"loop", "chunks"}
    /\ LET o == e.obs[1] IN
       o.c1 # <<>> /\ o.c2 # AlgoAggr(o.c1, 3600000, Min2(e.in.nc2, Len(o.c1)))

VARIABLE l
TraceInit == l = 1
TraceNext == /\ l <= TraceLen
             /\ CaseReject(l, Trace[l], Judge(Trace[l]))
             /\ (IF Drift(Trace[l]) THEN PrintT(<<"DRIFT", l, Trace[l]["case"]>>) ELSE TRUE)
             /\ l' = l + 1
TraceSpec == TraceInit /\ [][TraceNext]_l
TraceAccepted == TLCGet("stats").diameter = TraceLen + 1
=============================================================================
