------------------------------ MODULE C38Trace ------------------------------
(***************************************************************************)
(* Leg C for C38 (case trace).  Same lines as C37Trace; used here:         *)
(*   obs[i].c1         decoded 5 m aggregate chunks of series i: the INPUT *)
(*                     of the re-downsampling (observed from the code)     *)
(*   obs[i].c2         decoded 1 h aggregate chunks: its OUTPUT            *)
(*   hasblk, blk1      block mode: <<mint, maxt>> of the 5 m block         *)
(*   ok, aligned       all decoded numbers are integers / the four         *)
(*                     aggregates of every chunk share their timestamps    *)
(* Judged with the property-level operators of Downsample only.            *)
(***************************************************************************)
EXTENDS TraceLib, Downsample

(* "the input's time span": the series' own span (chunk metas and samples), widened to the  *)
(* span of the block it lives in when there is one (weakest reading).                        *)
SpanLo(e, c1) == LET a == Min2(c1[1].mint, c1[1].ts[1]) IN IF e.hasblk THEN Min2(a, e.blk1[1]) ELSE a
SpanHi(e, c1) == LET c == c1[Len(c1)]
                     a == Max2(c.maxt, c.ts[Len(c.ts)])
                 IN IF e.hasblk THEN Max2(a, e.blk1[2]) ELSE a

(* Phase 2: a native histogram series (in.series[i].kind = "hist"; chunks are [mint, maxt,   *)
(* ts, cnt, hsum, hctr] with vectors <<count, sum, buckets>>).  Of the statement "total        *)
(* sample count" and "total sum" apply (the sum aggregate is the component-wise sum of the     *)
(* histograms; there is no min / max aggregate), and the timestamp clauses.                     *)
HistClauses(e, s, o) ==
    LET zero == [i \in 1..(s.k + 2) |-> 0] IN
    IF o.c1 = <<>> THEN (IF o.c2 = <<>> THEN {} ELSE {"histogram-totals-conserved"})
    ELSE
      (IF HTotalsConserved(o.c1, o.c2, zero) THEN {} ELSE {"histogram-totals-conserved"})
      \cup (IF OutputsOrdered(o.c2) THEN {} ELSE {"output-timestamps-ordered"})
      \cup (IF LastWindowHasOutput(o.c1, o.c2, 3600000) THEN {} ELSE {"last-output-in-window-of-last-input-sample"})

FloatClauses(e, o) ==
    IF o.c1 = <<>> THEN (IF o.c2 = <<>> THEN {} ELSE {"totals-conserved"})   \* nothing in, nothing out
    ELSE
      \* "preserves the total sample count, the total sum, the overall minimum and the overall
      \*  maximum of every series"
      (IF TotalsConserved(o.c1, o.c2) THEN {} ELSE {"totals-conserved"})
      \* "keeps output timestamps ordered"
      \cup (IF OutputsOrdered(o.c2) THEN {} ELSE {"output-timestamps-ordered"})
      \* "within the input's time span"
      \cup (IF OutputsWithin(o.c2, SpanLo(e, o.c1), SpanHi(e, o.c1)) THEN {} ELSE {"output-timestamps-within-input-span"})
      \* the output reaches the end of the input (otherwise the totals of the series' tail are lost):
      \* the last output lies in the 1 h window of the last input sample
      \cup (IF LastWindowHasOutput(o.c1, o.c2, 3600000) THEN {} ELSE {"last-output-in-window-of-last-input-sample"})

(* Block level (mode "block": the real downsample.Downsample, 5 m block -> 1 h block).        *)
(*   blocks.b1 / b2   [res, mint, maxt, nseries, extra, statseries] of the 5 m / 1 h block:    *)
(*                    declared resolution, declared time range [mint, maxt), series in the      *)
(*                    index, series in the index that are none of the input's                   *)
(*   obs[i].in2, lbl2 series i is in the 1 h block's index / with exactly its labels            *)
BlockClauses(e) ==
    IF ~e.hasblk THEN {}
    ELSE LET b1 == e.blocks.b1  b2 == e.blocks.b2 IN
      \* "of every series": a series is its label set; every series of the input is a series of
      \* the output, unchanged, and nothing else is
      (IF \A i \in DOMAIN e.obs : e.obs[i].c1 # <<>> => e.obs[i].in2 /\ e.obs[i].lbl2
         THEN {} ELSE {"every-series-kept-with-its-labels"})
      \cup (IF b2.extra = 0 THEN {} ELSE {"no-series-invented"})
      \* "to a coarser resolution": the output says so (readers pick blocks by it)
      \cup (IF b1.res = 300000 /\ b2.res = 3600000 THEN {} ELSE {"output-declares-the-coarser-resolution"})
      \* "within the input's time span", block level: the output block claims no time outside the
      \* input block, and every output sample lies inside the range the output block declares
      \cup (IF b2.mint >= b1.mint /\ b2.maxt <= b1.maxt THEN {} ELSE {"output-block-range-within-input-block"})
      \cup (IF \A i \in DOMAIN e.obs : OutputsWithin(e.obs[i].c2, b2.mint, b2.maxt - 1)
            THEN {} ELSE {"outputs-within-declared-block-range"})

Judge(e) ==
    IF e.got.kind # "ok" THEN {"re-downsampling-succeeds"}
    ELSE IF ~e.ok \/ ~e.aligned THEN {"totals-conserved"}    \* integers in, integers out; one timestamp per output
    ELSE UNION { IF e.in.series[i].kind = "hist" THEN HistClauses(e, e.in.series[i], e.obs[i])
                                                    ELSE FloatClauses(e, e.obs[i]) : i \in DOMAIN e.obs }
         \cup BlockClauses(e)

(* Block-level conformance with what Downsample does today (never a verdict): meta copied     *)
(* from the source except resolution, series without numbers not written, stats = index.       *)
BlockDrift(e) ==
    /\ e.got.kind = "ok" /\ e.hasblk
    /\ LET src == e.blocks.src  b1 == e.blocks.b1  b2 == e.blocks.b2
           live == { i \in DOMAIN e.in.series : \E k \in DOMAIN e.in.series[i].ks : e.in.series[i].ks[k] \in {"F", "H"} }
       IN ~(/\ b1.mint = src.mint /\ b1.maxt = src.maxt /\ b2.mint = src.mint /\ b2.maxt = src.maxt
            /\ b1.nseries = Cardinality(live) /\ b2.nseries = Cardinality(live)
            /\ b1.statseries = b1.nseries /\ b2.statseries = b2.nseries
            /\ \A i \in DOMAIN e.obs : e.obs[i].in1 = (i \in live) /\ e.obs[i].in2 = (i \in live))

(* Model conformance (never a verdict): the 1 h chunks are what the transcription makes of   *)
(* the observed 5 m chunks (loop and chunks mode, where the chunk count is known).                      *)
Drift(e) ==
    /\ e.got.kind = "ok" /\ e.ok /\ e.aligned /\ e.in.mode \in {"loop", "chunks"}
    /\ LET o == e.obs[1] IN
       o.c1 # <<>> /\ o.c2 # AlgoAggr(o.c1, 3600000, Min2(e.in.nc2, Len(o.c1)))
HDrift(e) ==
    /\ e.got.kind = "ok" /\ e.ok /\ e.aligned /\ e.in.mode = "hloop"
    /\ LET o == e.obs[1]  s == e.in.series[1]
           raw == [ts |-> s.ts, ks |-> s.ks, hv |-> s.hv, gauge |-> s.gauge]
           p1 == HAlgoRaw(raw, 300000, e.in.nc1)
       IN ~(o.c1 = p1 /\ (p1 # <<>> => o.c2 = HAlgoAggr(p1, 3600000, Min2(e.in.nc2, Len(p1)), s.gauge)))

VARIABLE l
TraceInit == l = 1
TraceNext == /\ l <= TraceLen
             /\ CaseReject(l, Trace[l], Judge(Trace[l]))
             /\ (IF Drift(Trace[l]) \/ HDrift(Trace[l]) \/ BlockDrift(Trace[l]) THEN PrintT(<<"DRIFT", l, Trace[l]["case"]>>) ELSE TRUE)
             /\ l' = l + 1
TraceSpec == TraceInit /\ [][TraceNext]_l
TraceAccepted == TLCGet("stats").diameter = TraceLen + 1
=============================================================================
