---------------------------- MODULE ChunkMergeMC ----------------------------
(***************************************************************************)
(* Leg A for C40: dedupChunksIterator over the chunk iterators of NSeries  *)
(* downsampled series of one label set, for every input in a small scope:  *)
(* each series holds its samples on a subset of Grid, stored in one or two *)
(* chunks; optionally series 2 is a byte-identical copy of series 1.       *)
(* One action per loop iteration of dedupChunksIterator.Next: PopBase      *)
(* (heap.Pop of the oldest chunk), Absorb (one overlapping chunk detected  *)
(* and added to the overlappingMerger, or skipped as 1:1 duplicate),       *)
(* Finish (no more overlap: emit the chunk as it is, or merge and emit the *)
(* first merged chunk, pushing the merged-chunk iterator on the heap).     *)
(* Ties in the heap order (MinTime, MaxTime) are resolved                  *)
(* nondeterministically.                                                   *)
(***************************************************************************)
EXTENDS ChunkMerge, TLC, Json, IOUtils, SequencesExt, FiniteSetsExt
CONSTANTS Grid,      \* model timestamps
          NSeries,   \* number of input series (2..3)
          MaxLen,    \* at most this many samples per series
          WithCounterInputs  \* also generate inputs shaped like real counter aggregates (known finding)

VARIABLES series,  \* input: series[s] = sequence of chunks
          its,     \* chunk iterators by id (input series 1..NSeries, merged iterators after)
          heap,    \* ids of the iterators in the heap (each positioned on a chunk)
          phase,   \* "pop" | "absorb"
          base,    \* d.curr
          ov,      \* chunks added to the overlappingMerger
          omax,    \* oMaxTime
          prev,    \* prev
          out      \* chunks returned by dedupChunksIterator so far
vars == <<series, its, heap, phase, base, ov, omax, prev, out>>

(* ---------------- inputs ---------------- *)
Lt(a, b) == a < b
TimeSeqs == { SetToSortSeq(S, Lt) : S \in { S \in SUBSET Grid : S # {} /\ Cardinality(S) <= MaxLen } }
(* one chunk, or two chunks cut after the c-th sample *)
ChunkingsOf(ts) == { <<ts>> } \cup { <<SubSeq(ts, 1, c), SubSeq(ts, c + 1, Len(ts))>> : c \in 1..(Len(ts) - 1) }
Chunkings == UNION { ChunkingsOf(ts) : ts \in TimeSeqs }
MkSeries(chunking, tag) == [i \in DOMAIN chunking |-> [ts |-> chunking[i], agg |-> chunking[i], tag |-> tag]]
(* Real downsampler output: the COUNTER aggregate of a chunk starts with an extra sample at the  *)
(* first raw timestamp (here: half a step before the chunk's first window; model time is doubled  *)
(* for these inputs) - its timestamps are not those of the count aggregate.                      *)
MkCounterSeries(chunking, tag) ==
    [i \in DOMAIN chunking |-> [ts |-> [j \in DOMAIN chunking[i] |-> 2 * chunking[i][j]],
                                agg |-> <<2 * chunking[i][1] - 1>> \o [j \in DOMAIN chunking[i] |-> 2 * chunking[i][j]],
                                tag |-> tag]]
CounterInputs == { [s \in 1..NSeries |-> MkCounterSeries(f[s], s)] : f \in [1..NSeries -> Chunkings] }
(* KNOWN FINDING (KNOWN_FINDINGS.jsonl, C40 counter-own-timestamps): with such inputs the penalty *)
(* merge of the counter aggregate can follow another replica than the merge of the count          *)
(* aggregate, and a counter sample beyond the count chunk's maxt is never written.  The class is   *)
(* excluded from the proof by the constraint NotKnownFindingCase; without it TLC reports           *)
(* C40_EveryAggregateSampleKept violated (e.g. [0,2] || [1]).                                      *)
KnownFindingCase == \E s \in DOMAIN series : \E i \in DOMAIN series[s] : series[s][i].agg # series[s][i].ts
NotKnownFindingCase == ~KnownFindingCase
Inputs == (IF WithCounterInputs THEN CounterInputs ELSE {}) \cup
          { [s \in 1..NSeries |-> MkSeries(f[s], s)] : f \in [1..NSeries -> Chunkings] }
          \cup { [s \in 1..NSeries |-> MkSeries(f[IF s = 2 THEN 1 ELSE s], IF s = 2 THEN 1 ELSE s)] : f \in [1..NSeries -> Chunkings] }

(* ---------------- dedupChunksIterator ---------------- *)
Less(a, b) == MinT(a) < MinT(b) \/ (MinT(a) = MinT(b) /\ MaxT(a) < MaxT(b))
Minimal(h) == { i \in h : \A j \in h : ~Less(CAt(its[j]), CAt(its[i])) }

Init == /\ series \in Inputs
        /\ its = [s \in 1..NSeries |-> [k |-> "in", chunks |-> series[s], i |-> 1]]
        /\ heap = 1..NSeries
        /\ phase = "pop" /\ base = <<>> /\ ov = <<>> /\ omax = 0 /\ prev = <<>> /\ out = <<>>

(* pop id off the heap, advance it and push it back when it has another chunk.                 *)
(* ((\E r \in {e} : ...) binds the value of e once: TLC re-evaluates action-level LET          *)
(* definitions at every use.)                                                                 *)
Advance(id) == \E r \in {CNext(its[id])} :
               /\ its' = [its EXCEPT ![id] = r.it]
               /\ heap' = IF r.ok THEN heap ELSE heap \ {id}

PopBase == /\ phase = "pop" /\ heap # {}
           /\ \E id \in Minimal(heap) :
                /\ base' = CAt(its[id]) /\ prev' = CAt(its[id]) /\ omax' = MaxT(CAt(its[id]))
                /\ Advance(id)
           /\ ov' = <<>> /\ phase' = "absorb"
           /\ UNCHANGED <<series, out>>

Overlapping == heap # {} /\ \E id \in Minimal(heap) : MinT(CAt(its[id])) <= omax

Absorb == /\ phase = "absorb" /\ Overlapping
          /\ \E id \in Minimal(heap) :
               LET next == CAt(its[id]) IN
               /\ IF MinT(next) = MinT(prev) /\ MaxT(next) = MaxT(prev) /\ next = prev
                    THEN UNCHANGED <<ov, omax, prev>>                    \* 1:1 duplicate, skipped
                    ELSE /\ ov' = Append(ov, next)
                         /\ omax' = IF MaxT(next) > omax THEN MaxT(next) ELSE omax
                         /\ prev' = next
               /\ Advance(id)
          /\ UNCHANGED <<series, phase, base, out>>

Finish == /\ phase = "absorb" /\ ~Overlapping
          /\ IF ov = <<>>
               THEN out' = Append(out, base) /\ UNCHANGED <<its, heap>>
               ELSE \E r \in {CNext(NewAggr(ov \o <<base>>))} :            \* never empty: base has a sample
                    \E r2 \in {CNext(r.it)} :
                       /\ out' = Append(out, CAt(r.it))
                       /\ its' = Append(its, r2.it)
                       /\ heap' = IF r2.ok THEN heap \cup {Len(its) + 1} ELSE heap
          /\ phase' = "pop"
          /\ UNCHANGED <<series, base, ov, omax, prev>>

Next == PopBase \/ Absorb \/ Finish
Spec == Init /\ [][Next]_vars

Done == phase = "pop" /\ heap = {}

(* ---------------- C40 ---------------- *)
CntOf(o) == [i \in DOMAIN o |-> o[i].ts]
AggOf(o) == [i \in DOMAIN o |-> o[i].agg]
C40_EveryAggregateSampleKept == Done => HasEveryCountTimestamp(TimesOf(CntOf(out)), TimesOf(AggOf(out)))
(* stronger facts about the algorithm: chunk by chunk, and nothing invented, nothing reordered *)
EachChunkComplete == \A i \in DOMAIN out : SeqSet(out[i].ts) \subseteq SeqSet(out[i].agg)
InputTimes == UNION { TimesOf(CntOf(series[s])) \cup TimesOf(AggOf(series[s])) : s \in DOMAIN series }
NothingInvented == TimesOf(CntOf(out)) \subseteq InputTimes /\ TimesOf(AggOf(out)) \subseteq InputTimes
ChunksInOrder == \A i \in 1..(Len(out) - 1) : MinT(out[i]) <= MinT(out[i + 1])
OnlyDoneIsFinal == ~Done => ENABLED Next
(* liveness (weak fairness, no state constraint): the merged chunk iterator is exhausted eventually *)
FairSpec == Spec /\ WF_vars(Next)
Terminates == <>Done

(* ---------------- leg B: shapes for the harness ---------------- *)
CasesFile == IF "VERIF_CASES" \in DOMAIN IOEnv THEN IOEnv.VERIF_CASES ELSE "cases.ndjson"
CaseSeq == SetToSeq({ [series |-> [s \in DOMAIN inp |-> [i \in DOMAIN inp[s] |-> inp[s][i].ts]],
                       tags |-> [s \in DOMAIN inp |-> inp[s][1].tag], k |-> K] : inp \in Inputs })
ASSUME ndJsonSerialize(CasesFile, CaseSeq)
=============================================================================
