\* C21 leg A (concurrent calls), thorough: private generators (the code); 2 concurrent calls, tenants {1,2},
\* layouts (2), (3), (1,1), (2,2); <= 2 picks per zone; every PRF with values 1..2
SPECIFICATION Spec
CONSTANTS SharedGen = FALSE
          MaxTake = 2
          MaxEndpoints = 4
          MaxV = 2
          Procs = {1, 2}
          TenantIds = {1, 2}
INVARIANT C21_ConcStable
INVARIANT C21_ConcSize
CHECK_DEADLOCK FALSE
