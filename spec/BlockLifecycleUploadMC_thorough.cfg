\* C28 leg A thorough: blocks with 1..3 segment files, every procedure / pre-state, <= 3 crashes at any points;
\* generated cases carry <= 2 crash points
SPECIFICATION Spec
CONSTANTS MaxSeg = 3
          MaxCrashes = 3
          MaxDeny = {99, 1, 2}
          CaseCrashes = 2
INVARIANTS C28_MetaImpliesAllFiles C28_MarkKeptUntilLast DoneMeansDone
PROPERTIES Terminates AlgoStepsHold
CHECK_DEADLOCK FALSE
