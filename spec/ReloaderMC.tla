----------------------------- MODULE ReloaderMC -----------------------------
(***************************************************************************)
(* Leg A for C47: algorithm-level model of Reloader.apply under every      *)
(* history of edits / additions / removals / environment changes           *)
(* (including the variable becoming unset) / reload outcomes within a      *)
(* budget.                                                                 *)
(*                                                                         *)
(* State of the reloader as in the code: lastCfgHash, lastCfgDirsHash,     *)
(* lastWatchedDirsHash (a hash is modelled by the hashed content itself,   *)
(* i.e. sha256 is injective; before the first successful reload the value  *)
(* is one no content hashes to, "nil"), lastCfgDirFiles (the output files  *)
(* recorded for each config directory), forceReload; the file system:      *)
(* inputs and outputs.  There are one or two config directories (Passes):  *)
(* files a, b live in the first, c in the second; apply walks the          *)
(* directories in order and the files of a directory in name order.        *)
(*                                                                         *)
(* Apply is one action (the statement is about applies that run while the  *)
(* files are not changing); its reload outcome is a parameter:             *)
(*   "ok"      the endpoint answers 200 to the first request               *)
(*   "retryok" the first request fails, the retry inside the same apply    *)
(*             succeeds                                                    *)
(*   "fail"    every request fails until the apply gives up                *)
(* An apply FAILS PART-WAY when tolerance for unset variables is off, the  *)
(* variable is unset and a file that references it is reached: the config  *)
(* file first (nothing is written at all), then directory by directory,    *)
(* file by file - outputs of files before the failing one are already      *)
(* written (and recorded), the directory's stale-output cleanup and        *)
(* everything after it (later directories, hashes, reload) do not happen.  *)
(* P is the property-level memory, A the algorithm summary (Reloader.tla), *)
(* obs the last apply's observation.                                       *)
(***************************************************************************)
EXTENDS Reloader, TLC, Json, IOUtils, SequencesExt
CONSTANTS Contents,      \* content ids (subset of {"p1","p2","e1","e2"})
          TwoDirs,       \* BOOLEAN: a second config directory (file c) exists
          WatNames,      \* file names that may exist in the watched directory
          EnvVals,       \* values of the environment variable (Unset may be among them)
          TolVals,       \* values of TolerateEnvVarExpansionErrors to explore
          Budget,        \* changes + failing applies per history (model)
          HistLen,       \* leg B: plain histories up to this many operations
          FaultLen       \* leg B: fault histories (see below) up to this many operations

Outcomes == {"ok", "retryok", "fail"}
NoFile == ""
NoOut == [c |-> "", e |-> ""]
Passes == IF TwoDirs THEN << <<"a", "b">>, <<"c">> >> ELSE << <<"a", "b">> >>
DirNames == UNION { LRan(Passes[i]) : i \in DOMAIN Passes }

VARIABLES cfg, dir, wat, env, tol,                  \* inputs, environment, configuration
          outCfg, outDir,                           \* output files
          lastCfgHash, lastDirHash, lastWatHash,    \* hashes of the last successful reload
          lastDirFiles, force,                      \* recorded output files; forceReload
          P, A, obs, left, fresh
vars == <<cfg, dir, wat, env, tol, outCfg, outDir, lastCfgHash, lastDirHash, lastWatHash, lastDirFiles, force, P, A, obs, left, fresh>>
inputVars == <<cfg, dir, wat, env, tol>>
reloaderVars == <<outCfg, outDir, lastCfgHash, lastDirHash, lastWatHash, lastDirFiles, force, P, A, obs>>

Ins == [cfg |-> cfg,
        dir |-> SetToSeq({ [n |-> n, c |-> dir[n]] : n \in { m \in DirNames : dir[m] # NoFile } }),
        wat |-> SetToSeq({ [n |-> n, c |-> wat[n]] : n \in { m \in WatNames : wat[m] # NoFile } })]
OutsOf(oc, od) == [cfg |-> oc,
                   dir |-> SetToSeq({ [n |-> n, c |-> od[n].c, e |-> od[n].e] : n \in { m \in DirNames : od[m] # NoOut } })]
Outs == OutsOf(outCfg, outDir)

Init == /\ cfg \in Contents /\ dir = [n \in DirNames |-> NoFile] /\ wat = [n \in WatNames |-> NoFile]
        /\ env \in EnvVals \ {Unset} /\ tol \in TolVals
        /\ outCfg = NoOut /\ outDir = [n \in DirNames |-> NoOut]
        /\ lastCfgHash = "nil" /\ lastDirHash = [n \in DirNames |-> "nil"] /\ lastWatHash = [n \in WatNames |-> "nil"]
        /\ lastDirFiles = {} /\ force = FALSE
        /\ P = PInit /\ A = AInit /\ obs = [calls |-> 0, oks |-> 0, err |-> ""] /\ left = Budget /\ fresh = FALSE

(* ---- the environment of the reloader ---- *)
EditCfg(c) == /\ c # cfg /\ cfg' = c /\ UNCHANGED <<dir, wat, env>>
SetDir(n, c) == /\ c # dir[n] /\ dir' = [dir EXCEPT ![n] = c] /\ UNCHANGED <<cfg, wat, env>>   \* add, edit, remove (c = NoFile)
SetWat(n, c) == /\ c # wat[n] /\ wat' = [wat EXCEPT ![n] = c] /\ UNCHANGED <<cfg, dir, env>>
SetEnv(v) == /\ v # env /\ env' = v /\ UNCHANGED <<cfg, dir, wat>>                              \* v = Unset: the variable disappears
Change == /\ left > 0
          /\ \/ \E c \in Contents : EditCfg(c)
             \/ \E n \in DirNames, c \in Contents \cup {NoFile} : SetDir(n, c)
             \/ \E n \in WatNames, c \in Contents \cup {NoFile} : SetWat(n, c)
             \/ \E v \in EnvVals : SetEnv(v)
          /\ left' = left - 1 /\ fresh' = FALSE
          /\ UNCHANGED <<tol>> /\ UNCHANGED reloaderVars

(* ---- Reloader.apply ---- *)
Expand(c) == [c |-> c, e |-> EnvOf(c, env)]                       \* normalize(): expandEnv (tolerated: left as is)
Fails(c) == ~tol /\ Undefined(c, env)                             \* expandEnv returns an error

(* one file of a directory pass; st = [out, written, ok] *)
FileStep(st, n) ==
    IF ~st.ok \/ dir[n] = NoFile THEN st
    ELSE IF Fails(dir[n]) THEN [st EXCEPT !.ok = FALSE]
    ELSE [st EXCEPT !.out[n] = Expand(dir[n]), !.written = @ \cup {n}]
(* one config directory; st = [out, last, ok].  A completed pass removes the recorded outputs whose   *)
(* input is gone and records this pass's files; an aborted pass keeps the old record and adds the     *)
(* outputs it did write (normalizeDirFile records an output as soon as it is written).                *)
PassStep(st, names) ==
    IF ~st.ok THEN st
    ELSE LET f == FoldLeft(FileStep, [out |-> st.out, written |-> {}, ok |-> TRUE], names)
             mine == LRan(names)
             now == { n \in mine : dir[n] # NoFile }
         IN IF ~f.ok
              THEN [out |-> f.out, last |-> st.last \cup f.written, ok |-> FALSE]
              ELSE [out |-> [n \in DOMAIN f.out |-> IF n \in mine /\ n \in st.last /\ n \notin now THEN NoOut ELSE f.out[n]],
                    last |-> (st.last \ mine) \cup now, ok |-> TRUE]

Apply(outcome) ==
    LET cfgHash == cfg
        dirHash == dir
        watHash == wat
        r == FoldLeft(PassStep, [out |-> outDir, last |-> lastDirFiles, ok |-> TRUE], Passes)
        dirsChanged == lastDirHash # dirHash
        trigger == force \/ dirsChanged \/ lastCfgHash # cfgHash \/ lastWatHash # watHash
        failed == Fails(cfg) \/ ~r.ok
    IN
    /\ outcome = "fail" => left > 0
    /\ left' = IF outcome = "fail" THEN left - 1 ELSE left
    /\ IF Fails(cfg)
         THEN UNCHANGED <<outCfg, outDir, lastDirFiles>>
         ELSE outCfg' = Expand(cfg) /\ outDir' = r.out /\ lastDirFiles' = r.last
    /\ IF failed
         THEN /\ obs' = [calls |-> 0, oks |-> 0, err |-> "expand"]
              /\ UNCHANGED <<lastCfgHash, lastDirHash, lastWatHash, force>>
       ELSE IF ~trigger
         THEN /\ obs' = [calls |-> 0, oks |-> 0, err |-> ""]
              /\ UNCHANGED <<lastCfgHash, lastDirHash, lastWatHash, force>>
       ELSE IF outcome = "fail"
         THEN /\ obs' = [calls |-> 1, oks |-> 0, err |-> ""]
              /\ force' = TRUE
              /\ UNCHANGED <<lastCfgHash, lastDirHash, lastWatHash>>
       ELSE /\ obs' = [calls |-> IF outcome = "retryok" THEN 2 ELSE 1, oks |-> 1, err |-> ""]
            /\ force' = FALSE
            /\ lastCfgHash' = cfgHash /\ lastDirHash' = dirHash /\ lastWatHash' = watHash
    /\ P' = PNext(P, Snapshot(Ins), env, obs'.err, obs'.calls, obs'.oks)
    /\ A' = ANext(A, Snapshot(Ins), obs'.err, obs'.calls, obs'.oks)
    /\ fresh' = TRUE
    /\ UNCHANGED inputVars

ApplyOK == Apply("ok")
Next == Change \/ \E o \in Outcomes : Apply(o)
Spec == Init /\ [][Next]_vars /\ WF_vars(ApplyOK)

(* ---- C47 on the algorithm ---- *)
(* (1) the eventual clause at every quiescent point: after an apply that completed and either reloaded *)
(* successfully or had no reason to reload                                                             *)
OutputsFollowInputs == (fresh /\ obs.err = "" /\ (obs.oks >= 1 \/ obs.calls = 0)) => OutputClauses(Ins, env, Outs, "") = {}
(* (1),(2),(3) as an action property: the clauses the trace spec judges hold for every apply of the model *)
AppliesSatisfyProperty == [][fresh' => (LET o == [calls |-> obs'.calls, oks |-> obs'.oks, err |-> obs'.err,
                                                 outs |-> Outs', atok |-> Outs']
                                       IN ApplyClauses(P, Ins, env, tol, o) = {})]_vars
(* the summary used for model conformance in the trace spec agrees with the detailed model *)
SummaryAgrees == [][(fresh' /\ obs'.err = "") => ((obs'.calls > 0) = ATrigger(A, Snapshot(Ins)))]_vars
(* an apply fails exactly under the fault the property allows *)
FailsOnlyUnderFault == [][fresh' => ((obs'.err # "") = MayFail(Ins, env, tol))]_vars
(* eventual form: once nothing changes any more, the fault (if any) is repaired and reloads succeed, the  *)
(* outputs equal the inputs, the reloaded content is the current content, no further reload is requested *)
Synced == /\ OutputClauses(Ins, env, Outs, "") = {}
          /\ P.hadOK /\ P.lastOK = Snapshot(Ins) /\ ~P.pendingFail
EventuallySynced == <>[](MayFail(Ins, env, tol) \/ Synced)
NoReloadOnceSynced == [][(Synced /\ fresh' /\ obs'.err = "") => obs'.calls = 0]_vars

(* ---- leg B: histories for the real Reloader ---- *)
Op(o, f, c) == [op |-> o, f |-> f, c |-> c]
(* (a) plain histories: all operation sequences of length <= HistLen over the first directory, the    *)
(* watched directory, the set values of the variable and all reload outcomes, that end with an apply   *)
(* and contain no no-op change.                                                                        *)
PlainNames == {"a", "b"}
HInit == [cfg |-> CHOOSE c \in Contents : TRUE, dir |-> [n \in DirNames |-> NoFile], wat |-> [n \in WatNames |-> NoFile],
          env |-> CHOOSE v \in EnvVals \ {Unset} : TRUE]
HChanges(s) ==
    { <<Op("edit", "cfg", c), [s EXCEPT !.cfg = c]>> : c \in Contents \ {s.cfg} }
    \cup UNION { { <<Op(IF c = NoFile THEN "remove" ELSE IF s.dir[n] = NoFile THEN "add" ELSE "edit", n, c), [s EXCEPT !.dir[n] = c]>>
                    : c \in (Contents \cup {NoFile}) \ {s.dir[n]} } : n \in PlainNames }
    \cup UNION { { <<Op(IF c = NoFile THEN "wremove" ELSE IF s.wat[n] = NoFile THEN "wadd" ELSE "wedit", n, c), [s EXCEPT !.wat[n] = c]>>
                    : c \in (Contents \cup {NoFile}) \ {s.wat[n]} } : n \in WatNames }
    \cup { <<Op("setenv", "", v), [s EXCEPT !.env = v]>> : v \in EnvVals \ {s.env, Unset} }
HApplies(s) == { <<Op("apply", "", o), s>> : o \in Outcomes }
RECURSIVE Hists(_, _)
Hists(s, n) ==
    {<<>>} \cup
    (IF n = 0 THEN {}
     ELSE UNION { { <<x[1]>> \o h : h \in (IF x[1].op = "apply" THEN Hists(x[2], n - 1) ELSE Hists(x[2], n - 1) \ {<<>>}) }
                  : x \in HChanges(s) \cup HApplies(s) })

(* (b) fault histories: the world starts with a plain file a and a file b that references the variable *)
(* in the first directory (c absent) and one successful apply; then all sequences of length <=         *)
(* FaultLen over: a added/removed, b added/removed, c (second directory) added/removed, the variable   *)
(* unset/set again, apply - ending with an apply.  They contain every way of combining an apply that    *)
(* fails part-way through a directory with additions and removals in the same cycle, and the recovery. *)
FNames == {"a", "b"} \cup (IF TwoDirs THEN {"c"} ELSE {})
FContent(n) == IF n = "b" THEN "e1" ELSE "p1"
FPrefix == << Op("add", "a", "p1"), Op("add", "b", "e1"), Op("apply", "", "ok") >>
(* second start: only b exists and the variable is already unset (no apply yet): reaches within FaultLen   *)
(* "a is added, the apply fails after writing a's output, a is removed again, recovery"                   *)
FPrefix2 == << Op("add", "b", "e1"), Op("unsetenv", "", "") >>
FSteps(s) ==     \* s = [files |-> set of present names, set |-> BOOLEAN]
    { <<Op(IF n \in s.files THEN "remove" ELSE "add", n, IF n \in s.files THEN NoFile ELSE FContent(n)),
        [s EXCEPT !.files = IF n \in s.files THEN @ \ {n} ELSE @ \cup {n}]>> : n \in FNames }
    \cup { <<IF s.set THEN Op("unsetenv", "", "") ELSE Op("setenv", "", HInit.env), [s EXCEPT !.set = ~@]>> }
RECURSIVE FHists(_, _)
FHists(s, n) ==
    {<<>>} \cup
    (IF n = 0 THEN {}
     ELSE { <<Op("apply", "", "ok")>> \o h : h \in FHists(s, n - 1) }
          \cup UNION { { <<x[1]>> \o h : h \in FHists(x[2], n - 1) \ {<<>>} } : x \in FSteps(s) })
MaximalOnly(S, len) == { h \in S : Len(h) = len }      \* shorter histories are prefixes of these

CasesFile == IF "VERIF_CASES" \in DOMAIN IOEnv THEN IOEnv.VERIF_CASES ELSE "cases.ndjson"
CaseSeq == SetToSeq(
    { [cfg0 |-> HInit.cfg, env0 |-> HInit.env, tol |-> FALSE, ops |-> h] : h \in Hists(HInit, HistLen) \ {<<>>} }
    \cup { [cfg0 |-> HInit.cfg, env0 |-> HInit.env, tol |-> t, ops |-> FPrefix \o h]
           : h \in MaximalOnly(FHists([files |-> {"a", "b"}, set |-> TRUE], FaultLen), FaultLen), t \in TolVals }
    \cup { [cfg0 |-> HInit.cfg, env0 |-> HInit.env, tol |-> t, ops |-> FPrefix2 \o h]
           : h \in MaximalOnly(FHists([files |-> {"b"}, set |-> FALSE], FaultLen), FaultLen), t \in TolVals })
ASSUME ndJsonSerialize(CasesFile, CaseSeq)
=============================================================================
