----------------------------- MODULE ReloaderMC -----------------------------
(***************************************************************************)
(* Leg A for C47: algorithm-level model of Reloader.apply under every      *)
(* history of edits / additions / removals / environment changes / reload  *)
(* outcomes within a budget.                                               *)
(*                                                                         *)
(* State of the reloader as in the code: lastCfgHash, lastCfgDirsHash,     *)
(* lastWatchedDirsHash (a hash is modelled by the hashed content itself,   *)
(* i.e. sha256 is injective; before the first successful reload the value  *)
(* is one no content hashes to, "nil"),                                    *)
(* lastCfgDirFiles, forceReload; the file system: inputs and outputs.      *)
(* Apply is one action (the statement is about applies that run while      *)
(* the files are not changing); its reload outcome is a parameter:         *)
(*   "ok"      the endpoint answers 200 to the first request               *)
(*   "retryok" the first request fails, the retry inside the same apply    *)
(*             succeeds                                                    *)
(*   "fail"    every request fails until the apply gives up                *)
(* P is the property-level memory, A the algorithm summary (Reloader.tla), *)
(* obs the last apply's observation.                                       *)
(***************************************************************************)
EXTENDS Reloader, TLC, Json, IOUtils, SequencesExt
CONSTANTS Contents,      \* content ids (subset of {"p1","p2","e1","e2"})
          DirNames,      \* file names that may exist in the config directory
          WatNames,      \* file names that may exist in the watched directory
          EnvVals,       \* values of the environment variable
          Budget,        \* edits + failing applies per history (model)
          HistLen        \* leg B: histories up to this many operations

Outcomes == {"ok", "retryok", "fail"}
NoFile == ""
NoOut == [c |-> "", e |-> ""]

VARIABLES cfg, dir, wat, env,                       \* inputs and environment
          outCfg, outDir,                           \* output files
          lastCfgHash, lastDirHash, lastWatHash,    \* hashes of the last successful reload
          lastDirFiles, force,                      \* output files of the last apply; forceReload
          P, A, obs, left, fresh
vars == <<cfg, dir, wat, env, outCfg, outDir, lastCfgHash, lastDirHash, lastWatHash, lastDirFiles, force, P, A, obs, left, fresh>>
inputVars == <<cfg, dir, wat, env>>
reloaderVars == <<outCfg, outDir, lastCfgHash, lastDirHash, lastWatHash, lastDirFiles, force, P, A, obs>>

Ins == [cfg |-> cfg,
        dir |-> SetToSeq({ [n |-> n, c |-> dir[n]] : n \in { m \in DirNames : dir[m] # NoFile } }),
        wat |-> SetToSeq({ [n |-> n, c |-> wat[n]] : n \in { m \in WatNames : wat[m] # NoFile } })]
Outs == [cfg |-> outCfg,
         dir |-> SetToSeq({ [n |-> n, c |-> outDir[n].c, e |-> outDir[n].e] : n \in { m \in DirNames : outDir[m] # NoOut } })]

Init == /\ cfg \in Contents /\ dir = [n \in DirNames |-> NoFile] /\ wat = [n \in WatNames |-> NoFile]
        /\ env \in EnvVals
        /\ outCfg = NoOut /\ outDir = [n \in DirNames |-> NoOut]
        /\ lastCfgHash = "nil" /\ lastDirHash = [n \in DirNames |-> "nil"] /\ lastWatHash = [n \in WatNames |-> "nil"]
        /\ lastDirFiles = {"<nil>"} /\ force = FALSE
        /\ P = PInit /\ A = AInit /\ obs = [calls |-> 0, oks |-> 0] /\ left = Budget /\ fresh = FALSE

(* ---- the environment of the reloader ---- *)
EditCfg(c) == /\ left > 0 /\ c # cfg /\ cfg' = c /\ UNCHANGED <<dir, wat, env>>
SetDir(n, c) == /\ left > 0 /\ c # dir[n] /\ dir' = [dir EXCEPT ![n] = c] /\ UNCHANGED <<cfg, wat, env>>   \* add, edit, remove (c = NoFile)
SetWat(n, c) == /\ left > 0 /\ c # wat[n] /\ wat' = [wat EXCEPT ![n] = c] /\ UNCHANGED <<cfg, dir, env>>
SetEnv(v) == /\ left > 0 /\ v # env /\ env' = v /\ UNCHANGED <<cfg, dir, wat>>
Change == /\ \/ \E c \in Contents : EditCfg(c)
             \/ \E n \in DirNames, c \in Contents \cup {NoFile} : SetDir(n, c)
             \/ \E n \in WatNames, c \in Contents \cup {NoFile} : SetWat(n, c)
             \/ \E v \in EnvVals : SetEnv(v)
          /\ left' = left - 1 /\ fresh' = FALSE
          /\ UNCHANGED reloaderVars

(* ---- Reloader.apply ---- *)
Expand(c) == [c |-> c, e |-> EnvOf(c, env)]                       \* normalize(): expandEnv
Apply(outcome) ==
    LET cfgHash == cfg
        dirHash == dir
        watHash == wat
        nowFiles == { n \in DirNames : dir[n] # NoFile }
        (* normalize every present file; remove outputs recorded by the previous apply whose input is gone *)
        newOutDir == [n \in DirNames |->
                        IF dir[n] # NoFile THEN Expand(dir[n])
                        ELSE IF n \in lastDirFiles THEN NoOut
                        ELSE outDir[n]]
        dirsChanged == lastDirHash # dirHash
        trigger == force \/ dirsChanged \/ lastCfgHash # cfgHash \/ lastWatHash # watHash
    IN
    /\ outcome = "fail" => left > 0
    /\ left' = IF outcome = "fail" THEN left - 1 ELSE left
    /\ outCfg' = Expand(cfg)
    /\ outDir' = newOutDir
    /\ lastDirFiles' = nowFiles
    /\ IF ~trigger
         THEN /\ obs' = [calls |-> 0, oks |-> 0]
              /\ UNCHANGED <<lastCfgHash, lastDirHash, lastWatHash, force>>
       ELSE IF outcome = "fail"
         THEN /\ obs' = [calls |-> 1, oks |-> 0]
              /\ force' = TRUE
              /\ UNCHANGED <<lastCfgHash, lastDirHash, lastWatHash>>
       ELSE /\ obs' = [calls |-> IF outcome = "retryok" THEN 2 ELSE 1, oks |-> 1]
            /\ force' = FALSE
            /\ lastCfgHash' = cfgHash /\ lastDirHash' = dirHash /\ lastWatHash' = watHash
    /\ P' = PNext(P, Snapshot(Ins), env, obs'.calls, obs'.oks)
    /\ A' = ANext(A, Snapshot(Ins), obs'.calls, obs'.oks)
    /\ fresh' = TRUE
    /\ UNCHANGED inputVars

ApplyOK == Apply("ok")
Next == Change \/ \E o \in Outcomes : Apply(o)
Spec == Init /\ [][Next]_vars /\ WF_vars(ApplyOK)

(* ---- C47 on the algorithm ---- *)
ObsRecord == [calls |-> obs.calls, oks |-> obs.oks, err |-> "", outs |-> Outs, atok |-> Outs]
(* (1) outputs after an apply that reloaded successfully or had no reason to reload *)
OutputsFollowInputs == (fresh /\ (obs.oks >= 1 \/ obs.calls = 0)) => ObservedOut(Outs) = ExpectedOut(Ins, env)
(* (2),(3) as an action property: the clauses the trace spec judges hold for every apply of the model *)
AppliesSatisfyProperty == [][fresh' => (LET o == [calls |-> obs'.calls, oks |-> obs'.oks, err |-> "",
                                                 outs |-> Outs', atok |-> Outs']
                                       IN ApplyClauses(P, Ins, env, o) = {})]_vars
(* the summary used for model conformance in the trace spec agrees with the detailed model *)
SummaryAgrees == [][fresh' => ((obs'.calls > 0) = ATrigger(A, Snapshot(Ins)))]_vars
(* eventual form: once nothing changes any more and reloads succeed, the outputs equal the inputs, the *)
(* reloaded content is the current content, and no further reload is requested                        *)
Synced == /\ ObservedOut(Outs) = ExpectedOut(Ins, env)
          /\ P.hadOK /\ P.lastOK = Snapshot(Ins) /\ ~P.pendingFail
EventuallySynced == <>[]Synced
NoReloadOnceSynced == [][(Synced /\ fresh') => obs'.calls = 0]_vars

(* ---- leg B: histories for the real Reloader ---- *)
(* All operation sequences of length <= HistLen that end with an apply and contain no no-op change *)
(* (edit to the same content, removal of a missing file, same environment value).                  *)
Op(o, f, c) == [op |-> o, f |-> f, c |-> c]
HInit == [cfg |-> CHOOSE c \in Contents : TRUE, dir |-> [n \in DirNames |-> NoFile], wat |-> [n \in WatNames |-> NoFile],
          env |-> CHOOSE v \in EnvVals : TRUE]
HChanges(s) ==
    { <<Op("edit", "cfg", c), [s EXCEPT !.cfg = c]>> : c \in Contents \ {s.cfg} }
    \cup UNION { { <<Op(IF c = NoFile THEN "remove" ELSE IF s.dir[n] = NoFile THEN "add" ELSE "edit", n, c), [s EXCEPT !.dir[n] = c]>>
                    : c \in (Contents \cup {NoFile}) \ {s.dir[n]} } : n \in DirNames }
    \cup UNION { { <<Op(IF c = NoFile THEN "wremove" ELSE IF s.wat[n] = NoFile THEN "wadd" ELSE "wedit", n, c), [s EXCEPT !.wat[n] = c]>>
                    : c \in (Contents \cup {NoFile}) \ {s.wat[n]} } : n \in WatNames }
    \cup { <<Op("setenv", "", v), [s EXCEPT !.env = v]>> : v \in EnvVals \ {s.env} }
HApplies(s) == { <<Op("apply", "", o), s>> : o \in Outcomes }
RECURSIVE Hists(_, _)
Hists(s, n) ==    \* sequences of exactly <= n ops from s, ending with an apply (or empty)
    {<<>>} \cup
    (IF n = 0 THEN {}
     ELSE UNION { { <<x[1]>> \o h : h \in (IF x[1].op = "apply" THEN Hists(x[2], n - 1) ELSE Hists(x[2], n - 1) \ {<<>>}) }
                  : x \in HChanges(s) \cup HApplies(s) })
CasesFile == IF "VERIF_CASES" \in DOMAIN IOEnv THEN IOEnv.VERIF_CASES ELSE "cases.ndjson"
CaseSeq == SetToSeq({ [cfg0 |-> HInit.cfg, env0 |-> HInit.env, ops |-> h] : h \in Hists(HInit, HistLen) \ {<<>>} })
ASSUME ndJsonSerialize(CasesFile, CaseSeq)
=============================================================================
