----------------------- MODULE BlockLifecycleUploadMC -----------------------
(***************************************************************************)
(* Leg A of C28: the bucket-mutating procedures for ONE block b1 -         *)
(*   upload    block.upload      (pkg/block/block.go)                      *)
(*   ship      Shipper.Sync for one block = Exists(meta.json) check, then  *)
(*             block.Upload                (pkg/shipper/shipper.go)        *)
(*   replicate replicationScheme.ensureBlockIsReplicated                   *)
(*                                          (pkg/replicate/scheme.go)      *)
(*   delete    block.Delete      (pkg/block/block.go)                      *)
(*   upload_prom  block.UploadPromBlock: the same procedure for a block    *)
(*             without Thanos external labels (phase 2)                    *)
(* Fault kinds: Crash (below) and, second round, PER-OBJECT DENIAL: the   *)
(* uploads of one chosen object (a chunk segment or the index) are refused *)
(* - persistently or for the first attempts - while every other operation  *)
(* succeeds.  A refused upload makes the procedure return its error: the   *)
(* other segment uploads of a concurrent UploadDir may still complete,     *)
(* nothing after the chunk directory is uploaded.                          *)
(* Phase 2: deletion also starts from blocks that carry further marker     *)
(* objects (no-compact-mark.json, no-downsample-mark.json) next to the     *)
(* deletion mark.                                                          *)
(* one action per bucket operation, with a crash (all local state lost,    *)
(* bucket kept) possible before every operation and the procedure started  *)
(* again afterwards, up to MaxCrashes times.  TLC checks the two C28       *)
(* invariants in every reachable bucket state.                             *)
(***************************************************************************)
EXTENDS BlockLifecycle, TLC, Json, IOUtils, SequencesExt
CONSTANTS MaxSeg,       \* blocks have 1..MaxSeg chunk segment files
          MaxCrashes,   \* crashes per execution
          CaseCrashes,  \* crash points per generated case (leg B), <= MaxCrashes
          MaxDeny       \* refused attempts of the denied object: subset of {1, 2, ..., 99 (= all)}

B == "b1"
SegNames == <<"chunks/000001", "chunks/000002", "chunks/000003", "chunks/000004">>
Seg(i) == [b |-> B, f |-> SegNames[i], s |-> 10 + i]
Segs(n) == { Seg(i) : i \in 1..n }
Index == [b |-> B, f |-> IndexF, s |-> 7]
Meta == [b |-> B, f |-> MetaF, s |-> 99]
Mark == [b |-> B, f |-> MarkF, s |-> 5]
NoCompactMark == [b |-> B, f |-> "no-compact-mark.json", s |-> 4]
NoDownsampleMark == [b |-> B, f |-> "no-downsample-mark.json", s |-> 3]
Files(n) == Segs(n) \cup {Index}

Procs == {"upload", "upload_prom", "ship", "replicate", "delete"}
Pres(p) == IF p = "delete" THEN {"complete", "complete+mark", "partial", "partial+mark", "complete+marks", "partial+marks"} ELSE {"empty"}
PreBucket(pre, n) ==
    CASE pre = "empty"         -> {}
      [] pre = "complete"      -> Files(n) \cup {Meta}
      [] pre = "complete+mark" -> Files(n) \cup {Meta, Mark}
      [] pre = "partial"       -> Files(n)
      [] pre = "partial+mark"  -> Files(n) \cup {Mark}
      [] pre = "complete+marks" -> Files(n) \cup {Meta, Mark, NoCompactMark, NoDownsampleMark}
      [] pre = "partial+marks"  -> Files(n) \cup {Mark, NoCompactMark, NoDownsampleMark}

VARIABLES nseg, proc, conc, pre,   \* the case: chosen in Init, never changed
          bkt,        \* the (target) bucket
          pc,         \* program counter of the running procedure
          todo,       \* files the current loop still has to handle
          crashes,    \* crashes so far
          delMarked,  \* history variable of C28 clause 2 (see BlockLifecycle)
          deny,       \* the object whose uploads are refused ("none" or a file name), chosen in Init
          denyLeft    \* how many more attempts are refused (99 = all of them)
vars == <<nseg, proc, conc, pre, bkt, pc, todo, crashes, delMarked, deny, denyLeft>>

Init == /\ nseg \in 1..MaxSeg /\ proc \in Procs /\ conc \in BOOLEAN
        /\ (conc => proc \in {"upload", "upload_prom", "ship"})       \* only block.Upload has a concurrency option
        /\ pre \in Pres(proc)
        /\ bkt = PreBucket(pre, nseg)
        /\ pc = "start" /\ todo = {} /\ crashes = 0 /\ delMarked = {}
        /\ deny \in (IF proc = "delete" THEN {"none"} ELSE {"none", IndexF} \cup { SegNames[k] : k \in 1..nseg })
        /\ denyLeft \in (IF deny = "none" THEN {0} ELSE MaxDeny)

Case == <<nseg, proc, conc, pre>>
Put(o) == bkt' = { x \in bkt : ~(x.b = o.b /\ x.f = o.f) } \cup {o}      \* upload overwrites
Keep == UNCHANGED <<nseg, proc, conc, pre, crashes, deny, denyLeft>>
KeepCase == UNCHANGED <<nseg, proc, conc, pre, deny>>
Refused(o) == o.f = deny /\ denyLeft # 0
Always == 99       \* "every attempt"
Spend == denyLeft' = IF denyLeft = Always THEN Always ELSE denyLeft - 1

Start == /\ pc = "start"
         /\ pc' = CASE proc \in {"upload", "upload_prom"} -> "u_segs" [] proc = "ship" -> "s_exists"
                    [] proc = "replicate" -> "r_cmp" [] proc = "delete" -> "d_meta"
         /\ todo' = IF proc \in {"upload", "upload_prom"} THEN Segs(nseg) ELSE {}
         /\ UNCHANGED <<bkt, delMarked>> /\ Keep

(* ---- block.upload: chunk segments (objstore.UploadDir, up to `concurrency` at a time), index, meta.json last ---- *)
NextSegs == IF conc THEN todo ELSE {CHOOSE x \in todo : \A y \in todo : x.s <= y.s}
UploadSeg == /\ pc = "u_segs" /\ todo # {}
             /\ \E o \in NextSegs : ~Refused(o) /\ Put(o) /\ todo' = todo \ {o}
             /\ UNCHANGED <<pc, delMarked>> /\ Keep
UploadSegsDone == /\ pc = "u_segs" /\ todo = {} /\ pc' = "u_index" /\ UNCHANGED <<bkt, todo, delMarked>> /\ Keep
UploadIndex == /\ pc = "u_index" /\ ~Refused(Index) /\ Put(Index) /\ pc' = "u_meta" /\ UNCHANGED <<todo, delMarked>> /\ Keep
UploadMeta == /\ pc = "u_meta" /\ Put(Meta) /\ pc' = "done" /\ UNCHANGED <<todo, delMarked>> /\ Keep

(* ---- shipper: skip the block when its meta.json exists, else block.Upload ---- *)
ShipExists == /\ pc = "s_exists"
              /\ IF Meta \in bkt THEN pc' = "done" /\ todo' = {} ELSE pc' = "u_segs" /\ todo' = Segs(nseg)
              /\ UNCHANGED <<bkt, delMarked>> /\ Keep

(* ---- replication: equal meta.json => done; else every origin chunk object, then the index, each only if   *)
(* ---- missing in the target, then meta.json unconditionally                                                *)
ReplCmp == /\ pc = "r_cmp"
           /\ IF Meta \in bkt THEN pc' = "done" /\ todo' = {} ELSE pc' = "r_segs" /\ todo' = Segs(nseg)
           /\ UNCHANGED <<bkt, delMarked>> /\ Keep
ReplSeg == /\ pc = "r_segs" /\ todo # {}
           /\ LET o == CHOOSE x \in todo : \A y \in todo : x.s <= y.s IN
              /\ (HasObj(bkt, o.b, o.f) \/ ~Refused(o))
              /\ (IF HasObj(bkt, o.b, o.f) THEN UNCHANGED bkt ELSE Put(o))
              /\ todo' = todo \ {o}
           /\ UNCHANGED <<pc, delMarked>> /\ Keep
ReplSegsDone == /\ pc = "r_segs" /\ todo = {} /\ pc' = "r_index" /\ UNCHANGED <<bkt, todo, delMarked>> /\ Keep
ReplIndex == /\ pc = "r_index"
             /\ (HasObj(bkt, B, IndexF) \/ ~Refused(Index))
             /\ (IF HasObj(bkt, B, IndexF) THEN UNCHANGED bkt ELSE Put(Index))
             /\ pc' = "u_meta" /\ UNCHANGED <<todo, delMarked>> /\ Keep

(* ---- block.Delete: meta.json first, then everything except the deletion mark (as listed when the loop   *)
(* ---- starts, any order), the deletion mark last                                                          *)
Del(o) == /\ bkt' = bkt \ {o}
          /\ delMarked' = DelMarkedAfterDelete(delMarked, bkt, bkt \ {o}, o.b)
DeleteMeta == /\ pc = "d_meta"
              /\ (IF Meta \in bkt THEN Del(Meta) ELSE UNCHANGED <<bkt, delMarked>>)
              /\ pc' = "d_files"
              /\ todo' = { o \in bkt : o.f # MetaF /\ o.f # MarkF }
              /\ Keep
DeleteFile == /\ pc = "d_files" /\ todo # {}
              /\ \E o \in todo : Del(o) /\ todo' = todo \ {o}
              /\ UNCHANGED pc /\ Keep
DeleteFilesDone == /\ pc = "d_files" /\ todo = {} /\ pc' = "d_mark" /\ UNCHANGED <<bkt, todo, delMarked>> /\ Keep
DeleteMark == /\ pc = "d_mark"
              /\ (IF Mark \in bkt THEN Del(Mark) ELSE UNCHANGED <<bkt, delMarked>>)
              /\ pc' = "done" /\ UNCHANGED todo /\ Keep

(* ---- per-object denial: the upload of the denied object is refused; the procedure returns the error ---- *)
RefusedNow == CASE pc = "u_segs"  -> todo # {} /\ \E o \in NextSegs : Refused(o)
                [] pc = "u_index" -> Refused(Index)
                [] pc = "r_segs"  -> todo # {} /\ LET o == CHOOSE x \in todo : \A y \in todo : x.s <= y.s IN ~HasObj(bkt, o.b, o.f) /\ Refused(o)
                [] pc = "r_index" -> ~HasObj(bkt, B, IndexF) /\ Refused(Index)
                [] OTHER -> FALSE
UploadRefused == /\ RefusedNow /\ Spend
                 /\ todo' = IF pc = "u_segs" /\ conc THEN { o \in todo : o.f # deny } ELSE {}   \* concurrent UploadDir: siblings in flight
                 /\ pc' = "u_fail"
                 /\ UNCHANGED <<bkt, crashes, delMarked>> /\ KeepCase
(* siblings of a refused segment that were already in flight may still land *)
UploadSibling == /\ pc = "u_fail" /\ todo # {}
                 /\ \E o \in todo : /\ todo' = todo \ {o}
                                   /\ \/ Put(o)
                                      \/ UNCHANGED bkt              \* cancelled before it was sent
                 /\ UNCHANGED <<pc, delMarked>> /\ Keep
(* the procedure returned its error: the caller runs it again (bounded like crashes), or gives up *)
FailEnd == /\ pc = "u_fail" /\ todo = {}
           /\ IF crashes < MaxCrashes THEN pc' = "start" /\ crashes' = crashes + 1 ELSE pc' = "failed" /\ UNCHANGED crashes
           /\ UNCHANGED <<bkt, todo, delMarked, denyLeft>> /\ KeepCase

(* ---- crash: the process dies, the bucket stays, the procedure is started again ---- *)
Crash == /\ pc \notin {"start", "done", "failed"} /\ crashes < MaxCrashes
         /\ crashes' = crashes + 1 /\ pc' = "start" /\ todo' = {}
         /\ UNCHANGED <<nseg, proc, conc, pre, bkt, delMarked, deny, denyLeft>>

Step == Start \/ UploadSeg \/ UploadSegsDone \/ UploadIndex \/ UploadMeta \/ ShipExists
        \/ ReplCmp \/ ReplSeg \/ ReplSegsDone \/ ReplIndex
        \/ DeleteMeta \/ DeleteFile \/ DeleteFilesDone \/ DeleteMark
        \/ UploadRefused \/ UploadSibling \/ FailEnd
Next == Step \/ Crash
Spec == Init /\ [][Next]_vars /\ WF_vars(Step)

(* ---- C28 ---- *)
ListedNow == IF Meta \in bkt THEN Files(nseg) ELSE {}       \* what the meta.json in the bucket lists
C28_MetaImpliesAllFiles == C28_Incomplete(bkt, ListedNow) = {}
C28_MarkKeptUntilLast == C28_MarkLost(bkt, delMarked) = {}
(* the procedures do their job (not part of C28, guards against a vacuous model) *)
DoneMeansDone == pc = "done" =>
    IF proc = "delete" THEN bkt = {} ELSE BlockComplete(bkt, ListedNow, B) /\ Files(nseg) \subseteq bkt
Terminates == <>(pc \in {"done", "failed"})
(* algorithm-level step constraints used for DRIFT in the trace spec hold in the model *)
AlgoStepsHold == [][ /\ \A o \in bkt' \ bkt : AlgoUploadStepOK(bkt, Files(nseg), o.b, o.f)
                     /\ \A o \in bkt \ bkt' : AlgoDeleteStepOK(bkt, o.b, o.f) ]_vars

(* ---- leg B: cases = procedure x segments x concurrency x pre-state x crash points (index of the    *)
(* ---- mutating bucket call before which the bucket goes away; 0 = none; one entry per run)            *)
CasesFile == IF "VERIF_CASES" \in DOMAIN IOEnv THEN IOEnv.VERIF_CASES ELSE "cases.ndjson"
MaxMut == MaxSeg + 5       \* >= mutating calls of any procedure (delete: meta, files, mark, 2 directory markers)
CrashSeqs(n) == UNION { [1..k -> 1..(n + 5)] : k \in 0..CaseCrashes }
UpProcs == {"upload", "upload_prom", "ship"}
ConcOf(p) == IF p \in UpProcs THEN BOOLEAN ELSE {FALSE}
DenyObjs(n) == {"index"} \cup { SegNames[k] : k \in 1..n }
(* crash cases: every procedure / pre-state / crash sequence, no denial *)
CrashCases == UNION { { [proc |-> p, nseg |-> n, conc |-> c, pre |-> q, crashes |-> cr, deny |-> [obj |-> "none", times |-> 0]] :
                          c \in ConcOf(p), q \in Pres(p), cr \in CrashSeqs(n) } : p \in Procs, n \in 1..MaxSeg }
(* denial cases: uploading procedures only, no crash; the denied object is the index or one of the block's segments *)
DenyCases == UNION { { [proc |-> p, nseg |-> n, conc |-> c, pre |-> "empty", crashes |-> <<>>, deny |-> [obj |-> o, times |-> k]] :
                         c \in ConcOf(p), o \in DenyObjs(n), k \in MaxDeny } : p \in Procs \ {"delete"}, n \in 1..MaxSeg }
CaseSet == CrashCases \cup DenyCases
CaseOK(c) == TRUE
ASSUME ndJsonSerialize(CasesFile, SetToSeq({ c \in CaseSet : CaseOK(c) }))
=============================================================================
