\* C31 leg A thorough: <= 4 blocks (4-block inputs within one group, <= 3 blocks over 2 groups), sources within 1..3, 2 workers; all inputs, group orders, interleavings
SPECIFICATION Spec
CONSTANTS MaxBlocks = 4
          NSrc = 3
          NGrp = 2
          Workers = {"w1", "w2"}
          FullGrpBlocks = 3
          CaseBlocks = 4
INVARIANTS C31_HiddenOnlyIfCovered C31_KeptCoverEverySource C31_OutcomeIndependentOfSchedule NeverRemovesKept
PROPERTIES Terminates
CHECK_DEADLOCK FALSE
