\* C47 leg A quick (safety): contents {p1 (plain), e1 (references the env var)}, config dir 1 files {a,b}, config dir 2
\* file {c}, watched dir file {w}, env {v1, v2, unset}, tolerance for unset variables off and on; every history with
\* <= 3 changes/failing applies and any number of successful applies.
\* Leg B: plain histories of <= 3 operations; fault histories (prefix + 5 operations, tolerance off).
SPECIFICATION Spec
CONSTANTS Contents = {"p1", "e1"}
          TwoDirs = TRUE
          WatNames = {"w"}
          EnvVals = {"v1", "v2", "unset"}
          TolVals = {FALSE}
          Budget = 3
          HistLen = 3
          FaultLen = 5
INVARIANT OutputsFollowInputs
PROPERTIES AppliesSatisfyProperty SummaryAgrees FailsOnlyUnderFault NoReloadOnceSynced
CHECK_DEADLOCK FALSE
