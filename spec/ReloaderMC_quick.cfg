\* C47 leg A quick (safety): contents {p1 (plain), e1 (references the env var)}, config dir files {a,b}, watched dir
\* file {w}, env values {v1,v2}; every history with <= 4 changes/failing applies and any number of successful applies.
\* Leg B: all normal-form histories of <= 3 operations ending with an apply.
SPECIFICATION Spec
CONSTANTS Contents = {"p1", "e1"}
          DirNames = {"a", "b"}
          WatNames = {"w"}
          EnvVals = {"v1", "v2"}
          Budget = 4
          HistLen = 3
INVARIANT OutputsFollowInputs
PROPERTIES AppliesSatisfyProperty SummaryAgrees NoReloadOnceSynced
CHECK_DEADLOCK FALSE
