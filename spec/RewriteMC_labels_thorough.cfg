\* C48 leg A thorough, family "labels": <= 2 series over labels a in {absent,1,2} x b in {absent,1}; <= 2 requests with
\* matchers from a pool of 7 (EQ/NEQ/RE/NRE, incl. a="" and negative matchers on missing labels), whole-series and
\* interval deletions: 6 615 inputs, all handed to leg B.
SPECIFICATION Spec
CONSTANTS Family = "labels"
          G = 4
          LTwo = TRUE
          EmitTwoRequests = TRUE
          Relabel = "none"
INVARIANTS C48_ResultSatisfiesProperty FunctionalFormAgrees
PROPERTY Progress
CHECK_DEADLOCK TRUE
