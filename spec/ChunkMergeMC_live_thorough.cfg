\* C40 leg A thorough, liveness: the merge finishes (<> Done) under weak fairness; K = 2, 2 series
\* on a 4-point grid
SPECIFICATION FairSpec
CONSTANTS InitPen = 1
          K = 2
          Grid = {0, 1, 2, 3}
          NSeries = 2
          MaxLen = 4
          WithCounterInputs = FALSE
INVARIANTS C40_EveryAggregateSampleKept
PROPERTY Terminates
CHECK_DEADLOCK FALSE
