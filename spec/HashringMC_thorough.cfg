\* C18 leg A thorough: <= 6 endpoints (1 section each), <= 4 endpoints with 2 sections each, <= 4 zones,
\* all layouts / ring orders / rf <= n; cases: zone vectors up to 12 endpoints, rf <= 5
SPECIFICATION Spec
CONSTANTS MaxN = 6
          MaxZones = 4
          SecChoices = {1, 2}
          MaxSecs = 8
          Rule = "fixed"
          CaseMaxN = 12
          CaseMaxRF = 5
INVARIANT C18_Distinct
INVARIANT C18_ZoneBalanced
INVARIANT C18_AlwaysBalanced
INVARIANT C18_CanBalanceForm
INVARIANT C18_Function
INVARIANT C18_OrderFree
CHECK_DEADLOCK FALSE
