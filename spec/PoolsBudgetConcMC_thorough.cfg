\* C17(b) concurrent, leg A thorough: 3 goroutines x 3 rounds, buckets 2/4/8, budget 9, sizes {1,3,5,9}; Get is one critical section
SPECIFICATION Spec
CONSTANTS Getters = {1, 2, 3}
          Sizes = {2, 4, 8}
          Max = 9
          ReqSizes = {1, 3, 5, 9}
          Rounds = 3
          AtomicGet = TRUE
INVARIANTS C17_ConcWithinMaximum C17_ConcZeroWhenAllReturned
CHECK_DEADLOCK TRUE
