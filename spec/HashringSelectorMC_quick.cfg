\* C49 phase 2, quick: lists of <= 2 servers (two offsets), 2 readers, 2 SetServers calls, keys {1, 37, 200}
SPECIFICATION Spec
CONSTANTS Locked = TRUE
          MaxServers = 2
          Readers = {1, 2}
          MaxSets = 2
          Keys = {1, 37, 200}
INVARIANT C49_OldOrNew
INVARIANT C49_NoCrash
INVARIANT C49_LockSane
PROPERTY C49_SetTakesEffect
CHECK_DEADLOCK FALSE
