------------------------------ MODULE C02Trace ------------------------------
(***************************************************************************)
(* Leg C for C02.  Same trace lines as C01Trace, recorded with a counter   *)
(* query function (in.f in rate, irate, increase, resets):                 *)
(*   in.reps   replicas: sequences of samples <<t, v>>, values never       *)
(*             decreasing within a replica                                 *)
(*   next      the stream of a reader that only calls Next                 *)
(*   seeks[k]  [x, s]: stream of a reader whose first call is Seek(x)      *)
(*   err       "" or the error / panic that ended the observation          *)
(* Judged with the property-level operators of Dedup only.                 *)
(***************************************************************************)
EXTENDS TraceLib, Dedup

Judge(e) ==
    (* the statement talks about the deduplicated series: there must be one *)
    IF e.err # "" THEN {"merge-yields-a-result"} ELSE
    (* "over replicas whose values never decrease, the deduplicated series never decreases  *)
    (* either, no matter when the merge switches between replicas": every reader's stream.  *)
    (IF CounterNeverDecreases(e.next, e.in.reps) THEN {} ELSE {"deduplicated-counter-never-decreases"})
    \cup
    (IF \A k \in DOMAIN e.seeks : CounterNeverDecreases(e.seeks[k].s, e.in.reps)
       THEN {} ELSE {"deduplicated-counter-never-decreases-after-seek"})
    \cup
    (IF \A k \in DOMAIN e.logs : CounterNeverDecreases(Received(e.logs[k]), e.in.reps)
       THEN {} ELSE {"deduplicated-counter-never-decreases-for-a-seeking-reader"})

(* Model conformance (never a verdict).  *)
OpsOf(log) == [k \in DOMAIN log |-> [op |-> log[k].op, x |-> log[k].x]]
Drift(e) == /\ e.in.drift /\ e.err = ""
            /\ \/ e.next # RunNext(e.in.reps, e.in.ctr)
               \/ \E k \in DOMAIN e.seeks : e.seeks[k].s # RunSeek(e.in.reps, e.in.ctr, e.seeks[k].x)
               \/ \E k \in DOMAIN e.logs : e.logs[k] # RunOps(e.in.reps, e.in.ctr, OpsOf(e.logs[k]))

VARIABLE l
TraceInit == l = 1
TraceNext == /\ l <= TraceLen
             /\ CaseReject(l, Trace[l], Judge(Trace[l]))
             /\ (IF Drift(Trace[l]) THEN PrintT(<<"DRIFT", l, Trace[l]["case"]>>) ELSE TRUE)
             /\ l' = l + 1
TraceSpec == TraceInit /\ [][TraceNext]_l
TraceAccepted == TLCGet("stats").diameter = TraceLen + 1
=============================================================================
