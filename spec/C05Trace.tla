------------------------------ MODULE C05Trace ------------------------------
(***************************************************************************)
(* Leg C for C05.  One trace line per query:                               *)
(*   in.stores[i]   [lsets, smin, smax]  what store i advertises           *)
(*   in.query       [matchers, qmin, qmax]                                 *)
(*   queried[i]     [series, names, values]: whether a real ProxyStore     *)
(*                  contacted store i for Series / LabelNames / LabelValues*)
(*   errs           error texts of the three calls ("" = none)             *)
(* Judged with the property-level operators of StorePrune: a store that    *)
(* was not contacted must not be able to hold matching data.  A call that  *)
(* returned an error delivered no (partial) result, so nothing was skipped *)
(* silently and nothing is judged for it.                                  *)
(***************************************************************************)
EXTENDS TraceLib, StorePrune

Judge(e) ==
    UNION { (IF e.errs[1] = "" THEN C05Clauses(e.in.stores[i], e.in.query, e.queried[i].series) ELSE {})
            \cup (IF e.errs[2] = "" /\ C05Clauses(e.in.stores[i], e.in.query, e.queried[i].names) # {}
                    THEN {"skipped-store-holds-no-matching-data-labelnames"} ELSE {})
            \cup (IF e.errs[3] = "" /\ C05Clauses(e.in.stores[i], e.in.query, e.queried[i].values) # {}
                    THEN {"skipped-store-holds-no-matching-data-labelvalues"} ELSE {})
            : i \in DOMAIN e.in.stores }

(* model conformance: the functional transcription of storeMatches predicts who is contacted *)
Drift(e) == \E i \in DOMAIN e.in.stores : e.errs[1] = "" /\ e.queried[i].series # StoreMatches(e.in.stores[i], e.in.query)

VARIABLE l
TraceInit == l = 1
TraceNext == /\ l <= TraceLen
             /\ CaseReject(l, Trace[l], Judge(Trace[l]))
             /\ (IF Drift(Trace[l]) THEN PrintT(<<"DRIFT", l, Trace[l]["case"]>>) ELSE TRUE)
             /\ l' = l + 1
TraceSpec == TraceInit /\ [][TraceNext]_l
TraceAccepted == TLCGet("stats").diameter = TraceLen + 1
=============================================================================
