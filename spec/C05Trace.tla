------------------------------ MODULE C05Trace ------------------------------
(***************************************************************************)
(* Leg C for C05.  One trace line per query:                               *)
(*   in.stores[i]   [lsets, smin, smax]  what store i advertises           *)
(*   in.query       [matchers, qmin, qmax]                                 *)
(*   queried[i]     [series, names, values]: whether a real ProxyStore     *)
(*                  contacted store i for Series / LabelNames / LabelValues*)
(*   errs           error texts of the three calls ("" = none)             *)
(* Judged with the property-level operators of StorePrune: a store that    *)
(* was not contacted must not be able to hold matching data.  A call that  *)
(* returned an error delivered no (partial) result, so nothing was skipped *)
(* silently and nothing is judged for it.                                  *)
(***************************************************************************)
EXTENDS TraceLib, StorePrune

JudgePrune(e) ==
    UNION { (IF e.errs[1] = "" THEN C05Clauses(e.in.stores[i], e.in.query, e.queried[i].series) ELSE {})
            \cup (IF e.errs[2] = "" /\ C05Clauses(e.in.stores[i], e.in.query, e.queried[i].names) # {}
                    THEN {"skipped-store-holds-no-matching-data-labelnames"} ELSE {})
            \cup (IF e.errs[3] = "" /\ C05Clauses(e.in.stores[i], e.in.query, e.queried[i].values) # {}
                    THEN {"skipped-store-holds-no-matching-data-labelvalues"} ELSE {})
            : i \in DOMAIN e.in.stores }

(* in.kind = "endpoints": a scenario on a real query.EndpointSet (injected clock, in-memory gRPC   *)
(* endpoints) in front of a real ProxyStore:                                                       *)
(*   in.T, in.strict[e], in.metas[m] = [lsets, smin, smax], in.query,                              *)
(*   in.rounds[k] = [env: <<[inspec, up, m]>>, dt]                                                  *)
(*   obs[k] = [clients: <<[e, lsets, smin, smax]>> offered by GetStoreClients after the round's    *)
(*             Update, contacted: <<e>> endpoints that received the Series call, err, nwarn]        *)
(* judged round by round with UpdateClauses / QueryClauses; advs[e] accumulates what e advertised. *)
RECURSIVE EndpointClauses(_, _, _)
EndpointClauses(e, k, advs) ==
    IF k > Len(e.in.rounds) THEN {}
    ELSE LET env == e.in.rounds[k].env
             advs2 == AdvsAfter(env, advs)
         IN UpdateClauses(e.in.strict, e.in.metas, env, e.obs[k].clients)
            \cup (IF e.obs[k].err = "" THEN QueryClauses(e.in.strict, e.in.metas, env, advs2, e.in.query, e.obs[k].contacted) ELSE {})
            \cup EndpointClauses(e, k + 1, advs2)
JudgeEndpoints(e) == EndpointClauses(e, 1, [x \in DOMAIN e.in.strict |-> {}])

Judge(e) == IF e.in.kind = "endpoints" THEN JudgeEndpoints(e) ELSE JudgePrune(e)

(* model conformance: the functional transcription of storeMatches predicts who is contacted;     *)
(* the transcription of EndpointSet.Update predicts which endpoints are offered and contacted      *)
RECURSIVE EndpointDrift(_, _, _, _)
EndpointDrift(e, k, refs, now) ==
    IF k > Len(e.in.rounds) THEN FALSE
    ELSE LET r == e.in.rounds[k]
             now2 == now + r.dt
             refs2 == [x \in DOMAIN refs |-> RefAfterUpdate(refs[x], e.in.strict[x], r.env[x], now2, e.in.T)]
         IN \/ ClientEps(e.obs[k].clients) # AlgoClients(refs2, e.in.strict)
            \/ (e.obs[k].err = "" /\ SPRng(e.obs[k].contacted) # AlgoContacted(refs2, e.in.strict, e.in.metas, e.in.query))
            \/ EndpointDrift(e, k + 1, refs2, now2)
Drift(e) == IF e.in.kind = "endpoints" THEN EndpointDrift(e, 1, [x \in DOMAIN e.in.strict |-> NoRef], 100)
            ELSE \E i \in DOMAIN e.in.stores : e.errs[1] = "" /\ e.queried[i].series # StoreMatches(e.in.stores[i], e.in.query)

VARIABLE l
TraceInit == l = 1
TraceNext == /\ l <= TraceLen
             /\ CaseReject(l, Trace[l], Judge(Trace[l]))
             /\ (IF Drift(Trace[l]) THEN PrintT(<<"DRIFT", l, Trace[l]["case"]>>) ELSE TRUE)
             /\ l' = l + 1
TraceSpec == TraceInit /\ [][TraceNext]_l
TraceAccepted == TLCGet("stats").diameter = TraceLen + 1
=============================================================================
