--------------------------- MODULE CachingBucketMC ---------------------------
(***************************************************************************)
(* Leg A for C14: the caching bucket as a state machine over a lossy      *)
(* cache.  One behaviour = one configuration (object size n, subrange      *)
(* size S, max sub-requests M, max cacheable Get size mc, all chosen in    *)
(* Init) and a history of at most MaxOps reads interleaved with arbitrary  *)
(* evictions of single cache entries (a dropped Store = Store + Evict).    *)
(* Two modes (constant Inductive): one step from every sound cache content *)
(* (an inductive proof for histories of any length), or bounded histories  *)
(* from the empty cache.                                                   *)
(*                                                                         *)
(* World: object "a" = <<1, 2, ..., n>> (every byte identifies its         *)
(* position), name "b" does not exist.                                     *)
(***************************************************************************)
EXTENDS CachingBucket, TLC, Json, IOUtils, SequencesExt
CONSTANTS Sizes, SubSizes, MaxSubs, MaxCacheables, MaxOps,
          Inductive,                  \* TRUE: start from every sound cache; FALSE: from the empty cache
          Procs,                      \* identities of GetRange calls that may overlap in time ({}: reads are atomic)
          HistSizes, HistLen          \* leg B: history cases are generated for these sizes / lengths

VARIABLES n, S, M, mc,     \* configuration
          subc,            \* cached subranges of "a": start offset -> bytes
          attrc,           \* cached attributes: name -> size
          exc,             \* cached existence: name -> BOOLEAN
          contc,           \* cached object contents: name -> bytes
          iterc,           \* cached listing of the root dir: {} or {set of names}
          nops,            \* reads done
          pend,            \* per Procs element: a GetRange that has looked into the cache but not finished
          res, want        \* answer of the last read through the cache / of the bucket (hidden by VIEW)
vars == <<n, S, M, mc, subc, attrc, exc, contc, iterc, nops, pend, res, want>>
cachevars == <<subc, attrc, exc, contc, iterc>>

Names == {"a", "b"}
ObjA == [i \in 1..n |-> i]
Bkt == [a |-> ObjA, b |-> Absent]

Empty == [x \in {} |-> 0]
NoReq == [off |-> -1]
Without(f, k) == [x \in DOMAIN f \ {k} |-> f[x]]
With(f, k, v) == [x \in DOMAIN f \cup {k} |-> IF x = k THEN v ELSE f[x]]

MaxSize == CHOOSE x \in Sizes : \A y \in Sizes : y <= x

(* History mode: start from the empty cache (bounded histories, MaxOps reads).                  *)
InitEmpty ==
        /\ n \in Sizes /\ S \in SubSizes /\ M \in MaxSubs /\ mc \in MaxCacheables
        /\ subc = Empty /\ attrc = Empty /\ exc = Empty /\ contc = Empty /\ iterc = {}
        /\ nops = 0 /\ res = NotFound /\ want = NotFound
        /\ pend = [p \in Procs |-> NoReq]

(* Inductive mode: start from EVERY sound cache content (CacheSound) and do one step.  Since    *)
(* every step from a sound cache is transparent and leaves the cache sound, transparency holds   *)
(* for histories of any length.  GetRange only reads subc/attrc and the other reads only         *)
(* attrc/exc/contc/iterc, so the two groups of cache variables are varied separately.            *)
MinOf(T) == CHOOSE x \in T : \A y \in T : x <= y
InitSound ==
        /\ n \in Sizes /\ nops = 0 /\ res = NotFound /\ want = NotFound
        /\ pend = [p \in Procs |-> NoReq]
        /\ attrc \in {Empty, With(Empty, "a", n)}
        /\ \/ /\ S \in SubSizes /\ M \in MaxSubs /\ mc = MinOf(MaxCacheables)
              /\ subc \in { [o \in D |-> RangeOf(ObjA, o, S)] : D \in SUBSET { o \in 0..(n - 1) : o % S = 0 } }
              /\ exc = Empty /\ contc = Empty /\ iterc = {}
           \/ /\ S = MinOf(SubSizes) /\ M = MinOf(MaxSubs) /\ mc \in MaxCacheables
              /\ subc = Empty
              /\ exc \in { [x \in D |-> Bkt[x] # Absent] : D \in SUBSET Names }
              /\ contc \in {Empty} \cup (IF n <= mc THEN {With(Empty, "a", ObjA)} ELSE {})
              /\ iterc \in {{}, {{"a"}}}

Init == IF Inductive THEN InitSound ELSE InitEmpty

Done == nops' = nops + 1 /\ UNCHANGED <<n, S, M, mc, pend>>

(* GetRange on the existing object: attributes through the cache (cachedAttributes), then the  *)
(* subrange algorithm.  Newly fetched subranges and the attributes are stored.                  *)
GetRangeA(off, len) ==
    /\ nops < MaxOps
    /\ LET size == IF "a" \in DOMAIN attrc THEN attrc["a"] ELSE n
           req == { o \in DOMAIN subc : AlignDown(off, S) <= o /\ o < off + len }
           r == AlgoGetRange(ObjA, size, S, M, off, len, [o \in req |-> subc[o]])
       IN /\ res' = r.res
          /\ subc' = [o \in DOMAIN subc \cup DOMAIN r.subs |-> IF o \in DOMAIN subc THEN subc[o] ELSE r.subs[o]]
          /\ attrc' = With(attrc, "a", n)
    /\ want' = BktGetRange(Bkt, "a", off, len)
    /\ UNCHANGED <<exc, contc, iterc>> /\ Done

(* The same GetRange as two steps, so that calls can overlap: Begin = attributes + cache Fetch     *)
(* (the call remembers what it saw), End = bucket sub-requests, Store of the new subranges and the *)
(* answer.  Between the two, other calls begin or end and entries are evicted.                      *)
BeginRange(p, off, len) ==
    /\ nops < MaxOps /\ pend[p] = NoReq
    /\ LET req == { o \in DOMAIN subc : AlignDown(off, S) <= o /\ o < off + len } IN
       pend' = [pend EXCEPT ![p] = [off |-> off, len |-> len,
                                     size |-> IF "a" \in DOMAIN attrc THEN attrc["a"] ELSE n,
                                     hits |-> [o \in req |-> subc[o]]]]
    /\ attrc' = With(attrc, "a", n)
    /\ nops' = nops + 1
    /\ UNCHANGED <<n, S, M, mc, subc, exc, contc, iterc, res, want>>
EndRange(p) ==
    /\ pend[p] # NoReq
    /\ LET q == pend[p]
           r == AlgoGetRange(ObjA, q.size, S, M, q.off, q.len, q.hits)
       IN /\ res' = r.res
          /\ want' = BktGetRange(Bkt, "a", q.off, q.len)
          /\ subc' = [o \in DOMAIN subc \cup DOMAIN r.subs |-> IF o \in DOMAIN r.subs THEN r.subs[o] ELSE subc[o]]
    /\ pend' = [pend EXCEPT ![p] = NoReq]
    /\ UNCHANGED <<n, S, M, mc, attrc, exc, contc, iterc, nops>>

(* GetRange on a missing object: the attributes lookup fails, nothing is cached.  *)
GetRangeB(off, len) ==
    /\ nops < MaxOps
    /\ res' = NotFound /\ want' = BktGetRange(Bkt, "b", off, len)
    /\ UNCHANGED cachevars /\ Done

(* Get, then read k bytes and close (k = -1: read to EOF).  Only a reader that saw EOF and whose *)
(* object fits into mc stores the content.                                                       *)
Get(x, k) ==
    /\ nops < MaxOps
    /\ want' = BktGet(Bkt, x, k)
    /\ IF x \in DOMAIN contc
         THEN res' = Data(IF k < 0 THEN contc[x] ELSE RangeOf(contc[x], 0, k)) /\ UNCHANGED <<exc, contc>>
       ELSE IF x \in DOMAIN exc /\ ~exc[x]
         THEN res' = NotFound /\ UNCHANGED <<exc, contc>>
       ELSE IF Bkt[x] = Absent
         THEN res' = NotFound /\ exc' = With(exc, x, FALSE) /\ UNCHANGED contc
       ELSE /\ res' = Data(IF k < 0 THEN Bkt[x] ELSE RangeOf(Bkt[x], 0, k))
            /\ exc' = With(exc, x, TRUE)
            /\ contc' = IF k < 0 /\ Len(Bkt[x]) <= mc THEN With(contc, x, Bkt[x]) ELSE contc
    /\ UNCHANGED <<subc, attrc, iterc>> /\ Done

Exists(x) ==
    /\ nops < MaxOps
    /\ want' = BktExists(Bkt, x)
    /\ IF x \in DOMAIN exc
         THEN res' = [kind |-> "bool", val |-> exc[x]] /\ UNCHANGED exc
         ELSE res' = BktExists(Bkt, x) /\ exc' = With(exc, x, Bkt[x] # Absent)
    /\ UNCHANGED <<subc, attrc, contc, iterc>> /\ Done

Attrs(x) ==
    /\ nops < MaxOps
    /\ want' = BktAttrs(Bkt, x)
    /\ IF x \in DOMAIN attrc
         THEN res' = [kind |-> "size", val |-> attrc[x]] /\ UNCHANGED attrc
       ELSE IF Bkt[x] = Absent THEN res' = NotFound /\ UNCHANGED attrc
       ELSE res' = BktAttrs(Bkt, x) /\ attrc' = With(attrc, x, Len(Bkt[x]))
    /\ UNCHANGED <<subc, exc, contc, iterc>> /\ Done

Iter ==
    /\ nops < MaxOps
    /\ want' = BktIter(Bkt)
    /\ IF iterc # {}
         THEN res' = [kind |-> "names", val |-> CHOOSE l \in iterc : TRUE] /\ UNCHANGED iterc
         ELSE res' = BktIter(Bkt) /\ iterc' = {BktIter(Bkt).val}
    /\ UNCHANGED <<subc, attrc, exc, contc>> /\ Done

(* The cache may lose any entry at any time.  *)
Evict ==
    /\ \/ \E o \in DOMAIN subc : subc' = Without(subc, o) /\ UNCHANGED <<attrc, exc, contc, iterc>>
       \/ \E x \in DOMAIN attrc : attrc' = Without(attrc, x) /\ UNCHANGED <<subc, exc, contc, iterc>>
       \/ \E x \in DOMAIN exc : exc' = Without(exc, x) /\ UNCHANGED <<subc, attrc, contc, iterc>>
       \/ \E x \in DOMAIN contc : contc' = Without(contc, x) /\ UNCHANGED <<subc, attrc, exc, iterc>>
       \/ iterc # {} /\ iterc' = {} /\ UNCHANGED <<subc, attrc, exc, contc>>
    /\ UNCHANGED <<n, S, M, mc, nops, pend, res, want>>

(* Requests: every offset up to one past the end, every length up to two past the end (longer   *)
(* requests are clipped to the object exactly like these).                                       *)
Next == \/ \E off \in 0..(n + 1) : \E len \in 1..((n + 2) - off) : GetRangeA(off, len)
        \/ \E p \in Procs : (\E off \in 0..(n + 1) : \E len \in 1..((n + 2) - off) : BeginRange(p, off, len)) \/ EndRange(p)
        \/ GetRangeB(0, 1)
        \/ \E x \in Names, k \in -1..n : Get(x, k)
        \/ \E x \in Names : Exists(x) \/ Attrs(x)
        \/ Iter
        \/ Evict

Spec == Init /\ [][Next]_vars

(* ---- C14 ---- *)
(* every read through the cache answers like the bucket (checked on every transition, also into  *)
(* states the VIEW identifies with already visited ones)                                          *)
TransparentStep == [][Transparent(res', want')]_vars
TransparentInv == Transparent(res, want)
(* the cache never holds a wrong entry *)
CacheSound ==
    /\ \A o \in DOMAIN subc : o % S = 0 /\ o < n /\ subc[o] = RangeOf(ObjA, o, S)
    /\ \A x \in DOMAIN attrc : x = "a" /\ attrc[x] = n
    /\ \A x \in DOMAIN exc : exc[x] = (Bkt[x] # Absent)
    /\ \A x \in DOMAIN contc : contc[x] = Bkt[x] /\ Len(contc[x]) <= mc
    /\ iterc \subseteq {{"a"}}

View == <<n, S, M, mc, subc, attrc, exc, contc, iterc, nops, pend>>

(* ---- leg B: cases for the real CachingBucket ---- *)
CasesFile == IF "VERIF_CASES" \in DOMAIN IOEnv THEN IOEnv.VERIF_CASES ELSE "cases.ndjson"

(* (1) every GetRange request against every cache content that matters for it: hit = cached    *)
(* subranges among the requested ones, attr = attributes cached.                                 *)
Requested(nn, ss, off, len) ==
    IF off >= nn THEN {}
    ELSE { o \in 0..(nn - 1) : o % ss = 0 /\ AlignDown(off, ss) <= o /\ o < MinI(off + len, nn) }
RngCases ==
    UNION { { [kind |-> "rng", n |-> c[1], S |-> c[2], M |-> c[3], off |-> c[4], len |-> c[5],
               hit |-> SetToSeq(h), attr |-> at] :
                h \in SUBSET Requested(c[1], c[2], c[4], c[5]), at \in BOOLEAN } :
            c \in { d \in Sizes \X SubSizes \X MaxSubs \X (0..(MaxSize + 1)) \X (1..(MaxSize + 2)) :
                       d[4] <= d[1] + 1 /\ d[4] + d[5] <= d[1] + 2 } }

(* (2) histories of reads and evictions over a small alphabet (cross-operation cache sharing:  *)
(* exists/content keys of Get and Exists, attributes of GetRange and Attributes).               *)
Op(o, x, a, b) == [op |-> o, name |-> x, a |-> a, b |-> b]
HistOps(nn) ==
    { Op("get", "a", -1, 0), Op("get", "a", 1, 0), Op("get", "b", -1, 0),
      Op("exists", "a", 0, 0), Op("exists", "b", 0, 0), Op("attrs", "a", 0, 0), Op("attrs", "b", 0, 0),
      Op("iter", "", 0, 0),
      Op("getrange", "a", 0, nn + 1), Op("getrange", "a", 1, 1), Op("getrange", "b", 0, 1),
      Op("evict", "all", 0, 0), Op("evict", "content", 0, 0), Op("evict", "exists", 0, 0),
      Op("evict", "attrs", 0, 0), Op("evict", "subrange", 0, 0) }
HistCfgs == { c \in HistSizes \X MaxCacheables : c[1] > 0 \/ c[2] = MinOf(MaxCacheables) }
HistCases ==
    UNION { { [kind |-> "hist", n |-> c[1], S |-> 2, M |-> 1, mc |-> c[2], ops |-> s] :
                s \in UNION { [1..k -> HistOps(c[1])] : k \in 1..HistLen } } : c \in HistCfgs }

ASSUME ndJsonSerialize(CasesFile, SetToSeq(RngCases) \o SetToSeq(HistCases))
=============================================================================
