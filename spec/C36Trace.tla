------------------------------ MODULE C36Trace ------------------------------
(***************************************************************************)
(* Leg C for C36 (case trace).  One line per executed case:                *)
(*   in.res            resolution (300000 | 3600000)                       *)
(*   in.ts, vs, ks     the raw series (offsets from an hour-aligned base,  *)
(*                     integer values, kind tokens "F" | "NaN" | "STALE")  *)
(*   in.mode, nc       "raw": DownsampleRaw (nc = the chunk count the code *)
(*                     computed); "loop": the batching loop with nc given  *)
(*   in.q              <<qlo, qhi>> range of the read-back select          *)
(*   chunks            decoded aggregate chunks [mint, maxt, ts, cnt, sum, *)
(*                     min, max, cts, cvs]                                 *)
(*   ok, aligned       every decoded number is an integer / the four       *)
(*                     aggregates of each chunk carry the same timestamps  *)
(*   rb                cnt/sum/min/max as read back through the querier,   *)
(*                     rberr its error ("" = none)                         *)
(*   got.kind          "ok" | "panic"                                      *)
(* Judged with the property-level operators of Downsample only.            *)
(***************************************************************************)
EXTENDS TraceLib, Downsample

RawOf(e) == [ts |-> e.in.ts, vs |-> e.in.vs, ks |-> e.in.ks]

(* Phase 2: native histogram series (in.kind = "hist"): in.hv the vectors <<count, sum,     *)
(* buckets>>, in.ks "H" | "STALE", in.gauge, in.k the number of buckets; hchunks = decoded   *)
(* chunks [mint, maxt, ts, cnt, hsum, hctr].  The statement's count and sum clauses apply    *)
(* (histograms have no min / max aggregate); the counter aggregate is only compared with the *)
(* transcription (DRIFT).                                                                     *)
HRawOf(e) == [ts |-> e.in.ts, ks |-> e.in.ks, hv |-> e.in.hv, gauge |-> e.in.gauge]
HZero(e) == [i \in 1..(e.in.k + 2) |-> 0]
HJudge(e) ==
    LET raw == HRawOf(e)  r == e.in.res  cs == e.hchunks IN
    IF e.got.kind # "ok" THEN {"downsampling-produces-aggregates"}
    ELSE IF ~e.ok \/ ~e.aligned THEN {"histogram-count-and-sum-equal-window-aggregates"}
    ELSE
      (IF HChunksExact(raw, r, cs, HZero(e)) THEN {} ELSE {"histogram-count-and-sum-equal-window-aggregates"})
      \cup (IF HTotalsEqual(raw, cs, HZero(e)) THEN {} ELSE {"histogram-totals-equal-raw-totals"})
      \cup (IF ChunksOrdered(cs) THEN {} ELSE {"chunks-ordered-non-overlapping"})

FJudge(e) ==
    LET raw == RawOf(e)  r == e.in.res  cs == e.chunks IN
    IF e.got.kind # "ok" THEN {"downsampling-produces-aggregates"}
    ELSE IF ~e.ok \/ ~e.aligned
      \* inputs are integers, so every correct count/sum/min/max is one; and "at each output
      \* timestamp" presupposes that the four aggregates share their timestamps
      THEN {"aggregates-equal-window-aggregates"}
    ELSE
      \* "count, sum, min and max at each output timestamp equal those of the raw non-NaN
      \*  samples in that downsampling window"
      (IF ChunksExact(raw, r, cs) THEN {} ELSE {"aggregates-equal-window-aggregates"})
      \* "whose totals over the series equal the raw totals"
      \cup (IF ChunksTotalsEqual(raw, cs) THEN {} ELSE {"totals-equal-raw-totals"})
      \* "whose chunks are time-ordered and non-overlapping"
      \cup (IF ChunksOrdered(cs) THEN {} ELSE {"chunks-ordered-non-overlapping"})
      \* "reading an aggregate back through the querier yields these values"
      \cup (IF /\ e.rberr = ""
               /\ \A a \in {"cnt", "sum", "min", "max"} : ReadBackYields(cs, a, e.rb[a], e.in.q[1], e.in.q[2])
            THEN {} ELSE {"read-back-yields-these-values"})

Judge(e) == IF e.in.kind = "hist" THEN HJudge(e) ELSE FJudge(e)

(* Model conformance (never a verdict): the algorithm-level transcription predicts the      *)
(* chunks exactly, counter aggregate included.                                               *)
Drift(e) == e.got.kind = "ok" /\ e.ok /\ e.aligned /\
            IF e.in.kind = "hist" THEN e.hchunks # HAlgoRaw(HRawOf(e), e.in.res, e.nc)
                                  ELSE e.chunks # AlgoRaw(RawOf(e), e.in.res, e.nc)

VARIABLE l
TraceInit == l = 1
TraceNext == /\ l <= TraceLen
             /\ CaseReject(l, Trace[l], Judge(Trace[l]))
             /\ (IF Drift(Trace[l]) THEN PrintT(<<"DRIFT", l, Trace[l]["case"]>>) ELSE TRUE)
             /\ l' = l + 1
TraceSpec == TraceInit /\ [][TraceNext]_l
TraceAccepted == TLCGet("stats").diameter = TraceLen + 1
=============================================================================
