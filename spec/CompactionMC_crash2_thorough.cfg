\* C29 leg A thorough, two crashes: layouts aligned5 (5 aligned blocks, ranges 1/4) and replica (2 overlapping replicas + 1, vertical),
\* delete delay 4 ticks (sync filter 2), store-gateway ignore delay 2, <= 2 crashes at any action, any downtime
SPECIFICATION Spec
CONSTANTS Layouts <- LayoutsQuick
          DeleteDelay = 4
          IgnoreDelay = 2
          MaxCrashes = 2
          MaxId = 10
          MarkFirst = FALSE
INVARIANTS C29_AllServed C29_ExactlyOnceWhenQuiet C29_ResultsExact MetaImpliesData NeverHalts IdsSuffice
PROPERTY C29_RunsFinish
CHECK_DEADLOCK FALSE
