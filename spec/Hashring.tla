------------------------------ MODULE Hashring ------------------------------
(***************************************************************************)
(* Receive hashrings (pkg/receive/hashring.go) and the memcached jump-hash *)
(* server selector (pkg/cacheutil).  Constant module: property-level       *)
(* operators (what C18, C19, C20, C21, C27, C49 demand, written from the   *)
(* statements) and algorithm-level operators (what the code does).         *)
(*                                                                         *)
(* Conventions.  A *layout* az is a function endpoint -> zone (in models    *)
(* endpoints are 1..n and az is a sequence; in traces endpoints are        *)
(* address strings).  A *ring* is the sequence of section owners in hash   *)
(* order (hash functions are uninterpreted: models quantify over all ring  *)
(* orders, trace specs judge only results of the real functions).  A       *)
(* replica list is a sequence of endpoints (replica 0 first).              *)
(***************************************************************************)
EXTENDS Integers, Sequences, FiniteSets

HSeqRange(s) == { s[k] : k \in DOMAIN s }
HNoDup(s) == \A a, b \in DOMAIN s : a # b => s[a] # s[b]
HMin(S) == CHOOSE x \in S : \A y \in S : x <= y
HMax(S) == CHOOSE x \in S : \A y \in S : x >= y
RECURSIVE HSum(_, _)
HSum(f, S) == IF S = {} THEN 0 ELSE LET x == CHOOSE y \in S : TRUE IN f[x] + HSum(f, S \ {x})
HCeilDiv(a, b) == (a + b - 1) \div b

(***************************************************************************)
(* ======================  PROPERTY LEVEL  ======================          *)
(***************************************************************************)

(* ---- zones (C18, C21) ---- *)
ZoneSet(az) == { az[n] : n \in DOMAIN az }
ZoneCap(az, z) == Cardinality({ n \in DOMAIN az : az[n] = z })
ZoneCount(reps, az, z) == Cardinality({ n \in reps : az[n] = z })         \* reps: a set of endpoints
(* C18 "the replica counts per zone differ by at most one" *)
ZoneBalanced(reps, az) ==
    \A z1, z2 \in ZoneSet(az) : ZoneCount(reps, az, z1) <= ZoneCount(reps, az, z2) + 1
(* C18 "whenever the zones can accommodate that": some choice of rf distinct endpoints is     *)
(* balanced.  Definition (CanBalanceDef) and the closed form used by the trace specs; leg A  *)
(* (HashringMC) checks that the two agree on every layout of the model.                       *)
CanBalanceDef(rf, az) ==
    \E al \in [ZoneSet(az) -> 0..rf] :
        /\ HSum(al, ZoneSet(az)) = rf
        /\ \A z \in ZoneSet(az) : al[z] <= ZoneCap(az, z)
        /\ \A z1, z2 \in ZoneSet(az) : al[z1] <= al[z2] + 1
CanBalance(rf, az) ==
    LET Z == ZoneSet(az)
        k == Cardinality(Z)
        q == rf \div k
        r == rf % k
    IN /\ \A z \in Z : ZoneCap(az, z) >= q
       /\ Cardinality({ z \in Z : ZoneCap(az, z) >= q + 1 }) >= r

(* ---- C18: placement of one series, judged on an observed replica list ---- *)
(* reps: replica list observed for the endpoint list as configured; perms: replica lists     *)
(* observed for the same series with the same endpoint *set* listed in other orders; again:  *)
(* lists observed when asking the same hashring again.  (A harness may log only the lists    *)
(* that differ from reps; the clauses read the same.)                                         *)
C18Clauses(reps, perms, again, az, rf, zoned) ==
    (IF HNoDup(reps) THEN {} ELSE {"replicas-pairwise-distinct"})
    \cup (IF HSeqRange(reps) \subseteq DOMAIN az THEN {} ELSE {"replicas-are-configured-endpoints"})
    \cup (IF \A k \in DOMAIN perms : perms[k] = reps THEN {} ELSE {"independent-of-endpoint-order"})
    \cup (IF \A k \in DOMAIN again : again[k] = reps THEN {} ELSE {"depends-only-on-tenant-labels-endpoints"})
    \cup (IF zoned /\ Len(reps) = rf /\ HSeqRange(reps) \subseteq DOMAIN az /\ CanBalance(rf, az)
             /\ ~ZoneBalanced(HSeqRange(reps), az)
          THEN {"zone-counts-differ-by-at-most-one"} ELSE {})

(* ---- C19: outcome of loading a configuration ---- *)
(* "either produces a usable hashring or reports an error in bounded time; it never hangs" *)
C19Clauses(build, probe) ==
    (IF build = "deadline" THEN {"build-returns-in-bounded-time"} ELSE {})
    \cup (IF probe = "deadline" THEN {"hashring-answers-in-bounded-time"} ELSE {})
    \cup (IF build = "panic" \/ probe = "panic" THEN {"usable-hashring-or-error"} ELSE {})
    \cup (IF probe = "foreign" THEN {"usable-hashring-returns-configured-endpoints"} ELSE {})

(* ---- C20: adding one endpoint to a ketama ring without zones ---- *)
(* "changes the replica set of a series at most by introducing the new endpoint in place of  *)
(* another one; series never move between pre-existing nodes"                                 *)
C20Clauses(before, after, new) ==
    LET B == HSeqRange(before)
        A == HSeqRange(after)
    IN (IF (A \ B) \subseteq {new} THEN {} ELSE {"no-move-between-existing-nodes"})
       \cup (IF Cardinality(B \ A) <= 1 THEN {} ELSE {"at-most-one-replica-replaced"})
       \cup (IF Cardinality(A) = Cardinality(B) THEN {} ELSE {"replica-count-kept"})

(* ---- C21: shuffle shards ---- *)
(* Size demanded of a tenant's shard: "the configured number of nodes per availability zone  *)
(* (or the configured total without zone awareness)".  size = the shard size selected for    *)
(* the tenant; with zone awareness it is spread evenly: ceil(size / #zones) per zone.        *)
ShardPerZone(size, az) == HCeilDiv(size, Cardinality(ZoneSet(az)))
ShardSizeOK(shard, size, az, zoneAware) ==
    IF zoneAware THEN \A z \in ZoneSet(az) : ZoneCount(shard, az, z) = ShardPerZone(size, az)
    ELSE Cardinality(shard) = size

(* ---- glob patterns (C21 overrides, C27) restricted to literals, '?' and '*' ---- *)
(* pattern and name are sequences of one-character strings *)
RECURSIVE GlobMatch(_, _)
GlobMatch(p, s) ==
    IF p = <<>> THEN s = <<>>
    ELSE IF Head(p) = "*" THEN GlobMatch(Tail(p), s) \/ (s # <<>> /\ GlobMatch(p, Tail(s)))
    ELSE s # <<>> /\ (Head(p) = "?" \/ Head(p) = Head(s)) /\ GlobMatch(Tail(p), Tail(s))

(* entry: [tenants |-> sequence of patterns (each a char sequence), glob |-> BOOLEAN]         *)
EntryMatches(entry, tenant) ==
    \E k \in DOMAIN entry.tenants :
        IF entry.glob THEN GlobMatch(entry.tenants[k], tenant) ELSE entry.tenants[k] = tenant
IsDefaultEntry(entry) == entry.tenants = <<>>

(* overrides: sequence of [size, tenants (sequence of char sequences), type "exact"|"glob"|""   *)
(* ("" = exact, the documented default)].  "overrides (exact, glob) select the size": the    *)
(* size configured for a tenant is that of a matching override, else the default; when       *)
(* several overrides match, any of them is accepted (the statement does not rank them).      *)
OverrideMatches(ov, tenant) ==
    \E k \in DOMAIN ov.tenants :
        IF ov.type = "glob" THEN GlobMatch(ov.tenants[k], tenant) ELSE ov.tenants[k] = tenant
AcceptedShardSizes(default, ovs, tenant) ==
    LET m == { k \in DOMAIN ovs : OverrideMatches(ovs[k], tenant) }
    IN IF m = {} THEN {default} ELSE { ovs[k].size : k \in m }

(* C21 clauses for one tenant.  shards: the node sets observed for the tenant (cached call,  *)
(* call after eviction, fresh computation, new hashring instance); reps: replica lists        *)
(* observed for the tenant's series; sizes: accepted shard sizes; az: layout of the whole    *)
(* hashring.                                                                                  *)
C21Clauses(shards, reps, sizes, az, zoneAware) ==
    (IF \A a, b \in DOMAIN shards : shards[a] = shards[b] THEN {} ELSE {"same-set-of-nodes-every-time"})
    \cup (IF \A a \in DOMAIN shards : shards[a] \subseteq DOMAIN az THEN {} ELSE {"shard-nodes-are-configured-endpoints"})
    \cup (IF \A a \in DOMAIN shards :
               shards[a] \subseteq DOMAIN az => \E sz \in sizes : ShardSizeOK(shards[a], sz, az, zoneAware)
          THEN {} ELSE {"configured-number-of-nodes-per-zone"})
    \cup (IF \A k \in DOMAIN reps, a \in DOMAIN shards : HSeqRange(reps[k]) \subseteq shards[a]
          THEN {} ELSE {"replicas-placed-inside-the-shard"})

(* ---- C27: which hashring serves a tenant ---- *)
(* "the first configured hashring whose tenant list matches it exactly or by glob pattern,   *)
(* falling back to a hashring without a tenant list".  Two readings are accepted (DESIGN     *)
(* 2.2): (a) first entry in order that matches or is a default; (b) first matching specific  *)
(* entry, else the first default.  0 = no hashring (an error is expected).                    *)
RouteFirstInOrder(cfg, tenant) ==
    LET ok == { k \in DOMAIN cfg : IsDefaultEntry(cfg[k]) \/ EntryMatches(cfg[k], tenant) }
    IN IF ok = {} THEN 0 ELSE HMin(ok)
RouteSpecificFirst(cfg, tenant) ==
    LET sp == { k \in DOMAIN cfg : ~IsDefaultEntry(cfg[k]) /\ EntryMatches(cfg[k], tenant) }
        df == { k \in DOMAIN cfg : IsDefaultEntry(cfg[k]) }
    IN IF sp # {} THEN HMin(sp) ELSE IF df # {} THEN HMin(df) ELSE 0
RouteAccepted(cfg, tenant) == { RouteFirstInOrder(cfg, tenant), RouteSpecificFirst(cfg, tenant) }
(* seen: the set of hashrings (indices into cfg, 0 = "no matching hashring" error) that      *)
(* answered the tenant's requests -- first, repeated and concurrent ones.                     *)
C27Clauses(seen, cfg, tenant) ==
    (IF seen \subseteq RouteAccepted(cfg, tenant) THEN {} ELSE {"served-by-the-first-matching-hashring-or-default"})
    \cup (IF Cardinality(seen) <= 1 THEN {} ELSE {"choice-stable-across-repeated-and-concurrent-requests"})

(* ---- C27 across a configuration reload ---- *)
(* The receiver watches the hashring file and swaps the multi-hashring at runtime.  writes:   *)
(* the contents written to the file in order (first = the content at start), a content is a   *)
(* version id >= 1 (a valid configuration) or 0 (content that does not load: broken JSON,     *)
(* empty file, empty list).  applied: the versions the running receiver put in force, in      *)
(* order.  looks: observed requests [ver = version in force when the request read the         *)
(* hashring, aver / aidx = version and index of the hashring that answered, tc = tenant].     *)
RECURSIVE IsSubseq(_, _)
IsSubseq(a, b) == IF a = <<>> THEN TRUE
                  ELSE IF b = <<>> THEN FALSE
                  ELSE IF Head(a) = Head(b) THEN IsSubseq(Tail(a), Tail(b))
                  ELSE IsSubseq(a, Tail(b))
ValidWrites(writes) == SelectSeq(writes, LAMBDA c : c # 0)
(* cfgOf: version id -> configuration list (as for RouteAccepted) *)
C27ReloadClauses(writes, applied, looks, noring, finalOK, cfgOf) ==
    (* only contents that were written and load are ever put in force, never an older one     *)
    (* after a newer one: "invalid intermediate content must keep the old ring"                *)
    (IF IsSubseq(applied, ValidWrites(writes)) THEN {} ELSE {"reload-applies-only-written-valid-configs-in-order"})
    (* once a configuration is in force a request never finds the receiver without a hashring *)
    \cup (IF noring = 0 THEN {} ELSE {"no-window-without-a-hashring"})
    (* a request is answered by a hashring of the configuration in force when it read the     *)
    (* hashring (requests in flight finish on the ring they started with), selected as C27     *)
    (* demands for that configuration                                                          *)
    \cup (IF \A k \in DOMAIN looks :
               /\ looks[k].aver = looks[k].ver
               /\ looks[k].ver \in DOMAIN cfgOf
               /\ looks[k].aidx \in RouteAccepted(cfgOf[looks[k].ver], looks[k].tc)
          THEN {} ELSE {"routed-by-the-configuration-in-force"})
    (* a valid final content takes effect (bounded time on the code: 60 s for a 100 ms watcher) *)
    \cup (IF writes[Len(writes)] # 0 /\ ~finalOK THEN {"latest-valid-configuration-takes-effect"} ELSE {})

(* ---- C49: memcached server selection ---- *)
(* "Each cache key is sent to the same memcached server whether it is looked up alone or in  *)
(* a batch and regardless of the order servers are listed in": single[k] / batch[k] /         *)
(* perm[k] = the server picked for key k alone / in a batch / alone with the same servers     *)
(* listed in another order.                                                                    *)
C49PlaceClauses(single, batch, perm) ==
    (IF single = batch THEN {} ELSE {"single-and-batch-agree"})
    \cup (IF single = perm THEN {} ELSE {"independent-of-listing-order"})
(* "adding a server only moves keys onto the new server": before[k] / after[k] = server of   *)
(* key k before / after adding server `new`.                                                  *)
C49AddClauses(before, after, new) ==
    IF \A k \in DOMAIN before : after[k] = before[k] \/ after[k] = new THEN {}
    ELSE {"adding-a-server-moves-keys-only-onto-it"}

(* C49 with the server list replaced concurrently (phase 2: SetServers on every DNS refresh      *)
(* while lookups run).  "Each cache key is sent to the same memcached server ..." for a list    *)
(* that changes means: a lookup is answered from the list in force before or after a            *)
(* replacement, entirely -- never from a mixture.  pickA / pickB: server of every key under     *)
(* list A / B (0 = "no servers" error); picks: observed [k, s]; batches: observed whole         *)
(* PickServerForKeys answers (server per key); eachs: observed Each() visiting orders;          *)
(* listA / listB: the lists in stored order.                                                    *)
C49ConcClauses(pickA, pickB, picks, batches, eachs, listA, listB, crashes) ==
    (IF /\ \A i \in DOMAIN picks : picks[i].s \in {pickA[picks[i].k], pickB[picks[i].k]}
        /\ \A i \in DOMAIN batches : batches[i] = pickA \/ batches[i] = pickB
        /\ \A i \in DOMAIN eachs : eachs[i] = listA \/ eachs[i] = listB
     THEN {} ELSE {"lookup-sees-the-old-or-the-new-server-list-entirely"})
    \cup (IF crashes = 0 THEN {} ELSE {"lookup-or-update-never-crashes"})

(***************************************************************************)
(* ======================  ALGORITHM LEVEL  ======================         *)
(***************************************************************************)

(* ---- calculateSectionReplicas: the zone rule ---- *)
(* spread: zone -> replicas chosen so far; cap: zone -> number of endpoints.                  *)
(* Rule of the code before the C19 fix: a zone that already holds more replicas than the     *)
(* least occupied zone is skipped -- even when the least occupied zones have no endpoint     *)
(* left, in which case nothing is ever accepted again.                                        *)
ZoneBlocksPrefix(spread, z) ==
    /\ Cardinality(DOMAIN spread) > 1
    /\ spread[z] > 0
    /\ spread[z] > HMin({ spread[y] : y \in DOMAIN spread })
(* Rule of the code now: only zones that still have an unused endpoint count as "least       *)
(* occupied".                                                                                 *)
ZoneBlocks(spread, cap, z) ==
    LET open == { y \in DOMAIN spread : spread[y] < cap[y] }
    IN /\ Cardinality(DOMAIN spread) > 1
       /\ spread[z] > 0
       /\ open # {}
       /\ spread[z] > HMin({ spread[y] : y \in open })

ZoneSpread(reps, az) == [z \in ZoneSet(az) |-> ZoneCount(reps, az, z)]
ZoneCaps(az) == [z \in ZoneSet(az) |-> ZoneCap(az, z)]

(* The walk as a function (the step-wise machine is module HashringLoop); fuel bounds the    *)
(* evaluation: with the current rule every lap accepts at least one endpoint.                 *)
RECURSIVE HWalk(_, _, _, _, _, _)
HWalk(ring, az, rf, pos, reps, fuel) ==
    IF Len(reps) = rf \/ fuel = 0 THEN reps
    ELSE LET nd == ring[pos]
             nxt == (pos % Len(ring)) + 1
         IN IF nd \in HSeqRange(reps) \/ ZoneBlocks(ZoneSpread(HSeqRange(reps), az), ZoneCaps(az), az[nd])
              THEN HWalk(ring, az, rf, nxt, reps, fuel - 1)
              ELSE HWalk(ring, az, rf, nxt, Append(reps, nd), fuel - 1)
(* replicas pre-calculated for the section at ring position i *)
SectionReplicas(ring, az, rf, i) == HWalk(ring, az, rf, i, <<>>, rf * Len(ring))

(* ---- hashmod: endpoints sorted by address, replica n = sorted[(h + n) mod len] ---- *)
HashmodReplicas(sorted, h, rf) == [k \in 1..rf |-> sorted[((h + k - 1) % Len(sorted)) + 1]]

(* ---- shuffle shards: getTenantShard ---- *)
(* nodes per zone taken for a shard of the given size *)
ShardTake(size, az, zoneAware) == IF zoneAware THEN ShardPerZone(size, az) ELSE size
(* one pick: walk the zone's ring from position p to the first endpoint not selected yet     *)
(* (0 = a full lap found none)                                                                *)
RECURSIVE ShardWalk(_, _, _, _)
ShardWalk(zring, sel, p, fuel) ==
    IF fuel = 0 THEN 0
    ELSE IF zring[p] \notin sel THEN zring[p]
    ELSE ShardWalk(zring, sel, (p % Len(zring)) + 1, fuel - 1)
(* ps: the pseudo-random start positions drawn for the zone (seeded by tenant and zone) *)
RECURSIVE ShardPicks(_, _, _)
ShardPicks(zring, ps, sel) ==
    IF ps = <<>> THEN sel
    ELSE LET nd == ShardWalk(zring, sel, Head(ps), Len(zring))
         IN ShardPicks(zring, Tail(ps), IF nd = 0 THEN sel ELSE sel \cup {nd})
ZoneShard(zring, ps) == ShardPicks(zring, ps, {})
(* getShardSize: the first override in configuration order that matches, else the default *)
ShardSizeAlgo(default, ovs, tenant) ==
    LET m == { k \in DOMAIN ovs : ovs[k].type \in {"exact", "glob", ""} /\ OverrideMatches(ovs[k], tenant) }
    IN IF m = {} THEN default ELSE ovs[HMin(m)].size

(* ---- jump hash (pkg/cacheutil/jump_hash.go) on a reduced word size ---- *)
(* The code: b := -1; j := 0; for j < n { b = j; key = key*A + 1 (mod 2^64);                  *)
(*           j = floor((b+1) * (2^31 / ((key>>33)+1))) }; return b.                           *)
(* Model: words of W bits, the top H = W - S bits of the key drive the jump:                  *)
(*           j = floor((b+1) * 2^H / ((key >> S) + 1)).                                        *)
JumpLcg(key, W, A) == (key * A + 1) % (2 ^ W)
JumpTo(b, key, S, H) == ((b + 1) * (2 ^ H)) \div ((key \div (2 ^ S)) + 1)
RECURSIVE JumpLoop(_, _, _, _, _, _, _, _)
JumpLoop(b, j, key, n, W, S, H, A) ==
    IF j >= n THEN b
    ELSE LET k2 == JumpLcg(key, W, A) IN JumpLoop(j, JumpTo(j, k2, S, H), k2, n, W, S, H, A)
JumpHashModel(key, n, W, S, A) == JumpLoop(-1, 0, key, n, W, S, W - S, A)
(* the selector: servers in natural sort order, bucket = jump hash of the key's hash *)
PickModel(sorted, keyhash, W, S, A) ==
    IF Len(sorted) = 1 THEN sorted[1] ELSE sorted[JumpHashModel(keyhash, Len(sorted), W, S, A) + 1]

(* validation paths (phase 2): what ParseConfig + NewMultiHashring answer for configurations   *)
(* that are wrong or unusual.  vkind: "malformed" (broken JSON), "noaddr" (an endpoint without *)
(* address), "emptylist" ("[]": no hashring at all), "emptyeps" (a hashring without            *)
(* endpoints), "dup" (the same endpoint listed twice), "unknownalgo" (falls back to hashmod),  *)
(* "partaz" (ketama, some endpoints without AZ), "hashmodaz" (hashmod with AZs).  n = number   *)
(* of endpoints listed.                                                                         *)
BuildOutcomeV(vkind, n, rf) ==
    CASE vkind \in {"malformed", "noaddr", "hashmodaz"} -> "error"
      [] vkind = "emptylist" -> "ok"                       \* a multi-hashring without hashrings: every GetN errors
      [] vkind \in {"emptyeps", "dup", "partaz"} -> IF n < rf THEN "error" ELSE "ok"      \* ketama
      [] vkind = "unknownalgo" -> "ok"                     \* hashmod accepts any number of endpoints
      [] OTHER -> "ok"

(* ---- enumeration helpers for the models ---- *)
(* zone layouts of n endpoints up to renaming: zone sizes non-increasing, at most mz zones *)
HLayouts(n, mz) == { a \in [1..n -> 1..mz] :
                      /\ a[1] = 1
                      /\ \A k \in 1..(n - 1) : a[k + 1] >= a[k] /\ a[k + 1] <= a[k] + 1
                      /\ \A z \in 1..(mz - 1) : ZoneCap(a, z) >= ZoneCap(a, z + 1) }

(* ---- loading a configuration (C19 conformance) ---- *)
(* eps: sequence of [a, z]; returns "ok" / "error" as NewMultiHashring does *)
BuildOutcome(algo, eps, rf, shardSize) ==
    IF algo = "ketama"
      THEN IF Len(eps) < rf THEN "error"
           ELSE IF shardSize > Len(eps) THEN "error" ELSE "ok"
      ELSE IF \E k \in DOMAIN eps : eps[k].z # "" THEN "error"
           ELSE IF shardSize > 0 THEN "error" ELSE "ok"

=============================================================================
