------------------------------ MODULE WriteGate ------------------------------
(***************************************************************************)
(* The remote-write concurrency gate of the receiver (C24).                *)
(*                                                                         *)
(* Code: pkg/receive/handler.go receiveHTTP and handler_otlp.go            *)
(* receiveOTLPHTTP call  writeGate.Start(r.Context())  before any work and *)
(* writeGate.Done()  (deferred) when the request is finished.  The gate    *)
(* (pkg/gate -> prometheus util/gate) is a counting semaphore: a buffered  *)
(* channel of capacity Max; Start = select{ctx.Done -> error ; send ->     *)
(* admitted}; Done = receive, panicking when the channel is empty.         *)
(*                                                                         *)
(* A request is one of                                                     *)
(*   "idle"     not yet sent                                               *)
(*   "waiting"  inside Start (queued when the gate is full)                *)
(*   "running"  admitted, being processed (holds one slot)                 *)
(*   "failed"   Start returned the context error (client gave up), the     *)
(*              handler has not returned yet                               *)
(*   "done"     handler returned                                           *)
(***************************************************************************)
EXTENDS Naturals, FiniteSets

(* ---------------- property level (used by the trace spec C24Trace) ---------------- *)
(* "no more than that many remote-write requests are processed at the same time"       *)
WithinLimit(processing, max) == Cardinality(processing) <= max

(* ---------------- algorithm level: the semaphore ---------------- *)
(* Start can take a slot iff the channel is not full.  *)
CanAdmit(slots, max) == slots < max
(* Done on an empty channel panics ("gate.Done: more operations done than started"). *)
DonePanics(slots) == slots = 0
AfterDone(slots) == IF slots = 0 THEN 0 ELSE slots - 1
=============================================================================
