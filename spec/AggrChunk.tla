------------------------------ MODULE AggrChunk ------------------------------
(***************************************************************************)
(* Aggregate chunk layout of downsampled blocks                            *)
(* (pkg/compact/downsample/aggr.go: EncodeAggrChunk, AggrChunk.Get).      *)
(*                                                                         *)
(* An aggregate chunk carries up to five sub-chunks (count, sum, min, max, *)
(* counter = aggregate types 0..4).  Layout: for each type in order, a     *)
(* length L; if L = 0 the aggregate is absent and nothing follows; else    *)
(* one encoding byte and L data bytes follow.  Lengths are uvarints in the *)
(* code; here a length is one token (the model's lengths are < 128, where  *)
(* a uvarint is one byte as well).                                         *)
(*                                                                         *)
(* Property C39: for any subset of present aggregates, Get(t) returns the  *)
(* sub-chunk unchanged when present and "not existing" when absent.        *)
(***************************************************************************)
EXTENDS Naturals, Sequences, FiniteSets

Types == 0..4
Null == <<>>                     \* absent aggregate (a present one has >= 1 data byte)

(* A sub-chunk is [enc |-> e, data |-> non-empty byte sequence].  *)
IsChunk(c) == c # Null

(* -------- property level -------- *)
(* What Get must answer, straight from the statement of C39.  *)
Expected(chks, t) ==
    IF IsChunk(chks[t]) THEN [kind |-> "chunk", enc |-> chks[t].enc, data |-> chks[t].data]
                        ELSE [kind |-> "notexist"]

(* -------- layout -------- *)
Entry(c) == IF IsChunk(c) THEN <<Len(c.data)>> \o <<c.enc>> \o c.data ELSE <<0>>
RECURSIVE EncodeFrom(_, _)
EncodeFrom(chks, i) == IF i > 4 THEN <<>> ELSE Entry(chks[i]) \o EncodeFrom(chks, i + 1)
Encode(chks) == EncodeFrom(chks, 0)

SubSeqFrom(s, k) == SubSeq(s, k, Len(s))

(* -------- algorithm level: the Get loop as a function (the step-wise     *)
(* state machine of the same loop is in AggrChunkMC; the trace spec uses    *)
(* this form to predict the algorithm's answer = model conformance).        *)
RECURSIVE GetLoop(_, _, _, _)
GetLoop(bb, ii, xx, tt) ==
    IF ii > tt THEN [kind |-> "chunk", enc |-> Head(xx), data |-> Tail(xx)]
    ELSE IF Len(bb) < 1 THEN [kind |-> "error"]
    ELSE LET l == Head(bb) IN
         IF l = 0 THEN (IF ii = tt THEN [kind |-> "notexist"] ELSE GetLoop(Tail(bb), ii + 1, xx, tt))
         ELSE IF Len(bb) - 1 < l + 1 THEN [kind |-> "error"]
         ELSE GetLoop(SubSeqFrom(bb, l + 3), ii + 1, SubSeq(bb, 2, l + 2), tt)
GetAlgo(bytes, tt) == GetLoop(bytes, 0, <<>>, tt)

=============================================================================
