------------------------------ MODULE AggrChunk ------------------------------
(***************************************************************************)
(* Aggregate chunk layout of downsampled blocks                            *)
(* (pkg/compact/downsample/aggr.go: EncodeAggrChunk, AggrChunk.Get).      *)
(*                                                                         *)
(* An aggregate chunk carries up to five sub-chunks (count, sum, min, max, *)
(* counter = aggregate types 0..4).  Layout: for each type in order, a     *)
(* length L; if L = 0 the aggregate is absent and nothing follows; else    *)
(* one encoding byte and L data bytes follow.  Lengths are uvarints: base-  *)
(* 128 digits, least significant first, every digit but the last carrying *)
(* a continuation flag.  The model keeps that structure with a            *)
(* configurable Base (the MC configs use a small base so that one- and    *)
(* two-digit lengths are both enumerated; the trace spec uses 128).       *)
(*                                                                         *)
(* Property C39: for any subset of present aggregates, Get(t) returns the  *)
(* sub-chunk unchanged when present and "not existing" when absent.        *)
(***************************************************************************)
EXTENDS Naturals, Sequences, FiniteSets
CONSTANT Base      \* radix of the variable-length integer encoding (128 in the code)

Types == 0..4
Null == <<>>                     \* absent aggregate (a present one has >= 1 data byte)

(* A sub-chunk is [enc |-> e, data |-> non-empty byte sequence].  *)
IsChunk(c) == c # Null

(* -------- property level -------- *)
(* What Get must answer, straight from the statement of C39.  *)
Expected(chks, t) ==
    IF IsChunk(chks[t]) THEN [kind |-> "chunk", enc |-> chks[t].enc, data |-> chks[t].data]
                        ELSE [kind |-> "notexist"]

(* -------- layout -------- *)
(* uvarint: a token >= Base is a digit with the continuation flag set *)
RECURSIVE Uvarint(_)
Uvarint(n) == IF n < Base THEN <<n>> ELSE <<(n % Base) + Base>> \o Uvarint(n \div Base)
(* decode from the front of b: [val, n] with n = number of tokens consumed, n = 0 if b ends early *)
RECURSIVE DecodeFrom(_, _, _, _)
DecodeFrom(b, k, mul, acc) ==
    IF k > Len(b) THEN [val |-> 0, n |-> 0]
    ELSE IF b[k] < Base THEN [val |-> acc + b[k] * mul, n |-> k]
    ELSE DecodeFrom(b, k + 1, mul * Base, acc + (b[k] - Base) * mul)
DecodeUvarint(b) == DecodeFrom(b, 1, 1, 0)

Entry(c) == IF IsChunk(c) THEN Uvarint(Len(c.data)) \o <<c.enc>> \o c.data ELSE <<0>>
RECURSIVE EncodeFrom(_, _)
EncodeFrom(chks, i) == IF i > 4 THEN <<>> ELSE Entry(chks[i]) \o EncodeFrom(chks, i + 1)
Encode(chks) == EncodeFrom(chks, 0)

SubSeqFrom(s, k) == SubSeq(s, k, Len(s))

(* -------- algorithm level: the Get loop as a function (the step-wise     *)
(* state machine of the same loop is in AggrChunkMC; the trace spec uses    *)
(* this form to predict the algorithm's answer = model conformance).        *)
RECURSIVE GetLoop(_, _, _, _)
GetLoop(bb, ii, xx, tt) ==
    IF ii > tt THEN [kind |-> "chunk", enc |-> Head(xx), data |-> Tail(xx)]
    ELSE LET d == DecodeUvarint(bb) IN
         IF d.n < 1 THEN [kind |-> "error"]
         ELSE LET l == d.val
                  rest == SubSeqFrom(bb, d.n + 1) IN
              IF l = 0 THEN (IF ii = tt THEN [kind |-> "notexist"] ELSE GetLoop(rest, ii + 1, xx, tt))
              ELSE IF Len(rest) < l + 1 THEN [kind |-> "error"]
              ELSE GetLoop(SubSeqFrom(rest, l + 2), ii + 1, SubSeq(rest, 1, l + 1), tt)
GetAlgo(bytes, tt) == GetLoop(bytes, 0, <<>>, tt)

=============================================================================
