\* C45 phase 2 leg A thorough: 3 rules servers with <= 1 rule each, fail modes none/warn/mid (a call that fails when
\* opened behaves like one failing before its first message; it is covered with 2 servers in the quick config, which the
\* thorough tier does not repeat), WARN and ABORT, 5 filter combinations; all interleavings.  33 750 requests.
SPECIFICATION Spec
CONSTANTS NClients = 3
          FailModes = {"none", "warn", "mid"}
          Strategies = {"WARN", "ABORT"}
          MaxPerClient = 1
INVARIANTS C45_RequestPathSatisfiesProperty OrderIndependent
CHECK_DEADLOCK TRUE
