\* C45 phase 2 leg A thorough: 3 rules servers with <= 2 rules each, fail modes none/warn/open/mid, WARN and ABORT,
\* 5 filter combinations; all interleavings.
SPECIFICATION Spec
CONSTANTS NClients = 3
          FailModes = {"none", "warn", "open", "mid"}
          Strategies = {"WARN", "ABORT"}
          MaxPerClient = 2
INVARIANTS C45_RequestPathSatisfiesProperty OrderIndependent
CHECK_DEADLOCK TRUE
