---------------------------- MODULE ReceiveWrite ----------------------------
(***************************************************************************)
(* Replicated remote write in the receiver (C22, C23).                     *)
(*                                                                         *)
(* Code: pkg/receive/handler.go — forward / fanoutForward distribute every *)
(* series of a request to rf <endpoint,replica> writes (one write for an   *)
(* already-replicated request), account the responses in arrival order     *)
(* (successes / failures / conflictFailures per series), return early once *)
(* every series is determined, and map the collected errors to an HTTP     *)
(* status (replicationErrors.Cause -> writeErrors.Cause -> handleV1HTTP).  *)
(*                                                                         *)
(* One observed execution ("run") is described, for the property level, by *)
(*   status          HTTP status the client received                       *)
(*   series[i]       for series i of the request:                          *)
(*     ok, conflict, unavailable, other  how many of its n replica writes  *)
(*                    were answered with success / a conflict / "replica   *)
(*                    unavailable" / another error (the fault assignment,  *)
(*                    whether or not the handler waited for the answer)    *)
(*     noconn         how many of its replica writes were never sent: the  *)
(*                    handler had no connection to the peer (peer in its   *)
(*                    back-off window after earlier failures); a failed    *)
(*                    dial is counted under other                          *)
(*     notready       how many of its replica writes were LOCAL writes     *)
(*                    (the receiver itself is one of the replicas) that    *)
(*                    found the tenant's TSDB not ready                    *)
(* A request may spread its series over several tenants (tenant split by   *)
(* label); a replica counts as having stored a series only if it stored it *)
(* under the series' tenant.                                               *)
(*     stored        how many replicas had stored the series at the moment *)
(*                    the client got its answer                            *)
(* n = rf, or 1 for an already-replicated request.                         *)
(***************************************************************************)
EXTENDS Integers, Sequences, FiniteSets

(* ======================= property level ======================= *)

(* "write quorum": a majority of the replicas.  The statement does not say what a majority of two  *)
(* is; thanos' writeQuorum() uses 1 ("otherwise rf 2 makes no sense"), the plain formula gives 2.  *)
(* Weakest reading: a run is accepted if it satisfies the clauses under either reading.            *)
Quorums(rf) == IF rf = 2 THEN {1, 2} ELSE {rf \div 2 + 1}
QuorumsFor(rf, replicated) == IF replicated THEN {1} ELSE Quorums(rf)   \* "on the addressed replica"
ReplicasFor(rf, replicated) == IF replicated THEN 1 ELSE rf

Acked(status) == status \in 200..299
(* conflicts alone make quorum impossible for this series: fewer than q replicas are left *)
BlockedByConflicts(s, n, q) == s.conflict >= n - q + 1
OnlyConflictsAndUnavailable(run) == \A i \in DOMAIN run.series : run.series[i].other = 0

(* C22: "acknowledges a remote-write request only if every series in it was stored on at least a   *)
(* write quorum of its replicas (or, for an already-replicated request, on the addressed replica); *)
(* if any series cannot reach quorum the request fails."                                            *)
C22Violations(run, n, q) ==
    (IF Acked(run.status) /\ \E i \in DOMAIN run.series : run.series[i].stored < q
       THEN {"ack-only-if-stored-on-quorum"} ELSE {})
    \cup
    (IF Acked(run.status) /\ \E i \in DOMAIN run.series : run.series[i].ok < q
       THEN {"unreachable-quorum-fails-request"} ELSE {})

(* C23: "the client gets 409 Conflict only if conflicts alone make quorum impossible for some      *)
(* series (retrying cannot help), gets 503 when the failure can still be fixed by retrying, and     *)
(* never gets a 500 for failures made only of conflicts and unavailable replicas."                  *)
(* Judged only for the outcome alphabet of the statement (success, conflict, unavailable).         *)
(* "Can still be fixed by retrying" = no series is blocked by conflicts; when some series is       *)
(* blocked both 409 and 503 are accepted (another series may still be retryable).                   *)
C23Violations(run, n, q) ==
    LET blocked == \E i \in DOMAIN run.series : BlockedByConflicts(run.series[i], n, q) IN
    (IF run.status = 409 /\ ~blocked
       THEN {"409-only-if-conflicts-block-quorum"} ELSE {})
    \cup
    (IF OnlyConflictsAndUnavailable(run) /\ ~Acked(run.status) /\ ~blocked /\ run.status # 503
       THEN {"retryable-failure-gets-503"} ELSE {})
    \cup
    (IF OnlyConflictsAndUnavailable(run) /\ run.status = 500
       THEN {"no-500-for-conflict-or-unavailable"} ELSE {})

Min(S) == CHOOSE x \in S : \A y \in S : x <= y
(* accepted iff some admissible reading of "quorum" has no violated clause *)
JudgeWith(V(_, _, _), run, n, qs) ==
    IF \E q \in qs : V(run, n, q) = {} THEN {} ELSE V(run, n, Min(qs))
JudgeC22(run, n, qs) == JudgeWith(C22Violations, run, n, qs)
JudgeC23(run, n, qs) == JudgeWith(C23Violations, run, n, qs)

(* ======================= algorithm level ======================= *)

(* Handler.writeQuorum *)
CodeQuorum(rf) == IF rf = 2 THEN 1 ELSE rf \div 2 + 1
SuccessThreshold(rf, replicated) == IF replicated THEN 1 ELSE CodeQuorum(rf)
FailureThreshold(rf, replicated) == ReplicasFor(rf, replicated) - SuccessThreshold(rf, replicated) + 1

(* canReturnEarly: every series reached the success threshold or is blocked by conflicts *)
CanReturnEarly(S, succ, conf, st, ft) == \A s \in S : succ[s] >= st \/ conf[s] >= ft

(* replicationErrors.Cause for one series, from its accounted errors: c conflicts (gRPC AlreadyExists, *)
(* or a local write whose errors are all conflicts: out-of-order / duplicate sample, ...), g answers   *)
(* with gRPC code Unavailable, r refusals by the handler's own peer group (errUnavailable: peer in     *)
(* back-off, no RPC made), l local writes that found the tenant's TSDB not ready (tsdb.ErrNotReady:     *)
(* matches isNotReady only), o other errors (incl. a failed dial, whose cause is the dial error).      *)
(* Counted per expected error: conflict c, notReady g + l (codes.Unavailable matches isNotReady),       *)
(* unavailable g + r; sorted by count, descending, stable (conflict, notReady, unavailable); only the   *)
(* first entry is compared with the threshold.                                                          *)
ReplCause(c, g, r, l, o, th) ==
    LET n == g + l
        u == g + r
        total == c + g + r + l + o IN
    IF total = 0 THEN "empty"
    ELSE IF c >= n /\ c >= u THEN (IF c >= th THEN "conflict" ELSE IF total >= th THEN "unavailable" ELSE "nil")
    ELSE IF n >= u THEN (IF n >= th THEN "notready" ELSE IF total >= th THEN "unavailable" ELSE "nil")
    ELSE IF u >= th \/ total >= th THEN "unavailable"
    ELSE "nil"

(* writeErrors.Cause over the failing series: prefers unavailable, then notReady, then conflict *)
WriteCause(causes) ==
    IF "unavailable" \in causes THEN "unavailable"
    ELSE IF "notready" \in causes THEN "notready"
    ELSE IF "conflict" \in causes THEN "conflict"
    ELSE "unknown"

(* handleV1HTTP *)
StatusOf(cause) == CASE cause \in {"unavailable", "notready"} -> 503
                     [] cause = "conflict" -> 409
                     [] OTHER -> 500

(* What fanoutForward answers when it stops with these accounted counters.  fail, errs: per series; *)
(* th = threshold given to newReplicationErrors.                                                     *)
Decide(S, fail, errs, ft, th) ==
    LET failing == { s \in S : fail[s] >= ft } IN
    IF failing = {} THEN 200
    ELSE StatusOf(WriteCause({ ReplCause(errs[s].c, errs[s].u, errs[s].r, errs[s].l, errs[s].o, th) : s \in failing }))

(* The same from the complete fault assignment of a run record (used for model conformance). *)
PredictedStatus(run, rf, replicated) ==
    LET S == DOMAIN run.series
        ft == FailureThreshold(rf, replicated)
        fail == [s \in S |-> run.series[s].conflict + run.series[s].unavailable + run.series[s].noconn
                              + run.series[s].notready + run.series[s].other]
        errs == [s \in S |-> [c |-> run.series[s].conflict, u |-> run.series[s].unavailable,
                              r |-> run.series[s].noconn, l |-> run.series[s].notready, o |-> run.series[s].other]]
    IN Decide(S, fail, errs, ft, ft)
=============================================================================
