------------------------------ MODULE DedupMC ------------------------------
(***************************************************************************)
(* Leg A for C01 and C02: the penalty iterator as a state machine, run on  *)
(* every replica layout over a small timestamp grid: by a reader iterating *)
(* from the start and by readers that mix Next and Seek(x) in every order  *)
(* (at most MaxSeeks seeks per reader; seek-first is the special case).    *)
(*                                                                         *)
(* Model time is in units of 1000 ms (the harness multiplies by 1000), so  *)
(* InitPen = 5 stands for the 5000 ms initial penalty; the grid straddles  *)
(* it and the 2*delta penalty.                                             *)
(*                                                                         *)
(* Ctr = FALSE (C01): values are unique per replica (100*r + j) so that    *)
(*   provenance is decidable; layouts whose replicas have identical        *)
(*   timestamps additionally come with shared values (identical replicas). *)
(*   With Kinds # {"f"} every sample is a float or a (float) histogram.    *)
(* Ctr = TRUE  (C02): every replica is a counter: value = start + partial  *)
(*   sums of increments from Incs; the iterators carry the counter adjust. *)
(***************************************************************************)
EXTENDS Dedup, TLC, Json, IOUtils, SequencesExt, FiniteSetsExt
CONSTANTS Grid,       \* set of model timestamps
          NumReps,    \* number of replicas (2..4)
          MaxLen,     \* at most this many samples per replica
          Ctr,        \* FALSE: C01 (plain), TRUE: C02 (counter functions)
          Starts,     \* Ctr: first values
          Incs,       \* Ctr: increments
          Targets,    \* seek targets
          Kinds,      \* sample kinds of plain inputs ({"f"}: floats only)
          MaxSeeks,   \* the second reader makes at most this many Seek calls
          EmitMod     \* leg B: emit the cases whose checksum = VERIF_SEED mod EmitMod (1 = all)

VARIABLES reps,    \* the input: sequence of NumReps replicas
          it,      \* iterator state (tree, see Dedup)
          pc,      \* "run" (reader iterating from the start) | "ops" | "seeking" | "done"
          out,     \* samples handed to the first reader so far
          full,    \* what the reader iterating from the start saw (set when that run ends)
          log,     \* calls of the second reader and what they returned
          target,  \* target of the Seek in progress
          nseek    \* seeks the second reader has made
vars == <<reps, it, pc, out, full, log, target, nseek>>

(* ---------------- inputs ---------------- *)
Lt(a, b) == a < b
TimeSeqs == { SetToSortSeq(S, Lt) : S \in { S \in SUBSET Grid : Cardinality(S) <= MaxLen } }

(* timestamps with a sample kind each: "f" float, "h" / "fh" histogram (see Dedup) *)
TimeKindSeqs == UNION { { [j \in DOMAIN ts |-> <<ts[j], ks[j]>>] : ks \in [DOMAIN ts -> Kinds] } : ts \in TimeSeqs }
Smp(t, v, k) == IF k = "f" THEN <<t, v>> ELSE <<t, v, k>>
PlainRep(tk, r) == [j \in DOMAIN tk |-> Smp(tk[j][1], 100 * r + j, tk[j][2])]
SharedRep(tk) == [j \in DOMAIN tk |-> Smp(tk[j][1], 1000 + tk[j][1], tk[j][2])]
PlainInputs ==
    { [r \in 1..NumReps |-> PlainRep(f[r], r)] : f \in [1..NumReps -> TimeKindSeqs] }
    \cup { [r \in 1..NumReps |-> SharedRep(tk)] : tk \in TimeKindSeqs }

RECURSIVE PartialSum(_, _)
PartialSum(incs, j) == IF j <= 1 THEN 0 ELSE incs[j - 1] + PartialSum(incs, j - 1)
CounterReps ==
    UNION { { [j \in DOMAIN ts |-> <<ts[j], s0 + PartialSum(incs, j)>>] :
                s0 \in Starts, incs \in [1..(Len(ts) - 1) -> Incs] } : ts \in TimeSeqs }
CounterInputs == [1..NumReps -> CounterReps]

Inputs == IF Ctr THEN CounterInputs ELSE PlainInputs

(* ---------------- the iterator driven by readers ---------------- *)
(* One behaviour = one input: first a reader that only calls Next (its stream is kept in     *)
(* `full`); then, on a fresh iterator, a reader that calls Next or Seek(x), x in Targets, in   *)
(* any order (at most MaxSeeks seeks) until a call finds no sample.                          *)
(* (\E r \in {e} : ...) binds the value of e once: TLC re-evaluates action-level LET          *)
(* definitions and operator arguments at every use.                                          *)
Init == /\ reps \in Inputs
        /\ it = Build(reps, Ctr)
        /\ pc = "run"
        /\ out = <<>> /\ full = <<>> /\ log = <<>> /\ target = 0 /\ nseek = 0

(* first reader: Next until exhausted; then the second reader gets a fresh iterator *)
ReaderNext ==
    /\ pc = "run"
    /\ \E r \in {ItNext(it)} :
         IF r.ok THEN /\ it' = r.it /\ out' = Append(out, ItAt(r.it))
                      /\ UNCHANGED <<pc, full>>
                 ELSE /\ it' = Build(reps, Ctr) /\ full' = out /\ pc' = "ops"
                      /\ UNCHANGED out
    /\ UNCHANGED <<reps, log, target, nseek>>

Entry(op, x, r) == [op |-> op, x |-> x, ok |-> r.ok, s |-> IF r.ok THEN ItAt(r.it) ELSE <<>>]
Logged(op, x, r) == /\ it' = r.it
                    /\ log' = Append(log, Entry(op, x, r))
                    /\ pc' = IF r.ok THEN "ops" ELSE "done"

(* second reader calls Next *)
OpNext == /\ pc = "ops"
          /\ \E r \in {ItNext(it)} : Logged("next", 0, r)
          /\ UNCHANGED <<reps, out, full, target, nseek>>

(* second reader calls Seek(x).  For the penalty iterator the loop of Seek is unrolled into   *)
(* one step per iteration (OpSeek, SeekLoop); a single replica is a plain series iterator     *)
(* whose Seek is one step.                                                                   *)
OpSeek(x) ==
    /\ pc = "ops" /\ nseek < MaxSeeks
    /\ nseek' = nseek + 1 /\ target' = x
    /\ IF it.k = "leaf"
         THEN \E r \in {ItSeek(it, x)} : Logged("seek", x, r)
         ELSE IF ~it.has
                THEN \E r \in {DDNext(it)} :      \* nothing read yet: consult both replicas
                     IF r.ok THEN it' = r.it /\ pc' = "seeking" /\ log' = log
                             ELSE Logged("seek", x, r)
                ELSE it' = it /\ pc' = "seeking" /\ log' = log
    /\ UNCHANGED <<reps, out, full>>

SeekLoop ==
    /\ pc = "seeking"
    /\ IF ItAtT(it) >= target
         THEN Logged("seek", target, [it |-> it, ok |-> TRUE])
         ELSE \E r \in {DDNext(it)} :
              IF r.ok THEN it' = r.it /\ UNCHANGED <<pc, log>>
                      ELSE Logged("seek", target, r)
    /\ UNCHANGED <<reps, out, full, target, nseek>>

Next == ReaderNext \/ OpNext \/ (\E x \in Targets : OpSeek(x)) \/ SeekLoop
Spec == Init /\ [][Next]_vars

(* ---------------- C01 ---------------- *)
C01_StrictlyIncreasing == StrictlyIncreasing(out)
C01_FromSomeReplica == ~Ctr => FromSomeReplica(out, reps) /\ FromSomeReplica(Received(log), reps)
C01_UnchangedIfIdentical == (pc # "run" /\ ~Ctr) => UnchangedIfIdentical(full, reps)
(* a reader whose first call is Seek(x) and who then only calls Next sees the suffix from x *)
SeekFirstThenNext == /\ Len(log) >= 1 /\ log[1].op = "seek"
                     /\ \A k \in 2..Len(log) : log[k].op = "next"
C01_SeekIsSuffix == (pc = "done" /\ SeekFirstThenNext) => SeekIsSuffix(full, log[1].x, Received(log))
(* any reader moves a cursor over the stream read from the start *)
C01_FollowsFullStream == pc \in {"ops", "done"} => FollowsFullStream(full, log)
(* the step-wise machine and the functional form used by the trace specs agree *)
StepwiseEqualsFunctional ==
    /\ (pc = "ops" /\ log = <<>>) => full = RunNext(reps, Ctr)
    /\ pc = "done" => log = RunOps(reps, Ctr, [k \in DOMAIN log |-> [op |-> log[k].op, x |-> log[k].x]])
(* ---------------- C02 ---------------- *)
C02_CounterNeverDecreases == Ctr => CounterNeverDecreases(out, reps) /\ CounterNeverDecreases(Received(log), reps)
(* termination: a reader gets at most one sample per input sample, and only "done" has no successor *)
BoundedOutput == /\ Len(out) <= Cardinality(SampleSet(reps))
                 /\ Len(log) <= Cardinality(SampleSet(reps)) + MaxSeeks + 1
OnlyDoneIsFinal == pc # "done" => ENABLED Next
(* liveness (checked under weak fairness of the readers, no state constraint): both readers finish *)
FairSpec == Spec /\ WF_vars(Next)
Terminates == <>(pc = "done")

(* ---------------- leg B: the inputs handed to the harness ---------------- *)
CasesFile == IF "VERIF_CASES" \in DOMAIN IOEnv THEN IOEnv.VERIF_CASES ELSE "cases.ndjson"
Seed == IF "VERIF_SEED" \in DOMAIN IOEnv THEN atoi(IOEnv.VERIF_SEED) ELSE 1
Checksum(rs) == LET all == SampleSet(rs) IN
                SumSet({ T(e) + 3 * V(e) + 7 : e \in all }) + Cardinality(all)
Emitted == IF EmitMod = 1 THEN Inputs ELSE { rs \in Inputs : Checksum(rs) % EmitMod = Seed % EmitMod }
CaseSeq == SetToSeq({ [reps |-> rs, ctr |-> Ctr, targets |-> SetToSortSeq(Targets, Lt), scale |-> 1000] : rs \in Emitted })
ASSUME ndJsonSerialize(CasesFile, CaseSeq)
=============================================================================
