------------------------------ MODULE DedupMC ------------------------------
(***************************************************************************)
(* Leg A for C01 and C02: the penalty iterator as a state machine, run on  *)
(* every replica layout over a small timestamp grid: by a reader iterating *)
(* from the start and by a reader whose first call is Seek(x), every x.    *)
(*                                                                         *)
(* Model time is in units of 1000 ms (the harness multiplies by 1000), so  *)
(* InitPen = 5 stands for the 5000 ms initial penalty; the grid straddles  *)
(* it and the 2*delta penalty.                                             *)
(*                                                                         *)
(* Ctr = FALSE (C01): values are unique per replica (100*r + j) so that    *)
(*   provenance is decidable; layouts whose replicas have identical        *)
(*   timestamps additionally come with shared values (identical replicas). *)
(* Ctr = TRUE  (C02): every replica is a counter: value = start + partial  *)
(*   sums of increments from Incs; the iterators carry the counter adjust. *)
(***************************************************************************)
EXTENDS Dedup, TLC, Json, IOUtils, SequencesExt, FiniteSetsExt
CONSTANTS Grid,       \* set of model timestamps
          NumReps,    \* number of replicas (2..4)
          MaxLen,     \* at most this many samples per replica
          Ctr,        \* FALSE: C01 (plain), TRUE: C02 (counter functions)
          Starts,     \* Ctr: first values
          Incs,       \* Ctr: increments
          Targets,    \* seek targets
          EmitMod     \* leg B: emit the cases whose checksum = VERIF_SEED mod EmitMod (1 = all)

VARIABLES reps,    \* the input: sequence of NumReps replicas
          it,      \* iterator state (tree, see Dedup)
          pc,      \* "run" (reader iterating from the start) | "pick" | "seekstart" | "seeking" | "srun" | "done"
          out,     \* samples handed to the current reader so far
          full,    \* what the reader iterating from the start saw (set when that run ends)
          target   \* seek target of the second reader
vars == <<reps, it, pc, out, full, target>>

(* ---------------- inputs ---------------- *)
Lt(a, b) == a < b
TimeSeqs == { SetToSortSeq(S, Lt) : S \in { S \in SUBSET Grid : Cardinality(S) <= MaxLen } }

PlainRep(ts, r) == [j \in DOMAIN ts |-> <<ts[j], 100 * r + j>>]
SharedRep(ts) == [j \in DOMAIN ts |-> <<ts[j], 1000 + ts[j]>>]
PlainInputs ==
    { [r \in 1..NumReps |-> PlainRep(f[r], r)] : f \in [1..NumReps -> TimeSeqs] }
    \cup { [r \in 1..NumReps |-> SharedRep(ts)] : ts \in TimeSeqs }

RECURSIVE PartialSum(_, _)
PartialSum(incs, j) == IF j <= 1 THEN 0 ELSE incs[j - 1] + PartialSum(incs, j - 1)
CounterReps ==
    UNION { { [j \in DOMAIN ts |-> <<ts[j], s0 + PartialSum(incs, j)>>] :
                s0 \in Starts, incs \in [1..(Len(ts) - 1) -> Incs] } : ts \in TimeSeqs }
CounterInputs == [1..NumReps -> CounterReps]

Inputs == IF Ctr THEN CounterInputs ELSE PlainInputs

(* ---------------- the iterator driven by a reader ---------------- *)
(* One behaviour = one input: first a reader that only calls Next (its stream is kept in     *)
(* `full`), then, on a fresh iterator, a reader whose first call is Seek(target) for a       *)
(* nondeterministically picked target.                                                       *)
Init == /\ reps \in Inputs
        /\ it = Build(reps, Ctr)
        /\ pc = "run"
        /\ out = <<>>
        /\ full = <<>>
        /\ target = 0

(* the reader receives the result r of a Next/Seek call *)
Emit(r) ==
    /\ it' = r.it
    /\ IF r.ok
         THEN /\ out' = Append(out, ItAt(r.it))
              /\ pc' = IF pc = "run" THEN "run" ELSE "srun"
              /\ full' = full
         ELSE /\ out' = out
              /\ pc' = IF pc = "run" THEN "pick" ELSE "done"
              /\ full' = IF pc = "run" THEN out ELSE full

(* reader calls Next *)
(* (\E r \in {e} : ...) binds the value of e once; TLC re-evaluates action-level LET       *)
(* definitions and operator arguments at every use.)                                        *)
ReaderNext == /\ pc \in {"run", "srun"}
              /\ \E r \in {ItNext(it)} : Emit(r)
              /\ UNCHANGED <<reps, target>>

(* a second reader starts on a fresh iterator of the same series *)
Pick(x) == /\ pc = "pick"
           /\ target' = x /\ it' = Build(reps, Ctr) /\ out' = <<>> /\ pc' = "seekstart"
           /\ UNCHANGED <<reps, full>>

(* its first call is Seek(target).  For the penalty iterator the loop of Seek is unrolled    *)
(* into one step per iteration (SeekEnter, SeekLoop); a single replica is a plain series     *)
(* iterator whose Seek is one step.                                                          *)
SeekEnter == /\ pc = "seekstart"
             /\ IF it.k = "leaf"
                  THEN \E r \in {ItSeek(it, target)} : Emit(r)
                  ELSE /\ UNCHANGED <<out, full>>
                       /\ IF ~it.has
                            THEN \E r \in {DDNext(it)} :   \* nothing read yet: consult both replicas
                                 it' = r.it /\ pc' = IF r.ok THEN "seeking" ELSE "done"
                            ELSE it' = it /\ pc' = "seeking"
             /\ UNCHANGED <<reps, target>>

SeekLoop == /\ pc = "seeking"
            /\ IF ItAtT(it) >= target
                 THEN it' = it /\ out' = Append(out, ItAt(it)) /\ pc' = "srun"
                 ELSE \E r \in {DDNext(it)} :
                      /\ it' = r.it /\ out' = out
                      /\ pc' = IF r.ok THEN "seeking" ELSE "done"
            /\ UNCHANGED <<reps, target, full>>

Next == ReaderNext \/ (\E x \in Targets : Pick(x)) \/ SeekEnter \/ SeekLoop
Spec == Init /\ [][Next]_vars

(* ---------------- C01 ---------------- *)
C01_StrictlyIncreasing == StrictlyIncreasing(out)
C01_FromSomeReplica == ~Ctr => FromSomeReplica(out, reps)
C01_UnchangedIfIdentical == (pc = "pick" /\ ~Ctr) => UnchangedIfIdentical(full, reps)
C01_SeekIsSuffix == pc = "done" => SeekIsSuffix(full, target, out)
(* the step-wise machine and the functional form used by the trace specs agree *)
StepwiseEqualsFunctional ==
    /\ pc = "pick" => full = RunNext(reps, Ctr)
    /\ pc = "done" => out = RunSeek(reps, Ctr, target)
(* ---------------- C02 ---------------- *)
C02_CounterNeverDecreases == Ctr => CounterNeverDecreases(out, reps)
(* termination: a reader gets at most one sample per input sample, and only "done" has no successor *)
BoundedOutput == Len(out) <= Cardinality(SampleSet(reps))
OnlyDoneIsFinal == pc # "done" => ENABLED Next

(* ---------------- leg B: the inputs handed to the harness ---------------- *)
CasesFile == IF "VERIF_CASES" \in DOMAIN IOEnv THEN IOEnv.VERIF_CASES ELSE "cases.ndjson"
Seed == IF "VERIF_SEED" \in DOMAIN IOEnv THEN atoi(IOEnv.VERIF_SEED) ELSE 1
Checksum(rs) == LET all == SampleSet(rs) IN
                SumSet({ T(e) + 3 * V(e) + 7 : e \in all }) + Cardinality(all)
Emitted == IF EmitMod = 1 THEN Inputs ELSE { rs \in Inputs : Checksum(rs) % EmitMod = Seed % EmitMod }
CaseSeq == SetToSeq({ [reps |-> rs, ctr |-> Ctr, targets |-> SetToSortSeq(Targets, Lt), scale |-> 1000] : rs \in Emitted })
ASSUME ndJsonSerialize(CasesFile, CaseSeq)
=============================================================================
