\* C12 leg A (cached bytes) quick: lists of <= 3 values in 0..3, 2-byte varints from difference 2, chunks of at most
\* 1..3 bytes, every compressed/uncompressed assignment, two interleaved decoders of the same bytes
SPECIFICATION Spec
CONSTANTS MaxVal = 3
          MaxLen = 3
          Ks = {1, 2, 3}
          W2 = 2
INVARIANT C12_EveryDecodeGivesTheList
INVARIANT CachedBytesIntact
CHECK_DEADLOCK FALSE
