\* C35 leg A thorough: 3 local blocks, <= 2 crashes and <= 2 failed bucket calls anywhere;
\* generated cases: 1..2 blocks, pre-state absent/partial/complete, <= 2 crash points
SPECIFICATION Spec
CONSTANTS N = 3
          MaxCrashes = 2
          Features = {"crash", "fail"}
          MaxFails = 2
          MtLen = 3
          CaseN = 2
          CaseCrashes = 2
          CaseKinds = {"L1", "E", "L2"}
          CasePre = {"absent", "partial", "complete"}
INVARIANTS C35_PrunedOnlyWhenShipped C35_LocalDeleteOnlyWhenShipped C35_RecordedWereSeenComplete C35_SuccessfulSyncShippedAll C28_Holds
PROPERTIES EventuallyShipped
CHECK_DEADLOCK FALSE
