---------------------------- MODULE CompactionMC ----------------------------
(***************************************************************************)
(* Leg A of C29: the compactor's run loop (BucketCompactor.Compact) over   *)
(* one compaction group, one action per bucket mutation / sync, with       *)
(* crashes, restarts and the passing of time, against the store-gateway    *)
(* view of Compaction.tla.                                                 *)
(*                                                                         *)
(*  run loop:  Sync (fetch metas; drop blocks marked longer than           *)
(*             DeleteDelay/2; dedup filter)                                *)
(*          -> Clean (BlocksCleaner: blocks marked longer than DeleteDelay *)
(*             are deleted: meta.json, then data, then the mark)           *)
(*          -> GC (mark the duplicates the sync found)                     *)
(*          -> Plan (the transcribed planner of Planner.tla)               *)
(*          -> UpData, UpMeta (upload the result: data files, meta.json    *)
(*             last) -> Mark each source -> back to Sync; no plan: quiet.  *)
(*  Crash: at any point the compactor's local state is lost ("down");      *)
(*  Restart begins a new run.  Tick: time passes (only while the compactor *)
(*  is down or quiet, which is what the harness can reproduce); mark ages  *)
(*  are capped at DeleteDelay+1 (all older marks behave alike).            *)
(***************************************************************************)
EXTENDS Compaction, Planner, TLC, Json, IOUtils, SequencesExt
CONSTANTS Layouts,       \* set of layouts; a layout = [name, vertical, ranges, blocks: seq of [mint, maxt, toks]]
          DeleteDelay,   \* compactor --delete-delay in ticks (the sync filter uses DeleteDelay \div 2)
          IgnoreDelay,   \* store gateway --ignore-deletion-marks-delay in ticks
          MaxCrashes,
          MaxId,         \* ids available (originals + results)
          MarkFirst      \* FALSE = the code; TRUE = broken variant (sources marked before the result is uploaded),
                         \* used once to show that the invariants can fail

(* ---- layouts (a cfg file cannot write records) ---- *)
Blk(lo, hi, toks) == [mint |-> lo, maxt |-> hi, toks |-> toks]
LAligned5 == [name |-> "aligned5", vertical |-> FALSE, ranges |-> <<1, 4>>,
              blocks |-> <<Blk(0, 1, {1}), Blk(1, 2, {2}), Blk(2, 3, {3}), Blk(3, 4, {4}), Blk(4, 5, {5})>>]
LGap4 == [name |-> "gap4", vertical |-> FALSE, ranges |-> <<1, 4>>,
          blocks |-> <<Blk(0, 1, {1}), Blk(1, 2, {2}), Blk(4, 5, {3}), Blk(5, 6, {4})>>]
LReplica == [name |-> "replica", vertical |-> TRUE, ranges |-> <<1, 4>>,
             blocks |-> <<Blk(0, 1, {1, 2}), Blk(0, 1, {2, 3}), Blk(1, 2, {4})>>]
LTwoLevel == [name |-> "twolevel", vertical |-> FALSE, ranges |-> <<1, 2, 4>>,
              blocks |-> <<Blk(0, 1, {1}), Blk(1, 2, {2}), Blk(2, 3, {3}), Blk(3, 4, {4}), Blk(4, 5, {5})>>]
LReplica3 == [name |-> "replica3", vertical |-> TRUE, ranges |-> <<1, 2, 4>>,
              blocks |-> <<Blk(0, 1, {1, 2}), Blk(0, 1, {2, 3}), Blk(1, 2, {4}), Blk(1, 2, {4, 5}), Blk(2, 3, {6})>>]
LayoutsQuick == {LAligned5, LReplica}
LayoutsThorough == {LAligned5, LGap4, LReplica, LTwoLevel, LReplica3}

VARIABLES lay,      \* the layout of this behaviour
          bk,       \* bucket: id -> [src, mint, maxt, data, meta, mark (NoMark or age)]
          nextId,
          pc,       \* "run" | "clean" | "gc" | "plan" | "updata" | "upmeta" | "mark" | "quiet" | "down" | "halted"
          view, dmarks, dups, deleted, toDel, toGC, plan, res, toMark,   \* the compactor's local state
          crashes
vars == <<lay, bk, nextId, pc, view, dmarks, dups, deleted, toDel, toGC, plan, res, toMark, crashes>>
local == <<view, dmarks, dups, deleted, toDel, toGC, plan, res, toMark>>

Absent == [src |-> {}, mint |-> 0, maxt |-> 0, data |-> FALSE, meta |-> FALSE, mark |-> NoMark]
Ids == 1..MaxId
NOrig == Len(lay.blocks)
Toks(i) == lay.blocks[i].toks
Universe == UNION { Toks(i) : i \in 1..NOrig }
(* what each block holds: the tsdb compactor merges exactly (on the code this is judged by leg C) *)
Smp == [i \in Ids |-> IF i <= NOrig THEN Toks(i) ELSE UNION { Toks(s) : s \in bk[i].src }]

(* the observable bucket as the property level sees it *)
Obs == { [id |-> i, grp |-> 1, src |-> bk[i].src, meta |-> bk[i].meta, complete |-> bk[i].data, markAge |-> bk[i].mark] :
           i \in { j \in Ids : bk[j].meta \/ bk[j].data \/ bk[j].mark # NoMark } }

ResetLocal == /\ view' = {} /\ dmarks' = {} /\ dups' = {} /\ deleted' = {} /\ toDel' = {} /\ toGC' = {}
              /\ plan' = <<>> /\ res' = 0 /\ toMark' = <<>>

Init == /\ lay \in Layouts
        /\ bk = [i \in Ids |-> IF i <= Len(lay.blocks)
                                 THEN [src |-> {i}, mint |-> lay.blocks[i].mint, maxt |-> lay.blocks[i].maxt,
                                       data |-> TRUE, meta |-> TRUE, mark |-> NoMark]
                                 ELSE Absent]
        /\ nextId = Len(lay.blocks) + 1
        /\ pc = "run" /\ crashes = 0
        /\ view = {} /\ dmarks = {} /\ dups = {} /\ deleted = {} /\ toDel = {} /\ toGC = {}
        /\ plan = <<>> /\ res = 0 /\ toMark = <<>>

(* ---- Sync: Syncer.SyncMetas with the compactor's filter chain ---- *)
AsObs(S) == { [id |-> i, grp |-> 1, src |-> bk[i].src, meta |-> TRUE, complete |-> TRUE, markAge |-> bk[i].mark] : i \in S }
KeptIds(S) == { b.id : b \in Kept(AsObs(S)) }
Sync == /\ pc = "run"
        /\ LET cands == { i \in Ids : bk[i].meta }
               marked == { i \in cands : bk[i].mark # NoMark }
               afterMark == { i \in cands : ~(bk[i].mark # NoMark /\ bk[i].mark > DeleteDelay \div 2) }
           IN /\ view' = KeptIds(afterMark)
              /\ dups' = afterMark \ KeptIds(afterMark)
              /\ dmarks' = marked
              /\ toDel' = { i \in marked : bk[i].mark > DeleteDelay }
        /\ deleted' = {} /\ toGC' = {} /\ plan' = <<>> /\ res' = 0 /\ toMark' = <<>>
        /\ pc' = "clean"
        /\ UNCHANGED <<lay, bk, nextId, crashes>>

(* ---- Clean: block.Delete of one marked block proceeds meta.json -> data -> deletion mark (32 workers: any block next) ---- *)
CleanStep(i) ==
    /\ pc = "clean" /\ i \in toDel
    /\ IF bk[i].meta THEN bk' = [bk EXCEPT ![i].meta = FALSE] /\ UNCHANGED <<toDel, deleted>>
       ELSE IF bk[i].data THEN bk' = [bk EXCEPT ![i].data = FALSE] /\ UNCHANGED <<toDel, deleted>>
       ELSE /\ bk' = [bk EXCEPT ![i] = Absent]
            /\ toDel' = toDel \ {i} /\ deleted' = deleted \cup {i}
    /\ UNCHANGED <<lay, nextId, pc, view, dmarks, dups, toGC, plan, res, toMark, crashes>>
CleanDone == /\ pc = "clean" /\ toDel = {}
             /\ toGC' = (dups \ dmarks) \ deleted
             /\ pc' = "gc"
             /\ UNCHANGED <<lay, bk, nextId, view, dmarks, dups, deleted, toDel, plan, res, toMark, crashes>>

(* ---- GC: Syncer.GarbageCollect marks the duplicate blocks found by the sync ---- *)
GCStep(i) == /\ pc = "gc" /\ i \in toGC
             /\ bk' = [bk EXCEPT ![i].mark = IF @ = NoMark THEN 0 ELSE @]
             /\ toGC' = toGC \ {i} /\ view' = view \ {i}
             /\ UNCHANGED <<lay, nextId, pc, dmarks, dups, deleted, toDel, plan, res, toMark, crashes>>
GCDone == /\ pc = "gc" /\ toGC = {} /\ pc' = "plan"
          /\ UNCHANGED <<lay, bk, nextId, local, crashes>>

(* ---- Plan: Group.compact up to the plan (Planner.tla) ---- *)
RECURSIVE CSortedSeqs(_)
CSortedSeqs(B) ==
    IF B = {} THEN {<<>>}
    ELSE LET m == MinOf({ b.mint : b \in B }) IN
         UNION { { <<b>> \o t : t \in CSortedSeqs(B \ {b}) } : b \in { x \in B : x.mint = m } }
PBlock(i) == [id |-> i, mint |-> bk[i].mint, maxt |-> bk[i].maxt, nc |-> FALSE, tomb |-> 0, ser |-> 19, failed |-> FALSE, isz |-> 1]
PlanAct ==
    /\ pc = "plan"
    /\ IF Cardinality(view) <= 1 THEN pc' = "quiet" /\ UNCHANGED <<plan, res>>     \* groups of one block are skipped
       ELSE IF ~lay.vertical /\ ~PairwiseDisjoint({ PBlock(i) : i \in view }) THEN pc' = "halted" /\ UNCHANGED <<plan, res>>
       ELSE \E s \in CSortedSeqs({ PBlock(i) : i \in view }) :
              LET p == PlanBlocks(lay.ranges, s) IN
              IF p = <<>> THEN pc' = "quiet" /\ UNCHANGED <<plan, res>>
              ELSE /\ plan' = IdsOf(p) /\ res' = nextId
                   /\ pc' = IF MarkFirst THEN "mark" ELSE "updata"
    /\ toMark' = IF MarkFirst /\ pc' = "mark" THEN plan' ELSE <<>>
    /\ UNCHANGED <<lay, bk, nextId, view, dmarks, dups, deleted, toDel, toGC, crashes>>

PlanSet == { plan[k] : k \in DOMAIN plan }
(* ---- upload of the result: data files, then meta.json ---- *)
UpData == /\ pc = "updata"
          /\ bk' = [bk EXCEPT ![res] = [src |-> UNION { bk[i].src : i \in PlanSet },
                                         mint |-> MinOf({ bk[i].mint : i \in PlanSet }), maxt |-> MaxOf({ bk[i].maxt : i \in PlanSet }),
                                         data |-> TRUE, meta |-> FALSE, mark |-> NoMark]]
          /\ nextId' = nextId + 1
          /\ pc' = "upmeta"
          /\ UNCHANGED <<lay, local, crashes>>
UpMeta == /\ pc = "upmeta"
          /\ bk' = [bk EXCEPT ![res].meta = TRUE]
          /\ pc' = IF MarkFirst THEN "run" ELSE "mark"
          /\ toMark' = IF MarkFirst THEN <<>> ELSE plan
          /\ UNCHANGED <<lay, nextId, view, dmarks, dups, deleted, toDel, toGC, plan, res, crashes>>
(* ---- the sources are marked for deletion one after the other, then the loop starts over ---- *)
MarkStep == /\ pc = "mark"
            /\ IF toMark = <<>>
                 THEN /\ pc' = IF MarkFirst THEN "updata" ELSE "run"
                      /\ UNCHANGED <<bk, toMark>>
                 ELSE /\ bk' = [bk EXCEPT ![Head(toMark)].mark = IF @ = NoMark THEN 0 ELSE @]
                      /\ toMark' = Tail(toMark) /\ UNCHANGED pc
            /\ UNCHANGED <<lay, nextId, view, dmarks, dups, deleted, toDel, toGC, plan, res, crashes>>

Running == pc \in {"run", "clean", "gc", "plan", "updata", "upmeta", "mark"}
Crash == /\ Running /\ crashes < MaxCrashes
         /\ pc' = "down" /\ crashes' = crashes + 1 /\ ResetLocal
         /\ UNCHANGED <<lay, bk, nextId>>
Restart == /\ pc \in {"down", "quiet"} /\ pc' = "run" /\ ResetLocal
           /\ UNCHANGED <<lay, bk, nextId, crashes>>
(* time passes while the compactor is not running; ages are capped *)
Tick == /\ pc \in {"down", "quiet"}
        /\ \E i \in Ids : bk[i].mark # NoMark /\ bk[i].mark <= DeleteDelay
        /\ bk' = [i \in Ids |-> IF bk[i].mark # NoMark /\ bk[i].mark <= DeleteDelay THEN [bk[i] EXCEPT !.mark = @ + 1] ELSE bk[i]]
        /\ UNCHANGED <<lay, nextId, pc, local, crashes>>

Compactor == Sync \/ (\E i \in Ids : CleanStep(i)) \/ CleanDone \/ (\E i \in Ids : GCStep(i)) \/ GCDone
             \/ PlanAct \/ UpData \/ UpMeta \/ MarkStep
Next == Compactor \/ Crash \/ Restart \/ Tick
Spec == Init /\ [][Next]_vars /\ WF_vars(Compactor) /\ WF_vars(Restart)

(* ---------------- C29 on the model ---------------- *)
C29_AllServed == AllServed(Obs, IgnoreDelay, Smp, Universe)
C29_ExactlyOnceWhenQuiet == pc = "quiet" => ExactlyOnce(Obs, IgnoreDelay, Smp, Universe)
C29_ResultsExact == \A b \in Obs : b.meta => HoldsExactlySources(b, Smp)
(* supporting facts *)
MetaImpliesData == \A i \in Ids : bk[i].meta => bk[i].data
NeverHalts == pc # "halted"
IdsSuffice == nextId <= MaxId + 1
(* the compactor keeps finishing its runs *)
C29_RunsFinish == []<>(pc = "quiet")

(* ---------------- leg B: crash scenarios for the harness ---------------- *)
(* phase: the crash hits the run that compacts ("compact") or the later run that deletes the    *)
(* marked sources ("clean"); kind/ord: the mutation before which the compactor dies; downtime:  *)
(* ticks the compactor stays down before it is restarted (0, beyond IgnoreDelay, beyond          *)
(* DeleteDelay).                                                                                 *)
CasesFile == IF "VERIF_CASES" \in DOMAIN IOEnv THEN IOEnv.VERIF_CASES ELSE "cases.ndjson"
CrashPoints == { [phase |-> "compact", kind |-> k, ord |-> o] : k \in {"updata", "upmeta", "mark"}, o \in {"first", "last"} }
               \cup { [phase |-> "clean", kind |-> k, ord |-> o] : k \in {"delmeta", "deldata", "delmark"}, o \in {"first", "last"} }
               \cup { [phase |-> "none", kind |-> "none", ord |-> "first"] }
CaseSeq == SetToSeq({ [layout |-> l.name, vertical |-> l.vertical, phase |-> c.phase, kind |-> c.kind, ord |-> c.ord, downtime |-> d] :
                        l \in Layouts, c \in CrashPoints, d \in {0, IgnoreDelay + 1, DeleteDelay + 1} })
ASSUME ndJsonSerialize(CasesFile, CaseSeq)
=============================================================================
