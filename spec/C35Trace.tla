------------------------------ MODULE C35Trace ------------------------------
(***************************************************************************)
(* Leg C for C35 (step trace).  The harness runs the REAL Shipper.Sync on  *)
(* real block directories over a recording bucket, injects a crash in the  *)
(* runs the case names (bucket outage from the k-th mutating call, or      *)
(* death of the child process running the shipper before that call),       *)
(* starts a new Shipper after each and goes on until a fault-free Sync has *)
(* run.                                                                    *)
(*   case  header: in; local = the local blocks [b, level, empty, files];  *)
(*         uc = upload-compacted; cur = current external labels [n, v];    *)
(*         objs0 / listed0 = bucket before the first sync; file0 = shipper *)
(*         file before the first sync [present, uploaded]                  *)
(*   Mut   one mutating bucket call: op, b, f, ok, objs, listed, blabels   *)
(*   Sync  one Sync call ended: ok = it returned nil; crashed = the fault  *)
(*         of this run fired; file = shipper file afterwards; objs,        *)
(*         listed, blabels = bucket afterwards                             *)
(*   End                                                                   *)
(* Verdicts: property-level operators C35_* of BlockLifecycle only.        *)
(***************************************************************************)
EXTENDS TraceLib, BlockLifecycle

VARIABLES l, everComplete, locals, uc, cur, prevFile
tvars == <<l, everComplete, locals, uc, cur, prevFile>>

TraceInit == l = 1 /\ everComplete = {} /\ locals = {} /\ uc = FALSE /\ cur = {} /\ prevFile = {}

IsEvent(n) == l <= TraceLen /\ Trace[l].ev = n /\ l' = l + 1

Header == /\ IsEvent("case")
          /\ LET e == Trace[l] IN
             /\ everComplete' = CompleteBlocks(Range(e.objs0), Range(e.listed0))
             /\ locals' = { [b |-> x.b, level |-> x.level, empty |-> x.empty, files |-> Range(x.files)] : x \in Range(e.local) }
             /\ uc' = e.uc /\ cur' = Range(e.cur) /\ prevFile' = Range(e.file0.uploaded)

Mut == /\ IsEvent("Mut")
       /\ everComplete' = everComplete \cup CompleteBlocks(Range(Trace[l].objs), Range(Trace[l].listed))
       /\ UNCHANGED <<locals, uc, cur, prevFile>>

(* recorded-only-if-seen-complete: "the shipper never records as uploaded a block that was not    *)
(*    seen complete in the bucket" - judged whenever the shipper file is read (after every Sync,  *)
(*    crashed or not).                                                                            *)
(* successful-sync-ships-every-eligible-block: "After a successful shipper sync, every local      *)
(*    non-empty block that is eligible for upload is present in the bucket with all its files     *)
(*    and the current external labels, also when earlier syncs crashed at any point".             *)
SyncClauses(e, seen) ==
    (IF C35_RecordedUnseen(Range(e.file.uploaded), seen) = {} THEN {} ELSE {"recorded-only-if-seen-complete"})
    \cup (IF e.ok /\ C35_NotShipped(locals, uc, Range(e.objs), Range(e.listed), Range(e.blabels), cur) # {}
            THEN {"successful-sync-ships-every-eligible-block"} ELSE {})

Sync == /\ IsEvent("Sync")
        /\ LET e == Trace[l]
               seen == everComplete \cup CompleteBlocks(Range(e.objs), Range(e.listed))
           IN /\ CaseReject(l, e, SyncClauses(e, seen))
              /\ (IF e.ok /\ Range(e.file.uploaded) # AlgoShipperFile(locals, uc, prevFile)
                    THEN PrintT(<<"DRIFT", l, e["case"]>>) ELSE TRUE)
              /\ everComplete' = seen
              /\ prevFile' = IF e.file.present THEN Range(e.file.uploaded) ELSE prevFile
        /\ UNCHANGED <<locals, uc, cur>>

End == IsEvent("End") /\ UNCHANGED <<everComplete, locals, uc, cur, prevFile>>

TraceNext == Header \/ Mut \/ Sync \/ End
TraceSpec == TraceInit /\ [][TraceNext]_tvars
TraceAccepted == TLCGet("stats").diameter = TraceLen + 1
=============================================================================
