------------------------------ MODULE C35Trace ------------------------------
(***************************************************************************)
(* Leg C for C35 (step trace).  The harness runs the REAL Shipper.Sync on  *)
(* real block directories over a recording bucket, injects a crash in the  *)
(* runs the case names (bucket outage from the k-th mutating call, or      *)
(* death of the child process running the shipper before that call),       *)
(* starts a new Shipper after each and goes on until a fault-free Sync has *)
(* run.                                                                    *)
(*   case  header: in; local = the local blocks [b, level, empty, files];  *)
(*         uc = upload-compacted; cur = current external labels [n, v];    *)
(*         objs0 / listed0 = bucket before the first sync; file0 = shipper *)
(*         file before the first sync [present, uploaded]                  *)
(*   Mut   one mutating bucket call: op, b, f, ok, objs, listed, blabels   *)
(*   Sync  one Sync call ended: ok = it returned nil; crashed = the fault  *)
(*         of this run fired; file = shipper file afterwards; objs,        *)
(*         listed, blabels = bucket afterwards                             *)
(*   Appear local = further local blocks that now exist in the directory   *)
(*         (a block with a SMALLER MinTime may appear after newer ones     *)
(*         were shipped: backfill, out-of-order compaction); uc = the      *)
(*         upload-compacted setting of the shippers started from now on    *)
(*   End                                                                   *)
(* Phase 2 (receive.MultiTSDB scenarios; several tenants, each with its    *)
(* own TSDB directory and Shipper over the same bucket):                   *)
(*   MSync  MultiTSDB.SyncAllTenants returned (not judged)                 *)
(*   Local  observation of the tenant directories: gone = local blocks     *)
(*          that disappeared while their tenant directory stayed (deleted  *)
(*          by the local TSDB retention); objs, listed = bucket now        *)
(*   Prune  MultiTSDB.Prune returned: pruned[i] = [t, local = the blocks   *)
(*          the removed tenant directory held just before, cur = that      *)
(*          tenant's external labels]; objs, listed, blabels = bucket now  *)
(* Verdicts: property-level operators C35_* of BlockLifecycle only.        *)
(***************************************************************************)
EXTENDS TraceLib, BlockLifecycle

VARIABLES l, everComplete, locals, uc, cur, prevFile
tvars == <<l, everComplete, locals, uc, cur, prevFile>>

TraceInit == l = 1 /\ everComplete = {} /\ locals = {} /\ uc = FALSE /\ cur = {} /\ prevFile = {}

IsEvent(n) == l <= TraceLen /\ Trace[l].ev = n /\ l' = l + 1

Header == /\ IsEvent("case")
          /\ LET e == Trace[l] IN
             /\ everComplete' = CompleteBlocks(Range(e.objs0), Range(e.listed0))
             /\ locals' = { [b |-> x.b, level |-> x.level, empty |-> x.empty, files |-> Range(x.files)] : x \in Range(e.local) }
             /\ uc' = e.uc /\ cur' = Range(e.cur) /\ prevFile' = Range(e.file0.uploaded)

Mut == /\ IsEvent("Mut")
       /\ everComplete' = everComplete \cup CompleteBlocks(Range(Trace[l].objs), Range(Trace[l].listed))
       /\ UNCHANGED <<locals, uc, cur, prevFile>>

(* recorded-only-if-seen-complete: "the shipper never records as uploaded a block that was not    *)
(*    seen complete in the bucket" - judged whenever the shipper file is read (after every Sync,  *)
(*    crashed or not).                                                                            *)
(* successful-sync-ships-every-eligible-block: "After a successful shipper sync, every local      *)
(*    non-empty block that is eligible for upload is present in the bucket with all its files     *)
(*    and the current external labels, also when earlier syncs crashed at any point".             *)
SyncClauses(e, seen) ==
    (IF C35_RecordedUnseen(Range(e.file.uploaded), seen) = {} THEN {} ELSE {"recorded-only-if-seen-complete"})
    \cup (IF e.ok /\ C35_NotShipped(locals, uc, Range(e.objs), Range(e.listed), Range(e.blabels), cur) # {}
            THEN {"successful-sync-ships-every-eligible-block"} ELSE {})

Sync == /\ IsEvent("Sync")
        /\ LET e == Trace[l]
               seen == everComplete \cup CompleteBlocks(Range(e.objs), Range(e.listed))
           IN /\ CaseReject(l, e, SyncClauses(e, seen))
              /\ (IF e.ok /\ Range(e.file.uploaded) # AlgoShipperFile(locals, uc, prevFile)
                    THEN PrintT(<<"DRIFT", l, e["case"]>>) ELSE TRUE)
              /\ everComplete' = seen
              /\ prevFile' = IF e.file.present THEN Range(e.file.uploaded) ELSE prevFile
        /\ UNCHANGED <<locals, uc, cur>>

Appear == /\ IsEvent("Appear")
          /\ locals' = locals \cup { [b |-> x.b, level |-> x.level, empty |-> x.empty, files |-> Range(x.files)] : x \in Range(Trace[l].local) }
          /\ uc' = Trace[l].uc
          /\ UNCHANGED <<everComplete, cur, prevFile>>

(* ---- phase 2 ---- *)
MSync == IsEvent("MSync") /\ UNCHANGED <<everComplete, locals, uc, cur, prevFile>>

(* local-block-deleted-only-after-shipped: the shipper file guards the local retention ("the shipper never records  *)
(*    as uploaded a block that was not seen complete in the bucket"), so a local block may only disappear after it  *)
(*    was complete in the bucket                                                                                    *)
Local == /\ IsEvent("Local")
         /\ LET e == Trace[l]
                seen == everComplete \cup CompleteBlocks(Range(e.objs), Range(e.listed))
            IN /\ CaseReject(l, e, IF C35_LocalGoneUnseen(Range(e.gone), seen) = {} THEN {} ELSE {"local-block-deleted-only-after-shipped"})
               /\ everComplete' = seen
         /\ UNCHANGED <<locals, uc, cur, prevFile>>

(* tenant-pruned-only-when-all-blocks-shipped: an idle tenant's directory is removed only when every non-empty      *)
(*    block in it is in the bucket with all its files and the tenant's external labels ("every local non-empty     *)
(*    block ... is present in the bucket with all its files and the current external labels", applied at the moment *)
(*    the local copy is destroyed)                                                                                  *)
LocalsOf(p) == { [b |-> x.b, level |-> x.level, empty |-> x.empty, files |-> Range(x.files)] : x \in Range(p.local) }
Prune == /\ IsEvent("Prune")
         /\ LET e == Trace[l]
                bad == { p.t : p \in { q \in Range(e.pruned) :
                           C35_PrunedUnshipped(LocalsOf(q), Range(e.objs), Range(e.listed), Range(e.blabels), Range(q.cur)) # {} } }
            IN /\ CaseReject(l, e, IF bad = {} THEN {} ELSE {"tenant-pruned-only-when-all-blocks-shipped"})
               /\ everComplete' = everComplete \cup CompleteBlocks(Range(e.objs), Range(e.listed))
         /\ UNCHANGED <<locals, uc, cur, prevFile>>

End == IsEvent("End") /\ UNCHANGED <<everComplete, locals, uc, cur, prevFile>>

TraceNext == Header \/ Mut \/ Sync \/ Appear \/ MSync \/ Local \/ Prune \/ End
TraceSpec == TraceInit /\ [][TraceNext]_tvars
TraceAccepted == TLCGet("stats").diameter = TraceLen + 1
=============================================================================
