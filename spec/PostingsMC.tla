------------------------------ MODULE PostingsMC ------------------------------
(***************************************************************************)
(* Leg A for C10: posting-group expansion with lazy groups and the         *)
(* expanded-postings cache, as a state machine over query histories.       *)
(*   world   one block: <= MaxSeries series with distinct label sets over  *)
(*           the names n0, n1 and values a, b (or absent)                  *)
(*   Query   any set of <= MaxMatchers matchers from the matcher universe  *)
(*           (all four types; literals "", a, b, c; regex kinds dot-star, dot-plus,    *)
(*           alternations and non-alternation classes with and without     *)
(*           the empty alternative; names n0, n1 and the unused name zz),  *)
(*           any lazy choice the optimizer may make; answered from the     *)
(*           cache on a hit, stored on a miss                              *)
(*   Evict   the cache loses an entry (LRU eviction)                       *)
(* Invariant: every answer = the property-level selection, so it does not  *)
(* depend on the history (cache state) nor on the lazy choice.             *)
(***************************************************************************)
EXTENDS Postings, TLC, Json, IOUtils, SequencesExt
CONSTANTS MaxSeries, MaxMatchers, MaxHistory,
          Lits,                      \* literals of = and != matchers ("c" is a value no series has)
          MatcherNames,              \* label names used in matchers (n0, n1 exist in worlds; zz never does)
          SetAlts, ClsAlts,          \* alternative lists used for set / class regexes
          HistLits,                  \* literals of the matchers used in longer histories
          HistNames, HistTypes       \* histories longer than one query use single matchers of these names and types

(* values of the constants (a .cfg file cannot write tuples) *)
SetAltsQuick == {<<"a">>, <<"", "a">>}
ClsAltsQuick == {<<"a">>}
SetAltsThorough == {<<"a">>, <<"a", "c">>, <<"">>, <<"", "a">>}
ClsAltsThorough == {<<"a">>, <<"", "a">>}

Vals == {"", "a", "b"}
LsSpace == { [n0 |-> x, n1 |-> y] : x \in Vals, y \in Vals }
(* a world: distinct label sets; the id of a series is its position in a fixed enumeration *)
LsSeq == SetToSeq(LsSpace)
(* series i has chunks in the time slots SlotsOf(i): only early (0), only late (1), or both - a  *)
(* fixed function of the label set, so that the number of worlds does not grow                   *)
SlotsOf(i) == CASE i % 3 = 1 -> {0} [] i % 3 = 2 -> {1} [] OTHER -> {0, 1}
WorldOf(I) == { [id |-> i, slots |-> SlotsOf(i), ls |-> [n \in { k \in {"n0", "n1"} : LsSeq[i][k] # "" } |-> LsSeq[i][n]]] : i \in I }
Worlds == { WorldOf(I) : I \in { J \in SUBSET (1..Len(LsSeq)) : Cardinality(J) <= MaxSeries } }

Patterns == { [kind |-> "any", alts |-> <<>>], [kind |-> "nonempty", alts |-> <<>>] }
            \cup { [kind |-> "set", alts |-> a] : a \in SetAlts }
            \cup { [kind |-> "cls", alts |-> a] : a \in ClsAlts }
Matchers == { [name |-> n, type |-> t, kind |-> "lit", alts |-> <<v>>] : n \in MatcherNames, t \in {"EQ", "NEQ"}, v \in Lits }
            \cup { [name |-> n, type |-> t, kind |-> p.kind, alts |-> p.alts] : n \in MatcherNames, t \in {"RE", "NRE"}, p \in Patterns }
RECURSIVE SetsUpTo(_)          \* non-empty sets of at most k matchers
SetsUpTo(k) == IF k = 1 THEN { {m} : m \in Matchers }
               ELSE SetsUpTo(k - 1) \cup { S \cup {m} : S \in SetsUpTo(k - 1), m \in Matchers }
MatcherSets == SetsUpTo(MaxMatchers)
(* query histories (cache hits / misses / evictions, different time ranges) use these matcher    *)
(* sets: single matchers, and pairs on two names (only those can have a lazy group)              *)
HistM(nm, types) == { x \in Matchers : x.name = nm /\ x.type \in types /\ x.kind = "lit" /\ x.alts[1] \in HistLits }
HistSingles == UNION { { {m} : m \in HistM(nm, HistTypes) } : nm \in HistNames }
HistPairs == { {x, y} : x \in HistM("n0", {"EQ"}), y \in HistM("n1", {"EQ"}) }
HistSets == HistSingles \cup HistPairs
Ranges == { {0}, {1}, {0, 1} }          \* requested time range = the slots it covers
Whole == {0, 1}

VARIABLES world,     \* the block's series
          cache,     \* expanded-postings cache: set of <<matcher set, ids>> (the key has no time range)
          n,         \* number of queries so far
          last       \* <<matcher set, lazy choice, hit, answer, range>> of the last query
vars == <<world, cache, n, last>>

Init == /\ world \in Worlds
        /\ cache = {}
        /\ n = 0
        /\ last = <<>>

InRange(rng) == { s.id : s \in { x \in world : x.slots \cap rng # {} } }
Cached(ms) == { e \in cache : e[1] = ms }
(* one Series request on the block: selectors ms, time range rng, lazy choice L *)
Answer(ms, L, rng) ==
    LET hit == Cached(ms) # {}
        ids == IF hit THEN (CHOOSE e \in Cached(ms) : TRUE)[2] ELSE ExpandNames(world, ms, L)
        ans == ids \cap InRange(rng)                       \* series without chunks in the range are skipped
    IN  /\ last' = <<ms, L, hit, ans, rng>>
        /\ cache' = IF hit THEN cache ELSE cache \cup {<<ms, StoredInCache(ids, InRange(rng), L)>>}
        /\ n' = n + 1
        /\ UNCHANGED world
(* Known finding (KNOWN_FINDINGS.jsonl, property=C10, key ext-only-selectors): when no selector is  *)
(* left for the block index - every selector was on an external label of the block - the code     *)
(* (ExpandedPostings: `len(ms) == 0`) answers with no series instead of all of them, and           *)
(* ExpandNames models that.  The class is excluded here: MatcherSets has no empty set.             *)
KnownFindingCase(ms) == ms = {}
(* the first query of a history ranges over the whole matcher universe ... *)
FirstQuery == /\ n = 0 /\ cache = {}
              /\ \E ms \in MatcherSets : ~KnownFindingCase(ms) /\ \E L \in LazyChoices(world, ms) :
                    \E rng \in (IF ms \in HistSets THEN Ranges ELSE {Whole}) : Answer(ms, L, rng)
(* ... longer histories (cache hits, misses, evictions in between; the same selectors over        *)
(* narrow-then-wide, wide-then-narrow and disjoint ranges) over the HistSets                       *)
HistQuery == /\ n > 0 /\ n < MaxHistory
             /\ \A e \in cache : e[1] \in HistSets
             /\ last[1] \in HistSets
             /\ \E ms \in HistSets : \E L \in LazyChoices(world, ms) : \E rng \in Ranges : Answer(ms, L, rng)
Evict == /\ cache # {} /\ n < MaxHistory
         /\ \E e \in cache : cache' = cache \ {e}
         /\ UNCHANGED <<world, n, last>>
Next == FirstQuery \/ HistQuery \/ Evict
Spec == Init /\ [][Next]_vars

(* -------- C10 (selection part) as invariants -------- *)
(* every answer = the direct read for ITS range, whatever the history *)
C10_AnswerIsTheSelection == last # <<>> => last[4] = SelectIds(world, last[1]) \cap InRange(last[5])
CacheHoldsSelections == \A e \in cache : e[2] = SelectIds(world, e[1])

(* the order in which the groups of one name are merged (Go map iteration) does not matter *)
RECURSIVE Perms(_)
Perms(S) == IF S = {} THEN {<<>>} ELSE UNION { { <<x>> \o p : p \in Perms(S \ {x}) } : x \in S }
MergeOrderIrrelevant ==
    last # <<>> =>
      \A nm \in Names(last[1]) :
         LET gs == { ToPostingGroup(world, m) : m \in { x \in last[1] : x.name = nm } }
         IN  \A p \in Perms(gs) : MergeSeq(Head(p), Tail(p)) = GroupOf(world, last[1], nm)

(* decodeSeriesForTime = "the chunks that overlap the range", for every layout of <= 3 chunks  *)
(* on instants 0..5 (touching allowed, as consecutive chunks of a series) and every range      *)
ChunkLayouts == { c \in UNION { [1..k -> (0..5) \X (0..5) \X {0}] : k \in 0..3 } :
                    /\ \A i \in DOMAIN c : c[i][1] <= c[i][2]
                    /\ \A i \in DOMAIN c : i > 1 => c[i - 1][2] < c[i][1] }
ASSUME \A c \in ChunkLayouts : \A a \in 0..5 : \A b \in a..5 :
          ChunkWalk(c, a, b) = { x \in PRange(c) : ChunkOverlaps(x, a, b) }

(* populateChunk = "exactly the requested aggregates", for raw and aggregate chunks and every     *)
(* request list of <= 3 aggregates (order and repetitions do not matter)                            *)
AggrLists == UNION { [1..k -> 1..5] : k \in 0..3 }
ASSUME \A c \in { <<0, 9, <<7>>>>, <<0, 9, <<11, 12, 13, 14, 15>>>> } : \A al \in AggrLists :
          PopulateChunk(c, al) = ProjChunk(c, PRange(al))

(* -------- leg B: worlds and matcher sets for the harness -------- *)
CasesFile == IF "VERIF_CASES" \in DOMAIN IOEnv THEN IOEnv.VERIF_CASES ELSE "cases.ndjson"
WorldCase(w) == [k |-> "w", series |-> SetToSeq({ s.ls : s \in w })]
QueryCase(ms) == [k |-> "q", ms |-> SetToSeq(ms)]
CaseSeq == SetToSeq({ WorldCase(w) : w \in Worlds }) \o SetToSeq({ QueryCase(ms) : ms \in MatcherSets })
ASSUME ndJsonSerialize(CasesFile, CaseSeq)
=============================================================================
