---------------------------- MODULE ProxyFanoutMC ----------------------------
(***************************************************************************)
(* Leg A of C03 (merge part): the fan-out merge of ProxyStore.Series as a  *)
(* state machine, checked for every small world.                           *)
(*                                                                         *)
(*   per store      a stream (StreamOf: as sent, or stripped + re-sorted   *)
(*                  by the eager respSet when the store cannot strip)      *)
(*   TreeNext(i)    one Next() of the loser tree = "emit a minimal head";  *)
(*                  ties between stores are resolved in every possible way *)
(*   deduplicator   buffers frames with equal label sets (dbuf), chains    *)
(*                  them into one series when the label set changes        *)
(*   batch server   packs rb series per message, flushes at the end        *)
(*                                                                         *)
(* The worlds are built from a small universe that contains the shapes     *)
(* that matter: a replica label in the middle of the label set (stripping  *)
(* changes the order and makes label sets equal), raw chunks equal /       *)
(* overlapping / disjoint in time, aggregated chunks that are identical or *)
(* share one sub-chunk.                                                    *)
(***************************************************************************)
EXTENDS ProxyFanout, TLC, Json, IOUtils, SequencesExt

CONSTANTS NStores,        \* number of stores
          MaxPerStore,    \* frames per store <= MaxPerStore
          MaxTotal,       \* frames in the world <= MaxTotal
          NLsets,         \* label sets used: the first NLsets of LsetU
          NChunkLists,    \* chunk lists used: the first NChunkLists of ChunkListU
          NNonSeries,     \* non-series frames used: 0 none, 1 hints, 2 hints and warnings
          Eager,          \* retrieval strategies tried: subset of BOOLEAN (TRUE = eager)
          RespBatch,      \* response batch sizes tried
          CaseStores, CasePerStore, CaseTotal,   \* bounds of the worlds handed to the harness (within the checked ones)
          CaseStride      \* every CaseStride-th of them is written

(* ---------------- universe ---------------- *)
(* names: 1 = "a", 2 = the replica label, 3 = "z" *)
LsetU == << << <<1, 1>>, <<2, 1>>, <<3, 2>> >>,      \* {a=1, r=1, z=2}
            << <<1, 1>>, <<2, 2>>, <<3, 1>> >>,      \* {a=1, r=2, z=1}   after it with r, before it without
            << <<1, 1>>, <<2, 1>>, <<3, 1>> >>,      \* {a=1, r=1, z=1}   replica of the 2nd one
            << <<1, 1>> >>,                          \* {a=1}
            << <<1, 2>>, <<2, 1>> >> >>              \* {a=2, r=1}
Lsets == { LsetU[i] : i \in 1..NLsets }

Raw(id, mint, maxt) == [mint |-> mint, maxt |-> maxt, f |-> <<id, 0, 0, 0, 0, 0>>]
Aggr(mint, maxt, cnt, sum, ctr) == [mint |-> mint, maxt |-> maxt, f |-> <<0, cnt, sum, 0, 0, ctr>>]
cA == Raw(1, 0, 10)
cB == Raw(2, 0, 10)          \* same time range, other samples
cC == Raw(3, 10, 20)
cX == Aggr(0, 10, 4, 5, 0)
cY == Aggr(0, 10, 4, 6, 0)   \* shares its count sub-chunk with cX
cZ == Aggr(0, 10, 7, 6, 0)   \* shares its sum sub-chunk with cY
ChunkListU == << <<cA>>, <<cX>>, <<>>, <<cY>>, <<cX, cZ>>, <<cC, cA>>, <<cB>>, <<cZ>> >>
ChunkLists == { ChunkListU[i] : i \in 1..NChunkLists }

(* hints / warning messages a store may put anywhere into its stream *)
NonSeriesU == (IF NNonSeries >= 1 THEN { [k |-> "h", ls |-> <<>>, chunks |-> <<>>] } ELSE {})
              \cup (IF NNonSeries >= 2 THEN { [k |-> "w", ls |-> <<>>, chunks |-> <<>>] } ELSE {})
FrameU == { [ls |-> l, chunks |-> c] : l \in Lsets, c \in ChunkLists } \cup NonSeriesU

FramesSorted(all) == LET frs == SeriesOf(all) IN \A i \in 1..(Len(frs) - 1) : LsCmp(frs[i].ls, frs[i + 1].ls) <= 0
(* the label-sorted frame sequences of length n a store may stream *)
SortedSeqs(n) == { s \in [1..n -> FrameU] : FramesSorted(s) }

(* a store that strips sends its series stripped and sorted by the stripped labels *)
(* (non-series frames keep their positions)                                          *)
AsSent(base, strips, without) ==
    IF strips /\ without # <<>>
      THEN LET ser == SortFrames([i \in DOMAIN SeriesOf(base) |-> StripFrame(SeriesOf(base)[i], Rng(without))])
               rank(i) == Len(SeriesOf(SubSeq(base, 1, i)))
           IN [i \in DOMAIN base |-> IF IsSeries(base[i]) THEN ser[rank(i)] ELSE base[i]]
      ELSE base
World(bases, strips, without) ==
    [stores |-> [i \in DOMAIN strips |-> [frames |-> AsSent(bases[i], strips[i], without), strips |-> strips[i]]],
     without |-> without]
TotalLen(bb) == LET f[n \in 0..Len(bb)] == IF n = 0 THEN 0 ELSE f[n - 1] + Len(bb[n]) IN f[Len(bb)]
(* The merge resolves ties between stores in every possible way, so the order of the stores is  *)
(* immaterial: stores are listed by non-increasing stream length.  At most 3 stores.            *)
LenVecs(ns, maxper, maxtot) ==
    { n \in [1..3 -> 0..maxper] : /\ n[1] > 0 /\ n[1] >= n[2] /\ n[2] >= n[3] /\ n[1] + n[2] + n[3] <= maxtot
                                  /\ \A i \in 1..3 : i > ns => n[i] = 0 }
(* strips is irrelevant when nothing is to be stripped: one representative (all TRUE) *)
StripOpts(ns) == { <<[i \in 1..ns |-> TRUE], <<>> >> } \cup { <<ss, <<2>> >> : ss \in [1..ns -> BOOLEAN] }
(* all worlds within the bounds, as <<b1, b2, b3, stripOption>> (World() is applied to those picked) *)
AllSeqs(maxper) == UNION { SortedSeqs(n) : n \in 0..maxper }
WorldTuples(ns, maxper, maxtot) ==
    LET S == AllSeqs(maxper)
        S2 == IF ns >= 2 THEN S ELSE {<<>>}
        S3 == IF ns >= 3 THEN S ELSE {<<>>}
    IN { t \in S \X S2 \X S3 \X StripOpts(ns) :
           [i \in 1..3 |-> Len(t[i])] \in LenVecs(ns, maxper, maxtot) }

(* ---------------- state ---------------- *)
VARIABLES phase,    \* "build": the world is being put together frame by frame; "run": the request runs
          bases,    \* store -> the label-sorted frames chosen so far (with full label sets)
          w,        \* the world
          streams,  \* store -> the sequence of frames its respSet yields (constant after Start)
          rb,       \* response batch size of the request
          pos,      \* store -> index of its current head frame
          dbuf,     \* deduplicator: buffered frames of the current label set
          out,      \* series handed to the batch server so far
          pend,     \* batch server: series waiting for a full batch
          msgs,     \* messages sent to the client (each a sequence of series)
          done
vars == <<phase, bases, w, streams, rb, pos, dbuf, out, pend, msgs, done>>

Live == { i \in DOMAIN streams : pos[i] <= Len(streams[i]) }
HeadOf(i) == streams[i][pos[i]]

(* The worlds are enumerated by the state machine itself (one frame per step, store after      *)
(* store, so that TLC's workers share the enumeration); every world is built exactly once.       *)
Init == /\ phase = "build" /\ bases = [i \in 1..NStores |-> <<>>]
        /\ w = <<>> /\ streams = <<>> /\ rb = 0 /\ pos = <<>>
        /\ dbuf = <<>> /\ out = <<>> /\ pend = <<>> /\ msgs = <<>> /\ done = FALSE

AddFrame(i, fr) ==
    /\ phase = "build"
    /\ \A j \in (i + 1)..NStores : bases[j] = <<>>
    /\ Len(bases[i]) < MaxPerStore /\ TotalLen(bases) < MaxTotal
    /\ i > 1 => Len(bases[i]) < Len(bases[i - 1])
    /\ FramesSorted(Append(bases[i], fr))
    /\ bases' = [bases EXCEPT ![i] = Append(@, fr)]
    /\ UNCHANGED <<phase, w, streams, rb, pos, dbuf, out, pend, msgs, done>>

Start(so, b, eager) ==
    /\ phase = "build" /\ bases[1] # <<>>
    /\ phase' = "run"
    /\ w' = World(bases, so[1], so[2])
    /\ streams' = [i \in 1..NStores |-> IF eager THEN EagerStreamOf(w'.stores[i], Without(w')) ELSE StreamOf(w'.stores[i], Without(w'))]
    /\ rb' = b /\ pos' = [i \in 1..NStores |-> 1]
    /\ UNCHANGED <<bases, dbuf, out, pend, msgs, done>>

(* srv.Send(response) through batchableServer *)
Send(s) ==
    /\ out' = Append(out, s)
    /\ IF ~IsSeries(s) THEN msgs' = (IF pend = <<>> THEN msgs ELSE Append(msgs, pend)) \o <<<<s>>>> /\ pend' = <<>>
       ELSE IF rb <= 1 THEN msgs' = Append(msgs, <<s>>) /\ pend' = pend
       ELSE IF Len(pend) + 1 >= rb THEN msgs' = Append(msgs, Append(pend, s)) /\ pend' = <<>>
       ELSE pend' = Append(pend, s) /\ msgs' = msgs

(* less() of the loser tree: a non-series response is smaller than any series *)
HeadLeq(a, b) == IF ~IsSeries(a) THEN TRUE ELSE IF ~IsSeries(b) THEN FALSE ELSE LsCmp(a.ls, b.ls) <= 0

(* one respHeap.Next(): the loser tree yields a minimal head, the deduplicator absorbs it: a    *)
(* non-series response is passed on at once and does NOT end the group of equal label sets      *)
TreeNext(i) ==
    /\ phase = "run" /\ ~done /\ i \in Live
    /\ \A j \in Live : HeadLeq(HeadOf(i), HeadOf(j))
    /\ pos' = [pos EXCEPT ![i] = @ + 1]
    /\ IF ~IsSeries(HeadOf(i)) THEN Send(HeadOf(i)) /\ UNCHANGED dbuf
       ELSE IF dbuf = <<>> \/ dbuf[1].ls = HeadOf(i).ls
         THEN dbuf' = Append(dbuf, HeadOf(i)) /\ UNCHANGED <<out, pend, msgs>>
         ELSE Send(Chain(dbuf)) /\ dbuf' = <<HeadOf(i)>>
    /\ UNCHANGED <<phase, bases, w, streams, rb, done>>

(* the tree is exhausted: the deduplicator hands out what it still buffers *)
DedupDrain ==
    /\ phase = "run" /\ ~done /\ Live = {} /\ dbuf # <<>>
    /\ Send(Chain(dbuf)) /\ dbuf' = <<>>
    /\ UNCHANGED <<phase, bases, w, streams, rb, pos, done>>

(* Flush() of the batch server *)
Flush ==
    /\ phase = "run" /\ ~done /\ Live = {} /\ dbuf = <<>>
    /\ msgs' = (IF pend # <<>> THEN Append(msgs, pend) ELSE msgs) /\ pend' = <<>>
    /\ done' = TRUE
    /\ UNCHANGED <<phase, bases, w, streams, rb, pos, dbuf, out>>

Finished == done /\ UNCHANGED vars      \* the request has returned
Next == \/ /\ phase = "build"
           /\ \/ \E i \in 1..NStores, fr \in FrameU : AddFrame(i, fr)
              \/ \E so \in StripOpts(NStores), b \in RespBatch, eager \in Eager : Start(so, b, eager)
        \/ /\ phase = "run"
           /\ \/ \E i \in 1..NStores : TreeNext(i)
              \/ DedupDrain \/ Flush \/ Finished
Spec == Init /\ [][Next]_vars

(* ---------------- C03 ---------------- *)
Received == FlattenMsgs(msgs)
OutSeries == SeriesOf(out)
(* the statement, on the final response *)
C03_Response == (phase = "run" /\ done) => C03Clauses(w, SeriesOf(Received)) = {}
(* inductive core of "each label set once, sorted": what has been emitted is strictly sorted  *)
(* and lies strictly before everything still buffered or to come                                *)
C03_EmittedIsFinal == phase = "run" =>
    /\ \A i \in 1..(Len(OutSeries) - 1) : LsCmp(OutSeries[i].ls, OutSeries[i + 1].ls) < 0
    /\ OutSeries # <<>> => /\ \A i \in Live : IsSeries(HeadOf(i)) => LsCmp(OutSeries[Len(OutSeries)].ls, HeadOf(i).ls) < 0
                           /\ dbuf # <<>> => LsCmp(OutSeries[Len(OutSeries)].ls, dbuf[1].ls) < 0
(* batching neither loses, reorders nor oversizes; a non-series response travels alone *)
C03_Batching == phase = "run" =>
                /\ Received \o pend = out
                /\ \A m \in DOMAIN msgs : Len(msgs[m]) <= (IF rb <= 1 THEN 1 ELSE rb)
                /\ \A m \in DOMAIN msgs : (\E x \in DOMAIN msgs[m] : ~IsSeries(msgs[m][x])) => Len(msgs[m]) = 1
                /\ done => msgs = Batches(out, rb)
(* tie resolution in the tree has no influence: the run equals the functional description *)
C03_TieIndependent == done => SameResult(SeriesOf(Received), AlgoOutput(w))
(* hints and warnings of the stores are carried to the client *)
NonSeriesCount(seq) == Len(seq) - Len(SeriesOf(seq))
C03_NonSeriesCarried == done => NonSeriesCount(Received) = TotalLen([i \in 1..NStores |-> SelectSeq(streams[i], LAMBDA g : ~IsSeries(g))])
(* Termination: every step increases Progress (no cycles) and, deadlock checking being on, every *)
(* state that is not finished has a successor.                                                  *)
SumPos == LET f[n \in 0..Len(pos)] == IF n = 0 THEN 0 ELSE f[n - 1] + pos[n] IN f[Len(pos)]
Progress == SumPos + Len(out) + (IF done THEN 1 ELSE 0) + (IF Live = {} /\ dbuf = <<>> THEN 1 ELSE 0)
C03_Progresses == [][phase = "build" \/ done \/ Progress' > Progress]_vars

(* ---------------- leg B: worlds for the harness ---------------- *)
CasesFile == IF "VERIF_CASES" \in DOMAIN IOEnv THEN IOEnv.VERIF_CASES ELSE "cases.ndjson"
TupleSeq == SetToSeq(WorldTuples(CaseStores, CasePerStore, CaseTotal))
CaseSeq == LET idx == SetToSeq({ j \in 1..Len(TupleSeq) : j % CaseStride = 0 })
           IN [k \in 1..Len(idx) |-> LET t == TupleSeq[idx[k]] IN World(<<t[1], t[2], t[3]>>, t[4][1], t[4][2])]
ASSUME ndJsonSerialize(CasesFile, CaseSeq)
=============================================================================
