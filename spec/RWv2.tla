-------------------------------- MODULE RWv2 --------------------------------
(***************************************************************************)
(* Remote-write 2.0 -> 1.0 translation in the receiver (C26).              *)
(*                                                                         *)
(* Code: pkg/receive/handler.go translateV2ToV1 / handleV2HTTP.  A v2      *)
(* request carries a symbol table (array of strings) and, per series and   *)
(* per exemplar, labels_refs: name/value references into the table, two    *)
(* per label.  Samples, histograms and exemplar values/timestamps are      *)
(* copied field by field.                                                  *)
(*                                                                         *)
(* A request here is [symbols, series] with                                *)
(*   series[i] = [lrefs, samples, hists, exemplars]                        *)
(*   exemplars[j] = [lrefs, v, t]                                          *)
(* refs are 0-based; samples / hists are opaque (sequences of integers).   *)
(***************************************************************************)
EXTENDS Integers, Sequences, FiniteSets

(* ======================= property level ======================= *)
(* traces write a huge uint32 reference as a negative number (-1 = 4294967295: TLC integers are 32 bit) *)
InRange(symbols, r) == r >= 0 /\ r < Len(symbols)
PairCount(refs) == Len(refs) \div 2
(* the references that have to be looked up to build the labels *)
PairedRefs(refs) == { refs[i] : i \in 1..(2 * PairCount(refs)) }
Resolvable(symbols, refs) == \A r \in PairedRefs(refs) : InRange(symbols, r)
Dangling(refs) == Len(refs) % 2 = 1
(* "the same series labels ... it describes through its symbol table" *)
Resolve(symbols, refs) == [k \in 1..PairCount(refs) |-> <<symbols[refs[2 * k - 1] + 1], symbols[refs[2 * k] + 1]>>]

RefLists(req) == { req.series[i].lrefs : i \in DOMAIN req.series }
                 \cup UNION { { req.series[i].exemplars[j].lrefs : j \in DOMAIN req.series[i].exemplars } : i \in DOMAIN req.series }

(* "bad":  some reference that must be looked up lies outside the table  -> client error         *)
(* "odd":  every looked-up reference is fine, but some list has a dangling last reference (the  *)
(*         protocol says the length is always even): the statement is silent; rejecting it or    *)
(*         ingesting the complete pairs are both accepted                                        *)
(* "good": well formed -> ingested faithfully                                                    *)
Class(req) == IF \E l \in RefLists(req) : ~Resolvable(req.symbols, l) THEN "bad"
              ELSE IF \E l \in RefLists(req) : Dangling(l) THEN "odd"
              ELSE "good"

(* what the receiver must hand to ingestion for a resolvable request *)
Expected(req) ==
    [i \in DOMAIN req.series |->
       [labels |-> Resolve(req.symbols, req.series[i].lrefs),
        samples |-> req.series[i].samples,
        hists |-> req.series[i].hists,
        exemplars |-> [j \in DOMAIN req.series[i].exemplars |->
                         [labels |-> Resolve(req.symbols, req.series[i].exemplars[j].lrefs),
                          v |-> req.series[i].exemplars[j].v, t |-> req.series[i].exemplars[j].t]]]]

(* got = [kind, status, series]: kind "ingested" (2xx; series = what reached ingestion),        *)
(* "rejected" (any non-2xx status), "panic" (handler panicked: dropped connection / error log)  *)
ClientError(got) == got.kind = "rejected" /\ got.status \in 400..499
Faithful(req, got) == got.kind = "ingested" /\ got.series = Expected(req)

C26Violations(req, got) ==
    (* "rather than crashing request handling" *)
    (IF got.kind = "panic" THEN {"never-crashes-request-handling"} ELSE {})
    \cup
    (* "a request with symbol references outside the table is rejected with a client error" *)
    (IF Class(req) = "bad" /\ ~ClientError(got) THEN {"bad-refs-rejected-with-client-error"} ELSE {})
    \cup
    (* "ingested with the same series labels, samples, histograms and exemplars it describes" *)
    (IF Class(req) = "good" /\ ~Faithful(req, got) THEN {"valid-request-ingested-faithfully"} ELSE {})
    \cup
    (IF Class(req) = "odd" /\ ~(ClientError(got) \/ Faithful(req, got)) THEN {"odd-refs-rejected-or-pairs-ingested"} ELSE {})

(* ======================= algorithm level ======================= *)
(* translateV2ToV1 resolves list after list, pair after pair, and stops with an error at the    *)
(* first reference outside the table; handleV2HTTP answers 400 then.                             *)
(* After a successful ingestion it reports what it accepted in the response headers                *)
(* X-Prometheus-Remote-Write-{Samples,Histograms,Exemplars}-Written: the numbers of samples,      *)
(* histograms and exemplars of the request (-1 = header absent).                                   *)
RECURSIVE SumLen(_, _)
SumLen(series, field) == IF series = <<>> THEN 0
                         ELSE Len(Head(series)[field]) + SumLen(Tail(series), field)
TranslateAlgo(req) == IF \E l \in RefLists(req) : ~Resolvable(req.symbols, l)
                        THEN [kind |-> "rejected", status |-> 400, series |-> <<>>, written |-> <<-1, -1, -1>>]
                        ELSE [kind |-> "ingested", status |-> 200, series |-> Expected(req),
                              written |-> <<SumLen(req.series, "samples"), SumLen(req.series, "hists"),
                                            SumLen(req.series, "exemplars")>>]
=============================================================================
