\* C30 leg A thorough, planner "tsdb": ranges 1/2/4 on the grid -1..5, <= 4 blocks of length <= 4, <= 1 no-compact
\* mark; cases for the harness: all layouts of <= 4 plain / <= 2 marked blocks
SPECIFICATION Spec
CONSTANTS Ranges <- R124
          LoNeg = 1
          Hi = 5
          MaxLen = 4
          MaxBlocks = 4
          MaxNC = 1
          MaxTomb = 0
          MaxFailed = 0
          TombVals = {0}
          Sizes = {1}
          Modes <- ModesTsdb
          CaseBlocks = 4
          CaseFlagBlocks = 2
INVARIANTS PlanSafe FixpointOK SortedInput
PROPERTIES Variant
VIEW View
CHECK_DEADLOCK FALSE
