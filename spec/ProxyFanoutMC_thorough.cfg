\* C03 leg A thorough: 3 stores, <= 2 frames per store, <= 3 frames in all, 3 label sets (two replicas of one
\* series, replica label in the middle), 5 chunk lists (raw, none, aggregated identical /
\* sharing count / sharing sum), response batch 2; worlds for the harness: the 2-store worlds, every 24th
SPECIFICATION Spec
CONSTANTS NStores = 3
          MaxPerStore = 2
          MaxTotal = 3
          NLsets = 3
          NChunkLists = 5
          RespBatch = {2}
          CaseStores = 2
          CasePerStore = 2
          CaseTotal = 3
          CaseStride = 24
INVARIANTS C03_Response C03_EmittedIsFinal C03_Batching C03_TieIndependent
PROPERTY C03_Progresses
CHECK_DEADLOCK TRUE
