\* C03 leg A thorough: 3 stores, <= 2 frames per store, <= 3 frames in all; frames: 3 label sets (two replicas of one
\* series, replica label in the middle) x 5 chunk lists (raw, none, aggregated identical / sharing count / sharing
\* sum), or a hints or a warning message; lazy and eager; response batch 2; worlds for the harness: the 2-store
\* worlds, every 30th
SPECIFICATION Spec
CONSTANTS NStores = 3
          MaxPerStore = 2
          MaxTotal = 3
          NLsets = 3
          NChunkLists = 5
          NNonSeries = 2
          Eager = {FALSE, TRUE}
          RespBatch = {2}
          CaseStores = 2
          CasePerStore = 2
          CaseTotal = 3
          CaseStride = 30
INVARIANTS C03_Response C03_EmittedIsFinal C03_Batching C03_TieIndependent C03_NonSeriesCarried
PROPERTY C03_Progresses
CHECK_DEADLOCK TRUE
