\* C23 leg A thorough (1): one series rf 1..5 incl. a local replica (rf 6: see _rf6.cfg), two series rf 2..3 on 3 nodes, outcomes ok/conflict/unavailable.
\* cases: one series rf 1..6 (3^rf runs), replicated, two series rf 2 on 3 nodes (every assignment x order)
SPECIFICATION Spec
CONSTANTS RF1 = {1, 2, 3, 4, 5}
          RF2 = {2, 3}
          N2 = 3
          Outcomes = {"ok", "conflict", "unavailable", "notready"}
          Outcomes2 = {"ok", "conflict", "unavailable"}
          ReplThresholdIsQuorum = FALSE
          StaleMapReused = FALSE
          WithTimeout = FALSE
          CaseRF1 = {1, 2, 3, 4, 5, 6}
          CaseRFLocal = {1, 2, 3, 4}
          CaseRF2 = {2}
          CaseOutcomes = {"ok", "conflict", "unavailable"}
INVARIANTS C22Inv C23Inv OrderIndependent EarlyOnlyWhenDetermined
PROPERTIES Terminates
CHECK_DEADLOCK FALSE
