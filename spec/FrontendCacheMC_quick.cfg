\* C42 leg A quick: ONE interval (grid 0..5, interval 6), steps {1,2} both "common" (alternative keys),
\* min extent off, worlds 2,4; every reachable cache content = histories of any length
SPECIFICATION Spec
CONSTANTS T = 5
          StepSet = {1, 2}
          Common = {1, 2}
          Ivs = {6}
          MinExt = 100
          WorldIds = {2, 4}
          GridFix = TRUE
          Unaligned = FALSE
          MaxHist = 0
          HistLen = 2
          CaseWorlds = {}
INVARIANTS RespIsDirect C42_ExtentsHoldDirectData C42_ExtentsOrdered
PROPERTIES C42_ResponsesAreDirect
VIEW View
CHECK_DEADLOCK FALSE
