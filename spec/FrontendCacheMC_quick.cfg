\* C42 leg A quick: grid 0..8, steps {1,2,4} all "common", split interval 4, min extent off,
\* worlds 1,2; every reachable cache content
SPECIFICATION Spec
CONSTANTS T = 8
          StepSet = {1, 2, 4}
          Common = {1, 2, 4}
          Ivs = {4}
          MinExt = 100
          WorldIds = {1, 2}
          GridFix = FALSE
          Unaligned = FALSE
          HistLen = 2
INVARIANTS RespIsDirect C42_ExtentsHoldDirectData C42_ExtentsOrdered
PROPERTIES C42_ResponsesAreDirect
VIEW View
CHECK_DEADLOCK FALSE
