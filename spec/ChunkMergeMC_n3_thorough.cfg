\* C40 leg A thorough, 3 series (merged chunks of two series overlapping a third; K = 2): any non-empty
\* subset of a 4-point grid with at most 2 samples, one or two chunks (16 chunkings per series;
\* 4 096 triples + 256 with series 2 a byte-identical copy of series 1)
SPECIFICATION Spec
CONSTANTS InitPen = 1
          K = 2
          Grid = {0, 1, 2, 3}
          NSeries = 3
          MaxLen = 2
          WithCounterInputs = FALSE
INVARIANTS C40_EveryAggregateSampleKept EachChunkComplete NothingInvented ChunksInOrder OnlyDoneIsFinal
CHECK_DEADLOCK FALSE
