-------------------------------- MODULE Pools --------------------------------
(***************************************************************************)
(* Pooled buffers (C17).                                                   *)
(*                                                                         *)
(* (a) A sync.Pool of byte buffers shared by all requests of a ProxyStore  *)
(*     (pkg/store/proxy.go: buffers; pkg/store/storepb/shard_info.go:      *)
(*     ShardInfo.Matcher takes one per store stream, ShardMatcher.Close    *)
(*     gives it back).                                                     *)
(* (b) The size-bounded bucketed pool (pkg/pool/pool.go: BucketedPool).    *)
(***************************************************************************)
EXTENDS Integers, Sequences, FiniteSets

(* ======================= (a) property level ======================= *)
(* owned = the buffers currently taken from the pool and not yet given back.                   *)
(* "A buffer taken from a shared pool for one request is returned to the pool at most once, so *)
(* no two concurrent requests ever share it."                                                   *)
GetClauses(owned, b) == IF b \in owned THEN {"buffer-handed-to-two-holders"} ELSE {}
PutClauses(owned, b) == IF b \notin owned THEN {"buffer-returned-more-than-once"} ELSE {}

(* ======================= (b) property level ======================= *)
(* steps[k] = [op: "get" | "put", sz, ok, cap, used]: a Get(sz) that succeeded (ok) returned a *)
(* buffer of capacity cap; a Put returned a buffer of capacity cap; used = UsedBytes() after.   *)
RECURSIVE OutAfter(_, _)
OutAfter(steps, k) ==          \* bytes checked out after step k
    IF k = 0 THEN 0
    ELSE OutAfter(steps, k - 1)
         + (IF steps[k].op = "get" /\ steps[k].ok THEN steps[k].cap ELSE 0)
         - (IF steps[k].op = "put" THEN steps[k].cap ELSE 0)
BudgetClauses(max, steps) ==
    (* "never has more bytes checked out than its configured maximum" (0 = unlimited) *)
    (IF max > 0 /\ \E k \in DOMAIN steps : OutAfter(steps, k) > max THEN {"checked-out-within-maximum"} ELSE {})
    \cup
    (* "its usage returns to zero once every buffer is returned" *)
    (IF \E k \in DOMAIN steps : OutAfter(steps, k) = 0 /\ steps[k].used # 0 THEN {"usage-zero-when-all-returned"} ELSE {})

(* the same two sentences for a concurrent run, of which only extremes are recorded: the largest  *)
(* UsedBytes() observed, the largest number of bytes held at once, UsedBytes() after all returned *)
ConcBudgetClauses(max, maxused, maxheld, finalused) ==
    (IF max > 0 /\ maxused > max THEN {"reported-usage-within-maximum-under-concurrency"} ELSE {})
    \cup (IF max > 0 /\ maxheld > max THEN {"checked-out-within-maximum-under-concurrency"} ELSE {})
    \cup (IF finalused # 0 THEN {"usage-zero-when-all-returned"} ELSE {})

(* ======================= (b) algorithm level ======================= *)
(* BucketedPool.Get: the first bucket that fits; the budget is tested against what is going to *)
(* be accounted (the bucket size, or the requested size beyond the largest bucket).             *)
RECURSIVE FirstFit(_, _, _)
FirstFit(sizes, i, sz) == IF i > Len(sizes) THEN 0 ELSE IF sz <= sizes[i] THEN sizes[i] ELSE FirstFit(sizes, i + 1, sz)
GetCap(sizes, sz) == LET b == FirstFit(sizes, 1, sz) IN IF b = 0 THEN sz ELSE b
AlgoGet(sizes, max, used, sz) ==
    LET c == GetCap(sizes, sz) IN
    IF max > 0 /\ used + c > max THEN [ok |-> FALSE, cap |-> 0, used |-> used]
    ELSE [ok |-> TRUE, cap |-> c, used |-> used + c]
AlgoPut(used, c) == IF c >= used THEN 0 ELSE used - c
=============================================================================
