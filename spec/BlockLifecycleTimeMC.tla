------------------------ MODULE BlockLifecycleTimeMC ------------------------
(***************************************************************************)
(* Leg A of C32: retention (pkg/compact/retention.go), the cleaner of      *)
(* marked blocks (blocks_cleaner.go) and the cleanup of aborted partial    *)
(* uploads (clean.go) against a ticking clock.  Time is in model           *)
(* milliseconds with Sec model-ms per second (deletion marks record whole  *)
(* seconds).  One block b with MaxTime maxT (any ms part), one marked      *)
(* block, one partial upload; the clock ticks through the boundaries and   *)
(* the three procedures may run at any tick.  TLC checks that every mark / *)
(* deletion the algorithm performs is allowed by the property-level        *)
(* predicates, for every MaxTime, retention, delay, threshold on the grid. *)
(***************************************************************************)
EXTENDS BlockLifecycle, TLC, Json, IOUtils, SequencesExt
CONSTANTS Sec, MaxNow, Rets, Delays, Thresholds,
          Truncating      \* TRUE = model retention.go as it was before the fix (expected to violate; see notes/C32.md)

VARIABLES now, maxT, ret, delay, thr,
          mark,        \* deletion mark of the retention block: -1 none, else the recorded DeletionTime in seconds
          oldMark,     \* DeletionTime (s) of the block marked before the run started
          gone,        \* the marked block was deleted by the cleaner
          lm, pmarked, premoved   \* partial upload: newest last-modified, scheduled for deletion, removed
vars == <<now, maxT, ret, delay, thr, mark, oldMark, gone, lm, pmarked, premoved>>

Init == /\ now = 0 /\ maxT \in 0..(2 * Sec) /\ ret \in Rets /\ delay \in Delays /\ thr \in Thresholds
        /\ mark = -1 /\ oldMark \in 0..1 /\ gone = FALSE
        /\ lm \in 0..Sec /\ pmarked \in BOOLEAN /\ premoved = FALSE

Tick == now < MaxNow /\ now' = now + 1 /\ UNCHANGED <<maxT, ret, delay, thr, mark, oldMark, gone, lm, pmarked, premoved>>

RetentionMarks == IF Truncating THEN AlgoRetentionMarksTruncating(now, maxT, ret, Sec) ELSE AlgoRetentionMarks(now - maxT, ret)
Retention == /\ mark = -1 /\ RetentionMarks
             /\ mark' = now \div Sec
             /\ UNCHANGED <<now, maxT, ret, delay, thr, oldMark, gone, lm, pmarked, premoved>>
Cleaner == /\ ~gone /\ AlgoCleanerDeletes(now - oldMark * Sec, delay)
           /\ gone' = TRUE
           /\ UNCHANGED <<now, maxT, ret, delay, thr, mark, oldMark, lm, pmarked, premoved>>
Partial == /\ ~premoved /\ AlgoPartialRemoves(now - lm, thr, pmarked)
           /\ premoved' = TRUE
           /\ UNCHANGED <<now, maxT, ret, delay, thr, mark, oldMark, gone, lm, pmarked>>

Next == Tick \/ Retention \/ Cleaner \/ Partial
Spec == Init /\ [][Next]_vars

(* ---- C32 as action properties: whatever the algorithm does is allowed by the statement ---- *)
C32_RetentionOnlyWhenOlder == [][(mark = -1 /\ mark' # -1) => C32_RetentionMayMark(now - maxT, ret)]_vars
C32_CleanerOnlyAfterDelay == [][(~gone /\ gone') => C32_CleanerMayDelete(now - oldMark * Sec, delay)]_vars
C32_PartialOnlyWhenStaleAndUnmarked == [][(~premoved /\ premoved') => C32_PartialMayRemove(now - lm, thr, pmarked)]_vars

(* ---- leg B: boundary offsets (in units of 1 ms and of 1 s) the harness must place blocks at ---- *)
CasesFile == IF "VERIF_CASES" \in DOMAIN IOEnv THEN IOEnv.VERIF_CASES ELSE "cases.ndjson"
Offs == {-2, -1, 0, 1, 2}
CaseSet == { [proc |-> "retention", res |-> r, cfg |-> c, unit |-> u, offs |-> SetToSeq(Offs)] :
               r \in {0, 300000, 3600000}, c \in {"only", "all", "others"}, u \in {1, 500, 1000} }
           \cup { [proc |-> "cleaner", res |-> 0, cfg |-> c, unit |-> u, offs |-> SetToSeq(Offs)] : c \in {"whole", "frac"}, u \in {1, 500, 1000} }
           \cup { [proc |-> "partial", res |-> 0, cfg |-> c, unit |-> u, offs |-> SetToSeq(Offs)] : c \in {"plain", "marked"}, u \in {1, 500, 1000} }
ASSUME ndJsonSerialize(CasesFile, SetToSeq(CaseSet))
=============================================================================
