\* C42 leg A quick (2): several intervals (grid 0..6, split interval 4), steps {1,2,4}, world 2,
\* every history of at most 2 queries (+ cache losses); serialises the histories for the harness
SPECIFICATION Spec
CONSTANTS T = 6
          StepSet = {1, 2, 4}
          Common = {1, 2, 4}
          Ivs = {4}
          MinExt = 100
          WorldIds = {1, 2}
          GridFix = TRUE
          Unaligned = FALSE
          MaxHist = 2
          HistLen = 2
          CaseWorlds = {2}
INVARIANTS RespIsDirect C42_ExtentsHoldDirectData C42_ExtentsOrdered
PROPERTIES C42_ResponsesAreDirect
VIEW View
CHECK_DEADLOCK FALSE
