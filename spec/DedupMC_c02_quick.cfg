\* C02 leg A quick: 2 counter replicas, <= 3 samples each on a 4-point grid, value = start {0,2} +
\* partial sums of increments {0,5} (65 series per replica, 4 225 inputs); counter-adjusting
\* iterators; reader from the start + readers mixing Next with at most one Seek(7).
\* Leg B gets every 2nd input.
SPECIFICATION Spec
CONSTANTS InitPen = 5
          Grid = {0, 1, 6, 11}
          NumReps = 2
          MaxLen = 3
          Ctr = TRUE
          Starts = {0, 2}
          Incs = {0, 5}
          Targets = {7}
          EmitMod = 2
          MaxSeeks = 1
          Kinds = {"f"}
INVARIANTS C02_CounterNeverDecreases C01_StrictlyIncreasing C01_SeekIsSuffix C01_FollowsFullStream
           C01_FollowsFullStream BoundedOutput
CHECK_DEADLOCK FALSE
