\* C02 leg A thorough, 3 counter replicas (nested adjust dd(dd(r1,r2),r3)): <= 2 samples each on a
\* 3-point grid, start {0,2}, increments {0,5} (19 series per replica, 6 859 inputs), readers with
\* at most one Seek(1). Leg B gets every input.
SPECIFICATION Spec
CONSTANTS InitPen = 5
          Grid = {0, 1, 7}
          NumReps = 3
          MaxLen = 2
          Ctr = TRUE
          Starts = {0, 2}
          Incs = {0, 5}
          Targets = {1}
          EmitMod = 1
          MaxSeeks = 1
          Kinds = {"f"}
INVARIANTS C02_CounterNeverDecreases C01_StrictlyIncreasing C01_SeekIsSuffix C01_FollowsFullStream
           C01_FollowsFullStream StepwiseEqualsFunctional BoundedOutput OnlyDoneIsFinal
CHECK_DEADLOCK FALSE
