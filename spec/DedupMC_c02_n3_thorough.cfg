\* C02 leg A thorough, 3 counter replicas (nested adjust dd(dd(r1,r2),r3)): <= 2 samples each on a
\* 4-point grid (gaps within and beyond the penalty), start {0,3}, increment 5 (21 series per
\* replica, 9 261 inputs), readers with at most one Seek (2 targets). Leg B gets every input.
SPECIFICATION Spec
CONSTANTS InitPen = 5
          Grid = {0, 1, 7, 13}
          NumReps = 3
          MaxLen = 2
          Ctr = TRUE
          Starts = {0, 3}
          Incs = {5}
          Targets = {1, 8}
          EmitMod = 1
          MaxSeeks = 1
          Kinds = {"f"}
INVARIANTS C02_CounterNeverDecreases C01_StrictlyIncreasing C01_SeekIsSuffix C01_FollowsFullStream
           C01_FollowsFullStream StepwiseEqualsFunctional BoundedOutput OnlyDoneIsFinal
CHECK_DEADLOCK FALSE
