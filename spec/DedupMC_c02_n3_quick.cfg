\* C02 leg A quick, 3 counter replicas (nested adjust dd(dd(r1,r2),r3)): <= 2 samples each on a
\* 3-point grid whose gaps exceed the penalty (so that all three replicas get their turn), start
\* {0,3}, increment 5 (13 series per replica, 2 197 inputs), readers with at most one Seek(7).
\* Scope chosen with the model: the smallest input on which "adjust only the side in use + remember
\* the handed-out value" (a seeded change) fabricates a reset is [7->0] [13->0] [1->3].
SPECIFICATION Spec
CONSTANTS InitPen = 5
          Grid = {1, 7, 13}
          NumReps = 3
          MaxLen = 2
          Ctr = TRUE
          Starts = {0, 3}
          Incs = {5}
          Targets = {7}
          EmitMod = 1
          MaxSeeks = 1
          Kinds = {"f"}
INVARIANTS C02_CounterNeverDecreases C01_StrictlyIncreasing C01_SeekIsSuffix C01_FollowsFullStream
           C01_FollowsFullStream BoundedOutput
CHECK_DEADLOCK FALSE
