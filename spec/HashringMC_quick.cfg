\* C18 leg A quick: <= 4 endpoints (1 section each), <= 3 endpoints with 2 sections each, <= 4 zones,
\* all layouts / ring orders / rf <= n; cases: zone vectors up to 8 endpoints, rf <= 5
SPECIFICATION Spec
CONSTANTS MaxN = 4
          MaxZones = 4
          SecChoices = {1, 2}
          MaxSecs = 6
          Rule = "fixed"
          CaseMaxN = 8
          CaseMaxRF = 5
INVARIANT C18_Distinct
INVARIANT C18_ZoneBalanced
INVARIANT C18_AlwaysBalanced
INVARIANT C18_CanBalanceForm
INVARIANT C18_Function
INVARIANT C18_OrderFree
CHECK_DEADLOCK FALSE
