\* C41 leg A quick: start,end in 0..12, step 1..4, interval 1..5 (range) + labels/series ranges;
\* arithmetic = set equivalence over 0..3
SPECIFICATION Spec
CONSTANTS MaxT = 12
          MaxStep = 4
          MaxIv = 5
          DynLevel = 0
          EqT = 3
INVARIANTS C41_RangeExactlyOnce C41_RangeAligned C41_WellFormed C41_MetaCovers FunctionalFormAgrees ArithAgreesOnOutput C41_NotStuck C41_DynIntervalSane
PROPERTIES C41_Progress
CHECK_DEADLOCK FALSE
