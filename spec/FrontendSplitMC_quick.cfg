\* C41 leg A quick: start,end in 0..14, step 1..5, interval 1..6 (range) + labels/series ranges;
\* arithmetic = set equivalence over 0..4
SPECIFICATION Spec
CONSTANTS MaxT = 14
          MaxStep = 5
          MaxIv = 6
          EqT = 4
INVARIANTS C41_RangeExactlyOnce C41_RangeAligned C41_WellFormed C41_MetaCovers FunctionalFormAgrees ArithAgreesOnOutput C41_NotStuck
PROPERTIES C41_Progress
CHECK_DEADLOCK FALSE
