\* C30 leg A quick, planners "size" (index-size filter, threshold 3) and "vdown" (vertical-compaction downsample
\* filter, raw and downsampled group): ranges 1/2/4 on the grid 0..4, <= 3 blocks of length <= 4 with index size 1..2,
\* no pre-existing marks in the model (the filters make their own); cases for the harness: layouts of <= 2 blocks (<= 1 marked) x 4 planner modes
SPECIFICATION Spec
CONSTANTS Ranges <- R124
          LoNeg = 0
          Hi = 4
          MaxLen = 4
          MaxBlocks = 3
          MaxNC = 0
          MaxTomb = 0
          MaxFailed = 0
          TombVals = {0}
          Sizes = {1, 2}
          Modes <- ModesFilters
          CaseBlocks = 2
          CaseFlagBlocks = 2
INVARIANTS PlanSafe FixpointOK SortedInput
PROPERTIES Variant
VIEW View
CHECK_DEADLOCK FALSE
