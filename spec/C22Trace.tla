------------------------------ MODULE C22Trace ------------------------------
(***************************************************************************)
(* Leg C for C22 (case trace).  One line = one request shape and fault     *)
(* assignment, executed on the real handler once per response order:       *)
(*   in.rf, in.rep (0 fresh, k>0 already replicated as replica k)          *)
(*   in.starts        one entry per series                                 *)
(*   in.ers[i]        the i-th <node,replica> write and the series in it   *)
(*   in.outs[i]       the answer programmed for that write                 *)
(*   runs[j].order    order in which the answers were let through          *)
(*   runs[j].status   HTTP status the client got (0 = transport error)     *)
(*   runs[j].stored   per series: on how many replicas the fake peers had  *)
(*                    stored it when fanoutForward returned                *)
(* Judged with the property-level operators of ReceiveWrite only.          *)
(***************************************************************************)
EXTENDS TraceLib, ReceiveWrite

NSer(e) == Len(e.in.starts)
Cnt(e, s, o) == Cardinality({ i \in DOMAIN e.in.ers : s \in Range(e.in.ers[i].series) /\ e.in.outs[i] = o })
RunRec(e, r) == [status |-> r.status,
                 series |-> [s \in 1..NSer(e) |-> [ok |-> Cnt(e, s, "ok"), conflict |-> Cnt(e, s, "conflict"),
                                                    unavailable |-> Cnt(e, s, "unavailable"), noconn |-> Cnt(e, s, "noconn"), notready |-> Cnt(e, s, "notready"),
                                                    other |-> Cnt(e, s, "other") + Cnt(e, s, "nodial"),
                                                    stored |-> r.stored[s]]]]
Replicated(e) == e.in.rep # 0
N(e) == ReplicasFor(e.in.rf, Replicated(e))
QS(e) == QuorumsFor(e.in.rf, Replicated(e))

Judge(e) == UNION { JudgeC22(RunRec(e, e.runs[j]), N(e), QS(e)) : j \in DOMAIN e.runs }

(* model conformance, never a verdict: the algorithm-level model predicts the status *)
Drift(e) == \E j \in DOMAIN e.runs : e.runs[j].status # PredictedStatus(RunRec(e, e.runs[j]), e.in.rf, Replicated(e))

VARIABLE l
TraceInit == l = 1
TraceNext == /\ l <= TraceLen
             /\ \A c \in Judge(Trace[l]) : CaseReject(l, Trace[l], {c})   \* one tuple per clause: TLC wraps long tuples
             /\ (IF Drift(Trace[l]) THEN PrintT(<<"DRIFT", l, Trace[l]["case"]>>) ELSE TRUE)
             /\ l' = l + 1
TraceSpec == TraceInit /\ [][TraceNext]_l
TraceAccepted == TLCGet("stats").diameter = TraceLen + 1
=============================================================================
