\* C34 leg A thorough: 3 source blocks, up to 2 compactions (any two or more visible blocks, re-compaction of results
\* included), delete delay 4 ticks, ignore delay 2, sync lag <= 2, 1 gateway, duplicate filter OFF (the delays alone carry the property); all interleavings
SPECIFICATION Spec
CONSTANTS NOrig = 3
          MaxId = 5
          DeleteDelay = 4
          IgnoreDelay = 2
          MaxLag = 2
          Gateways = {"g1"}
          UseDedup = FALSE
          HalfRule = TRUE
          CaseBlocks = 0
INVARIANTS C34_EveryGatewayServesAll C34_SomeGatewayServesAll
CHECK_DEADLOCK FALSE
