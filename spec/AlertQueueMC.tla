---------------------------- MODULE AlertQueueMC ----------------------------
(* Algorithm-level model of alert.Queue with all interleavings of pushers and poppers (leg A of C46). *)
EXTENDS AlertQueue, TLC, Json, IOUtils, SequencesExt
CONSTANTS Cap, MaxBatch, Pushers, Poppers, PushSizes, PushesEach

VARIABLES queue,     \* sequence of alert ids, oldest first
          morec,     \* 0 or 1: occupancy of the signal channel
          ppc,       \* popper -> "wait" | "got"  (got = received from morec, not yet locked)
          left,      \* pusher -> number of pushes still to do
          nextId,    \* next alert id
          popped     \* history: concatenation of all popped batches (hidden by VIEW)
vars == <<queue, morec, ppc, left, nextId, popped>>

Init == /\ queue = <<>> /\ morec = 0
        /\ ppc = [p \in Poppers |-> "wait"]
        /\ left = [p \in Pushers |-> PushesEach]
        /\ nextId = 1 /\ popped = <<>>

(* Push: the whole critical section.  `kept` of the s alerts survive relabelling.  *)
Push(p, s, kept) ==
    /\ left[p] > 0
    /\ left' = [left EXCEPT ![p] = @ - 1]
    /\ IF kept = 0
         THEN UNCHANGED <<queue, morec, nextId>>        \* early return: nothing queued, no signal
         ELSE LET b == [k \in 1..kept |-> nextId + k - 1]
                  b1 == LastN(b, Cap)                    \* batch larger than capacity: drop its oldest
                  d == (Len(queue) + Len(b1)) - Cap
                  q1 == IF d > 0 THEN DropN(queue, d) ELSE queue
              IN /\ queue' = q1 \o b1
                 /\ morec' = 1                           \* non-blocking send: full stays full
                 /\ nextId' = nextId + kept
    /\ UNCHANGED <<ppc, popped>>

(* Pop, first half: receive from morec (blocks while empty), outside the mutex.  *)
PopRecv(p) == /\ ppc[p] = "wait" /\ morec = 1
              /\ morec' = 0 /\ ppc' = [ppc EXCEPT ![p] = "got"]
              /\ UNCHANGED <<queue, left, nextId, popped>>

(* Pop, second half: the critical section.  *)
PopLock(p) == /\ ppc[p] = "got"
              /\ LET n == IF Len(queue) < MaxBatch THEN Len(queue) ELSE MaxBatch IN
                 /\ popped' = popped \o SubSeq(queue, 1, n)
                 /\ queue' = DropN(queue, n)
                 /\ morec' = IF Len(queue) - n > 0 THEN 1 ELSE morec
              /\ ppc' = [ppc EXCEPT ![p] = "wait"]
              /\ UNCHANGED <<left, nextId>>

Next == \/ \E p \in Pushers, s \in PushSizes : \E kept \in 0..s : Push(p, s, kept)
        \/ \E p \in Poppers : PopRecv(p) \/ PopLock(p)

Spec == Init /\ [][Next]_vars /\ \A p \in Poppers : WF_vars(PopRecv(p)) /\ WF_vars(PopLock(p))

(* ---- C46 ---- *)
Bounded == Len(queue) <= Cap
(* ids in the queue are a contiguous run ending at the newest alert: order kept, only the oldest dropped *)
FifoDropOldest == \A k \in 1..Len(queue) : queue[k] = nextId - Len(queue) + k - 1
PoppedInOrder == \A a, c \in 1..Len(popped) : a < c => popped[a] < popped[c]
NoLostWakeup == queue # <<>> => (morec = 1 \/ \E p \in Poppers : ppc[p] = "got")
(* the algorithm equals the property-level operators *)
PushRefines == [][\A p \in Pushers : left'[p] < left[p] =>
                    queue' = AfterPush(queue, [k \in 1..(nextId' - nextId) |-> nextId + k - 1], Cap)]_vars
PopRefines == [][popped' # popped => /\ popped' = popped \o PopBatch(queue, MaxBatch)
                                     /\ queue' = AfterPop(queue, MaxBatch)]_vars
EventuallyDrained == <>[](queue = <<>>)

View == <<queue, morec, ppc, left, nextId, IF popped = <<>> THEN 0 ELSE popped[Len(popped)]>>

(* ---- leg B: operation sequences for the sequential replay on the real queue ---- *)
CasesFile == IF "VERIF_CASES" \in DOMAIN IOEnv THEN IOEnv.VERIF_CASES ELSE "cases.ndjson"
Ops == { [op |-> "push", n |-> s, kept |-> k] : s \in PushSizes, k \in 0..Cap + 1 } \cup { [op |-> "pop", n |-> 0, kept |-> 0] }
OpsOK == { o \in Ops : o.kept <= o.n }
CaseSeq == SetToSeq({ [ops |-> s, cap |-> Cap, maxbatch |-> MaxBatch] : s \in UNION { [1..n -> OpsOK] : n \in 1..3 } })
ASSUME ndJsonSerialize(CasesFile, CaseSeq)
=============================================================================
