------------------------------- MODULE Limiter -------------------------------
(***************************************************************************)
(* Request limits of BucketStore.Series (pkg/store/limiter.go, bucket.go). *)
(* Every Series call gets a fresh series limiter and a fresh chunks        *)
(* limiter; each is a counter with an atomic Reserve(n): add n, then fail  *)
(* if the new total is above the limit (limit 0 = unlimited).  The blocks  *)
(* of a request are read by concurrent goroutines that share both          *)
(* limiters.                                                               *)
(*                                                                         *)
(* Property C09 (property level, shared with StoreAPIs.tla): a call that   *)
(* succeeds returns at most `series limit` series and `chunk limit`        *)
(* chunks; a call whose unlimited answer exceeds a limit fails with        *)
(* ResourceExhausted.  A call may be refused although its true counts are  *)
(* below the limits (the limiter counts postings / per-block series).      *)
(***************************************************************************)
EXTENDS Integers, Sequences, FiniteSets

(* -------- property level -------- *)
LimExceeds(n, limit) == limit > 0 /\ n > limit
(* verdict of a finished call: ok = no goroutine failed *)
LimSuccessWithinLimits(ok, nSeries, nChunks, sLimit, cLimit) ==
    ok => ~LimExceeds(nSeries, sLimit) /\ ~LimExceeds(nChunks, cLimit)
LimExceedingFails(ok, trueSeries, trueChunks, sLimit, cLimit) ==
    (LimExceeds(trueSeries, sLimit) \/ LimExceeds(trueChunks, cLimit)) => ~ok

(* -------- algorithm level: Limiter.Reserve -------- *)
(* reserved.Add(num) and the comparison are one atomic step on the new value *)
ReserveNew(reserved, n) == reserved + n
ReserveOK(reserved, n, limit) == limit = 0 \/ reserved + n <= limit

SeqSum(s) == LET RECURSIVE Sum(_)
                 Sum(i) == IF i = 0 THEN 0 ELSE s[i] + Sum(i - 1)
             IN Sum(Len(s))
=============================================================================
