\* C34 leg A thorough: 3 source blocks, up to 2 compactions (any two or more visible blocks, re-compaction of results
\* included), delete delay 4 ticks, ignore delay 2, sync lag <= 2, 2 gateways, duplicate filter on; all interleavings
SPECIFICATION Spec
CONSTANTS NOrig = 3
          MaxId = 5
          DeleteDelay = 4
          IgnoreDelay = 2
          MaxLag = 2
          Gateways = {"g1", "g2"}
          UseDedup = TRUE
          HalfRule = TRUE
          CaseBlocks = 3
INVARIANTS C34_EveryGatewayServesAll C34_SomeGatewayServesAll
CHECK_DEADLOCK FALSE
