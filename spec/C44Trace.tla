------------------------------ MODULE C44Trace ------------------------------
(***************************************************************************)
(* Leg C for C44.  One line per executed case:                             *)
(*  in.query     PromQL text sent through the real sharding tripperware    *)
(*  in.nshards   number of vertical shards                                 *)
(*  in.series    the world: [[ls: {name: value}, v: int]]                  *)
(*  in.expr      the TLC-generated AST (absent for concrete generators)    *)
(*  analysis     what the real analyzer decided: shardable, by, labels     *)
(*  member[k]    shard indices whose real ShardMatcher accepted series k   *)
(*               (for the ShardInfo the real querySharder sent downstream) *)
(*  sharded / unsharded   [err: bool, out: [[ls: {..}, v: "<t=value ...>",  *)
(*               v0: "<first value>", n: number of samples]]]              *)
(*               results through the tripperware with / without sharding   *)
(*  subreqs      number of downstream requests the sharded run produced    *)
(* Values are strings (the engine's float formatting) so that any program  *)
(* can be compared; for modelled expressions ToString(int) is the same.    *)
(***************************************************************************)
EXTENDS TraceLib, QueryShard

SeqToSet(s) == { s[i] : i \in DOMAIN s }
OutSet(r) == SeqToSet(r.out)
LabelNamesOf(an) == SeqToSet(an.labels)
AnOf(e) == [set |-> e.analysis.shardable, by |-> e.analysis.by, ls |-> LabelNamesOf(e.analysis)]
KeyOfSeries(s, e) == ShardKey(s.ls, AnOf(e))

Judge(e) ==
    IF ~e.analysis.shardable \/ e.subreqs <= 1 THEN {}      \* C44 only speaks about queries the frontend shards
    ELSE
    LET n == Len(e.in.series) IN
    (* "every series belongs to exactly one shard" *)
    (IF \A k \in 1..n : Len(e.member[k]) = 1 THEN {} ELSE {"each-series-in-exactly-one-shard"})
    \cup
    (* "series that agree on the sharding labels belong to the same shard" *)
    (IF \A j, k \in 1..n : KeyOfSeries(e.in.series[j], e) = KeyOfSeries(e.in.series[k], e) => e.member[j] = e.member[k]
       THEN {} ELSE {"same-sharding-labels-same-shard"})
    \cup
    (* "merging the shard results gives the same series and values as evaluating once over all series" *)
    (IF e.unsharded.err THEN {}
     ELSE IF e.sharded.err THEN {"sharded-run-fails-where-unsharded-succeeds"}
     ELSE IF Len(e.sharded.out) # Cardinality({ s.ls : s \in OutSet(e.sharded) }) THEN {"sharded-result-has-duplicate-series"}
     ELSE IF OutSet(e.sharded) = OutSet(e.unsharded) THEN {} ELSE {"sharded-result-equals-unsharded"})

(* ---- model conformance (informational): analyzer decision and unsharded evaluation vs the model ---- *)
RECURSIVE ExprOf(_)
ExprOf(j) ==
    CASE j.k = "sel" -> [k |-> "sel", name |-> j.name]
      [] j.k = "agg" -> [k |-> "agg", op |-> j.op, by |-> j.by, ls |-> SeqToSet(j.ls), e |-> ExprOf(j.e)]
      [] j.k = "bin" -> [k |-> "bin", on |-> j.on, ls |-> SeqToSet(j.ls), l |-> ExprOf(j.l), r |-> ExprOf(j.r)]
      [] j.k = "lrep" -> [k |-> "lrep", dst |-> j.dst, src |-> j.src, e |-> ExprOf(j.e)]

Drift(e) ==
    Has(e.in, "expr") /\
    LET x == ExprOf(e.in.expr)
        an == Analyze(x)
        S == SeqToSet(e.in.series)
        u == Eval(x, S)
    IN \/ IsShardable(an) # e.analysis.shardable
       \/ (IsShardable(an) /\ (an.by # e.analysis.by \/ an.ls # LabelNamesOf(e.analysis)))
       \/ u.err # e.unsharded.err
       \/ (~u.err /\ { [ls |-> s.ls, v |-> ToString(s.v)] : s \in u.out }
                      # { [ls |-> s.ls, v |-> s.v0] : s \in OutSet(e.unsharded) })

VARIABLE l
TraceInit == l = 1
TraceNext == /\ l <= TraceLen
             /\ CaseReject(l, Trace[l], Judge(Trace[l]))
             /\ (IF Drift(Trace[l]) THEN PrintT(<<"DRIFT", l, Trace[l]["case"]>>) ELSE TRUE)
             /\ l' = l + 1
TraceSpec == TraceInit /\ [][TraceNext]_l
TraceAccepted == TLCGet("stats").diameter = TraceLen + 1
=============================================================================
