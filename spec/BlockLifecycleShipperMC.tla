---------------------- MODULE BlockLifecycleShipperMC -----------------------
(***************************************************************************)
(* Leg A of C35: Shipper.Sync (pkg/shipper/shipper.go) over N local        *)
(* blocks, one action per bucket operation / file operation, with          *)
(*   - Crash: the process dies at any point (memory lost; the bucket and   *)
(*     the shipper file thanos.shipper.json stay), a new shipper starts;   *)
(*   - Fail: a bucket call fails (the code takes its error path).          *)
(* Sync: read the shipper file into `has`; for every local block, oldest   *)
(* first: already recorded -> keep recorded; empty -> skip; compacted and  *)
(* upload-compacted off -> skip; Exists(meta.json) -> record; else upload  *)
(* chunk segment, index, meta.json (block.Upload) and record; at the end   *)
(* write the shipper file; return an error if an upload failed.  Without   *)
(* allow-out-of-order-uploads the first failed upload returns at once      *)
(* (file not written); with it the loop goes on.  Before a compacted block *)
(* is uploaded without allow-out-of-order-uploads, the overlap checker     *)
(* reads the meta.json of EVERY block directory in the bucket; a directory *)
(* without meta.json (a partial upload) makes it fail and Sync return the  *)
(* error (blocks never overlap here, so that is its only modelled effect). *)
(***************************************************************************)
EXTENDS BlockLifecycle, TLC, Json, IOUtils, SequencesExt
CONSTANTS N,            \* local blocks 1..N (1 = oldest)
          MaxCrashes, MaxFails,
          Features,     \* which environment actions are explored in this configuration, subset of
                        \* {"crash", "fail", "prune", "late"} (two configurations per tier keep the state
                        \* space a sum instead of a product: crash+fail, and crash+prune+late)
          MtLen,                 \* leg B (phase 2): MultiTSDB scenarios: all op sequences up to MtLen (0 = the fixed shapes only)
          CaseN, CaseCrashes, CasePre, CaseKinds  \* leg B: blocks / crash points / pre-states / kinds per generated case

Blocks == 1..N
SegO(b) == [b |-> b, f |-> "chunks/000001", s |-> 11]
IdxO(b) == [b |-> b, f |-> IndexF, s |-> 7]
MetaO(b) == [b |-> b, f |-> MetaF, s |-> 99]
FilesOf(b) == {SegO(b), IdxO(b)}
Kinds == {"L1", "E", "L2"}                 \* level-1 non-empty, level-1 empty, level-2 (compacted) non-empty
Pre == {"absent", "partial", "complete"}   \* state of the block in the bucket before the first sync
PreObjs(b, p) == CASE p = "absent" -> {} [] p = "partial" -> {SegO(b)} [] p = "complete" -> FilesOf(b) \cup {MetaO(b)}

VARIABLES kind, uc, ooo,      \* the case: block kinds, upload-compacted, allow-out-of-order-uploads
          bkt, file,          \* bucket; shipper file [present, uploaded = set of recorded block ids]
          pc, i, has, upl, uerrs,   \* Sync: program counter, current block, hasUploaded, meta.Uploaded, uploadErrs
          last,               \* result of the last finished Sync: "none" | "ok" | "err"
          crashes, fails, everComplete,
          pruned,             \* the directory (tenant) was removed by MultiTSDB.Prune
          localGone,          \* local blocks deleted by the local TSDB retention
          there,              \* blocks that exist locally so far (a block may appear LATER than newer ones: backfill,
                              \* out-of-order head compaction, a compacted block becoming eligible after a restart)
          dirAtSync           \* the blocks the running / last Sync found in the directory (blockMetasFromOldest)
vars == <<kind, uc, ooo, bkt, file, pc, i, has, upl, uerrs, last, crashes, fails, everComplete, pruned, localGone, there, dirAtSync>>
Const == UNCHANGED <<kind, uc, ooo>>
LocalKeep == UNCHANGED <<pruned, localGone, there, dirAtSync>>

Local(b) == [b |-> b, level |-> IF kind[b] = "L2" THEN 2 ELSE 1, empty |-> kind[b] = "E", files |-> FilesOf(b)]
Locals == { Local(b) : b \in Blocks }
ListedNow(bk) == UNION { IF MetaO(b) \in bk THEN FilesOf(b) ELSE {} : b \in Blocks }
Seen(bk) == everComplete \cup CompleteBlocks(bk, ListedNow(bk))

Init == /\ kind \in [Blocks -> Kinds] /\ uc \in BOOLEAN /\ ooo \in BOOLEAN
        /\ \E pre \in [Blocks -> Pre] : bkt = UNION { PreObjs(b, pre[b]) : b \in Blocks }
        /\ file = [present |-> FALSE, uploaded |-> {}] /\ pc = "idle" /\ i = 0 /\ has = {} /\ upl = {} /\ uerrs = 0
        /\ last = "none" /\ crashes = 0 /\ fails = 0
        /\ everComplete = CompleteBlocks(bkt, ListedNow(bkt))
        /\ pruned = FALSE /\ localGone = {}
        /\ there \in (IF "late" \in Features THEN {Blocks} \cup { Blocks \ {b} : b \in Blocks } ELSE {Blocks}) /\ dirAtSync = {}     \* at most one block appears late

SyncStart == /\ pc = "idle"
             /\ has' = file.uploaded
             /\ upl' = {} /\ uerrs' = 0 /\ i' = 1 /\ pc' = "loop"
             /\ dirAtSync' = IF pruned THEN {} ELSE there \ localGone
             /\ UNCHANGED <<bkt, file, last, crashes, fails, everComplete, pruned, localGone, there>> /\ Const

(* loop head for block i: the checks that need no bucket call *)
Loop == /\ pc = "loop" /\ i <= N
        /\ IF i \notin dirAtSync THEN i' = i + 1 /\ pc' = "loop" /\ UNCHANGED upl     \* not (or no longer) on disk
           ELSE IF i \in has THEN upl' = upl \cup {i} /\ i' = i + 1 /\ pc' = "loop"
           ELSE IF kind[i] = "E" \/ (kind[i] = "L2" /\ ~uc) THEN i' = i + 1 /\ pc' = "loop" /\ UNCHANGED upl
           ELSE pc' = "exists" /\ UNCHANGED <<i, upl>>
        /\ UNCHANGED <<bkt, file, has, uerrs, last, crashes, fails, everComplete>> /\ Const /\ LocalKeep

Exists == /\ pc = "exists"
          /\ IF MetaO(i) \in bkt THEN upl' = upl \cup {i} /\ i' = i + 1 /\ pc' = "loop"
             ELSE pc' = (IF kind[i] = "L2" /\ ~ooo THEN "overlap" ELSE "up_seg") /\ UNCHANGED <<i, upl>>
          /\ UNCHANGED <<bkt, file, has, uerrs, last, crashes, fails, everComplete>> /\ Const /\ LocalKeep

(* lazyOverlapChecker.sync: DownloadMeta of every block directory; a partial directory fails the sync *)
PartialDirs(bk) == { b \in BlocksIn(bk) : MetaO(b) \notin bk }
Overlap == /\ pc = "overlap"
           /\ IF PartialDirs(bkt) # {} THEN pc' = "idle" /\ last' = "err" ELSE pc' = "up_seg" /\ UNCHANGED last
           /\ UNCHANGED <<bkt, file, i, has, upl, uerrs, crashes, fails, everComplete>> /\ Const /\ LocalKeep

Put(o) == /\ bkt' = { x \in bkt : ~(x.b = o.b /\ x.f = o.f) } \cup {o}
          /\ everComplete' = Seen({ x \in bkt : ~(x.b = o.b /\ x.f = o.f) } \cup {o})
UpSeg == /\ pc = "up_seg" /\ Put(SegO(i)) /\ pc' = "up_idx"
         /\ UNCHANGED <<file, i, has, upl, uerrs, last, crashes, fails>> /\ Const /\ LocalKeep
UpIdx == /\ pc = "up_idx" /\ Put(IdxO(i)) /\ pc' = "up_meta"
         /\ UNCHANGED <<file, i, has, upl, uerrs, last, crashes, fails>> /\ Const /\ LocalKeep
UpMeta == /\ pc = "up_meta" /\ Put(MetaO(i)) /\ upl' = upl \cup {i} /\ i' = i + 1 /\ pc' = "loop"
          /\ UNCHANGED <<file, has, uerrs, last, crashes, fails>> /\ Const /\ LocalKeep

(* after the loop: write the shipper file, return *)
WriteFile == /\ pc = "loop" /\ i > N
             /\ file' = [present |-> TRUE, uploaded |-> upl] /\ last' = (IF uerrs > 0 THEN "err" ELSE "ok") /\ pc' = "idle"
             /\ UNCHANGED <<bkt, i, has, upl, uerrs, crashes, fails, everComplete>> /\ Const /\ LocalKeep

(* a bucket call fails: Exists -> Sync returns the error at once; an upload call -> block.Upload fails *)
Fail == /\ "fail" \in Features /\ fails < MaxFails /\ pc \in {"exists", "up_seg", "up_idx", "up_meta"}
        /\ fails' = fails + 1
        /\ IF pc = "exists" \/ ~ooo
             THEN pc' = "idle" /\ last' = "err" /\ UNCHANGED <<i, uerrs>>
             ELSE pc' = "loop" /\ i' = i + 1 /\ uerrs' = uerrs + 1 /\ UNCHANGED last
        /\ UNCHANGED <<bkt, file, has, upl, crashes, everComplete>> /\ Const /\ LocalKeep

Crash == /\ "crash" \in Features /\ crashes < MaxCrashes /\ pc # "idle"
         /\ crashes' = crashes + 1 /\ pc' = "idle" /\ last' = "none"
         /\ i' = 0 /\ has' = {} /\ upl' = {} /\ uerrs' = 0
         /\ UNCHANGED <<bkt, file, fails, everComplete>> /\ Const /\ LocalKeep

(* ---- phase 2: removal of local data, guarded by the shipper file only ----                            *)
(* MultiTSDB.Prune -> tenant.shouldBeMarkedInactive -> Shipper.AreAllBlocksUploaded: every block directory *)
(* still on disk is listed in the shipper file (idleness and "head compaction ran" are abstracted into     *)
(* the action being enabled at any time, also in the middle of a Sync: it only takes a read lock).         *)
AllRecorded == \A b \in there \ localGone : b \in file.uploaded
Prune == /\ "prune" \in Features /\ ~pruned /\ AllRecorded /\ pruned' = TRUE
         /\ UNCHANGED <<bkt, file, pc, i, has, upl, uerrs, last, crashes, fails, everComplete, localGone, there, dirAtSync>> /\ Const
(* tenant.blocksToDelete: the TSDB retention may delete a local block only if the shipper file lists it *)
LocalRetention == /\ "prune" \in Features /\ ~pruned
                  /\ \E b \in there \ localGone : b \in file.uploaded /\ localGone' = localGone \cup {b}
                  /\ UNCHANGED <<bkt, file, pc, i, has, upl, uerrs, last, crashes, fails, everComplete, pruned, there, dirAtSync>> /\ Const

(* a block shows up in the directory later than (possibly newer) blocks that are already shipped *)
Appear == /\ "late" \in Features /\ ~pruned /\ \E b \in Blocks \ there : there' = there \cup {b}
          /\ UNCHANGED <<bkt, file, pc, i, has, upl, uerrs, last, crashes, fails, everComplete, pruned, localGone, dirAtSync>> /\ Const

Step == SyncStart \/ Loop \/ Exists \/ Overlap \/ UpSeg \/ UpIdx \/ UpMeta \/ WriteFile
Next == Step \/ Fail \/ Crash \/ Prune \/ LocalRetention \/ Appear
Spec == Init /\ [][Next]_vars /\ WF_vars(Step)

(* ---- C35 ---- *)
C35_RecordedWereSeenComplete == C35_RecordedUnseen(file.uploaded, everComplete) = {}
C35_SuccessfulSyncShippedAll ==
    (last = "ok" /\ pc = "idle") => C35_NotShipped({ x \in Locals : x.b \in dirAtSync }, uc, bkt, ListedNow(bkt), {}, {}) = {}    \* every block the sync found on disk
(* phase 2: local data goes away only after it was shipped *)
NonEmptyLocals == { x \in Locals : ~x.empty }
C35_PrunedOnlyWhenShipped == pruned => C35_PrunedUnshipped({ x \in NonEmptyLocals : x.b \in there \ localGone }, bkt, ListedNow(bkt), {}, {}) = {}
C35_LocalDeleteOnlyWhenShipped == C35_LocalGoneUnseen({ b \in localGone : kind[b] # "E" }, everComplete) = {}
C28_Holds == C28_Incomplete(bkt, ListedNow(bkt)) = {}
(* Once crashes and failures are used up a sync succeeds - unless the shipper is wedged: a partial  *)
(* upload left in the bucket makes the overlap check of a compacted block fail in every sync.     *)
(* (Not part of the statement of C35, which only speaks about successful syncs; TLC found the     *)
(* wedge as a counterexample to the unconditional form.  See notes/C35.md.)                       *)
Wedged == /\ ~ooo /\ uc /\ PartialDirs(bkt) # {}
          /\ \E b \in there : kind[b] = "L2" /\ MetaO(b) \notin bkt /\ b \notin file.uploaded
          /\ \A b \in there : (kind[b] = "L1" /\ MetaO(b) \notin bkt) => \E c \in there : c < b /\ kind[c] = "L2" /\ MetaO(c) \notin bkt
EventuallyShipped == <>(last = "ok" /\ pc = "idle") \/ <>[]Wedged

(* ---- leg B ---- *)
CasesFile == IF "VERIF_CASES" \in DOMAIN IOEnv THEN IOEnv.VERIF_CASES ELSE "cases.ndjson"
BlockOpts == { [kind |-> k, pre |-> p] : k \in CaseKinds, p \in CasePre }
BlockSeqs == UNION { [1..n -> BlockOpts] : n \in 1..CaseN }
(* crash points: one per run; a second crash point only for one-block cases and early in the run (keeps the case   *)
(* count in budget)                                                                                                 *)
CrashSeqs(n) == {<<>>} \cup { <<k>> : k \in 1..(3 * n) }
                \cup (IF n = 1 /\ CaseCrashes >= 2 THEN { <<k, k2>> : k \in 1..3, k2 \in 1..3 } ELSE {})
BaseCases == UNION { { [blocks |-> bs, uc |-> u, ooo |-> o, crashes |-> cr, late |-> 0, uc2 |-> u] :
                         u \in BOOLEAN, o \in BOOLEAN, cr \in (IF CaseCrashes = 0 THEN {<<>>} ELSE CrashSeqs(Len(bs))) } : bs \in BlockSeqs }
(* late = the block (index) that appears in the directory only after the others were synced (0 = none); uc2 = the   *)
(* upload-compacted setting of the shipper started after that (a restart may switch it on).  Such histories come     *)
(* without crashes, without out-of-order uploads, from an empty bucket.                                               *)
AbsentSeqs == { bs \in BlockSeqs : \A k \in DOMAIN bs : bs[k].pre = "absent" }
LateCases == UNION { { [blocks |-> bs, uc |-> u, ooo |-> FALSE, crashes |-> <<>>, late |-> lt, uc2 |-> u2] :
                         u \in BOOLEAN, u2 \in BOOLEAN, lt \in 0..(IF Len(bs) > 1 THEN Len(bs) ELSE 0) } : bs \in AbsentSeqs }
CaseSet == BaseCases \cup { c \in LateCases : (c.uc => c.uc2) /\ (c.late # 0 \/ c.uc2 # c.uc) }
EmitCases == "VERIF_CASES" \in DOMAIN IOEnv      \* the second configuration of a tier does not emit cases
ASSUME EmitCases => ndJsonSerialize(CasesFile, SetToSeq(CaseSet))

(* phase 2: scenarios for the real receive.MultiTSDB (file <cases>.mt): tenants[i] = blocks of tenant i; ops over    *)
(* sync:k (SyncAllTenants with a bucket outage from the k-th mutating call), prune, append (newer samples + head      *)
(* compaction, after which the local retention runs)                                                                *)
MtTenants == {<<2, 1>>}      \* tenant layouts: blocks per tenant
MtOps == {"sync:0", "sync:1", "sync:2", "sync:4", "prune", "append"}
MtShapes == { <<"prune", s, "prune", "sync:0", "prune">> : s \in {"sync:1", "sync:2", "sync:4"} }
            \cup { <<s, "append", "prune", "sync:0", "append", "prune">> : s \in {"sync:0", "sync:2"} }
MtAll == UNION { [1..n -> MtOps] : n \in 1..MtLen }
MtCaseSet == { [mt |-> TRUE, tenants |-> tn, ooo |-> o, ops |-> ops] :
                 tn \in MtTenants, o \in {FALSE}, ops \in (IF MtLen = 0 THEN MtShapes ELSE MtShapes \cup MtAll) }
ASSUME EmitCases => ndJsonSerialize(CasesFile \o ".mt", SetToSeq(MtCaseSet))
=============================================================================
