------------------------------ MODULE C24Trace ------------------------------
(***************************************************************************)
(* Leg C for C24 (step trace).  One scenario = one real receive handler    *)
(* with `max_concurrency = in.max` whose only peer blocks every forwarded  *)
(* write until the driver lets it answer.  Events:                         *)
(*   case    header: in.max (configured maximum write concurrency)         *)
(*   Arrive  the driver sent request req             (driver goroutine)    *)
(*   Cancel  the client of request req gave up       (driver goroutine)    *)
(*   Admit   the peer received the write of request req  } emitted under   *)
(*   Finish  the peer answered the write of request req  } the peer mutex  *)
(*   End     panics = number of "http: panic serving" lines in the         *)
(*           handler's error log                                           *)
(* A request is "being processed" at least from the moment its write       *)
(* reaches the peer until the peer answers (the handler holds its gate     *)
(* slot strictly longer), so the set replayed here from Admit/Finish is a  *)
(* subset of the requests really in progress: exceeding the maximum here   *)
(* means exceeding it in the handler.  Admit/Finish lines are written      *)
(* while holding the peer's mutex, so their order in the file is the       *)
(* order in which they happened.  Arrive/Cancel are informational.         *)
(***************************************************************************)
EXTENDS TraceLib, WriteGate

VARIABLES l, processing, max
tvars == <<l, processing, max>>

TraceInit == l = 1 /\ processing = {} /\ max = 0

IsEvent(n) == l <= TraceLen /\ Trace[l].ev = n /\ l' = l + 1

Header == /\ IsEvent("case")
          /\ processing' = {} /\ max' = Trace[l].in.max

Info == /\ (IsEvent("Arrive") \/ IsEvent("Cancel"))
        /\ UNCHANGED <<processing, max>>

(* statement: "no more than that many remote-write requests are processed at the same time, *)
(* also when clients give up while waiting for a slot"                                       *)
Admit == /\ IsEvent("Admit")
         /\ processing' = processing \cup {Trace[l].req}
         /\ CaseReject(l, Trace[l], IF WithinLimit(processing', max) THEN {} ELSE {"at-most-max-processed-at-once"})
         /\ UNCHANGED max

Finish == /\ IsEvent("Finish")
          /\ processing' = processing \ {Trace[l].req}
          /\ UNCHANGED max

(* statement: "waiting requests never crash the receiver" (net/http turns a handler panic into *)
(* a dropped connection and an error-log line)                                                  *)
End == /\ IsEvent("End")
       /\ CaseReject(l, Trace[l], IF Trace[l].panics > 0 THEN {"request-handling-never-panics"} ELSE {})
       /\ UNCHANGED <<processing, max>>

TraceNext == Header \/ Info \/ Admit \/ Finish \/ End
TraceSpec == TraceInit /\ [][TraceNext]_tvars
TraceAccepted == TLCGet("stats").diameter = TraceLen + 1
=============================================================================
