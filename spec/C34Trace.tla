------------------------------ MODULE C34Trace ------------------------------
(***************************************************************************)
(* Leg C for C34.  The property itself is decided in the model             *)
(* (DelayProtocolMC); the trace binds the model's ingredients to the code. *)
(* One line per case, field kind:                                          *)
(*   "flags"   deleteSec / ignoreSec / syncSec: the defaults of            *)
(*             --delete-delay, --ignore-deletion-marks-delay and           *)
(*             --sync-block-duration found in cmd/thanos (origin "source": *)
(*             flag registrations, "binary": --help of the built binary)   *)
(*   "filter"  blocks: a bucket state (records id, grp, src, meta,         *)
(*             complete, markAge in seconds or -1) as observed after the   *)
(*             REAL store-gateway fetcher ran; got: ids it selected;       *)
(*             ignoreSec: the delay it was given (the default)             *)
(*   "wiring"  the compactor's filter and BlocksCleaner, built with the     *)
(*             delays runCompact passes them (read from its source:        *)
(*             filterSec, cleanerSec; storeSec from runStore), ran on      *)
(*             `blocks`; deleted: ids the cleaner deleted; after: ids      *)
(*             still intact; views[k] = [lagSec, loaded]: what the real    *)
(*             gateway fetcher had selected lagSec ago                     *)
(*   "probe"   the built binary compacted a bucket whose block was marked  *)
(*             ageH hours ago; included: the block was planned             *)
(* Judged with the property-level operators of DelayProtocol / Compaction. *)
(***************************************************************************)
EXTENDS TraceLib, DelayProtocol

BlocksOf(e) == { [id |-> b.id, grp |-> b.grp, src |-> Range(b.src), meta |-> b.meta, complete |-> b.complete, markAge |-> b.markAge] :
                   b \in Range(e.blocks) }

Judge(e) ==
    IF e.kind = "flags" THEN
        (* "store gateways hide deletion-marked blocks after a shorter delay" than the delete delay *)
        (IF DelaysOrdered(e.ignoreSec, e.deleteSec) THEN {} ELSE {"ignore-delay-shorter-than-delete-delay"})
        (* "sync periodically ... with sync lag bounded below the difference of the delays" *)
        \cup (IF LagWithinBound(e.syncSec, e.ignoreSec, e.deleteSec) THEN {} ELSE {"sync-interval-below-difference-of-delays"})
    ELSE IF e.kind = "filter" THEN
        LET B == BlocksOf(e)
            K == { b \in B : b.id \in Range(e.got) }
            C == Candidates(B, e.ignoreSec)
        IN  (* a gateway serves only blocks that are visible (meta.json present) *)
            (IF Range(e.got) \subseteq { b.id : b \in B } /\ \A b \in K : b.meta THEN {} ELSE {"gateway-serves-only-blocks-with-meta-json"})
            (* "store gateways hide deletion-marked blocks after a ... delay" *)
            \cup (IF \A b \in K : ~MarkHidden(b, e.ignoreSec) THEN {} ELSE {"gateway-hides-blocks-marked-longer-than-ignore-delay"})
            (* "every source sample remains served": a block that is not hidden by its mark is selected, or a block *)
            (* made of a superset of its sources is (any choice among duplicates is accepted)                       *)
            \cup (IF \A c \in C : \E k \in K : k.grp = c.grp /\ c.src \subseteq k.src THEN {}
                    ELSE {"gateway-keeps-every-unhidden-block-or-a-block-covering-it"})
    ELSE IF e.kind = "wiring" THEN
        LET B == BlocksOf(e)
            ageOf(i) == LET b == CHOOSE x \in B : x.id = i IN b.markAge
        IN  (* "the compactor ... deletes sources after a delete delay": whatever the cleaner, composed as runCompact composes *)
            (* it, deleted had been marked longer ago than --delete-delay                                                  *)
            (IF \A i \in Range(e.deleted) : ageOf(i) # NoMark /\ ageOf(i) > e.deleteSec THEN {}
               ELSE {"block-deleted-only-after-the-delete-delay"})
            (* "every source sample remains served ... with sync lag bounded below the difference of the delays": what a *)
            (* gateway that synced within that bound has loaded is still intact in the bucket after the cleaner ran       *)
            \cup (IF \A k \in DOMAIN e.views :
                       LagWithinBound(e.views[k].lagSec, e.ignoreSec, e.deleteSec) => Queryable(Range(e.views[k].loaded), Range(e.after))
                    THEN {} ELSE {"blocks-loaded-by-a-gateway-within-the-lag-bound-still-in-the-bucket"})
    ELSE IF e.kind = "gwlag" THEN
        (* phase 2: the same composition observed through a REAL store gateway (store.BucketStore) that synced lagSec ago  *)
        (* (views[1].loaded = what it selected then) and is queried, without syncing again, after the cleaner ran now:     *)
        (* counts[x] = how often original sample x came back, qerr = error of the Series call, orig[i] = samples of block i *)
        LET v == e.views[1] IN
        (IF \A i \in Range(e.deleted) : e.in.ages[i] > e.deleteSec THEN {} ELSE {"block-deleted-only-after-the-delete-delay"})
        \cup (IF LagWithinBound(v.lagSec, e.ignoreSec, e.deleteSec) =>
                   (e.qerr = "" /\ \A i \in Range(v.loaded) : \A x \in Range(e.orig[i]) : e.counts[x] >= 1)
                THEN {} ELSE {"gateway-within-the-lag-bound-still-answers-from-its-loaded-blocks"})
    ELSE {}

(* model conformance: exact selection of the model's filters; delays in the model's ratio; the deleteDelay/2 planning rule *)
Drift(e) ==
    IF e.kind = "filter" THEN Range(e.got) # { b.id : b \in SGServes(BlocksOf(e), e.ignoreSec) }
    ELSE IF e.kind = "flags" THEN e.deleteSec * e.modelIgnore # e.ignoreSec * e.modelDelete
    (* the model's cleaner deletes exactly the visible blocks marked longer than DeleteDelay; its sync filter uses DeleteDelay/2 *)
    ELSE IF e.kind = "wiring" THEN
        \/ Range(e.deleted) # { b.id : b \in { x \in BlocksOf(e) : x.meta /\ x.markAge # NoMark /\ x.markAge > e.cleanerSec } }
        \/ e.cleanerSec # e.deleteSec \/ e.filterSec * 2 # e.deleteSec \/ e.storeSec # e.ignoreSec \/ e.err # ""
    ELSE IF e.kind = "gwlag" THEN e.extra # 0
    ELSE e.included # (e.ageH * 3600 * 2 <= e.deleteSec)

VARIABLE l
TraceInit == l = 1
TraceNext == /\ l <= TraceLen
             /\ CaseReject(l, Trace[l], Judge(Trace[l]))
             /\ (IF Drift(Trace[l]) THEN PrintT(<<"DRIFT", l, Trace[l]["case"]>>) ELSE TRUE)
             /\ l' = l + 1
TraceSpec == TraceInit /\ [][TraceNext]_l
TraceAccepted == TLCGet("stats").diameter = TraceLen + 1
=============================================================================
