\* C11 leg A quick: tables of 1..4 values, sampling 1..3, sorted requests of <= 3 values over 1..2n+1
SPECIFICATION Spec
CONSTANTS MaxN = 4
          Ks = {1, 2, 3}
          MaxW = 3
INVARIANTS AnswersLikeFullIndex AnswersAcceptable NeverOverAnswers LabelValuesComplete
PROPERTY Terminates
CHECK_DEADLOCK FALSE
