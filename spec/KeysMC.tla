------------------------------- MODULE KeysMC -------------------------------
(***************************************************************************)
(* Leg A for C13.  A cache is a map key -> stored item.  One item is       *)
(* stored; C13 demands that no lookup of a DIFFERENT item of the same      *)
(* cache is answered from that entry, i.e. that no other item of the       *)
(* domain has the same key.  TLC enumerates every stored item (one state   *)
(* each) against every looked-up item (the quantifier of the invariant):   *)
(* all item pairs of the domain.                                           *)
(*                                                                         *)
(* Domain (small scope):                                                   *)
(*   P   blocks x comps x names (1..MaxLen over Sigma) x values (0..MaxLen)*)
(*   EP  (a) the empty list and every one-matcher list with name/value     *)
(*           over Sigma as above and all four types, one block, comps;     *)
(*       (b) list structure: lists of 1..2 matchers with name "a", types   *)
(*           ListTypes; in a one-matcher list the value has up to          *)
(*           ListValLen characters over ListSigma, in a two-matcher list   *)
(*           up to 1 -- the smallest scope in which a value can spell      *)
(*           `";a="`, i.e. imitate the boundary between two matchers;      *)
(*           one block, both compression schemes                           *)
(*   S   blocks x SeriesIds                                                *)
(*   MC  names x types x values over ConvSigma (Sigma plus a digit)        *)
(*   RP  receiver's expanded-postings cache: the empty list, one-matcher   *)
(*       lists with name (1 character) and value (up to RecvValLen) over   *)
(*       RecvSigma = { | = ~ a } and all four types, and two-matcher lists *)
(*       with name "a", all types, values up to 1 character -- the scope   *)
(*       in which a value can spell `|a=`, the text between two matchers   *)
(***************************************************************************)
EXTENDS Keys, Json, IOUtils, SequencesExt, FiniteSetsExt
CONSTANTS Sigma, MaxLen, ConvSigma, ListSigma, ListValLen, ListTypes,
          Blocks, Comps, SeriesIds, Legacy, GroupSyms, RecvValLen

Types == {"EQ", "NEQ", "RE", "NRE"}

(* alphabets for the configurations (cfg files cannot spell the quote characters) *)
Seps == {":", ";", "=", "~", "!", "\"", "\\"}        \* every separator / quoting character the builders use
SigmaFull == Seps \cup {"a", "b"}
SigmaQuick == {":", "=", "~", "\"", "a"}
ConvSigmaFull == SigmaFull \cup {"1"}
ConvSigmaQuick == {":", "=", "~", "a", "1"}
ListSigma4 == {"\"", ";", "=", "a"}
ListSigma5 == ListSigma4 \cup {"\\"}
CompsBoth == {<<>>, <<"dss">>}
Str(S, lo, hi) == UNION { [1..n -> S] : n \in lo..hi }

Matchers(S, nameLen, valLen, types) == [name : Str(S, 1, nameLen), type : types, value : Str(S, 0, valLen)]

PItemsOver(S) == [kind : {"P"}, blk : Blocks, name : Str(S, 1, MaxLen), value : Str(S, 0, MaxLen), comp : Comps]
EP1ItemsOver(S) == [kind : {"EP"}, blk : {CHOOSE b \in Blocks : TRUE}, comp : {<<>>},
                    ms : {<<>>} \cup { <<m>> : m \in Matchers(S, MaxLen, MaxLen, Types) }]
ListMatchers(valLen) == [name : {<<"a">>}, type : ListTypes, value : Str(ListSigma, 0, valLen)]
EP2Items == [kind : {"EP"}, blk : {CHOOSE b \in Blocks : TRUE}, comp : Comps,
             ms : { <<m>> : m \in ListMatchers(ListValLen) }
                  \cup { <<m1, m2>> : m1 \in ListMatchers(1), m2 \in ListMatchers(1) }]
SItems == [kind : {"S"}, blk : Blocks, id : { Dec(n) : n \in SeriesIds }]
RecvSigma == {"|", "=", "~", "a"}
RecvListMatchers == [name : {<<"a">>}, type : Types, value : Str(RecvSigma, 0, 1)]
RPItems == [kind : {"RP"}, blk : {CHOOSE b \in Blocks : TRUE},
            ms : {<<>>} \cup { <<m>> : m \in Matchers(RecvSigma, 1, RecvValLen, Types) }
                 \cup { <<m1, m2>> : m1 \in RecvListMatchers, m2 \in RecvListMatchers }]
MCItemsOver(S) == [kind : {"MC"}, name : Str(S, 1, MaxLen), type : Types, value : Str(S, 0, MaxLen)]

Items == PItemsOver(Sigma) \cup EP1ItemsOver(Sigma) \cup EP2Items \cup SItems \cup MCItemsOver(ConvSigma) \cup RPItems

(* ---- every item with its key; which keys are shared by different items -------------------- *)
(* evaluated once (constant level).  KI is sorted by TLC, so entries with the same             *)
(* <<cache, key>> are neighbours in KISeq: shared keys are found in one pass instead of by       *)
(* comparing all pairs (19 770 items = 2*10^8 pairs in the quick domain).  That the pass misses  *)
(* nothing does not rest on the order: ScanIsComplete compares it with the count.                *)
Entries == { [item |-> i, key |-> Key(i, Legacy)] : i \in Items }
KI == { <<Space(e.item), e.key, Ident(e.item)>> : e \in Entries }
KISeq == SetToSeq(KI)
SharedKeys == { <<KISeq[x][1], KISeq[x][2]>> : x \in { y \in 1..(Len(KISeq) - 1) :
                    KISeq[y][1] = KISeq[y + 1][1] /\ KISeq[y][2] = KISeq[y + 1][2] } }
AllSeparate == Cardinality(KI) = Cardinality({ <<t[1], t[2]>> : t \in KI })
ScanIsComplete == (SharedKeys = {}) <=> AllSeparate
ASSUME ScanIsComplete

VARIABLES cache            \* the entries stored so far (at most one)
vars == <<cache>>

Init == cache = {}
Store(e) == cache' = {e}
Next == cache = {} /\ \E e \in Entries : Store(e)        \* guard outside the quantifier (cost)
Spec == Init /\ [][Next]_vars

(* ---- C13 ---- *)
(* the different items whose lookup would be answered from entry e (evaluated on failure only) *)
Conflated(e) == { f.item : f \in { g \in Entries : g.key = e.key /\ Space(g.item) = Space(e.item)
                                                   /\ ~SameItem(g.item, e.item) } }
C13_NoConflation ==
    \A e \in cache :
        IF <<Space(e.item), e.key>> \in SharedKeys
          THEN PrintT(<<"COLLISION", e.key, {e.item} \cup Conflated(e)>>) /\ FALSE
          ELSE TRUE

(* ---- leg B: item groups for the real builders ------------------------------------------- *)
(* One group per GroupSyms-element subset T of the alphabet: every item over T of one key     *)
(* space.  All pairs inside a group are compared on the real code, and every pair of          *)
(* characters (triple, ...) of the alphabet occurs together in some group.                    *)
CasesFile == IF "VERIF_CASES" \in DOMAIN IOEnv THEN IOEnv.VERIF_CASES ELSE "cases.ndjson"
Subsets(S, n) == { T \in SUBSET S : Cardinality(T) = n }
IndexGroup(T) == PItemsOver(T) \cup EP1ItemsOver(T) \cup SItems
CaseSet ==
    { [space |-> "index", items |-> SetToSeq(IndexGroup(T))] : T \in Subsets(Sigma, GroupSyms) }
    \cup { [space |-> "conv", items |-> SetToSeq(MCItemsOver(T))] : T \in Subsets(ConvSigma, GroupSyms) }
    \cup { [space |-> "index", items |-> SetToSeq(EP2Items)] }
    \cup { [space |-> "recv", items |-> SetToSeq(RPItems)] }
ASSUME ndJsonSerialize(CasesFile, SetToSeq(CaseSet))

(* The algorithm-level keys pass the very judge leg C applies to the real keys (KeysSeparate), *)
(* on the conversion-cache groups and one index group handed to the harness.  (For all groups   *)
(* this follows from AllSeparate, the groups being subsets of Items; evaluating the operator on  *)
(* some of them links the two formulations.)                                                    *)
JudgedGroups == { c \in CaseSet : c.space = "conv" } \cup { CHOOSE c \in CaseSet : c.space = "index" }
GroupsJudgedOK == \A c \in JudgedGroups : KeysSeparate(c.items, [x \in DOMAIN c.items |-> Key(c.items[x], Legacy)])
ASSUME Legacy # {} \/ GroupsJudgedOK
=============================================================================
