\* C43 leg A thorough: the slices + the product tenant x query x engine x partial x replicas x step
SPECIFICATION Spec
CONSTANTS Big = TRUE
INVARIANTS BuilderAgrees C43_KeysSeparate KnownFindingsAreReal
CHECK_DEADLOCK FALSE
