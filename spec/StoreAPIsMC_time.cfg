\* C07/C08 leg A (time and multi-block dimension): stored names {a,b} x {x}, <=2 series each placed on
\* slots {0},{1},{0,1}; four request ranges (all, last sample of slot 0, the gap between the chunks,
\* from slot 1 on); head/first block with external labels {} or a="e", a second block with a="e";
\* replica lists over {a}; <=1 matcher over {a,b}; head and blocks placed independently.  ~1.1M states.
SPECIFICATION Spec
CONSTANTS SNames = {"a", "b"}
          SVals = {"x"}
          ENames = {"a"}
          EVals = {"e"}
          RNames = {"a"}
          MNames = {"a", "b"}
          MVals = {"x"}
          AltSeqs <- MC_AltOne
          MaxSeries = 2
          MaxMatchers = 1
          SlotSets = {{0}, {1}, {0, 1}}
          Ranges <- MC_Ranges
          TwoBlocks = TRUE
          W = 7200000
          KindSet = {"tsdb", "bucket", "proxy"}
          PromOpts <- MC_PromOptsFew
          TLabel = "r"
          TenantIds = {"x", "e"}
INVARIANTS C08_ExtLabelsOverride C08_ContradictionEmpty C08_AllContradictedNothing C08_PresentRefines
           C07_Covered C07_ReplicaLabelsDropped
CHECK_DEADLOCK FALSE
