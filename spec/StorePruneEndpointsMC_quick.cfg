\* C05 leg A (endpoint set) quick: 1 endpoint (strict or not; endpoints do not interact in Update), 3 advertisements,
\* timeout 5, any number of rounds of arbitrary environment change + clock step 1 or 5; every 40th two-round scenario
\* over 2 endpoints to the harness
SPECIFICATION Spec
CONSTANTS NEps = 1
          T = 5
          MaxRounds = 0
          CaseEps = 2
          CaseStride = 40
INVARIANTS C05_OfferedAndFresh C05_UpStoresContacted C05_UnhealthyNotOffered C05_TimedOutDropped
VIEW View
CHECK_DEADLOCK FALSE
