\* C27 leg A thorough (1): lists of <= 2 hashrings; patterns of length <= 2 over {a,*,?}, exact or glob;
\* tenants over {a,b} of length <= 2; 2 concurrent requests
SPECIFICATION Spec
CONSTANTS Alphabet = {"a", "*", "?"}
          Letters = {"a", "b"}
          MaxPatLen = 2
          MaxEntries = 2
          Procs = {1, 2}
INVARIANT C27_Routed
INVARIANT C27_FirstInOrder
INVARIANT C27_CacheSound
CHECK_DEADLOCK FALSE
