\* phase 2 leg A quick (native histograms): grid 0..4, <= 3 samples, histograms
\* <<count, sum, bucket>> in {<<1,2,1>>, <<2,1,2>>, <<3,5,3>>} (growth, reset, sum moving against count),
\* counter and gauge series, r1 = 2, r2 = 4, chunk counts {1,3} x {1,2}
SPECIFICATION Spec
CONSTANTS GridLen = 5
          MaxSamples = 3
          Vecs <- VecsDefault
          WithStale = FALSE
          R1 = 2
          Mults = {2}
          Counts1 = {1, 3}
          Counts2 = {1, 2}
          CaseSamples = 3
INVARIANTS H36_Exact H36_Done H38_TotalsConserved H38_Ordered H38_LastWindow HCtrGaugeIsLast StepsAgreeWithAlgo
PROPERTY AlwaysProgress
CHECK_DEADLOCK TRUE
