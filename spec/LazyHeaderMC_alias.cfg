\* C16, documentation of the known finding aliased-answer-after-unload (NOT run by bin/check): with
\* HoldAnswers = TRUE the invariant HeldAnswersReadable fails (call returns, sweep/Close unloads, caller
\* reads the aliasing answer).  1 reader x 1 call, 1 sweep.
SPECIFICATION Spec
CONSTANTS Readers = {"r1"}
          Calls = 1
          Sweeps = 1
          Closers = {}
          LoadMayFail = FALSE
          HoldAnswers = TRUE
INVARIANTS UseOnlyLoadedOpen NeverUseClosed ClosedOnlyUnused HeldAnswersReadable
CHECK_DEADLOCK TRUE
