------------------------------ MODULE C40Trace ------------------------------
(***************************************************************************)
(* Leg C for C40.  One trace line per executed case: overlapping aggregate *)
(* chunk series of one label set merged by dedup.NewChunkSeriesMerger.     *)
(*   in.aggs[a]     1 if every input chunk carries aggregate a over the    *)
(*                  timestamps of its count aggregate (a = 1 count, 2 sum, *)
(*                  3 min, 4 max, 5 counter)                               *)
(*   out[i].runs[a] timestamps of aggregate a in the i-th chunk of the     *)
(*                  result, run-length encoded as <<start, step, n>>       *)
(*   err            "" or the error / panic that ended the observation     *)
(* Judged with the property-level operator of ChunkMerge only.             *)
(***************************************************************************)
EXTENDS TraceLib, ChunkMerge

RunTimes(runs) == UNION { { runs[r][1] + i * runs[r][2] : i \in 0..(runs[r][3] - 1) } : r \in DOMAIN runs }
AggTimes(e, a) == UNION { RunTimes(e.out[i].runs[a]) : i \in DOMAIN e.out }

Clause == <<"count", "sum-has-every-count-timestamp", "min-has-every-count-timestamp",
            "max-has-every-count-timestamp", "counter-has-every-count-timestamp">>

Judge(e) ==
    (* the statement talks about the result of the merge: there must be one *)
    IF e.err # "" THEN {"merge-yields-a-result"} ELSE
    (* "every aggregate (count, sum, min, max, counter) of the result has a sample at each    *)
    (* timestamp where the merged count aggregate has one" - for the aggregates that every     *)
    (* input chunk carries, anywhere in the result (weakest reading: not chunk by chunk).      *)
    LET cnt == AggTimes(e, 1) IN
    { Clause[a] : a \in { a \in 2..5 : e.in.aggs[a] = 1 /\ ~HasEveryCountTimestamp(cnt, AggTimes(e, a)) } }

VARIABLE l
TraceInit == l = 1
TraceNext == /\ l <= TraceLen
             /\ CaseReject(l, Trace[l], Judge(Trace[l]))
             /\ l' = l + 1
TraceSpec == TraceInit /\ [][TraceNext]_l
TraceAccepted == TLCGet("stats").diameter = TraceLen + 1
=============================================================================
