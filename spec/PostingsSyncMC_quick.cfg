\* C10 leg A (block-set dynamics) quick: 4 blocks (two halves, their compaction, another stream), 5 selector sets,
\* upload / delete / compact / sync / query / evict, <= 4 steps
SPECIFICATION Spec
CONSTANTS MaxSteps = 4
INVARIANT C10_AnswerIsSelectionOverLoadedBlocks
INVARIANT LoadedFollowsBucketAtSync
CHECK_DEADLOCK FALSE
