------------------------------ MODULE C27Trace ------------------------------
(***************************************************************************)
(* Leg C for C27.  One trace line per multi-hashring configuration run on  *)
(* the REAL NewMultiHashring (every hashring has one endpoint of its own,  *)
(* so the hashring that served a request is visible in GetN's answer):     *)
(*   entries  the configured hashrings in order: [tenants = sequence of    *)
(*            patterns, each a sequence of characters (empty = default     *)
(*            hashring), glob = patterns are globs (else exact names)]     *)
(*   tn       per tenant: tc (name as characters), seen = the hashrings    *)
(*            (1-based index, 0 = "no matching hashring" error) that       *)
(*            answered its requests: three sequential calls on one         *)
(*            instance, and calls from many goroutines released together   *)
(*            on a second, fresh instance                                  *)
(* Statement: "Each tenant is served by the first configured hashring      *)
(* whose tenant list matches it exactly or by glob pattern, falling back   *)
(* to a hashring without a tenant list, and the choice does not change     *)
(* across repeated or concurrent requests."  A default hashring listed     *)
(* before a matching specific one: both readings are accepted (DESIGN 2.2, *)
(* Hashring!RouteAccepted).                                                *)
(***************************************************************************)
EXTENDS TraceLib, Hashring

(* Reload scenarios (in.kind = "reload"): a REAL ConfigWatcher + ConfigFromWatcher watch a temp  *)
(* file that the harness rewrites following a TLC-generated script (in.script: catalogue ids,   *)
(* 0 = content that does not load: empty file, broken / truncated JSON, empty list, endpoint     *)
(* without address; written in place, so the watcher may also see half-written content); every  *)
(* delivered configuration is built with the real NewMultiHashring and swapped into a holder    *)
(* (RWMutex, as Handler.Hashring does) while request goroutines keep asking GetN.               *)
(*   vers[k].entries  the configuration of catalogue id k                                       *)
(*   writes           contents written, in order (first = content at start)                     *)
(*   applied          catalogue ids put in force, in order                                      *)
(*   looks            distinct [ver, aver, aidx, tc]: version in force when the request read    *)
(*                    the holder; version and index of the hashring whose endpoint answered     *)
(*                    (aidx 0 = "no matching hashring")                                         *)
(*   noring           requests that found no hashring after the first one was in force          *)
(*   final_ok         the last content, if valid, was in force within 60 s (watcher period      *)
(*                    100 ms)                                                                    *)
IsReload(e) == "kind" \in DOMAIN e.in /\ e.in.kind = "reload"
JudgeReload(e) ==
    C27ReloadClauses(e.writes, e.applied, e.looks, e.noring, e.final_ok,
                     [v \in DOMAIN e.vers |-> e.vers[v].entries])

Judge(e) ==
    IF IsReload(e) THEN JudgeReload(e)
    ELSE IF ~e.built THEN {}
    ELSE UNION { C27Clauses(HSeqRange(e.tn[k].seen), e.entries, e.tn[k].tc) : k \in DOMAIN e.tn }

(* Model conformance (never a verdict): the code takes the first entry in order.  *)
Drift(e) == ~IsReload(e) /\ e.built /\ \E k \in DOMAIN e.tn :
                HSeqRange(e.tn[k].seen) # {RouteFirstInOrder(e.entries, e.tn[k].tc)}

VARIABLE l
TraceInit == l = 1
TraceNext == /\ l <= TraceLen
             /\ CaseReject(l, Trace[l], Judge(Trace[l]))
             /\ (IF Drift(Trace[l]) THEN PrintT(<<"DRIFT", l, Trace[l]["case"]>>) ELSE TRUE)
             /\ l' = l + 1
TraceSpec == TraceInit /\ [][TraceNext]_l
TraceAccepted == TLCGet("stats").diameter = TraceLen + 1
=============================================================================
