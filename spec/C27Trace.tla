------------------------------ MODULE C27Trace ------------------------------
(***************************************************************************)
(* Leg C for C27.  One trace line per multi-hashring configuration run on  *)
(* the REAL NewMultiHashring (every hashring has one endpoint of its own,  *)
(* so the hashring that served a request is visible in GetN's answer):     *)
(*   entries  the configured hashrings in order: [tenants = sequence of    *)
(*            patterns, each a sequence of characters (empty = default     *)
(*            hashring), glob = patterns are globs (else exact names)]     *)
(*   tn       per tenant: tc (name as characters), seen = the hashrings    *)
(*            (1-based index, 0 = "no matching hashring" error) that       *)
(*            answered its requests: three sequential calls on one         *)
(*            instance, and calls from many goroutines released together   *)
(*            on a second, fresh instance                                  *)
(* Statement: "Each tenant is served by the first configured hashring      *)
(* whose tenant list matches it exactly or by glob pattern, falling back   *)
(* to a hashring without a tenant list, and the choice does not change     *)
(* across repeated or concurrent requests."  A default hashring listed     *)
(* before a matching specific one: both readings are accepted (DESIGN 2.2, *)
(* Hashring!RouteAccepted).                                                *)
(***************************************************************************)
EXTENDS TraceLib, Hashring

Judge(e) ==
    IF ~e.built THEN {}
    ELSE UNION { C27Clauses(HSeqRange(e.tn[k].seen), e.entries, e.tn[k].tc) : k \in DOMAIN e.tn }

(* Model conformance (never a verdict): the code takes the first entry in order.  *)
Drift(e) == e.built /\ \E k \in DOMAIN e.tn :
                HSeqRange(e.tn[k].seen) # {RouteFirstInOrder(e.entries, e.tn[k].tc)}

VARIABLE l
TraceInit == l = 1
TraceNext == /\ l <= TraceLen
             /\ CaseReject(l, Trace[l], Judge(Trace[l]))
             /\ (IF Drift(Trace[l]) THEN PrintT(<<"DRIFT", l, Trace[l]["case"]>>) ELSE TRUE)
             /\ l' = l + 1
TraceSpec == TraceInit /\ [][TraceNext]_l
TraceAccepted == TLCGet("stats").diameter = TraceLen + 1
=============================================================================
