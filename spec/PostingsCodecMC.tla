--------------------------- MODULE PostingsCodecMC ---------------------------
(***************************************************************************)
(* Leg A for C12: the decoders' Next/Seek (one buffer, and streamed with   *)
(* chunk refills that can split a multi-byte varint) driven through every  *)
(* operation sequence of <= MaxOps calls on every sorted list of           *)
(* <= MaxLen values in 0..MaxVal, for every chunk size in ChunkSizes.      *)
(* One action per Next/Seek call; the operation history is not part of the *)
(* state, so TLC covers all op sequences by exploring the state graph.     *)
(***************************************************************************)
EXTENDS PostingsCodec, TLC, Json, IOUtils, SequencesExt
CONSTANTS MaxVal, MaxLen, MaxOps,
          ChunkSizes,        \* chunk sizes (in varint bytes) of the streamed codec; 0 = not streamed
          W2,                \* differences >= W2 need a 2-byte varint in the model
          CaseVal, CaseLen, CaseOps    \* bounds of the (list, op sequence) cases handed to the harness

RECURSIVE SortedSeqs(_, _, _)      \* non-decreasing sequences of length n over lo..hi
SortedSeqs(n, lo, hi) == IF n = 0 THEN {<<>>}
                         ELSE UNION { { <<x>> \o s : s \in SortedSeqs(n - 1, x, hi) } : x \in lo..hi }
ListsUpTo(n, hi) == UNION { SortedSeqs(m, 0, hi) : m \in 0..n }
OpsOver(hi) == {<<"n">>} \cup { <<"s", v>> : v \in 0..(hi + 1) }

VARIABLES list,      \* the original list
          cs,        \* chunk size of this behaviour
          it,        \* decoder under test (algorithm level)
          it0,       \* the same decoder fed from one buffer (cs = 0), run in lockstep
          S,         \* property level: possible abstract iterator states given the results so far
          nops, last \* number of calls so far; <<op, ret, at>> of the last call
vars == <<list, cs, it, it0, S, nops, last>>

Init == /\ list \in ListsUpTo(MaxLen, MaxVal)
        /\ cs \in ChunkSizes
        /\ it = AlgoOpen(list, W2, cs)
        /\ it0 = AlgoOpen(list, W2, 0)
        /\ S = Fresh
        /\ nops = 0
        /\ last = <<>>

Call(op) == LET r == AlgoStep(it, op, W2)
                r0 == AlgoStep(it0, op, W2)
            IN  /\ nops < MaxOps
                /\ it' = r.it
                /\ it0' = r0.it
                /\ S' = StepStates(Singletons(list), S, op, r.ret, r.it.cur)
                /\ last' = <<op, r.ret, r.it.cur, r0.ret, r0.it.cur>>
                /\ nops' = nops + 1
                /\ UNCHANGED <<list, cs>>
Next == \E op \in OpsOver(MaxVal) : Call(op)
Spec == Init /\ [][Next]_vars

(* -------- C12 as invariants of the algorithm -------- *)
(* every answer of the decoder is one the index.Postings contract allows on the original list *)
C12_SeekAndNextBehaveAsOnOriginal == S # {}
(* decoding (draining with Next) gives back the list *)
RECURSIVE Drain(_)
Drain(i) == LET r == AlgoNext(i, W2) IN IF r.ret THEN <<r.it.cur>> \o Drain(r.it) ELSE <<>>
C12_RoundTrip == nops = 0 => Drain(it) = list
(* chunking (and a varint split between two chunks) never changes an answer *)
ChunkingInvisible == last # <<>> => (last[2] = last[4] /\ last[3] = last[5])

(* -------- leg B -------- *)
CasesFile == IF "VERIF_CASES" \in DOMAIN IOEnv THEN IOEnv.VERIF_CASES ELSE "cases.ndjson"
RECURSIVE OpSeqs(_, _)
OpSeqs(n, ops) == IF n = 0 THEN {<<>>} ELSE {<<>>} \cup { <<o>> \o s : o \in ops, s \in OpSeqs(n - 1, ops) }
CaseSeq == SetToSeq({ [list |-> l, ops |-> o] : l \in ListsUpTo(CaseLen, CaseVal), o \in OpSeqs(CaseOps, OpsOver(CaseVal)) })
ASSUME ndJsonSerialize(CasesFile, CaseSeq)
=============================================================================
