\* C38/C37 leg A (batching of many input chunks) thorough: 1..30 input chunks, numChunks 1..6,
\* coarse window of 2, 3, 5 or 12 input samples: every remainder of len / batchSize
SPECIFICATION Spec
CONSTANTS MaxChunks = 30
          Counts = {1, 2, 3, 4, 5, 6}
          Widths = {2, 3, 5, 12}
INVARIANTS BatchesDisjoint BatchesNonEmpty BatchesCoverAll BatchesConsecutive
           C38_TotalsConserved C38_AllConsumed C38_Ordered C38_WithinSpan C38_LastWindow C37_Counter
           L2ChunksOrdered OutputCount StepsAgreeWithAlgo
PROPERTY AlwaysProgress
CHECK_DEADLOCK TRUE
