\* C44 leg A quick: 2 shards, worlds of <= 2 series, values {1,2}, ops sum/max, depth 1 + label_replace
SPECIFICATION Spec
CONSTANTS NShards = 2
          MaxSeries = 2
          Vals = {1, 2}
          Ops = {"sum", "max"}
          WithLrep = TRUE
          Depth2 = FALSE
INVARIANT C44_ShardedEqualsUnsharded
CHECK_DEADLOCK FALSE
