\* C44 leg A quick: 2 shards, worlds of <= 2 series, value 1, op sum, depth 1 + label_replace + by-chains of depth 3
SPECIFICATION Spec
CONSTANTS NShards = 2
          MaxSeries = 2
          Vals = {1}
          Ops = {"sum"}
          WithLrep = TRUE
          Depth2 = FALSE
          Depth3 = "by"
INVARIANT C44_ShardedEqualsUnsharded
CHECK_DEADLOCK FALSE
