\* (class A: whole-series frames only, class B: one chunk per frame; class D: downsampled chunks, res = 2)
\* C04 leg A quick: 3 grid points, <= 2 identical replicas, every cut into <= 2 (possibly overlapping) chunks on 2 stores,
\* steps 1 s / 10 s (initial penalty 5 s); two-series worlds (72); non-identical replicas on 2 grid points
SPECIFICATION Spec
CONSTANTS N = 3
          MaxRep = 2
          MaxChunks = 2
          Steps = {1000, 10000}
          NC = 2
          N3 = 0
          CaseCap = 1300
          FrameCuts = {0}
INVARIANTS ProxySortedUnique FramesRejoined ChainsDisjoint C04_OneSeriesPerLset C04_ExactWhenIdentical C04_Provenance OutIncreasing MaxResAsked
CHECK_DEADLOCK FALSE
