------------------------------ MODULE C29Trace ------------------------------
(***************************************************************************)
(* Leg C for C29 (step trace, one scenario = one case id).  Events:        *)
(*   case   header: in (scenario), orig[i] = [id, grp, toks] of the        *)
(*          original blocks (ids 1..n), ntok (tokens 1..ntok = every       *)
(*          original sample), ignoreDelay (store gateway, seconds)         *)
(*   Block  a block was complete in the bucket for the first time and was  *)
(*          read with the real TSDB reader: id, src (ids of its original   *)
(*          source blocks), toks (original samples found), extra (samples  *)
(*          that are no original sample of the group, or held twice),      *)
(*          unread ("" or why it could not be read)                        *)
(*   Mut    one bucket mutation that changed the bucket (op, name, kind)   *)
(*   Tick   time passed (deletion marks aged by `hours`)                   *)
(*   Quiet  a compactor run returned (err, crashed = it ran into the       *)
(*          injected outage / the process was killed)                      *)
(*   End    end of the scenario; sg = ids the REAL store-gateway fetcher   *)
(*          selects                                                        *)
(* Every event carries `gw` (what real store gateways serve, <<>> when the *)
(* scenario runs without them) and                                         *)
(* `blocks`: the bucket as observable right after it                       *)
(* (records id, grp, src, meta, complete, markAge in seconds or -1).       *)
(* Judged with the property-level operators of Compaction.tla only.        *)
(***************************************************************************)
EXTENDS TraceLib, Compaction

VARIABLES l, smp, uni, ign
tvars == <<l, smp, uni, ign>>

TraceInit == l = 1 /\ smp = <<>> /\ uni = {} /\ ign = 0

BlocksOf(e) == { [id |-> b.id, grp |-> b.grp, src |-> Range(b.src), meta |-> b.meta, complete |-> b.complete, markAge |-> b.markAge] :
                   b \in Range(e.blocks) }
SmpOf(i) == IF i \in DOMAIN smp THEN smp[i] ELSE {}
SmpFor(B) == [i \in { b.id : b \in B } |-> SmpOf(i)]

(* clauses judged on the bucket as it is after any event *)
StateClauses(e) ==
    LET B == BlocksOf(e) IN
    (* "at every moment the blocks a store gateway would serve still contain every original sample" *)
    (IF AllServed(B, ign, SmpFor(B), uni) THEN {} ELSE {"every-original-sample-served-at-every-moment"})
    (* "once compaction finishes each sample is served exactly once": a run that returned without error *)
    \cup (IF e.ev = "Quiet" /\ e.err = "" /\ ~e.crashed /\ ~ExactlyOnce(B, ign, SmpFor(B), uni)
            THEN {"each-sample-served-exactly-once-after-compaction"} ELSE {})
    (* phase 2: the same two sentences judged on what REAL store gateways (store.BucketStore on the same bucket)  *)
    (* return from Series: gw[k] = [name, lagging, counts (how often each original sample came back), extra, err]. *)
    (* "lagging" gateways sync only when time passes (at least every 23 h), the other one after every mutation     *)
    (* and is restarted (fresh BucketStore) after every compactor run.                                             *)
    \cup (IF \A g \in Range(e.gw) : g.err = "" /\ \A x \in uni : g.counts[x] >= 1 THEN {}
            ELSE {"real-gateway-serves-every-original-sample-at-every-moment"})
    \cup (IF \A g \in Range(e.gw) : g.extra = 0 THEN {} ELSE {"real-gateway-serves-no-invented-sample"})
    \cup (IF e.ev = "Quiet" /\ e.err = "" /\ ~e.crashed
             /\ \E g \in Range(e.gw) : ~g.lagging /\ g.err = "" /\ \E x \in uni : g.counts[x] # 1
            THEN {"real-gateway-serves-each-sample-exactly-once-after-compaction"} ELSE {})

(* "Compacting a group of blocks produces blocks holding exactly the samples of the sources"; never invents *)
BlockClauses(e) ==
    LET want == UNION { SmpOf(s) : s \in Range(e.src) } IN
    (IF e.unread = "" /\ Range(e.toks) = want THEN {} ELSE {"result-holds-exactly-the-samples-of-its-sources"})
    \cup (IF e.extra = 0 THEN {} ELSE {"no-invented-or-duplicated-samples"})

Step ==
    /\ l <= TraceLen
    /\ LET e == Trace[l] IN
       /\ IF e.ev = "case"
            THEN /\ smp' = [i \in 1..Len(e.orig) |-> Range(e.orig[i].toks)]
                 /\ uni' = 1..e.ntok /\ ign' = e.ignoreDelay
            ELSE IF e.ev = "Block"
              THEN /\ CaseReject(l, e, BlockClauses(e))
                   /\ smp' = [i \in DOMAIN smp \cup {e.id} |-> IF i = e.id THEN Range(e.toks) ELSE SmpOf(i)]
                   /\ UNCHANGED <<uni, ign>>
            ELSE /\ CaseReject(l, e, StateClauses(e))
                 /\ (IF \/ e.ev = "End" /\ Range(e.sg) # { b.id : b \in SGServes(BlocksOf(e), ign) }
                        (* the gateway that follows every mutation serves what the model computes from the snapshot: a sample   *)
                        (* comes back iff a served block holds it, and at most as often as served blocks hold it (BucketStore  *)
                        (* drops identical chunks of overlapping blocks, so replicas' identical samples may come back once)    *)
                        \/ \E g \in Range(e.gw) : ~g.lagging /\ g.err = "" /\
                              \E x \in uni : LET m == ServedCount(BlocksOf(e), ign, SmpFor(BlocksOf(e)), x) IN
                                               (g.counts[x] = 0) # (m = 0) \/ g.counts[x] > m
                       THEN PrintT(<<"DRIFT", l, e["case"]>>) ELSE TRUE)
                 /\ UNCHANGED <<smp, uni, ign>>
    /\ l' = l + 1

TraceSpec == TraceInit /\ [][Step]_tvars
TraceAccepted == TLCGet("stats").diameter = TraceLen + 1
=============================================================================
