\* C01 leg A thorough, 3 replicas (dd(dd(r1,r2),r3)): all subsets of at most 3 points of a 5-point grid
\* (26^3 = 17 576 layouts + 26 identical), 4 seek targets
SPECIFICATION Spec
CONSTANTS InitPen = 5
          Grid = {0, 1, 6, 11, 17}
          NumReps = 3
          MaxLen = 3
          Ctr = FALSE
          Starts = {0}
          Incs = {0}
          Targets = {0, 5, 11, 18}
          EmitMod = 1
INVARIANTS C01_StrictlyIncreasing C01_FromSomeReplica C01_UnchangedIfIdentical C01_SeekIsSuffix
           StepwiseEqualsFunctional BoundedOutput OnlyDoneIsFinal
CHECK_DEADLOCK FALSE
