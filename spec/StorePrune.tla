------------------------------ MODULE StorePrune ------------------------------
(***************************************************************************)
(* Store pruning of the proxy (pkg/store/proxy.go: matchingStores,         *)
(* storeMatches, LabelSetsMatch).                                          *)
(*                                                                         *)
(* Vocabulary (integers stand for strings; value 0 is the empty string =   *)
(* "label absent"):                                                        *)
(*   label set   sequence of <<name, value>> pairs, value > 0              *)
(*   store       [lsets, smin, smax]: the external label sets it           *)
(*               advertises (possibly none) and its time range             *)
(*   matcher     [name, type, val, re]: type "EQ" | "NEQ" (uses val) or    *)
(*               "RE" | "NRE" (uses re = [kind, alts]: kind "any" (dot-star),     *)
(*               "nonempty" (dot-plus), "set" (alternation of the literals alts, *)
(*               0 = the empty alternative))                               *)
(*   query       [matchers, qmin, qmax]                                    *)
(***************************************************************************)
EXTENDS Integers, Sequences, FiniteSets

SPRng(s) == { s[i] : i \in DOMAIN s }

(* ---------------- matcher semantics (Prometheus labels.Matcher) ---------------- *)
ReMatches(re, v) ==
    CASE re.kind = "any" -> TRUE
      [] re.kind = "nonempty" -> v # 0
      [] re.kind = "set" -> v \in SPRng(re.alts)
Matches(m, v) ==
    CASE m.type = "EQ" -> v = m.val
      [] m.type = "NEQ" -> v # m.val
      [] m.type = "RE" -> ReMatches(m.re, v)
      [] m.type = "NRE" -> ~ReMatches(m.re, v)

Names(ls) == { ls[i][1] : i \in DOMAIN ls }
ValueOf(ls, n) == IF n \in Names(ls) THEN (CHOOSE p \in SPRng(ls) : p[1] = n)[2] ELSE 0

(* ======================= property level ======================= *)
(* "that store holds no series that matches the query's selectors within the query's time    *)
(* range".  What a store may hold: any series that carries all labels of one of its           *)
(* advertised label sets (any series at all if it advertises none), with samples anywhere in  *)
(* its advertised time range.  A series is a total assignment of values to label names; only  *)
(* the names and values the case mentions, the empty value and one fresh value matter.         *)
ValuesIn(st, q) ==
    {0} \cup UNION { { p[2] : p \in SPRng(ls) } : ls \in SPRng(st.lsets) }
        \cup { q.matchers[i].val : i \in DOMAIN q.matchers }
        \cup UNION { SPRng(q.matchers[i].re.alts) : i \in DOMAIN q.matchers }
Fresh(S) == (CHOOSE x \in S : \A y \in S : y <= x) + 1
Vals(st, q) == ValuesIn(st, q) \cup {Fresh(ValuesIn(st, q))}

MatchersOn(q, n) == { q.matchers[i] : i \in { j \in DOMAIN q.matchers : q.matchers[j].name = n } }
MatcherNames(q) == { q.matchers[i].name : i \in DOMAIN q.matchers }

(* some series carrying the labels ls satisfies every selector *)
SeriesWithLabelsMatches(ls, st, q) ==
    \A n \in MatcherNames(q) :
        IF n \in Names(ls)
          THEN \A m \in MatchersOn(q, n) : Matches(m, ValueOf(ls, n))
          ELSE \E v \in Vals(st, q) : \A m \in MatchersOn(q, n) : Matches(m, v)
MayHoldMatchingSeries(st, q) ==
    IF st.lsets = <<>> THEN SeriesWithLabelsMatches(<<>>, st, q)
    ELSE \E ls \in SPRng(st.lsets) : SeriesWithLabelsMatches(ls, st, q)
RangesOverlap(st, q) == q.qmin <= st.smax /\ q.qmax >= st.smin
MayHoldMatchingData(st, q) == RangesOverlap(st, q) /\ MayHoldMatchingSeries(st, q)

(* the clause of C05 *)
C05Clauses(st, q, queried) ==
    IF ~queried /\ MayHoldMatchingData(st, q) THEN {"skipped-store-holds-no-matching-data"} ELSE {}

(* ======================= algorithm level ======================= *)
(* LabelSetsMatch: for each label set, the loop over the matchers breaks at the first matcher  *)
(* whose label is present in the set (ls.Has) and whose value does not match                   *)
RECURSIVE NoMatcherRejects(_, _, _)
NoMatcherRejects(ms, i, ls) ==
    IF i > Len(ms) THEN TRUE
    ELSE IF ms[i].name \in Names(ls) /\ ~Matches(ms[i], ValueOf(ls, ms[i].name)) THEN FALSE
    ELSE NoMatcherRejects(ms, i + 1, ls)
RECURSIVE SomeLabelSetMatches(_, _, _)
SomeLabelSetMatches(ms, lsets, k) ==
    IF k > Len(lsets) THEN FALSE
    ELSE IF NoMatcherRejects(ms, 1, lsets[k]) THEN TRUE
    ELSE SomeLabelSetMatches(ms, lsets, k + 1)
LabelSetsMatch(ms, lsets) == IF lsets = <<>> THEN TRUE ELSE SomeLabelSetMatches(ms, lsets, 1)
(* storeMatches: time test first, then the label sets *)
StoreMatches(st, q) ==
    IF q.qmin > st.smax \/ q.qmax < st.smin THEN FALSE
    ELSE LabelSetsMatch(q.matchers, st.lsets)
=============================================================================
