------------------------------ MODULE StorePrune ------------------------------
(***************************************************************************)
(* Store pruning of the proxy (pkg/store/proxy.go: matchingStores,         *)
(* storeMatches, LabelSetsMatch).                                          *)
(*                                                                         *)
(* Vocabulary (integers stand for strings; value 0 is the empty string =   *)
(* "label absent"):                                                        *)
(*   label set   sequence of <<name, value>> pairs, value > 0              *)
(*   store       [lsets, smin, smax]: the external label sets it           *)
(*               advertises (possibly none) and its time range             *)
(*   matcher     [name, type, val, re]: type "EQ" | "NEQ" (uses val) or    *)
(*               "RE" | "NRE" (uses re = [kind, alts]: kind "any" (dot-star),     *)
(*               "nonempty" (dot-plus), "set" (alternation of the literals alts, *)
(*               0 = the empty alternative))                               *)
(*   query       [matchers, qmin, qmax]                                    *)
(***************************************************************************)
EXTENDS Integers, Sequences, FiniteSets

SPRng(s) == { s[i] : i \in DOMAIN s }

(* ---------------- matcher semantics (Prometheus labels.Matcher) ---------------- *)
ReMatches(re, v) ==
    CASE re.kind = "any" -> TRUE
      [] re.kind = "nonempty" -> v # 0
      [] re.kind = "set" -> v \in SPRng(re.alts)
Matches(m, v) ==
    CASE m.type = "EQ" -> v = m.val
      [] m.type = "NEQ" -> v # m.val
      [] m.type = "RE" -> ReMatches(m.re, v)
      [] m.type = "NRE" -> ~ReMatches(m.re, v)

Names(ls) == { ls[i][1] : i \in DOMAIN ls }
ValueOf(ls, n) == IF n \in Names(ls) THEN (CHOOSE p \in SPRng(ls) : p[1] = n)[2] ELSE 0

(* ======================= property level ======================= *)
(* "that store holds no series that matches the query's selectors within the query's time    *)
(* range".  What a store may hold: any series that carries all labels of one of its           *)
(* advertised label sets (any series at all if it advertises none), with samples anywhere in  *)
(* its advertised time range.  A series is a total assignment of values to label names; only  *)
(* the names and values the case mentions, the empty value and one fresh value matter.         *)
ValuesIn(st, q) ==
    {0} \cup UNION { { p[2] : p \in SPRng(ls) } : ls \in SPRng(st.lsets) }
        \cup { q.matchers[i].val : i \in DOMAIN q.matchers }
        \cup UNION { SPRng(q.matchers[i].re.alts) : i \in DOMAIN q.matchers }
Fresh(S) == (CHOOSE x \in S : \A y \in S : y <= x) + 1
Vals(st, q) == ValuesIn(st, q) \cup {Fresh(ValuesIn(st, q))}

MatchersOn(q, n) == { q.matchers[i] : i \in { j \in DOMAIN q.matchers : q.matchers[j].name = n } }
MatcherNames(q) == { q.matchers[i].name : i \in DOMAIN q.matchers }

(* some series carrying the labels ls satisfies every selector *)
SeriesWithLabelsMatches(ls, st, q) ==
    \A n \in MatcherNames(q) :
        IF n \in Names(ls)
          THEN \A m \in MatchersOn(q, n) : Matches(m, ValueOf(ls, n))
          ELSE \E v \in Vals(st, q) : \A m \in MatchersOn(q, n) : Matches(m, v)
MayHoldMatchingSeries(st, q) ==
    IF st.lsets = <<>> THEN SeriesWithLabelsMatches(<<>>, st, q)
    ELSE \E ls \in SPRng(st.lsets) : SeriesWithLabelsMatches(ls, st, q)
RangesOverlap(st, q) == q.qmin <= st.smax /\ q.qmax >= st.smin
MayHoldMatchingData(st, q) == RangesOverlap(st, q) /\ MayHoldMatchingSeries(st, q)

(* the clause of C05 *)
C05Clauses(st, q, queried) ==
    IF ~queried /\ MayHoldMatchingData(st, q) THEN {"skipped-store-holds-no-matching-data"} ELSE {}

(* ======================= algorithm level ======================= *)
(* LabelSetsMatch: for each label set, the loop over the matchers breaks at the first matcher  *)
(* whose label is present in the set (ls.Has) and whose value does not match                   *)
RECURSIVE NoMatcherRejects(_, _, _)
NoMatcherRejects(ms, i, ls) ==
    IF i > Len(ms) THEN TRUE
    ELSE IF ms[i].name \in Names(ls) /\ ~Matches(ms[i], ValueOf(ls, ms[i].name)) THEN FALSE
    ELSE NoMatcherRejects(ms, i + 1, ls)
RECURSIVE SomeLabelSetMatches(_, _, _)
SomeLabelSetMatches(ms, lsets, k) ==
    IF k > Len(lsets) THEN FALSE
    ELSE IF NoMatcherRejects(ms, 1, lsets[k]) THEN TRUE
    ELSE SomeLabelSetMatches(ms, lsets, k + 1)
LabelSetsMatch(ms, lsets) == IF lsets = <<>> THEN TRUE ELSE SomeLabelSetMatches(ms, lsets, 1)
(* storeMatches: time test first, then the label sets *)
StoreMatches(st, q) ==
    IF q.qmin > st.smax \/ q.qmax < st.smin THEN FALSE
    ELSE LabelSetsMatch(q.matchers, st.lsets)

(* ======================= endpoint set in front of the proxy ======================= *)
(* (pkg/query/endpointset.go: EndpointSet.Update, getTimedOutRefs, GetStoreClients.)               *)
(* A scenario is a sequence of rounds.  In a round the environment is set (per endpoint e:         *)
(* env[e] = [inspec, up, m]: listed in the endpoint specs, its Info call succeeds, it advertises  *)
(* metas[m]), the clock advances by dt, EndpointSet.Update runs, then one query is sent through a *)
(* ProxyStore over GetStoreClients().  strict[e] is fixed per scenario.                            *)
FarPast == 0 - 1000000
FarFuture == 1000000
AnyStore == [lsets |-> <<>>, smin |-> FarPast, smax |-> FarFuture]   \* nothing advertised: may hold anything

(* ---- property level ---- *)
(* clients = the stores the endpoint set offers after the round's Update, as a sequence of        *)
(* [e, lsets, smin, smax].                                                                        *)
ClientEps(clients) == { clients[i].e : i \in DOMAIN clients }
ClientOf(clients, e) == CHOOSE c \in SPRng(clients) : c.e = e
NonEmpty(lsets) == { ls \in SPRng(lsets) : ls # <<>> }        \* an empty label set is not an advertisement
SameAdvert(c, st) == NonEmpty(c.lsets) = NonEmpty(st.lsets) /\ c.smin = st.smin /\ c.smax = st.smax
UpdateClauses(strict, metas, env, clients) ==
    (* a discovered store that answers must be offered for querying ... *)
    (IF \A e \in DOMAIN env : (env[e].inspec /\ env[e].up) => e \in ClientEps(clients)
       THEN {} ELSE {"healthy-endpoint-offered"})
    \cup
    (* ... with what it advertises now (pruning on an outdated advertisement skips a store that   *)
    (* holds matching data)                                                                        *)
    (IF \A e \in DOMAIN env : (env[e].inspec /\ env[e].up /\ e \in ClientEps(clients))
                                  => SameAdvert(ClientOf(clients, e), metas[env[e].m])
       THEN {} ELSE {"advertisement-refreshed"})
    \cup
    (* a strict endpoint is never dropped while it is listed *)
    (IF \A e \in DOMAIN env : (env[e].inspec /\ strict[e]) => e \in ClientEps(clients)
       THEN {} ELSE {"strict-endpoint-kept"})

(* advs[e] = the set of advertisements endpoint e has given in successful refreshes so far.       *)
(* A store that answered the last refresh must be contacted if it may hold matching data per its  *)
(* current advertisement; a strict store that did not answer must be contacted unless every       *)
(* advertisement it ever gave excludes matching data (never advertised: always).                  *)
MustContact(strict, metas, env, advs, e, q) ==
    /\ env[e].inspec
    /\ IF env[e].up THEN MayHoldMatchingData(metas[env[e].m], q)
       ELSE strict[e] /\ \A m \in advs[e] : MayHoldMatchingData(metas[m], q)
QueryClauses(strict, metas, env, advs, q, contacted) ==
    IF \A e \in DOMAIN env : MustContact(strict, metas, env, advs, e, q) => e \in SPRng(contacted)
      THEN {} ELSE {"skipped-store-holds-no-matching-data"}
AdvsAfter(env, advs) == [e \in DOMAIN env |-> IF env[e].inspec /\ env[e].up THEN advs[e] \cup {env[e].m} ELSE advs[e]]

(* ---- algorithm level: EndpointSet.Update as a function on the refs ---- *)
(* ref = [present, created, lastcheck (-1 = zero time: never), err, meta (0 = none: max range)]   *)
NoRef == [present |-> FALSE, created |-> 0, lastcheck |-> 0 - 1, err |-> FALSE, meta |-> 0]
RefAfterUpdate(ref, strictE, envE, now, T) ==
    IF ~envE.inspec THEN NoRef                                       \* not listed any more: stale, closed
    ELSE IF ref.present
      THEN LET r == IF envE.up THEN [ref EXCEPT !.meta = envE.m, !.lastcheck = now, !.err = FALSE]
                    ELSE [ref EXCEPT !.err = TRUE]                    \* metadata of the previous state is kept
               timedOut == ~strictE /\ now - r.created >= T
                           /\ (r.lastcheck < 0 \/ now - r.lastcheck >= T)
           IN IF timedOut THEN NoRef ELSE r
    ELSE IF envE.up THEN [present |-> TRUE, created |-> now, lastcheck |-> now, err |-> FALSE, meta |-> envE.m]
    ELSE IF strictE THEN [present |-> TRUE, created |-> now, lastcheck |-> 0 - 1, err |-> TRUE, meta |-> 0]
    ELSE NoRef                                                       \* not queryable: closed at once
Queryable(ref, strictE) == ref.present /\ (strictE \/ ~ref.err)
(* endpointRef.labelSets() drops empty label sets from the advertisement (known finding          *)
(* endpoint-drops-empty-labelset: with an empty and a non-empty label set advertised together the *)
(* store is then pruned on the non-empty ones alone)                                              *)
RefStore(ref, metas) == IF ref.meta = 0 THEN AnyStore
                        ELSE [metas[ref.meta] EXCEPT !.lsets = SelectSeq(@, LAMBDA ls : ls # <<>>)]
AlgoClients(refs, strict) == { e \in DOMAIN refs : Queryable(refs[e], strict[e]) }
AlgoContacted(refs, strict, metas, q) == { e \in AlgoClients(refs, strict) : StoreMatches(RefStore(refs[e], metas), q) }
=============================================================================
