----------------------------- MODULE ReadPathMC -----------------------------
(***************************************************************************)
(* Leg A for C04: the read path as a pipeline of stages (one action per    *)
(* stage: stores answer -> proxy merges -> overlap split -> chunk          *)
(* iterators -> penalty dedup), run for every small world x configuration. *)
(* Series level: label sets are ordered like labels.Compare; the proxy     *)
(* k-way merges the (sorted) store streams and joins ADJACENT equal label  *)
(* sets, the querier's dedup set joins ADJACENT equal label sets.          *)
(* Sample level: operators of ReadPath.                                    *)
(*                                                                         *)
(* Constants: N grid points per series, MaxRep replicas, MaxChunks chunks  *)
(* per replica, Steps (ms per grid point; 5000 ms is the initial penalty), *)
(* Stores = {1,2}.  Worlds: class A = identical replicas, every cut (with  *)
(* overlapping chunks) and placement; class B = two logical series whose   *)
(* distinguishing label sorts before ("a") or after ("z") the replica      *)
(* labels, replica labels drawn from {r, s}; class C = two non-identical   *)
(* replicas (gaps, offset, own values).                                    *)
(***************************************************************************)
EXTENDS ReadPath, FiniteSetsExt, Json, IOUtils
CONSTANTS N, MaxRep, MaxChunks, Steps, NC, N3, CaseCap, FrameCuts

Stores == {1, 2}
Names == {"a", "r", "s", "z"}
NameRank == [a |-> 1, r |-> 2, s |-> 3, z |-> 4]
ValRank == ("1" :> 1) @@ ("2" :> 2) @@ ("3" :> 3) @@ ("x" :> 9)

(* ---- labels.Compare ---- *)
LSeq(l) == LET ns == SetToSortSeq(DOMAIN l, LAMBDA p, q : NameRank[p] < NameRank[q])
           IN [i \in DOMAIN ns |-> <<NameRank[ns[i]], ValRank[l[ns[i]]]>>]
RECURSIVE SeqLess(_, _)
SeqLess(x, y) ==
    IF x = <<>> THEN y # <<>>
    ELSE IF y = <<>> THEN FALSE
    ELSE IF Head(x)[1] # Head(y)[1] THEN Head(x)[1] < Head(y)[1]
    ELSE IF Head(x)[2] # Head(y)[2] THEN Head(x)[2] < Head(y)[2]
    ELSE SeqLess(Tail(x), Tail(y))
LsetLess(x, y) == SeqLess(LSeq(x), LSeq(y))

(* ---- worlds ---- *)
Intervals(n) == { iv \in (1..n) \X (1..n) : iv[1] <= iv[2] }
Covers(S, n) == UNION { iv[1]..iv[2] : iv \in S } = 1..n
CutSets(n, k) == { S \in UNION { kSubset(j, Intervals(n)) : j \in { j \in 1..k : j <= Cardinality(Intervals(n)) } } : Covers(S, n) }
IvLess(p, q) == p[1] < q[1] \/ (p[1] = q[1] /\ p[2] < q[2])
(* a replica's chunk list: every cut of positions 1..n into <= k chunks, each on a store *)
ChunkLists(n, k) ==
    UNION { LET cs == SetToSortSeq(S, IvLess) IN
            { [i \in DOMAIN cs |-> [lo |-> cs[i][1], hi |-> cs[i][2], st |-> p[i]]] : p \in [DOMAIN cs -> Stores] }
          : S \in CutSets(n, k) }
Disjoint(cl) == \A i, j \in DOMAIN cl : i < j => cl[i].hi < cl[j].lo

Rep(g, id, rl, off, own, pts, chunks) ==
    [g |-> g, id |-> id, rl |-> rl, off |-> off, own |-> own, pts |-> pts, chunks |-> chunks]
GridSeq == [i \in 1..N |-> i]

(* class A: identical replicas of one series; replica order is immaterial: only sorted choices *)
ARepOpts == ChunkLists(N, MaxChunks)
AOptSeq == SetToSeq(ARepOpts)
AWorlds ==
    { [step |-> st, shape |-> "a",
       reps |-> [i \in DOMAIN ix |-> Rep(1, i, "r", 0, FALSE, GridSeq, AOptSeq[ix[i]])]]
      : st \in Steps,
        ix \in { s \in UNION { [1..n -> 1..Len(AOptSeq)] : n \in 1..MaxRep } :
                    \A i, j \in DOMAIN s : i < j => s[i] <= s[j] } }

(* class A3 (N3 > 0): three identical replicas, cuts without overlap *)
A3Opts == IF N3 = 0 THEN <<>> ELSE SetToSeq({ cl \in ChunkLists(N3, 2) : Disjoint(cl) })
A3Worlds ==
    { [step |-> st, shape |-> "a",
       reps |-> [i \in 1..3 |-> Rep(1, i, "r", 0, FALSE, [k \in 1..N3 |-> k], A3Opts[ix[i]])]]
      : st \in Steps,
        ix \in { s \in [1..3 -> 1..Len(A3Opts)] : s[1] <= s[2] /\ s[2] <= s[3] } }

(* class B: two logical series x replica label patterns x placement *)
BCuts == { cl \in ChunkLists(2, 2) : Disjoint(cl) }
BWorlds ==
    { [step |-> 10000, shape |-> sh,
       reps |-> << Rep(1, 1, pat[1], 0, FALSE, <<1, 2>>, c1),
                   Rep(1, 2, pat[2], 0, FALSE, <<1, 2>>, <<[lo |-> 1, hi |-> 2, st |-> 2]>>),
                   Rep(2, 1, pat[3], 0, FALSE, <<1, 2>>, <<[lo |-> 1, hi |-> 2, st |-> s3]>>),
                   Rep(2, 3, pat[4], 0, FALSE, <<1, 2>>, <<[lo |-> 1, hi |-> 2, st |-> 2]>>) >>]
      : sh \in {"a", "z"}, c1 \in BCuts, s3 \in Stores,
        pat \in { <<"r", "r", "r", "r">>, <<"r", "s", "rs", "s">>, <<"rs", "rs", "r", "rs">> } }

(* class C: two non-identical replicas: own values, gaps, offset *)
PtsSeqs == { SetToSortSeq(S, <) : S \in (SUBSET (1..NC)) \ {{}} }
CChunks(n, st) == { cl \in ChunkLists(n, 2) : Disjoint(cl) /\ \A i \in DOMAIN cl : cl[i].st = st }
CWorlds ==
    UNION { { [step |-> st, shape |-> "a",
               reps |-> << Rep(1, 1, "r", 0, TRUE, p1, c1), Rep(1, 2, "r", off, TRUE, p2, c2) >>]
              : st \in Steps, off \in {0, 300}, c1 \in CChunks(Len(p1), 1), c2 \in CChunks(Len(p2), 2) }
          : p1 \in PtsSeqs, p2 \in PtsSeqs }

(* class D (phase 2): one logical series of 4 grid points = 2 downsampling windows (res = 2), 1..2 identical  *)
(* replicas, window-aligned cuts ([1..4] on store 1, or [1..2] on store 1 + [3..4] on store 2), every chunk held *)
(* downsampled or not                                                                                            *)
DChunkLists ==
    { <<[lo |-> 1, hi |-> 4, st |-> 1, ds |-> d]>> : d \in BOOLEAN } \cup
    { <<[lo |-> 1, hi |-> 2, st |-> 1, ds |-> d1], [lo |-> 3, hi |-> 4, st |-> 2, ds |-> d2]>> : d1 \in BOOLEAN, d2 \in BOOLEAN }
DOptSeq == SetToSeq(DChunkLists)
DWorlds ==
    { [step |-> 10000, shape |-> "a", res |-> 2,
       reps |-> [i \in DOMAIN ix |-> Rep(1, i, "r", 0, FALSE, <<1, 2, 3, 4>>, DOptSeq[ix[i]])]]
      : ix \in { s \in UNION { [1..n -> 1..Len(DOptSeq)] : n \in 1..2 } : \A i, j \in DOMAIN s : i < j => s[i] <= s[j] } }
WRes(w) == IF "res" \in DOMAIN w THEN w.res ELSE 0
ValMul(w) == IF WRes(w) > 0 THEN 60 ELSE 1       \* multiples of 60: sum/count stays integral

(* ---- concretisation (the harness does the same with realistic label names / base time) ---- *)
Str(i) == ToString(i)
RepLbls(w, r) ==
    (IF w.shape = "a" THEN [a |-> Str(r.g)] ELSE [z |-> Str(r.g)]) @@
    (CASE r.rl = "r"  -> [r |-> Str(r.id)]
       [] r.rl = "s"  -> [s |-> Str(r.id)]
       [] r.rl = "rs" -> [r |-> Str(r.id), s |-> "x"])
Concrete(w) ==
    { [lbls |-> RepLbls(w, r), id |-> 10 * r.g + r.id,
       samples |-> [i \in DOMAIN r.pts |->
                      <<r.pts[i] * w.step + r.off, ValMul(w) * (IF r.own THEN 1000 * r.id + r.pts[i] ELSE r.pts[i])>>],
       off |-> r.off,
       chunks |-> r.chunks] : r \in RangeOf(w.reps) }
(* chunks get their downsampled form (ds chunks of class D) *)
WithAgg(w, R) ==
    { [r EXCEPT !.chunks = [k \in DOMAIN r.chunks |->
         LET c == r.chunks[k]  d == IF "ds" \in DOMAIN c THEN c.ds ELSE FALSE IN
         [lo |-> c.lo, hi |-> c.hi, st |-> c.st, ds |-> d,
          agg |-> IF d THEN AggForm(SubSeq(r.samples, c.lo, c.hi), WRes(w), w.step, r.off) ELSE NoAgg]]] : r \in R }

(* ---- state ---- *)
VARIABLES world,     \* abstract world (as serialised for the harness)
          reps,      \* its concrete replica series
          cfg,       \* [dedup, rls, strip, lo, hi, scope, frame, fn, maxres, rng]
          stage,     \* "stores" | "proxy" | "split" | "iter" | "dedup" | "done"
          streams,   \* store -> sequence of [lbls, chunks (set)]   what each store sent
          series,    \* sequence of [lbls, chunks (sequence)]       proxy output, then overlap-split output
          iters,     \* sequence of [lbls, samples]                 one per (split) series
          out        \* sequence of [lbls, samples]                 the Select result
vars == <<world, reps, cfg, stage, streams, series, iters, out>>

RL == IF cfg.dedup THEN cfg.rls ELSE {}

WholeRange == [lo |-> 0, hi |-> 100000000]
SubRange(w, n) == [lo |-> 2 * w.step, hi |-> (n - 1) * w.step + 300]

CfgsBase(w, cls) ==
    CASE cls = "A" -> { c \in
                      { [dedup |-> d, rls |-> {"r", "s"}, strip |-> [s \in Stores |-> s = 1], lo |-> rg.lo, hi |-> rg.hi,
                         scope |-> Stores, frame |-> f]
                        : d \in BOOLEAN, rg \in {WholeRange, SubRange(w, N)}, f \in FrameCuts }
                      : /\ c.frame = 0 \/ c.lo = WholeRange.lo      \* one chunk per frame: whole range only
                        /\ c.dedup \/ w.step = 10000 }              \* the time scale matters to the penalty dedup only
      [] cls = "A3" -> { [dedup |-> TRUE, rls |-> {"r", "s"}, strip |-> [s \in Stores |-> TRUE], lo |-> rg.lo, hi |-> rg.hi, scope |-> Stores, frame |-> 0]
                        : rg \in {WholeRange, SubRange(w, N3)} }
      [] cls = "B" -> { c \in
                      { [dedup |-> d, rls |-> rl, strip |-> sp, lo |-> WholeRange.lo, hi |-> WholeRange.hi, scope |-> sc, frame |-> 1]
                        : d \in BOOLEAN, rl \in {{"r", "s"}, {"r"}}, sp \in [Stores -> BOOLEAN],
                          sc \in {{1, 2}, {1}, {2}} }
                      : c.scope = Stores \/ (c.strip[1] /\ c.strip[2]) }    \* store scope varied with stripping stores only
      [] cls = "C" -> { [dedup |-> d, rls |-> {"r", "s"}, strip |-> [s \in Stores |-> TRUE], lo |-> rg.lo, hi |-> rg.hi, scope |-> Stores, frame |-> 0]
                        : d \in BOOLEAN, rg \in {WholeRange, SubRange(w, NC)} }

ResMs(w) == WRes(w) * w.step
DFuncs == {"min_over_time", "sum_over_time", "count_over_time", "rate", "avg_over_time"}
Cfgs(w, cls) ==
    IF cls = "D"
      THEN { [dedup |-> d, rls |-> {"r", "s"}, strip |-> [s \in Stores |-> TRUE], lo |-> WholeRange.lo, hi |-> WholeRange.hi,
              scope |-> Stores, frame |-> 0, fn |-> f, maxres |-> mr.m, rng |-> mr.r]
             : d \in BOOLEAN, f \in DFuncs,
               mr \in { [m |-> 0, r |-> 0], [m |-> ResMs(w), r |-> 0], [m |-> ResMs(w), r |-> ResMs(w)], [m |-> 10 * ResMs(w), r |-> 4 * ResMs(w)] } }
      ELSE { c @@ [fn |-> "", maxres |-> 0, rng |-> 0] : c \in CfgsBase(w, cls) }

Init ==
    /\ \E cls \in {"A", "A3", "B", "C", "D"} :
         /\ world \in (CASE cls = "A" -> AWorlds [] cls = "A3" -> A3Worlds [] cls = "B" -> BWorlds [] cls = "C" -> CWorlds
                          [] cls = "D" -> DWorlds)
         /\ cfg \in Cfgs(world, cls)
    /\ reps = WithAgg(world, Concrete(world))
    /\ stage = "stores"
    /\ streams = [s \in Stores |-> <<>>]
    /\ series = <<>> /\ iters = <<>> /\ out = <<>>

(* ---- stage 1: every store answers Series(lo, hi, WithoutReplicaLabels, MaxResolutionWindow, Aggregates) ---- *)
(* the querier asks for maxResolutionFromSelectHints(...); a store serves the downsampled form of a chunk it holds *)
(* that way iff the request allows the window (auto-downsampling)                                                  *)
ReqMaxRes == MaxResFromHints(cfg.maxres, cfg.rng, cfg.fn)
Served(c) == c.ds /\ ResMs(world) > 0 /\ ReqMaxRes >= ResMs(world)
(* A store streams a series as >= 1 consecutive FRAMES with the same labels: cfg.frame = 0 puts  *)
(* all chunks of the series in one frame, f > 0 at most f chunks per frame (TSDBStore cuts by    *)
(* bytes, the bucket store by chunk count).  k = position of the frame within its series.        *)
SeriesLess(x, y) == \/ LsetLess(x.lbls, y.lbls)
                    \/ (x.lbls = y.lbls /\ x.id < y.id)
                    \/ (x.lbls = y.lbls /\ x.id = y.id /\ x.k < y.k)
Frames(x) ==
    LET cs == SetToSortSeq(x.chunks, ChunkLess)
        f == IF cfg.frame = 0 THEN Len(cs) ELSE cfg.frame
        nf == (Len(cs) + f - 1) \div f
    IN { [lbls |-> x.lbls, id |-> x.id, k |-> k,
          chunks |-> { cs[i] : i \in { i \in DOMAIN cs : (k - 1) * f < i /\ i <= k * f } }] : k \in 1..nf }
StoreAnswer(s) ==
    LET strips == cfg.dedup /\ cfg.strip[s]
        mine == { [lbls |-> IF strips THEN Strip(r.lbls, RL) ELSE r.lbls, id |-> r.id,
                   chunks |-> { ch \in { ChunkOfEff(r, r.chunks[k], Served(r.chunks[k]), cfg.fn, r.id)
                                         : k \in { k \in DOMAIN r.chunks : r.chunks[k].st = s } }
                                : ChunkOverlaps(ch, cfg.lo, cfg.hi) }] : r \in reps }
    IN SetToSortSeq(UNION { Frames(x) : x \in { y \in mine : y.chunks # {} } }, SeriesLess)
StoresAnswer ==
    /\ stage = "stores"
    /\ streams' = [s \in Stores |-> IF s \in cfg.scope THEN StoreAnswer(s) ELSE <<>>]   \* only selected, healthy stores answer
    /\ stage' = "proxy"
    /\ UNCHANGED <<world, reps, cfg, series, iters, out>>

(* ---- stage 2: proxy ---- *)
(* a store that cannot strip replica labels is read eagerly, stripped and re-sorted *)
Resort(st) == SortSeq([i \in DOMAIN st |-> [st[i] EXCEPT !.lbls = Strip(@, RL)]], SeriesLess)
RECURSIVE KMerge(_)
KMerge(ss) ==
    LET ne == { i \in DOMAIN ss : ss[i] # <<>> } IN
    IF ne = {} THEN <<>>
    ELSE LET i == MinOf({ i \in ne : \A j \in ne : ~LsetLess(Head(ss[j]).lbls, Head(ss[i]).lbls) })
         IN <<Head(ss[i])>> \o KMerge([ss EXCEPT ![i] = Tail(@)])
(* responseDeduplicator: ADJACENT series with equal labels become one *)
JoinAdjacent(acc, x) ==
    IF acc # <<>> /\ acc[Len(acc)].lbls = x.lbls
      THEN [acc EXCEPT ![Len(acc)].chunks = @ \cup x.chunks]
      ELSE Append(acc, [lbls |-> x.lbls, chunks |-> x.chunks])
ProxyMerge ==
    /\ stage = "proxy"
    /\ LET ins == [s \in Stores |-> IF cfg.dedup /\ ~cfg.strip[s] THEN Resort(streams[s]) ELSE streams[s]]
           joined == FoldLeft(JoinAdjacent, <<>>, KMerge(ins))
       IN series' = [i \in DOMAIN joined |-> [lbls |-> joined[i].lbls, chunks |-> MergeChunks(joined[i].chunks)]]
    /\ stage' = IF cfg.dedup /\ cfg.rls # {} THEN "split" ELSE "iter"
    /\ UNCHANGED <<world, reps, cfg, streams, iters, out>>

(* ---- stage 3 (dedup only): overlap split, one series per chain ---- *)
Flatten(ss) == FoldLeft(LAMBDA acc, x : acc \o x, <<>>, ss)
Split ==
    /\ stage = "split"
    /\ series' = Flatten([i \in DOMAIN series |->
                    LET ch == OverlapSplit(series[i].chunks)
                    IN [k \in DOMAIN ch |-> [lbls |-> series[i].lbls, chunks |-> ch[k]]]])
    /\ stage' = "iter"
    /\ UNCHANGED <<world, reps, cfg, streams, iters, out>>

(* ---- stage 4: chunk-concatenating + bounded iterators ---- *)
Iterate ==
    /\ stage = "iter"
    /\ iters' = [i \in DOMAIN series |->
                    [lbls |-> series[i].lbls, samples |-> Bounded(ChainSamples(series[i].chunks), cfg.lo, cfg.hi)]]
    /\ stage' = IF cfg.dedup /\ cfg.rls # {} THEN "dedup" ELSE "done"
    /\ out' = IF cfg.dedup /\ cfg.rls # {} THEN out ELSE iters'
    /\ UNCHANGED <<world, reps, cfg, streams, series>>

(* ---- stage 5 (dedup only): dedupSeriesSet joins ADJACENT equal label sets, penalty fold ---- *)
JoinIters(acc, x) ==
    IF acc # <<>> /\ acc[Len(acc)].lbls = x.lbls
      THEN [acc EXCEPT ![Len(acc)].seqs = Append(@, x.samples)]
      ELSE Append(acc, [lbls |-> x.lbls, seqs |-> <<x.samples>>])
Dedup ==
    /\ stage = "dedup"
    /\ LET groups == FoldLeft(JoinIters, <<>>, iters)
       IN out' = [i \in DOMAIN groups |-> [lbls |-> groups[i].lbls, samples |-> DedupFold(groups[i].seqs)]]
    /\ stage' = "done"
    /\ UNCHANGED <<world, reps, cfg, streams, series, iters>>

Next == StoresAnswer \/ ProxyMerge \/ Split \/ Iterate \/ Dedup
Spec == Init /\ [][Next]_vars /\ WF_vars(Next)

(* ---- known finding class (input only) ---- *)
SR == Scoped(reps, cfg.scope)          \* what the selected stores hold
VR == EffView(reps, cfg.scope, Served, cfg.fn)   \* ... as the query sees it (property-level view)
KnownFindingLset(l) ==
    LET G == Group(SR, RL, l)  VG == Group(VR, RL, l) IN
    /\ cfg.dedup /\ cfg.rls # {} /\ ResMs(world) = 0 /\ VG # {} /\ IdenticalGroup(VG)
    /\ FirstChainIncomplete(GroupChunks(G, cfg.lo, cfg.hi), cfg.lo, cfg.hi, (CHOOSE r \in VG : TRUE).samples)

(* ---- invariants ---- *)
(* intermediate: what the proxy hands on is strictly sorted (each label set once) *)
ProxySortedUnique ==
    stage \in {"split"} \/ (stage = "iter" /\ ~(cfg.dedup /\ cfg.rls # {})) =>
        \A i \in 1..(Len(series) - 1) : LsetLess(series[i].lbls, series[i + 1].lbls)
(* intermediate: "however the data is cut into ... frames": what the proxy hands on for a label *)
(* set holds every distinct chunk of every frame any store sent for it                          *)
FramesRejoined ==
    stage \in {"split"} \/ (stage = "iter" /\ ~(cfg.dedup /\ cfg.rls # {})) =>
        \A i \in DOMAIN series :
            LET sent == UNION { UNION { streams[s][j].chunks : j \in { j \in DOMAIN streams[s] :
                                            Strip(streams[s][j].lbls, RL) = series[i].lbls } } : s \in Stores }
            IN { c.samples : c \in RangeOf(series[i].chunks) } = { c.samples : c \in sent }
(* intermediate: after the split every chain is free of overlaps *)
ChainsDisjoint ==
    stage \in {"iter", "dedup", "done"} /\ cfg.dedup /\ cfg.rls # {} =>
        \A i \in DOMAIN series : \A k \in 1..(Len(series[i].chunks) - 1) :
            series[i].chunks[k].max < series[i].chunks[k + 1].min
(* C04 *)
C04_OneSeriesPerLset == stage = "done" => OneSeriesPerLset(out, VR, RL, cfg.lo, cfg.hi)
C04_ExactWhenIdentical ==
    stage = "done" => \A i \in DOMAIN out :
        ~KnownFindingLset(out[i].lbls) => ExactWhenIdentical(out[i], VR, RL, cfg.lo, cfg.hi)
C04_Provenance == stage = "done" => \A i \in DOMAIN out : Provenance(out[i], VR, RL)
(* the stores are never asked for coarser data than allowed *)
MaxResAsked == MaxResOK(ReqMaxRes, cfg.maxres, cfg.fn, cfg.rng)
OutIncreasing ==
    stage = "done" => \A i \in DOMAIN out : \A k \in 1..(Len(out[i].samples) - 1) :
        out[i].samples[k][1] < out[i].samples[k + 1][1]
Terminates == <>(stage = "done")

(* ---- leg B: the worlds, for the harness (which adds the configuration matrix) ---- *)
CasesFile == IF "VERIF_CASES" \in DOMAIN IOEnv THEN IOEnv.VERIF_CASES ELSE "cases.ndjson"
Seed == IF "VERIF_SEED" \in DOMAIN IOEnv THEN atoi(IOEnv.VERIF_SEED) ELSE 1
(* at most CaseCap worlds of a class: a seed-dependent stride sample *)
Sample(S) == LET q == SetToSeq(S)  n == Len(q) IN
             IF n <= CaseCap THEN q
             ELSE [i \in 1..CaseCap |-> q[((i * (n \div CaseCap) + Seed) % n) + 1]]
AllWorlds == Sample(AWorlds) \o Sample(A3Worlds) \o Sample(BWorlds) \o Sample(CWorlds) \o Sample(DWorlds)
ASSUME ndJsonSerialize(CasesFile, AllWorlds)
=============================================================================
