\* C45 leg A thorough (filter-centred): <=2 rules over group {g1} x alert x a in {absent,"1",templated (text+action+text form)} x
\* r in {"1","2"} x state firing; <=2 selector sets, <=2 matchers per set, <=3 matchers in total, matchers
\* {a,r} x ({EQ,NEQ} x {"","1"} + RE x {"1|2","|2"}).  Every input (161 551) is model-checked; leg B gets the
\* inputs with <=1 set or <=1 rule (31 951).
SPECIFICATION Spec
CONSTANTS MaxRules = 2
          Groups = {"g1"}
          Types = {"alert"}
          AVals = {"", "1", "M"}
          RVals = {"1", "2"}
          States = {3}
          MaxSets = 2
          MaxMatchers = 2
          MaxTotal = 3
          MNames = {"a", "r"}
          MTypes = {"EQ", "NEQ", "RE"}
          MVals = {"", "1"}
          CaseMaxRulesWithTwoSets = 1
INVARIANTS C45_ResultSatisfiesProperty SurvivorPredictionHolds
PROPERTY Progress
CHECK_DEADLOCK TRUE
