----------------------------- MODULE QueryShard -----------------------------
(***************************************************************************)
(* Vertical query sharding of the query frontend                          *)
(* (pkg/querysharding/analyzer.go, analysis.go; pkg/queryfrontend/        *)
(* shard_query.go; pkg/store/storepb/shard_info.go).                       *)
(*                                                                         *)
(* A mini PromQL algebra over instant vectors with exact semantics:        *)
(*   sel   vector selector on the metric name ("*" = any name)             *)
(*   agg   sum / min / max / count  by|without (labels) (e)                *)
(*   bin   e1 + e2 with one-to-one matching  on|ignoring (labels)          *)
(*   lrep  label_replace(e, dst, "$1", src, <match-all>)                        *)
(* Series are label maps (functions from a subset of Names to values)      *)
(* with an integer value.  The hash used by the stores to assign a series  *)
(* to a shard is uninterpreted: C44 must hold for EVERY function from       *)
(* shard keys to shard indices.                                            *)
(***************************************************************************)
EXTENDS Integers, FiniteSets, FiniteSetsExt, Sequences, TLC

MetricName == "__name__"

Keep(f, D) == [x \in (D \cap DOMAIN f) |-> f[x]]
Drop(f, D) == [x \in (DOMAIN f \ D) |-> f[x]]

(* ---------------- evaluation (reference semantics of the algebra) ---------------- *)
Ok(out) == [err |-> FALSE, out |-> out]
Err == [err |-> TRUE, out |-> {}]

LabelSets(V) == { s.ls : s \in V }
HasDupLabelSets(V) == Cardinality(LabelSets(V)) # Cardinality(V)

GroupKey(ls, by, L) == IF by THEN Keep(ls, L) ELSE Drop(ls, L \cup {MetricName})

AggValue(op, G) ==
    CASE op = "sum"   -> MapThenSumSet(LAMBDA s : s.v, G)
      [] op = "count" -> Cardinality(G)
      [] op = "min"   -> Min({ s.v : s \in G })
      [] op = "max"   -> Max({ s.v : s \in G })

EvalAgg(op, by, L, V) ==
    LET keys == { GroupKey(s.ls, by, L) : s \in V } IN
    { [ls |-> k, v |-> AggValue(op, { s \in V : GroupKey(s.ls, by, L) = k })] : k \in keys }

(* one-to-one vector matching as the Prometheus engine does it: two right-hand samples in one   *)
(* match group are always an error; two left-hand samples in one group are an error only when   *)
(* that group has a right-hand partner (many-to-one matching must be explicit)                   *)
EvalBin(on, L, A, B) ==
    LET ka(s) == GroupKey(s.ls, on, L)
        keysA == { ka(s) : s \in A }
        keysB == { ka(s) : s \in B }
        dupB == \E k \in keysB : Cardinality({ s \in B : ka(s) = k }) > 1
        dupA == \E k \in keysA \cap keysB : Cardinality({ s \in A : ka(s) = k }) > 1
    IN IF A = {} \/ B = {} THEN Ok({})        \* the engine returns early when one side is empty
       ELSE IF dupA \/ dupB THEN Err
       ELSE Ok({ [ls |-> k,
                  v |-> (CHOOSE s \in A : ka(s) = k).v + (CHOOSE s \in B : ka(s) = k).v]
                 : k \in keysA \cap keysB })

(* label_replace(e, dst, "$1", src, <match-all>): dst := value of src (absent src => dst removed) *)
ReplaceLabel(ls, dst, src) ==
    IF src \in DOMAIN ls
      THEN [x \in DOMAIN ls \cup {dst} |-> IF x = dst THEN ls[src] ELSE ls[x]]
      ELSE Drop(ls, {dst})

RECURSIVE Eval(_, _)
Eval(e, S) ==
    CASE e.k = "sel" -> Ok({ s \in S : e.name = "*" \/ (MetricName \in DOMAIN s.ls /\ s.ls[MetricName] = e.name) })
      [] e.k = "agg" -> LET r == Eval(e.e, S) IN
                        IF r.err THEN Err ELSE Ok(EvalAgg(e.op, e.by, e.ls, r.out))
      [] e.k = "bin" -> LET a == Eval(e.l, S)
                            b == Eval(e.r, S) IN
                        IF a.err \/ b.err THEN Err ELSE EvalBin(e.on, e.ls, a.out, b.out)
      [] e.k = "lrep" -> LET r == Eval(e.e, S) IN
                         IF r.err THEN Err
                         ELSE LET out == { [ls |-> ReplaceLabel(s.ls, e.dst, e.src), v |-> s.v] : s \in r.out } IN
                              IF Cardinality(out) # Cardinality(r.out) \/ HasDupLabelSets(out) THEN Err ELSE Ok(out)

(* ---------------- the analyzer (algorithm level, transcribed) ---------------- *)
(* analysis = [set, by, ls]; set = FALSE is the Go nil slice ("nothing decided yet") *)
NoAnalysis == [set |-> FALSE, by |-> FALSE, ls |-> {}]

ScopeToLabels(q, L, by) ==
    IF ~q.set THEN [set |-> TRUE, by |-> by, ls |-> L]
    ELSE IF q.by /\ by THEN [set |-> TRUE, by |-> TRUE, ls |-> q.ls \cap L]
    ELSE IF ~q.by /\ ~by THEN [set |-> TRUE, by |-> FALSE, ls |-> q.ls \cup L]
    ELSE LET lby == IF q.by THEN q.ls ELSE L
             lwo == IF q.by THEN L ELSE q.ls
         IN [set |-> TRUE, by |-> TRUE, ls |-> lby \ lwo]

(* metric names the vector selectors below e are pinned to ("*" = not pinned) *)
RECURSIVE SelNames(_)
SelNames(e) ==
    CASE e.k = "sel" -> {e.name}
      [] e.k = "agg" -> SelNames(e.e)
      [] e.k = "bin" -> SelNames(e.l) \cup SelNames(e.r)
      [] e.k = "lrep" -> SelNames(e.e)
SeveralNames(e) == "*" \in SelNames(e) \/ Cardinality(SelNames(e)) > 1

(* parser.Inspect is a pre-order depth-first walk: node, then children left to right.  *)
(* Walk threads [an, dyn] through the tree.                                            *)
RECURSIVE Walk(_, _)
Walk(e, st) ==
    CASE e.k = "sel" -> st
      [] e.k = "agg" -> (* `without` also drops the metric name from the grouping key: when the operand *)
                        (* may carry several metric names the name must not take part in the shard    *)
                        (* key either (same as `ignoring` below)                                      *)
                        LET L == IF ~e.by /\ SeveralNames(e.e) THEN e.ls \cup {MetricName} ELSE e.ls
                        IN Walk(e.e, [st EXCEPT !.an = ScopeToLabels(st.an, L, e.by)])
      [] e.k = "bin" -> LET L == IF e.on THEN e.ls ELSE e.ls \cup {MetricName}
                            st1 == [st EXCEPT !.an = ScopeToLabels(st.an, L, e.on)]
                        IN Walk(e.r, Walk(e.l, st1))
      [] e.k = "lrep" -> Walk(e.e, [st EXCEPT !.dyn = @ \cup {e.dst}])

Analyze(e) ==
    LET st == Walk(e, [an |-> NoAnalysis, dyn |-> {}])
    IN IF st.dyn # {} THEN ScopeToLabels(st.an, st.dyn, FALSE) ELSE st.an

IsShardable(an) == an.set /\ an.ls # {}

(* ---------------- sharded execution ---------------- *)
(* the key a store hashes for a series: the sharding labels (by) or all other labels (without) *)
ShardKey(ls, an) == IF an.by THEN Keep(ls, an.ls) ELSE Drop(ls, an.ls)

ShardKeys(S, an) == { ShardKey(s.ls, an) : s \in S }

(* h: shard key -> shard index in 0..n-1 *)
ShardOf(S, an, h, i) == { s \in S : h[ShardKey(s.ls, an)] = i }

ShardedEval(e, S, an, h, n) ==
    LET parts == [i \in 0..(n - 1) |-> Eval(e, ShardOf(S, an, h, i))] IN
    IF \E i \in 0..(n - 1) : parts[i].err THEN Err
    ELSE Ok(UNION { parts[i].out : i \in 0..(n - 1) })

(* ---------------- C44, property level ---------------- *)
(* (1) every series in exactly one shard and (2) series that agree on the sharding labels share a  *)
(* shard: both hold by construction of ShardOf for any function h; they are judged on the real      *)
(* ShardMatcher in the trace spec.  (3) merged sharded result = unsharded result.                  *)
SameResult(e, S, an, h, n) ==
    LET u == Eval(e, S) IN
    u.err \/ LET sh == ShardedEval(e, S, an, h, n) IN ~sh.err /\ sh.out = u.out
=============================================================================
