------------------------------ MODULE C43Trace ------------------------------
(***************************************************************************)
(* Leg C for C43.  One trace line per pair of requests:                    *)
(*   in.a, in.b   the two requests (records as in FrontendKeys: free-text  *)
(*                fields are token lists, their concatenation is the text) *)
(*   got.ka, got.kb   keys from the real GenerateCacheKey (after the real   *)
(*                codec decoded the HTTP request; tenant from the context) *)
(*   got.ea, got.eb   keys under which the real chain stored the answers    *)
(*                ("" = nothing stored)                                    *)
(*   got.erra/errb    error of the direct observation, got.ca/cb shouldCache*)
(* Verdict: MustDifferIf (the statement of C43) on the inputs and the       *)
(* OBSERVED cacheability, equality of the OBSERVED keys.                    *)
(***************************************************************************)
EXTENDS TraceLib, FrontendKeys

Judge(e) ==
    LET a == e.in.a  b == e.in.b  g == e.got IN
    IF ~MustDifferIf(a, b, g.ca, g.cb) THEN {}     \* both requests are cached by the real frontend
    ELSE (* cacheable requests must get a key at all *)
         (IF g.erra # "" \/ g.errb # "" THEN {"key-generated"} ELSE {})
         \cup
         (* "Two cacheable frontend requests that differ in tenant or in any parameter that can    *)
         (* change the answer ... never map to the same cache key."                                *)
         (IF g.erra = "" /\ g.errb = "" /\ g.ka = g.kb THEN {"keys-differ"} ELSE {})
         \cup
         (IF g.ea # "" /\ g.eb # "" /\ g.ea = g.eb THEN {"stored-keys-differ"} ELSE {})

(* model conformance: the key builders of FrontendKeys predict the exact strings, shouldCache = ShouldCache *)
DriftOne(x, k, ek, err, c) ==
    \/ err # ""
    \/ k # Key(x, TRUE)
    \/ c # ShouldCache(x)
    \/ (ek # "" /\ ek # k)
Drift(e) == DriftOne(e.in.a, e.got.ka, e.got.ea, e.got.erra, e.got.ca)
            \/ DriftOne(e.in.b, e.got.kb, e.got.eb, e.got.errb, e.got.cb)

VARIABLE l
TraceInit == l = 1
TraceNext == /\ l <= TraceLen
             /\ CaseReject(l, Trace[l], Judge(Trace[l]))
             /\ (IF Drift(Trace[l]) THEN PrintT(<<"DRIFT", l, Trace[l]["case"]>>) ELSE TRUE)
             /\ l' = l + 1
TraceSpec == TraceInit /\ [][TraceNext]_l
TraceAccepted == TLCGet("stats").diameter = TraceLen + 1
=============================================================================
