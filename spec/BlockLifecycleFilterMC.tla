----------------------- MODULE BlockLifecycleFilterMC -----------------------
(***************************************************************************)
(* Leg A of C31: DefaultDeduplicateFilter.Filter (pkg/block/fetcher.go).   *)
(* The metas are split by compaction group; Workers goroutines take groups *)
(* from a channel in any order (Go map iteration), each runs filterGroup   *)
(* (sort, covering-set walk: one action per examined block) and then sends *)
(* its duplicates one by one to the collector goroutine, which deletes     *)
(* them from the metas map and builds DuplicateIDs.  TLC explores every    *)
(* input (<= MaxBlocks blocks, sources within 1..NSrc, groups 1..NGrp),    *)
(* every order in which groups are taken and every interleaving of the     *)
(* workers and the collector, and checks that the result satisfies C31 and *)
(* is the same in every schedule.                                          *)
(***************************************************************************)
EXTENDS BlockLifecycle, TLC, Json, IOUtils, SequencesExt
CONSTANTS MaxBlocks, NSrc, NGrp, Workers,
          FullGrpBlocks,   \* inputs with more blocks than this are explored within ONE group only (groups are
                           \* filtered independently; keeps the thorough state space in budget)
          CaseBlocks       \* leg B: cases have 1..CaseBlocks blocks

SrcSets == (SUBSET (1..NSrc)) \ {{}}
Groups == 1..NGrp

VARIABLES all,       \* the input metas (chosen in Init)
          metas,     \* ids still in the metas map
          pending,   \* groups not yet handed to a worker
          w,         \* worker -> [g, rest, cover, dups, st]: st = "idle" | "walk" | "send"
          dupIds,    \* ids received by the collector (DuplicateIDs)
          expect     \* AlgoDedupKeptIds(all), computed once (constant during a behaviour)
vars == <<all, metas, pending, w, dupIds, expect>>

Idle == [g |-> 0, rest |-> {}, cover |-> {}, dups |-> {}, st |-> "idle"]

BlockSets(n) == { { [id |-> i, src |-> f[i][1], grp |-> f[i][2]] : i \in 1..n } : f \in [1..n -> SrcSets \X Groups] }
(* group names are interchangeable: block 1 is put into group 1 *)
Init == /\ \E n \in 1..MaxBlocks : all \in { S \in BlockSets(n) : \A b \in S : (b.id = 1 \/ n > FullGrpBlocks) => b.grp = 1 }
        /\ expect = AlgoDedupKeptIds(all)
        /\ metas = { b.id : b \in all }
        /\ pending = { b.grp : b \in all }
        /\ w = [x \in Workers |-> Idle]
        /\ dupIds = {}

Take(x) == /\ w[x].st = "idle" /\ pending # {}
           /\ \E g \in pending :
                /\ pending' = pending \ {g}
                /\ w' = [w EXCEPT ![x] = [g |-> g, rest |-> { b \in all : b.grp = g }, cover |-> {}, dups |-> {}, st |-> "walk"]]
           /\ UNCHANGED <<all, metas, dupIds, expect>>

Walk(x) == /\ w[x].st = "walk"
           /\ IF w[x].rest = {} THEN w' = [w EXCEPT ![x].st = "send"]
              ELSE LET c == C31_First(w[x].rest) IN
                   w' = [w EXCEPT ![x].rest = @ \ {c},
                                  ![x].cover = IF \E p \in w[x].cover : c.src \subseteq p.src THEN @ ELSE @ \cup {c},
                                  ![x].dups = IF \E p \in w[x].cover : c.src \subseteq p.src THEN @ \cup {c.id} ELSE @]
           /\ UNCHANGED <<all, metas, pending, dupIds, expect>>

(* dupsChan is unbuffered: a send is one rendezvous with the collector, which deletes the id from metas *)
Send(x) == /\ w[x].st = "send"
           /\ IF w[x].dups = {} THEN w' = [w EXCEPT ![x] = Idle] /\ UNCHANGED <<metas, dupIds>>
              ELSE \E d \in w[x].dups :
                     /\ w' = [w EXCEPT ![x].dups = @ \ {d}]
                     /\ dupIds' = IF d \in metas THEN dupIds \cup {d} ELSE dupIds
                     /\ metas' = metas \ {d}
           /\ UNCHANGED <<all, pending, expect>>

Next == \E x \in Workers : Take(x) \/ Walk(x) \/ Send(x)
Spec == Init /\ [][Next]_vars /\ WF_vars(Next)

Done == pending = {} /\ \A x \in Workers : w[x].st = "idle"

(* ---- C31 ---- *)
C31_HiddenOnlyIfCovered == Done => C31_HiddenUncovered(all, metas) = {}
C31_KeptCoverEverySource == Done => C31_SourcesLost(all, metas) = {}
(* independence of listing order and concurrency: every schedule ends in the same state, the one the   *)
(* schedule-free algorithm-level function predicts                                                    *)
C31_OutcomeIndependentOfSchedule == Done => metas = expect /\ dupIds = { b.id : b \in all } \ metas
(* safety during the run: nothing is ever removed that the final result keeps *)
NeverRemovesKept == expect \subseteq metas
Terminates == <>Done

(* ---- leg B: blocks in ULID order (position = id) ---- *)
CasesFile == IF "VERIF_CASES" \in DOMAIN IOEnv THEN IOEnv.VERIF_CASES ELSE "cases.ndjson"
BlockOpts == { [src |-> SetToSeq(s), grp |-> g] : s \in SrcSets, g \in Groups }
CaseSet == UNION { { [blocks |-> bs] : bs \in [1..n -> BlockOpts] } : n \in 1..CaseBlocks }
ASSUME ndJsonSerialize(CasesFile, SetToSeq(CaseSet))
=============================================================================
