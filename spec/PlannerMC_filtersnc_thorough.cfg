\* C30 leg A thorough, planners "size" / "vdown" with a pre-existing no-compact mark: ranges 1/2/4 on the grid 0..4,
\* <= 3 blocks with index size 1..2, <= 1 no-compact mark, 6 planner modes
SPECIFICATION Spec
PROPERTY Terminates
CONSTANTS Ranges <- R124
          LoNeg = 0
          Hi = 4
          MaxLen = 4
          MaxBlocks = 3
          MaxNC = 1
          MaxTomb = 0
          MaxFailed = 0
          TombVals = {0}
          Sizes = {1, 2}
          Modes <- ModesFiltersT
          CaseBlocks = 1
          CaseFlagBlocks = 1
INVARIANTS PlanSafe FixpointOK SortedInput
PROPERTIES Variant
VIEW View
CHECK_DEADLOCK FALSE
