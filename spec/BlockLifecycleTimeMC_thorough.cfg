\* C32 leg A thorough: 1 s = 10 model-ms; MaxTime with every ms part in [0, 2 s]; retention 0, 1 s, 1.3 s, 2 s; delays 1 s, 1.7 s;
\* thresholds 1 s, 1.5 s; clock 0..45 model-ms
SPECIFICATION Spec
CONSTANTS Sec = 10
          MaxNow = 45
          Rets = {0, 10, 13, 20}
          Delays = {10, 17}
          Thresholds = {10, 15}
          Truncating = FALSE
PROPERTIES C32_RetentionOnlyWhenOlder C32_CleanerOnlyAfterDelay C32_PartialOnlyWhenStaleAndUnmarked
CHECK_DEADLOCK FALSE
