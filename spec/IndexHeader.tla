----------------------------- MODULE IndexHeader -----------------------------
(***************************************************************************)
(* The binary index-header (pkg/block/indexheader/binary_reader.go).       *)
(*                                                                         *)
(* The index-header keeps, per label name, only every k-th entry of the    *)
(* TSDB index's postings offset table in memory (plus the first and the    *)
(* last one) and answers PostingsOffsets(name, values...) for a sorted     *)
(* list of values (duplicates and absent values allowed) by binary search  *)
(* in the sampled entries followed by a sequential scan of the on-disk     *)
(* table.                                                                  *)
(*                                                                         *)
(* Abstract world of one label name: the postings offset table has n       *)
(* entries; entry j (1..n) carries the value 2*j and the posting offset    *)
(* PO(j); wanted values range over 1..2n+1, so odd numbers are absent      *)
(* values before / between / after the present ones.  A posting list is    *)
(* [4-byte length][data][4-byte CRC]; lists are adjacent, so the list of   *)
(* entry j spans Start = PO(j) + 4 .. End = PO(j+1) - 4, where PO(n+1) is  *)
(* the first posting of the next label name or the end of the postings     *)
(* section.                                                                *)
(*                                                                         *)
(* Property C11: for any sorted list of requested values the index-header  *)
(* reports the same posting-list locations as the full index, missing      *)
(* values as not found; label names, label values and symbols are equal.   *)
(***************************************************************************)
EXTENDS Integers, Sequences, FiniteSets

NF == [start |-> -1, end |-> -1]          \* NotFoundRange

(* ======================= property level ======================= *)
(* The answer the statement demands for one requested value, given the location ref of its       *)
(* posting list in the full index (NF when the full index has no such value).  The Reader        *)
(* contract lets the end offset overshoot ("might be bigger than the actual posting ending, but  *)
(* not larger than the whole index file"); the start must be exact.                              *)
RangeOK(got, ref, indexSize) ==
    IF ref = NF THEN got = NF
    ELSE got.start = ref.start /\ got.end >= ref.end /\ got.end <= indexSize

(* one range per requested value, in request order *)
RangesOK(got, refs, indexSize) ==
    /\ Len(got) = Len(refs)
    /\ \A j \in 1..Len(refs) : RangeOK(got[j], refs[j], indexSize)

(* a label name the index does not have: "no posting": nothing, or not-found for every value *)
AbsentNameOK(got) == \A j \in 1..Len(got) : got[j] = NF

(* ======================= abstract table ======================= *)
Val(j) == 2 * j
PO(j) == 100 * j
TrueRange(j) == [start |-> PO(j) + 4, end |-> PO(j + 1) - 4]
Expected(n, W) ==
    [x \in 1..Len(W) |-> IF W[x] % 2 = 0 /\ W[x] >= 2 /\ W[x] <= 2 * n THEN TrueRange(W[x] \div 2) ELSE NF]

(* BinaryReader.init: the sampled in-memory entries of one label name: every k-th entry          *)
(* ((valueCount-1) % k = 0) and always the last one; each is <<value, table position>>.           *)
SampledIdx(n, k) == { j \in 1..n : (j - 1) % k = 0 } \cup {n}
RECURSIVE SortedSeq(_)
SortedSeq(T) == IF T = {} THEN <<>>
                ELSE LET m == CHOOSE x \in T : \A y \in T : x <= y IN <<m>> \o SortedSeq(T \ {m})
Offsets(n, k) == LET ix == SortedSeq(SampledIdx(n, k)) IN [x \in 1..Len(ix) |-> [value |-> Val(ix[x]), idx |-> ix[x]]]
LastValOffset(n) == PO(n + 1) - 4

(* ======================= algorithm level ======================= *)
(* postingsOffset for index format v2, one loop iteration per Step.  State:                       *)
(*   pc    pre    the "discard values before the start" loop                                       *)
(*         search head of the outer loop (binary search in the sampled entries)                   *)
(*         entry  head of the Iter loop: decode the next table entry, close pending ranges         *)
(*         match  head of `for string(value) >= wantedValue`                                       *)
(*         after  the code after that inner loop                                                    *)
(*         done                                                                                      *)
(*   vi    valueIndex (values consumed so far), i index into the sampled entries (1-based),         *)
(*   d     table position of the next entry the decoder will read, val/po the entry just read,      *)
(*   same  newSameRngs (start offsets of ranges still waiting for their end), rngs the result,      *)
(*   err   the decoder ran past the entries of this label name (d.Err() / foreign entry)            *)
Start0 == [pc |-> "pre", vi |-> 0, i |-> 0, d |-> 0, val |-> 0, po |-> 0, same |-> <<>>, rngs |-> <<>>, err |-> FALSE]

Closed(same, end) == [x \in 1..Len(same) |-> [start |-> same[x], end |-> end]]
Cat(a, b) == IF Len(b) = 0 THEN a ELSE a \o b
Fill(k) == [x \in 1..k |-> NF]

Step(s, n, k, W) ==
    LET offs == Offsets(n, k)
        NO == Len(offs)
        L == Len(W)
        wanted == IF s.vi < L THEN W[s.vi + 1] ELSE 0
    IN
    CASE s.pc = "pre" ->
           IF s.vi < L /\ W[s.vi + 1] < offs[1].value
             THEN [s EXCEPT !.rngs = Append(@, NF), !.vi = @ + 1]
             ELSE [s EXCEPT !.pc = "search"]
      [] s.pc = "search" ->
           IF s.vi >= L THEN [s EXCEPT !.pc = "done"]
           ELSE LET cand == { j \in 1..NO : offs[j].value >= wanted }                  \* sort.Search
                    i0 == IF cand = {} THEN NO + 1 ELSE CHOOSE j \in cand : \A j2 \in cand : j <= j2
                IN IF i0 = NO + 1
                     THEN [s EXCEPT !.rngs = Cat(@, Fill(L - Len(@))), !.pc = "done"]   \* past the end
                     ELSE LET i1 == IF i0 > 1 /\ offs[i0].value # wanted THEN i0 - 1 ELSE i0 IN
                          [s EXCEPT !.i = i1, !.d = offs[i1].idx, !.same = <<>>, !.pc = "entry"]
      [] s.pc = "entry" ->
           IF s.d > n THEN [s EXCEPT !.err = TRUE, !.pc = "done"]
           ELSE [s EXCEPT !.val = Val(s.d), !.po = PO(s.d), !.d = @ + 1,
                          !.rngs = Cat(@, Closed(s.same, PO(s.d) - 4)), !.same = <<>>, !.pc = "match"]
      [] s.pc = "match" ->
           IF s.val >= wanted
             THEN LET s1 == IF s.val = wanted THEN [s EXCEPT !.same = Append(@, s.po + 4)]
                                              ELSE [s EXCEPT !.rngs = Append(@, NF)]
                      s2 == [s1 EXCEPT !.vi = @ + 1]
                  IN IF s2.vi = L THEN [s2 EXCEPT !.pc = "after"]
                     ELSE IF Len(s2.same) = 0 /\ s2.i < NO /\ W[s2.vi + 1] >= offs[s2.i + 1].value
                       THEN [s2 EXCEPT !.pc = "search"]                                 \* break Iter
                       ELSE s2
             ELSE [s EXCEPT !.pc = "after"]
      [] s.pc = "after" ->
           IF s.i = NO                                                                  \* i+1 == len(e.offsets)
             THEN [s EXCEPT !.rngs = Cat(@, Closed(s.same, LastValOffset(n))), !.same = <<>>, !.pc = "search"]
           ELSE IF s.vi # L /\ wanted <= offs[s.i + 1].value
             THEN [s EXCEPT !.i = IF wanted = offs[s.i + 1].value THEN @ + 1 ELSE @, !.pc = "entry"]   \* continue
           ELSE IF Len(s.same) > 0
             THEN IF s.d > n THEN [s EXCEPT !.err = TRUE, !.pc = "done"]
                  ELSE [s EXCEPT !.rngs = Cat(@, Closed(s.same, PO(s.d) - 4)), !.d = @ + 1, !.same = <<>>,
                                 !.pc = "search"]
           ELSE [s EXCEPT !.pc = "search"]
      [] OTHER -> s

(* BinaryReader.LabelValues: scan the on-disk table from the first sampled entry until the value  *)
(* of the last sampled entry has been read (d = table position, acc = values so far; running past  *)
(* the label's entries is an error).                                                                 *)
RECURSIVE LabelValuesFrom(_, _, _, _)
LabelValuesFrom(d, lastVal, n, acc) ==
    IF d > n THEN [err |-> TRUE, vals |-> acc]
    ELSE IF Val(d) = lastVal THEN [err |-> FALSE, vals |-> Append(acc, Val(d))]
    ELSE LabelValuesFrom(d + 1, lastVal, n, Append(acc, Val(d)))
AlgoLabelValues(n, k) ==
    LET offs == Offsets(n, k) IN LabelValuesFrom(offs[1].idx, offs[Len(offs)].value, n, <<>>)

(* BinaryReader.LookupSymbol: a direct-mapped cache of `slots` entries in front of the symbol table  *)
(* (slot = ref % slots; an entry is <<ref, symbol>>, <<-1, 0>> when empty).  Sym(o) is the symbol   *)
(* table's answer.  On a miss the slot is re-tagged AND refilled.  A history of lookups returns the *)
(* sequence of answers.                                                                              *)
Sym(o) == o + 1
RECURSIVE SymHistory(_, _, _, _)
SymHistory(cache, slots, h, i) ==
    IF i > Len(h) THEN <<>>
    ELSE LET o == h[i]
             e == cache[o % slots]
             hit == e[1] = o /\ e[2] # 0
             ans == IF hit THEN e[2] ELSE Sym(o)
             c2 == IF hit THEN cache ELSE [cache EXCEPT ![o % slots] = <<o, Sym(o)>>]
         IN <<ans>> \o SymHistory(c2, slots, h, i + 1)
SymLookups(slots, h) == SymHistory([x \in 0..(slots - 1) |-> <<-1, 0>>], slots, h, 1)

RECURSIVE RunFrom(_, _, _, _)
RunFrom(s, n, k, W) == IF s.pc = "done" THEN s ELSE RunFrom(Step(s, n, k, W), n, k, W)
(* the algorithm's answer for the abstract table: the ranges, or <<>> with err *)
Algo(n, k, W) == RunFrom(Start0, n, k, W)
=============================================================================
