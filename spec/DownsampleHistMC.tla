-------------------------- MODULE DownsampleHistMC --------------------------
(***************************************************************************)
(* Leg A, phase 2: native histogram series through both downsampling       *)
(* levels.  Histograms are vectors <<count, sum, bucket>> (one bucket is   *)
(* enough to tell count / sum / bucket apart); counter histograms grow and *)
(* reset, gauge histograms move freely; stale-marker histograms are        *)
(* tokens.  One step per outer-loop iteration (downsampleRawLoop with      *)
(* downsampleHistogramBatch, downsampleAggrLoop with                       *)
(* downsampleHistogramAggrBatch), for EVERY series over a small grid.      *)
(* Checked: C36 read on histograms (count and component-wise sum of every  *)
(* window exact, totals, chunk order) and C38 read on histogram aggregates *)
(* (total count and total sum preserved, timestamps ordered).              *)
(***************************************************************************)
EXTENDS Downsample, TLC, Json, IOUtils, SequencesExt

CONSTANTS GridLen, MaxSamples, Vecs, WithStale, R1, Mults, Counts1, Counts2,
          CaseSamples     \* leg B: series with at most that many samples go to the harness

VARIABLES tset, raw, m, nc1, nc2, pc, p, c1, rest, c2
vars == <<tset, raw, m, nc1, nc2, pc, p, c1, rest, c2>>

(* growth <<1,2,1>> -> <<2,1,2>> -> <<3,5,3>> (the sum moves against the count once); any step  *)
(* down is a reset for a counter series                                                        *)
VecsDefault == {<<1, 2, 1>>, <<2, 1, 2>>, <<3, 5, 3>>}
R2 == R1 * m
Zero == <<0, 0, 0>>
Grid == 0..(GridLen - 1)
Cells == (Vecs \X {"H"}) \cup (IF WithStale THEN {<<Zero, "STALE">>} ELSE {})
SeriesOn(T, g) ==
    LET tseq == SetToSortSeq(T, <) IN
    { [ts |-> tseq, hv |-> [i \in 1..Len(tseq) |-> f[tseq[i]][1]], ks |-> [i \in 1..Len(tseq) |-> f[tseq[i]][2]], gauge |-> g]
        : f \in [T -> Cells] }
TimeSets(maxn) == { S \in SUBSET Grid : Cardinality(S) <= maxn }
NoRaw == [ts |-> <<>>, hv |-> <<>>, ks |-> <<>>, gauge |-> FALSE]

Init ==
    /\ tset \in TimeSets(MaxSamples)
    /\ m \in Mults /\ nc1 \in Counts1 /\ nc2 \in Counts2
    /\ raw = NoRaw
    /\ pc = "assign" /\ p = 1 /\ c1 = <<>> /\ rest = <<>> /\ c2 = <<>>

Assign ==
    /\ pc = "assign"
    /\ \E g \in BOOLEAN : raw' \in SeriesOn(tset, g)
    /\ pc' = "l1"
    /\ UNCHANGED <<tset, m, nc1, nc2, p, c1, rest, c2>>

RawBatchStep ==
    /\ pc = "l1" /\ p <= N(raw)
    /\ LET j == RawBatchEnd(raw, R1, (N(raw) \div nc1) + 1, p)
           b == HRawBatch(raw, p, j)
       IN /\ p' = j + 1
          /\ c1' = IF b = <<>> THEN c1 ELSE Append(c1, HBatchChunk(b, R1, raw.gauge))
    /\ UNCHANGED <<tset, raw, m, nc1, nc2, pc, rest, c2>>

RawDone ==
    /\ pc = "l1" /\ p > N(raw)
    /\ rest' = c1
    /\ pc' = IF c1 = <<>> THEN "done" ELSE "l2"
    /\ UNCHANGED <<tset, raw, m, nc1, nc2, p, c1, c2>>

NC2 == Min2(nc2, Len(c1))
AggrPart ==
    /\ pc = "l2" /\ rest # <<>>
    /\ LET j == Min2(Len(c1) \div NC2, Len(rest))
       IN /\ c2' = Append(c2, HAggrPartChunk(SubSeq(rest, 1, j), R2, raw.gauge))
          /\ rest' = SubSeq(rest, j + 1, Len(rest))
    /\ UNCHANGED <<tset, raw, m, nc1, nc2, pc, p, c1>>

AggrDone ==
    /\ pc = "l2" /\ rest = <<>>
    /\ pc' = "done"
    /\ UNCHANGED <<tset, raw, m, nc1, nc2, p, c1, rest, c2>>

Done == pc = "done" /\ UNCHANGED vars
Next == Assign \/ RawBatchStep \/ RawDone \/ AggrPart \/ AggrDone \/ Done
Spec == Init /\ [][Next]_vars

(* ---- properties ---- *)
H36_Exact == pc # "assign" => HChunksExact(raw, R1, c1, Zero)
H36_Done == pc \in {"l2", "done"} => HTotalsEqual(raw, c1, Zero) /\ ChunksOrdered(c1)
Consumed == SubSeq(c1, 1, Len(c1) - Len(rest))
H38_TotalsConserved == pc \in {"l2", "done"} => HTotalsConserved(Consumed, c2, Zero)
H38_Ordered == pc \in {"l2", "done"} => OutputsOrdered(c2) /\ ChunksOrdered(c2)
H38_LastWindow == pc = "done" => LastWindowHasOutput(c1, c2, R2)
(* the counter aggregate inside one level-1 chunk: cumulative with resets added back, for a   *)
(* gauge series simply the last histogram of the window (deltas telescope)                    *)
HCtrGaugeIsLast == pc # "assign" /\ raw.gauge =>
    \A k \in DOMAIN c1 : \A j \in DOMAIN c1[k].ts :
        LET S == HWinIdx(raw, c1[k].ts[j], R1) IN c1[k].hctr[j] = raw.hv[CHOOSE i \in S : \A i2 \in S : i2 <= i]
StepsAgreeWithAlgo == pc = "done" => /\ c1 = HAlgoRaw(raw, R1, nc1)
                                     /\ c1 # <<>> => c2 = HAlgoAggr(c1, R2, NC2, raw.gauge)
Progress == pc # "done" => (pc = "assign" \/ p' > p \/ Len(rest') < Len(rest) \/ pc' # pc)
AlwaysProgress == [][Progress]_vars

(* ---- leg B ---- *)
CasesFile == IF "VERIF_CASES" \in DOMAIN IOEnv THEN IOEnv.VERIF_CASES ELSE "cases.ndjson"
RawSeries(maxn) == UNION { SeriesOn(T, g) : T \in TimeSets(maxn), g \in BOOLEAN }
CaseSeq == SetToSeq({ [ts |-> s.ts, hv |-> s.hv, ks |-> s.ks, gauge |-> s.gauge, r |-> R1, m |-> mm, nc1 |-> a, nc2 |-> b]
                        : s \in RawSeries(CaseSamples), mm \in Mults, a \in Counts1, b \in Counts2 })
ASSUME ndJsonSerialize(CasesFile, CaseSeq)
=============================================================================
