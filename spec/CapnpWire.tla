------------------------------ MODULE CapnpWire ------------------------------
(***************************************************************************)
(* Cap'n Proto replication encoding of write requests (property C25).      *)
(*                                                                         *)
(*   pkg/receive/writecapnp/marshal.go        Build / BuildInto /          *)
(*        marshalLabels / marshalHistogram / marshalExemplars /            *)
(*        marshalSymbols,  pkg/symboltable/builder.go  AddEntry            *)
(*   pkg/receive/writecapnp/write_request.go  NewRequest / At /            *)
(*        readHistogram / readExemplar                                     *)
(*                                                                         *)
(* A write request (input form, the protobuf types) is a sequence of       *)
(* tenant tuples  [tenant, series]; a series is                            *)
(*   [labels: <<[n, v]>>, samples: <<[t, v]>>, hists: <<H>>,               *)
(*    exemplars: <<[labels, value, ts]>>]                                  *)
(* and an input histogram H is                                             *)
(*   [ts, ckind ("int"|"float"|"unset"), count, zkind, zc, sum, schema, zt,*)
(*    hint, ps, ns, pd, nd, pc, nc, cv]                                    *)
(* (spans, integer deltas, float counts, custom bucket boundaries).        *)
(* The DECODED form of a histogram (what a receiver appends) is            *)
(*   [ts, kind ("int"|"float"), count, zc, sum, schema, zt, hint,          *)
(*    ps, ns, pb, nb, cv]                                                  *)
(* Strings are sequences of characters in the model (so that the symbol    *)
(* table's data/offsets layout is modelled) and atomic strings in traces;  *)
(* payload numbers are opaque tokens ("0" is the default of an unset       *)
(* field).  The property-level operators only use equality.                *)
(***************************************************************************)
EXTENDS Naturals, Sequences, FiniteSets

(* ======================= property level ================================ *)
(* "decoding it on the peer yields, per tenant, the same series with the   *)
(* same labels, float samples, native histograms and exemplars."           *)
(* `want` and `got` are sequences of decoded-form tenant tuples.  The      *)
(* result is the set of violated clauses.                                  *)
HistClauses(w, g) ==
    IF w = g THEN {}
    ELSE IF Len(w) = Len(g) /\ \A k \in 1..Len(w) : [w[k] EXCEPT !.cv = <<>>] = [g[k] EXCEPT !.cv = <<>>]
      THEN {"histogram-custom-values"}          \* equal up to the custom bucket boundaries
      ELSE {"histograms"}

SeriesClauses(w, g) ==
    (IF w.labels = g.labels THEN {} ELSE {"labels"})
    \cup (IF w.samples = g.samples THEN {} ELSE {"samples"})
    \cup HistClauses(w.hists, g.hists)
    \cup (IF w.exemplars = g.exemplars THEN {} ELSE {"exemplars"})

TenantClauses(w, g) ==
    (IF w.tenant = g.tenant THEN {} ELSE {"tenant"})
    \cup (IF Len(w.series) # Len(g.series) THEN {"series-count"}
          ELSE UNION { SeriesClauses(w.series[k], g.series[k]) : k \in 1..Len(w.series) })

RoundTripClauses(want, got) ==
    IF Len(want) # Len(got) THEN {"tenant-count"}
    ELSE UNION { TenantClauses(want[k], got[k]) : k \in 1..Len(want) }

(* What a receiver gets for an input histogram when nothing is lost: the    *)
(* conversion the protobuf replication path applies                         *)
(* (prompb.HistogramProtoToHistogram / FloatHistogramProtoToFloatHistogram):*)
(* a histogram is a float histogram iff its count is a float; an unset      *)
(* count or zero count, or one of the other kind, reads as 0.               *)
ExpectedHist(h) ==
    LET k == IF h.ckind = "float" THEN "float" ELSE "int" IN
    [ts |-> h.ts, kind |-> k,
     count |-> IF h.ckind = "unset" THEN "0" ELSE h.count,
     zc |-> IF h.zkind = k THEN h.zc ELSE "0",
     sum |-> h.sum, schema |-> h.schema, zt |-> h.zt, hint |-> h.hint,
     ps |-> h.ps, ns |-> h.ns,
     pb |-> IF k = "float" THEN h.pc ELSE h.pd,
     nb |-> IF k = "float" THEN h.nc ELSE h.nd,
     cv |-> h.cv]
ExpectedSeries(s) == [labels |-> s.labels, samples |-> s.samples,
                      hists |-> [k \in 1..Len(s.hists) |-> ExpectedHist(s.hists[k])],
                      exemplars |-> s.exemplars]
Expected(req) == [t \in 1..Len(req) |-> [tenant |-> req[t].tenant,
                    series |-> [k \in 1..Len(req[t].series) |-> ExpectedSeries(req[t].series[k])]]]

(* ======================= algorithm level =============================== *)
RECURSIVE CWFlatten(_)
CWFlatten(ss) == IF ss = <<>> THEN <<>> ELSE Head(ss) \o CWFlatten(Tail(ss))

(* the strings of a request in the order the encoder interns them *)
LabelStrings(ls) == CWFlatten([k \in 1..Len(ls) |-> <<ls[k].n, ls[k].v>>])
SeriesStrings(s) == LabelStrings(s.labels) \o CWFlatten([k \in 1..Len(s.exemplars) |-> LabelStrings(s.exemplars[k].labels)])
ReqStrings(req) == CWFlatten([t \in 1..Len(req) |-> CWFlatten([k \in 1..Len(req[t].series) |-> SeriesStrings(req[t].series[k])])])

(* symboltable.Builder: table = the distinct strings in order of first appearance; index is 0-based *)
CWHas(table, s) == \E k \in 1..Len(table) : table[k] = s
AddEntry(table, s) == IF CWHas(table, s) THEN table ELSE Append(table, s)
IndexOf(table, s) == (CHOOSE k \in 1..Len(table) : table[k] = s) - 1
RECURSIVE InternAll(_, _)
InternAll(table, strs) == IF strs = <<>> THEN table ELSE InternAll(AddEntry(table, Head(strs)), Tail(strs))

(* marshalSymbols: all strings back to back, offsets[i] = END of string i *)
RECURSIVE SumLen(_, _)
SumLen(table, k) == IF k = 0 THEN 0 ELSE Len(table[k]) + SumLen(table, k - 1)
SymbolsWire(table) == [data |-> CWFlatten(table), offsets |-> [k \in 1..Len(table) |-> SumLen(table, k)]]
(* NewRequest: string i = data[offsets[i-1] .. offsets[i])  ("" when start = end) *)
SymbolsRead(w) == [k \in 1..Len(w.offsets) |->
                     LET start == IF k = 1 THEN 0 ELSE w.offsets[k - 1] IN SubSeq(w.data, start + 1, w.offsets[k])]

(* marshalHistogram: the Cap'n Proto struct.  The count / zeroCount unions default to the *)
(* integer member with value 0.  There is NO field for custom bucket boundaries.          *)
EncodeHist(h) ==
    [which |-> IF h.ckind = "float" THEN "float" ELSE "int",
     count |-> IF h.ckind = "unset" THEN "0" ELSE h.count,
     zwhich |-> IF h.zkind = "float" THEN "float" ELSE "int",
     zc |-> IF h.zkind = "unset" THEN "0" ELSE h.zc,
     sum |-> h.sum, schema |-> h.schema, zt |-> h.zt, hint |-> h.hint, ts |-> h.ts,
     ps |-> h.ps, ns |-> h.ns, pd |-> h.pd, nd |-> h.nd, pc |-> h.pc, nc |-> h.nc]
(* readHistogram: integer or float histogram by the count union; the zero count is read   *)
(* from the member of the same kind, 0 if the union holds the other member.               *)
DecodeHist(c) ==
    [ts |-> c.ts, kind |-> c.which, count |-> c.count,
     zc |-> IF c.zwhich = c.which THEN c.zc ELSE "0",
     sum |-> c.sum, schema |-> c.schema, zt |-> c.zt, hint |-> c.hint,
     ps |-> c.ps, ns |-> c.ns,
     pb |-> IF c.which = "float" THEN c.pc ELSE c.pd,
     nb |-> IF c.which = "float" THEN c.nc ELSE c.nd,
     cv |-> <<>>]

EncodeLabels(table, ls) == [k \in 1..Len(ls) |-> [n |-> IndexOf(table, ls[k].n), v |-> IndexOf(table, ls[k].v)]]
DecodeLabels(strs, ls) == [k \in 1..Len(ls) |-> [n |-> strs[ls[k].n + 1], v |-> strs[ls[k].v + 1]]]

EncodeSeries(table, s) ==
    [labels |-> EncodeLabels(table, s.labels), samples |-> s.samples,
     hists |-> [k \in 1..Len(s.hists) |-> EncodeHist(s.hists[k])],
     exemplars |-> [k \in 1..Len(s.exemplars) |->
                      [labels |-> EncodeLabels(table, s.exemplars[k].labels),
                       value |-> s.exemplars[k].value, ts |-> s.exemplars[k].ts]]]
DecodeSeries(strs, s) ==
    [labels |-> DecodeLabels(strs, s.labels), samples |-> s.samples,
     hists |-> [k \in 1..Len(s.hists) |-> DecodeHist(s.hists[k])],
     exemplars |-> [k \in 1..Len(s.exemplars) |->
                      [labels |-> DecodeLabels(strs, s.exemplars[k].labels),
                       value |-> s.exemplars[k].value, ts |-> s.exemplars[k].ts]]]

(* the whole message: one symbol table shared by all tenant tuples *)
Encode(req) ==
    LET table == InternAll(<<>>, ReqStrings(req)) IN
    [symbols |-> SymbolsWire(table),
     data |-> [t \in 1..Len(req) |-> [tenant |-> req[t].tenant,
                 series |-> [k \in 1..Len(req[t].series) |-> EncodeSeries(table, req[t].series[k])]]]]
Decode(msg) ==
    LET strs == SymbolsRead(msg.symbols) IN
    [t \in 1..Len(msg.data) |-> [tenant |-> msg.data[t].tenant,
        series |-> [k \in 1..Len(msg.data[t].series) |-> DecodeSeries(strs, msg.data[t].series[k])]]]

(* known finding: the wire schema has no field for custom bucket boundaries *)
HasCustomValues(req) == \E t \in 1..Len(req) : \E k \in 1..Len(req[t].series) :
                          \E j \in 1..Len(req[t].series[k].hists) : req[t].series[k].hists[j].cv # <<>>
=============================================================================
