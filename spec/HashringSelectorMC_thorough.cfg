\* C49 phase 2, thorough: lists of <= 4 servers (two offsets), 2 readers, 3 SetServers calls, keys {1, 37, 90, 200}
SPECIFICATION Spec
CONSTANTS Locked = TRUE
          MaxServers = 4
          Readers = {1, 2}
          MaxSets = 3
          Keys = {1, 37, 90, 200}
INVARIANT C49_OldOrNew
INVARIANT C49_NoCrash
INVARIANT C49_LockSane
CHECK_DEADLOCK FALSE
