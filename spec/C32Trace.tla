------------------------------ MODULE C32Trace ------------------------------
(***************************************************************************)
(* Leg C for C32 (case trace).  The code under test reads the wall clock,  *)
(* so every call of the real ApplyRetentionPolicyByResolution /            *)
(* BlocksCleaner.DeleteMarkedBlocks / BestEffortCleanAbortedPartialUploads *)
(* is bracketed: tb = clock before the call (ms, rounded down), ta = clock *)
(* after it (ms, rounded up); dt = ta - tb.  Blocks are built relative to  *)
(* the clock, at offsets around each boundary.  One line per call:         *)
(*   proc     retention | cleaner | partial                                *)
(*   dt       ta - tb                                                      *)
(*   blocks[i] = [age, lim, flag, did]                                     *)
(*     retention: age = tb - MaxTime, lim = retention configured for the   *)
(*                block's resolution (0 = disabled), did = it was marked   *)
(*     cleaner:   age = tb - 1000 * DeletionTime of the mark, lim = delete *)
(*                delay, did = objects of the block were deleted           *)
(*     partial:   age = tb - newest last-modified of the block's objects,  *)
(*                lim = abort threshold, flag = the block is scheduled for *)
(*                deletion, did = objects of the block were deleted        *)
(* Soundness under clock uncertainty: an action is rejected only if the    *)
(* statement forbids it EVEN AT ta (every condition only becomes "more     *)
(* true" as time passes).  A missing action is never a violation.          *)
(***************************************************************************)
EXTENDS TraceLib, BlockLifecycle

(* retention-only-when-older: "Retention marks a block for deletion only when its newest sample is older than the  *)
(*    retention configured for its resolution"                                                                    *)
(* cleaner-only-after-delay: "the cleaner removes only blocks whose deletion mark is older than the delete delay" *)
(* partial-only-when-stale-and-unmarked: "partial uploads are removed only after they have been untouched for the *)
(*    abort threshold and only if they are not already scheduled for deletion"                                    *)
Allowed(proc, b, dt) ==
    CASE proc = "retention" -> C32_RetentionMayMark(b.age + dt, b.lim)
      [] proc = "cleaner"   -> C32_CleanerMayDelete(b.age + dt, b.lim)
      [] proc = "partial"   -> C32_PartialMayRemove(b.age + dt, b.lim, b.flag)
ClauseOf(proc) ==
    CASE proc = "retention" -> "retention-only-when-older"
      [] proc = "cleaner"   -> "cleaner-only-after-delay"
      [] proc = "partial"   -> "partial-only-when-stale-and-unmarked"
Judge(e) == IF \E i \in DOMAIN e.blocks : e.blocks[i].did /\ ~Allowed(e.proc, e.blocks[i], e.dt)
              THEN {ClauseOf(e.proc)} ELSE {}

(* model conformance: the algorithm-level predicate decides the same way whenever the clock uncertainty cannot matter *)
Algo(proc, b, d) ==
    CASE proc = "retention" -> AlgoRetentionMarks(b.age + d, b.lim)
      [] proc = "cleaner"   -> AlgoCleanerDeletes(b.age + d, b.lim)
      [] proc = "partial"   -> AlgoPartialRemoves(b.age + d, b.lim, b.flag)
Drift(e) == \E i \in DOMAIN e.blocks :
               LET b == e.blocks[i] IN (Algo(e.proc, b, -1) /\ ~b.did) \/ (~Algo(e.proc, b, e.dt) /\ b.did)

VARIABLE l
TraceInit == l = 1
TraceNext == /\ l <= TraceLen
             /\ CaseReject(l, Trace[l], Judge(Trace[l]))
             /\ (IF Drift(Trace[l]) THEN PrintT(<<"DRIFT", l, Trace[l]["case"]>>) ELSE TRUE)
             /\ l' = l + 1
TraceSpec == TraceInit /\ [][TraceNext]_l
TraceAccepted == TLCGet("stats").diameter = TraceLen + 1
=============================================================================
