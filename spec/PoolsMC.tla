------------------------------- MODULE PoolsMC -------------------------------
(***************************************************************************)
(* Leg A of C17 (a): concurrent sharded Series requests of one ProxyStore  *)
(* sharing its sync.Pool of buffers.                                       *)
(*                                                                         *)
(* A request opens its stores one after the other (newAsyncRespSet:        *)
(* ShardInfo.Matcher takes a buffer; a store whose Series call fails       *)
(* leaves its matcher unclosed), merges (a respSet whose stream is         *)
(* exhausted is closed by the loser tree's callback), may return early,    *)
(* and finally runs the deferred Close of every respSet it opened - so a   *)
(* respSet can be closed twice.  ShardMatcher.Close gives the buffer back  *)
(* on its first call only (Idempotent = TRUE, the code as it is now).      *)
(* sync.Pool: Get takes any pooled buffer or makes a new one; the runtime  *)
(* may drop pooled buffers at any time.                                    *)
(***************************************************************************)
EXTENDS Pools, TLC, Json, IOUtils, SequencesExt
CONSTANTS NReq, NStores, Idempotent, MayFailOpen

Reqs == 1..NReq
Stores == 1..NStores

VARIABLES pool,      \* bag of pooled buffers: buffer id -> count
          nextId,
          pc,        \* request -> "open" | "merge" | "defer" | "done"
          idx,       \* request -> store index of the open / defer loop
          opened,    \* request -> set of stores with a respSet
          buf,       \* request -> store -> buffer id of its matcher (0 = none)
          closes,    \* request -> store -> number of Close calls on its respSet
          exhausted, \* request -> stores closed by the tree callback
          owned      \* property level: buffers taken and not yet given back
vars == <<pool, nextId, pc, idx, opened, buf, closes, exhausted, owned>>

MaxId == NReq * NStores
Init == /\ pool = [b \in 1..MaxId |-> 0] /\ nextId = 1
        /\ pc = [r \in Reqs |-> "open"] /\ idx = [r \in Reqs |-> 1]
        /\ opened = [r \in Reqs |-> {}] /\ buf = [r \in Reqs |-> [s \in Stores |-> 0]]
        /\ closes = [r \in Reqs |-> [s \in Stores |-> 0]] /\ exhausted = [r \in Reqs |-> {}]
        /\ owned = {}

Pooled == { b \in 1..MaxId : pool[b] > 0 }

(* ShardInfo.Matcher: buffers.Get() *)
Open(r) ==
    /\ pc[r] = "open" /\ idx[r] <= NStores
    /\ \E b \in (IF Pooled = {} THEN {nextId} ELSE Pooled \cup {nextId}) :      \* a pooled one, or New()
         /\ b <= MaxId
         /\ pool' = (IF b \in Pooled THEN [pool EXCEPT ![b] = @ - 1] ELSE pool)
         /\ nextId' = (IF b = nextId THEN nextId + 1 ELSE nextId)
         /\ buf' = [buf EXCEPT ![r][idx[r]] = b]
         /\ owned' = owned \cup {b}
    /\ \E fails \in (IF MayFailOpen THEN BOOLEAN ELSE {FALSE}) :
         opened' = [opened EXCEPT ![r] = IF fails THEN @ ELSE @ \cup {idx[r]}]
    /\ idx' = [idx EXCEPT ![r] = @ + 1]
    /\ pc' = [pc EXCEPT ![r] = IF idx[r] = NStores THEN "merge" ELSE "open"]
    /\ UNCHANGED <<closes, exhausted>>

(* respSet.Close() -> ShardMatcher.Close() *)
CloseEffect(r, s) ==
    /\ closes' = [closes EXCEPT ![r][s] = @ + 1]
    /\ IF Idempotent /\ closes[r][s] > 0
         THEN UNCHANGED <<pool, owned>>
         ELSE pool' = [pool EXCEPT ![buf[r][s]] = @ + 1] /\ owned' = owned \ {buf[r][s]}

(* the loser tree finds store s exhausted and closes it *)
Exhaust(r, s) ==
    /\ pc[r] = "merge" /\ s \in opened[r] \ exhausted[r]
    /\ exhausted' = [exhausted EXCEPT ![r] = @ \cup {s}]
    /\ CloseEffect(r, s)
    /\ UNCHANGED <<nextId, pc, idx, opened, buf>>
(* the request returns (all exhausted, or early) *)
Return(r) ==
    /\ pc[r] = "merge"
    /\ pc' = [pc EXCEPT ![r] = "defer"] /\ idx' = [idx EXCEPT ![r] = NStores]
    /\ UNCHANGED <<pool, nextId, opened, buf, closes, exhausted, owned>>
(* deferred Close of every respSet that was opened, last first *)
Deferred(r) ==
    /\ pc[r] = "defer"
    /\ IF idx[r] = 0 THEN pc' = [pc EXCEPT ![r] = "done"] /\ UNCHANGED <<pool, closes, owned, idx>>
       ELSE /\ idx' = [idx EXCEPT ![r] = @ - 1] /\ UNCHANGED pc
            /\ IF idx[r] \in opened[r] THEN CloseEffect(r, idx[r]) ELSE UNCHANGED <<pool, closes, owned>>
    /\ UNCHANGED <<nextId, opened, buf, exhausted>>
(* the runtime clears the pool *)
Drop == /\ \E b \in Pooled : pool' = [pool EXCEPT ![b] = @ - 1]
        /\ UNCHANGED <<nextId, pc, idx, opened, buf, closes, exhausted, owned>>
AllDone == (\A r \in Reqs : pc[r] = "done") /\ UNCHANGED vars
Next == (\E r \in Reqs : Open(r) \/ Return(r) \/ Deferred(r) \/ \E s \in Stores : Exhaust(r, s)) \/ Drop \/ AllDone
Spec == Init /\ [][Next]_vars

(* ---- C17 (a) ---- *)
(* a matcher that has a buffer and has not given it back *)
Holders(b) == { <<r, s>> \in Reqs \X Stores : buf[r][s] = b /\ closes[r][s] = 0 }
(* "returned to the pool at most once": never twice in the pool, never in the pool while held *)
C17_ReturnedAtMostOnce == \A b \in 1..MaxId : pool[b] + Cardinality(Holders(b)) <= 1
(* "no two concurrent requests ever share it" *)
C17_NeverShared == \A b \in 1..MaxId : Cardinality(Holders(b)) <= 1
(* the property-level bookkeeping used by the trace spec agrees: Get never hands out an owned  *)
(* buffer, Put only gives back an owned one                                                      *)
C17_TraceClausesHold ==
    [][/\ \A b \in owned' \ owned : GetClauses(owned, b) = {}
       /\ \A b \in 1..MaxId : pool'[b] > pool[b] => PutClauses(owned, b) = {}]_vars

(* ---- leg B: request scenarios for the harness ---- *)
CasesFile == IF "VERIF_CASES" \in DOMAIN IOEnv THEN IOEnv.VERIF_CASES ELSE "cases.ndjson"
CaseSeq == SetToSeq({ [kind |-> "shard", nreq |-> n, nstores |-> s, retr |-> rt, limit |-> lim, failopen |-> fo, proxyshards |-> ps] :
                        n \in 1..(NReq + 1), s \in 1..(NStores + 1), rt \in {"lazy", "eager"}, lim \in {0, 1},
                        fo \in (IF MayFailOpen THEN 0..1 ELSE {0}), ps \in BOOLEAN })
ASSUME ndJsonSerialize(CasesFile, CaseSeq)
=============================================================================
