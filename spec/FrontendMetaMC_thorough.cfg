\* C42 phase 2 leg A thorough: metadata cache, grid 0..8, split intervals 3 and 4, min extent 3 (active),
\* label names + series + instant queries, worlds 1,2, histories of at most 3 requests (+ losses)
SPECIFICATION Spec
CONSTANTS T = 8
          Ivs = {3, 4}
          MinExt = 3
          WorldIds = {1, 2}
          MaxHist = 3
          CaseGrid = {0, 1, 2, 3, 4, 5, 6, 8}
          Kinds = {0, 1, 3}
INVARIANTS AnswerOK C42_MetaExtentsHoldDirectData C42_MetaExtentsOrdered
PROPERTIES C42_MetaAnswers
VIEW View
CHECK_DEADLOCK FALSE
