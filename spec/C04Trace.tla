------------------------------ MODULE C04Trace ------------------------------
(***************************************************************************)
(* Leg C for C04.  One trace line per executed (world, configuration):     *)
(*   world[k]   replica series [lbls, id, samples <<t,v>>.., chunks         *)
(*              [lo,hi,st]..] built by the harness from the case            *)
(*   cfg        [dedup, rls, strip, lo, hi, pr, retr, frame, batch, tsdb,   *)
(*               fail, tight, sel, down, fn, rng, maxres, skip, mid, lv, ..] *)
(*   nstores, resms (downsampling window in ms, 0 = none); chunks carry     *)
(*   ds + agg (their downsampled form: count,sum,min,max,counter,avg)       *)
(*   lnames, lvals, lerr  LabelNames / LabelValues(cfg.lv) of the querier   *)
(*   series[i]  [lbls, samples] as returned by                              *)
(*              NewQueryableCreator(..)(dedup, rls, ..).Querier(lo, hi)     *)
(*              .Select(nil hints, __name__="m") over a real ProxyStore     *)
(*   err, warns error text ("" = none) and number of warnings               *)
(*   reqs       the SeriesRequests the fake stores received                 *)
(*   part       "all" | "rest" | "kf": cases of the known-finding class are *)
(*              run twice; "kf" judges only the exact-samples clause of the *)
(*              label sets in the class, "rest" everything else.            *)
(* Judged with the property-level operators of ReadPath only.               *)
(***************************************************************************)
EXTENDS TraceLib, ReadPath

(* "With deduplication off" = no label is a replica label.  *)
RLof(e) == IF e.cfg.dedup THEN RangeOf(e.cfg.rls) ELSE {}
StoreName(k) == "store-" \o ToString(k)
AllStores(e) == 1..e.nstores

(* stores that take part and answer completely: selected by the store matchers (cfg.sel, 0 = all), not down *)
Healthy(e) == IF e.cfg.tsdb THEN AllStores(e)
              ELSE { s \in AllStores(e) : (e.cfg.sel = 0 \/ e.cfg.sel = s) /\ e.cfg.down # s }
(* a selected store that fails mid-stream still contributes what it sent before *)
MidDown(e) == e.cfg.mid /\ e.cfg.down \in AllStores(e) /\ (e.cfg.sel = 0 \/ e.cfg.sel = e.cfg.down)
Reaching(e) == Healthy(e) \cup (IF MidDown(e) THEN {e.cfg.down} ELSE {})
(* a queried store fails: the extra failing store, or a selected data store that is down *)
Failing(e) == \/ e.cfg.fail # "" /\ e.cfg.sel = 0
              \/ e.cfg.down \in AllStores(e) /\ (e.cfg.sel = 0 \/ e.cfg.sel = e.cfg.down)

(* the fake store serves the downsampled form of a chunk iff it holds one and the request it *)
(* received allows that resolution (auto-downsampling)                                        *)
Served(e, c) == /\ c.ds /\ e.resms > 0
                /\ \E k \in DOMAIN e.reqs : e.reqs[k].store = StoreName(c.st) /\ e.reqs[k].maxres >= e.resms
Reps(e) == RangeOf(e.world)
VH(e) == EffView(Reps(e), Healthy(e), LAMBDA c : Served(e, c), e.cfg.fn)     \* must be in the answer
VA(e) == IF MidDown(e) THEN EffView(Reps(e), Reaching(e), LAMBDA c : Served(e, c), e.cfg.fn) ELSE VH(e)   \* may be
SReps(e) == Scoped(Reps(e), Healthy(e))
CounterQuery(e) == AggrKind(e.cfg.fn) = "counter"

(* label sets of the known-finding class (input only; same predicate as ReadPathMC and inKFClass); *)
(* must / may = VH(e) / VA(e), passed in so that they are computed once per line                    *)
InKF(e, must, l) ==
    LET G == Group(SReps(e), RLof(e), l)  VG == Group(must, RLof(e), l) IN
    /\ RLof(e) # {} /\ ~e.cfg.tsdb /\ e.resms = 0 /\ ~e.cfg.skip /\ VG # {} /\ IdenticalGroup(VG)
    /\ FirstChainIncomplete(GroupChunks(G, e.cfg.lo, e.cfg.hi), e.cfg.lo, e.cfg.hi, (CHOOSE r \in VG : TRUE).samples)

(* exactness is judged for a label set whose replicas are seen consistently and completely *)
Exactable(e, must, may, l) ==
    /\ ~e.cfg.skip
    /\ Group(may, RLof(e), l) = Group(must, RLof(e), l)
    /\ (MidDown(e) => \A r \in Reps(e) : Strip(r.lbls, RLof(e)) = l =>      \* nothing of it on the store that broke
                         \A k \in DOMAIN r.chunks : r.chunks[k].st # e.cfg.down)   \* mid-stream (its partial chunks
                                                                                \* may open another chain)
    /\ \A r \in Group(must, RLof(e), l) : ConsistentSamples(r.samples)
JudgedExact(e, must, may, l) == Exactable(e, must, may, l) /\
    (CASE e.part = "all" -> TRUE [] e.part = "rest" -> ~InKF(e, must, l) [] e.part = "kf" -> InKF(e, must, l))
JudgedOther(e) == e.part # "kf"

Mode(e, on, off) == IF RLof(e) # {} THEN on ELSE off

Judge(e) ==
    LET must == VH(e)  may == VA(e)  RL == RLof(e)  lo == e.cfg.lo  hi == e.cfg.hi  out == e.series
        aborted == Failing(e) /\ ~e.cfg.pr
        outL == [i \in DOMAIN out |-> out[i].lbls]
    IN
    (* the query itself: succeeds when every queried store answers, and under the warn strategy *)
    (IF JudgedOther(e) /\ ~aborted /\ e.err # "" THEN {"select-succeeds"} ELSE {})
    \cup
    (* C04, sentence 1: "a query with deduplication on returns one series per label set after     *)
    (* removing the replica labels"; sentence 2: "With deduplication off every replica is         *)
    (* returned as its own series"                                                                 *)
    (IF JudgedOther(e) /\ e.err = "" /\
        ~(/\ NoDuplicates(outL)
          /\ MustLsets(must, RL, lo, hi) \subseteq RangeOf(outL)
          /\ RangeOf(outL) \subseteq MayLsets(may, RL))
       THEN {Mode(e, "dedup-on-one-series-per-labelset", "dedup-off-one-series-per-replica")} ELSE {})
    \cup
    (* "when the replicas hold identical samples that series has exactly those samples, however    *)
    (* the data is cut into chunks, frames and stores" / "... with its own samples"; for data the  *)
    (* stores serve downsampled, the samples of the aggregate the query's function reads           *)
    (IF e.err = "" /\ \E i \in DOMAIN out : JudgedExact(e, must, may, out[i].lbls) /\ ~ExactWhenIdentical(out[i], must, RL, lo, hi)
       THEN {Mode(e, "identical-replicas-exact-samples", "replica-own-samples")} ELSE {})
    \cup
    (* "with replica data": returned samples are samples of a replica of that logical series; a    *)
    (* counter function over non-identical replicas may shift values (C02): timestamps only        *)
    (IF JudgedOther(e) /\ e.err = "" /\ \E i \in DOMAIN out :
          IF CounterQuery(e) /\ ~IdenticalGroup(Group(may, RL, out[i].lbls))
            THEN ~TimeProvenance(out[i], may, RL) ELSE ~Provenance(out[i], may, RL)
       THEN {"samples-from-replicas"} ELSE {})
    \cup
    (* ---- querier behaviour beyond C04's statement (extensions, same weakest-reading rule) ----  *)
    (* counter functions (rate hints => counter dedup path): non-decreasing replicas give a        *)
    (* non-decreasing answer with strictly increasing timestamps (C02 end to end)                  *)
    (IF JudgedOther(e) /\ e.err = "" /\ CounterQuery(e) /\ ~e.cfg.skip /\ \E i \in DOMAIN out :
          (\A r \in Group(may, RL, out[i].lbls) : NonDecreasing(r.samples)) /\ ~NonDecreasing(out[i].samples)
       THEN {"ext-counter-non-decreasing"} ELSE {})
    \cup
    (* partial response off + a failing store: the Select fails (flag -> ABORT strategy)           *)
    (IF JudgedOther(e) /\ aborted /\ e.err = "" THEN {"ext-abort-on-store-failure"} ELSE {})
    \cup
    (* partial response on + a failing store: a warning surfaces in SeriesSet.Warnings()           *)
    (IF JudgedOther(e) /\ Failing(e) /\ e.cfg.pr /\ e.err = "" /\ e.warns < 1 THEN {"ext-warning-surfaces"} ELSE {})
    \cup
    (* ... and what the healthy stores hold for a replica is complete in its series (dedup off)    *)
    (IF JudgedOther(e) /\ e.err = "" /\ RL = {} /\ ~e.cfg.skip /\ \E i \in DOMAIN out :
          \E r \in Group(must, RL, out[i].lbls) : ~(RangeOf(InRange(r.samples, lo, hi)) \subseteq RangeOf(out[i].samples))
       THEN {"ext-healthy-stores-complete"} ELSE {})
    \cup
    (* the time range sent to every queried store covers the querier's [mint, maxt]                *)
    (IF JudgedOther(e) /\ \E k \in DOMAIN e.reqs : ~RangeCovers(e.reqs[k].mint, e.reqs[k].maxt, lo, hi)
       THEN {"ext-store-range-covers-query"} ELSE {})
    \cup
    (* store matchers: a store whose address they do not match is not queried                      *)
    (IF JudgedOther(e) /\ e.cfg.sel # 0 /\ \E k \in DOMAIN e.queried : e.queried[k] # StoreName(e.cfg.sel)
       THEN {"ext-store-matchers-select"} ELSE {})
    \cup
    (* max source resolution: never coarser than allowed, nor than range/2 for two-sample functions *)
    (IF JudgedOther(e) /\ \E k \in DOMAIN e.reqs : ~MaxResOK(e.reqs[k].maxres, e.cfg.maxres, e.cfg.fn, e.cfg.rng)
       THEN {"ext-max-resolution-honoured"} ELSE {})
    \cup
    (* metadata calls of the same querier (LabelNames, LabelValues(cfg.lv))                        *)
    (IF JudgedOther(e) /\ ~aborted /\ e.lerr # "" THEN {"meta-calls-succeed"} ELSE {})
    \cup
    (IF JudgedOther(e) /\ e.lerr = "" /\
        (RangeOf(e.lnames) \cap RL # {} \/ (e.cfg.lv \in RL /\ e.lvals # <<>>))
       THEN {"meta-no-replica-labels"} ELSE {})
    \cup
    (IF JudgedOther(e) /\ e.lerr = "" /\ ~(NoDuplicates(e.lnames) /\ NoDuplicates(e.lvals))
       THEN {"meta-each-once"} ELSE {})
    \cup
    (IF JudgedOther(e) /\ e.lerr = "" /\
        ~(/\ NamesMust(must, RL, lo, hi) \subseteq RangeOf(e.lnames)
          /\ ValuesMust(must, RL, e.cfg.lv, lo, hi) \subseteq RangeOf(e.lvals))
       THEN {"meta-covers-series"} ELSE {})
    \cup
    (IF JudgedOther(e) /\ e.lerr = "" /\
        ~(/\ RangeOf(e.lnames) \subseteq NamesMay(Reps(e), RL)
          /\ RangeOf(e.lvals) \subseteq ValuesMay(Reps(e), RL, e.cfg.lv))
       THEN {"meta-nothing-invented"} ELSE {})

(* Model conformance (never a verdict): the algorithm-level pipeline predicts the samples inside *)
(* the query range, from the chunks as the stores served them.                                   *)
EffGroupChunks(e, l) ==
    { ch \in UNION { { LET ss == EffChunk(r, r.chunks[k], Served(e, r.chunks[k]), e.cfg.fn) IN
                        IF ss = <<>> THEN [min |-> 0, max |-> -1, samples |-> ss, tie |-> r.id]
                        ELSE [min |-> ss[1][1], max |-> ss[Len(ss)][1], samples |-> ss, tie |-> r.id]
                      : k \in { k \in DOMAIN r.chunks : r.chunks[k].st \in Healthy(e) } }
                    : r \in { x \in Reps(e) : Strip(x.lbls, RLof(e)) = l } }
      : ch.samples # <<>> /\ ChunkOverlaps(ch, e.cfg.lo, e.cfg.hi) }
NoTies(chs) == \A c, d \in chs : (c.min = d.min /\ c.max = d.max) => c.samples = d.samples
Drift(e) ==
    /\ e.drift /\ e.err = "" /\ ~e.cfg.skip /\ ~MidDown(e) /\ ~e.cfg.tsdb
    /\ \E i \in DOMAIN e.series :
         LET l == e.series[i].lbls
             chs == EffGroupChunks(e, l) IN
         /\ chs # {} /\ NoTies(chs)
         /\ ~(CounterQuery(e) /\ ~IdenticalGroup(Group(VH(e), RLof(e), l)))
         /\ InRange(e.series[i].samples, e.cfg.lo, e.cfg.hi) #
                (IF RLof(e) # {} THEN PipelineDedup(chs, e.cfg.lo, e.cfg.hi) ELSE PipelinePlain(chs, e.cfg.lo, e.cfg.hi))

VARIABLE l
TraceInit == l = 1
TraceNext == /\ l <= TraceLen
             /\ CaseReject(l, Trace[l], Judge(Trace[l]))
             /\ (IF Drift(Trace[l]) THEN PrintT(<<"DRIFT", l, Trace[l]["case"]>>) ELSE TRUE)
             /\ l' = l + 1
TraceSpec == TraceInit /\ [][TraceNext]_l
TraceAccepted == TLCGet("stats").diameter = TraceLen + 1
=============================================================================
