------------------------------ MODULE C04Trace ------------------------------
(***************************************************************************)
(* Leg C for C04.  One trace line per executed (world, configuration):     *)
(*   world[k]   replica series [lbls, id, samples <<t,v>>.., chunks         *)
(*              [lo,hi,st]..] built by the harness from the case            *)
(*   cfg        [dedup, rls, strip, lo, hi, pr, retr, frame, batch, tsdb,   *)
(*               fail, tight, sel, down, fn, rng, maxres]; nstores          *)
(*   series[i]  [lbls, samples] as returned by                              *)
(*              NewQueryableCreator(..)(dedup, rls, ..).Querier(lo, hi)     *)
(*              .Select(nil hints, __name__="m") over a real ProxyStore     *)
(*   err, warns error text ("" = none) and number of warnings               *)
(*   reqs       the SeriesRequests the fake stores received                 *)
(*   part       "all" | "rest" | "kf": cases of the known-finding class are *)
(*              run twice; "kf" judges only the exact-samples clause of the *)
(*              label sets in the class, "rest" everything else.            *)
(* Judged with the property-level operators of ReadPath only.               *)
(***************************************************************************)
EXTENDS TraceLib, ReadPath

(* "With deduplication off" = no label is a replica label.  *)
RLof(e) == IF e.cfg.dedup THEN RangeOf(e.cfg.rls) ELSE {}

(* stores that take part: selected by the store matchers (cfg.sel, 0 = all) and not down *)
InScope(e) == { s \in 1..e.nstores : (e.cfg.sel = 0 \/ e.cfg.sel = s) /\ e.cfg.down # s }
SReps(e) == IF e.cfg.tsdb THEN RangeOf(e.world) ELSE Scoped(RangeOf(e.world), InScope(e))
VReps(e) == Visible(SReps(e))
(* a queried store fails: the extra failing store, or a selected data store that is down *)
Failing(e) == \/ e.cfg.fail # "" /\ e.cfg.sel = 0
              \/ e.cfg.down # 0 /\ e.cfg.down <= e.nstores /\ (e.cfg.sel = 0 \/ e.cfg.sel = e.cfg.down)

(* label sets of the known-finding class (input only; same predicate as ReadPathMC) *)
InKF(e, l) ==
    LET G == Group(SReps(e), RLof(e), l)  VG == Group(VReps(e), RLof(e), l) IN
    /\ RLof(e) # {} /\ ~e.cfg.tsdb /\ VG # {} /\ IdenticalGroup(VG)
    /\ FirstChainIncomplete(GroupChunks(G, e.cfg.lo, e.cfg.hi), e.cfg.lo, e.cfg.hi, (CHOOSE r \in VG : TRUE).samples)

JudgedExact(e, l) == CASE e.part = "all" -> TRUE [] e.part = "rest" -> ~InKF(e, l) [] e.part = "kf" -> InKF(e, l)
JudgedOther(e) == e.part # "kf"

Mode(e, on, off) == IF RLof(e) # {} THEN on ELSE off
StoreName(k) == "store-" \o ToString(k)

Judge(e) ==
    LET reps == VReps(e)  RL == RLof(e)  lo == e.cfg.lo  hi == e.cfg.hi  out == e.series
        aborted == Failing(e) /\ ~e.cfg.pr
    IN
    (* the query itself: succeeds when every queried store answers, and under the warn strategy *)
    (IF JudgedOther(e) /\ ~aborted /\ e.err # "" THEN {"select-succeeds"} ELSE {})
    \cup
    (* C04, sentence 1: "a query with deduplication on returns one series per label set after     *)
    (* removing the replica labels"; sentence 2: "With deduplication off every replica is         *)
    (* returned as its own series"                                                                 *)
    (IF JudgedOther(e) /\ e.err = "" /\ ~OneSeriesPerLset(out, reps, RL, lo, hi)
       THEN {Mode(e, "dedup-on-one-series-per-labelset", "dedup-off-one-series-per-replica")} ELSE {})
    \cup
    (* "when the replicas hold identical samples that series has exactly those samples, however    *)
    (* the data is cut into chunks, frames and stores" / "... with its own samples"                *)
    (IF e.err = "" /\ \E i \in DOMAIN out : JudgedExact(e, out[i].lbls) /\ ~ExactWhenIdentical(out[i], reps, RL, lo, hi)
       THEN {Mode(e, "identical-replicas-exact-samples", "replica-own-samples")} ELSE {})
    \cup
    (* "with replica data": returned samples are samples of a replica of that logical series       *)
    (IF JudgedOther(e) /\ e.err = "" /\ \E i \in DOMAIN out : ~Provenance(out[i], reps, RL)
       THEN {"samples-from-replicas"} ELSE {})
    \cup
    (* ---- querier behaviour beyond C04's statement (extensions, same weakest-reading rule) ----  *)
    (* partial response off + a failing store: the Select fails (flag -> ABORT strategy)           *)
    (IF JudgedOther(e) /\ aborted /\ e.err = "" THEN {"ext-abort-on-store-failure"} ELSE {})
    \cup
    (* partial response on + a failing store: a warning surfaces in SeriesSet.Warnings()           *)
    (IF JudgedOther(e) /\ Failing(e) /\ e.cfg.pr /\ e.err = "" /\ e.warns < 1 THEN {"ext-warning-surfaces"} ELSE {})
    \cup
    (* the time range sent to every queried store covers the querier's [mint, maxt]                *)
    (IF JudgedOther(e) /\ \E k \in DOMAIN e.reqs : ~RangeCovers(e.reqs[k].mint, e.reqs[k].maxt, lo, hi)
       THEN {"ext-store-range-covers-query"} ELSE {})
    \cup
    (* store matchers: a store whose address they do not match is not queried                      *)
    (IF JudgedOther(e) /\ e.cfg.sel # 0 /\ \E k \in DOMAIN e.queried : e.queried[k] # StoreName(e.cfg.sel)
       THEN {"ext-store-matchers-select"} ELSE {})
    \cup
    (* max source resolution: never coarser than allowed, nor than range/2 for two-sample functions *)
    (IF JudgedOther(e) /\ \E k \in DOMAIN e.reqs : ~MaxResOK(e.reqs[k].maxres, e.cfg.maxres, e.cfg.fn, e.cfg.rng)
       THEN {"ext-max-resolution-honoured"} ELSE {})

(* Model conformance (never a verdict): the algorithm-level pipeline predicts the samples inside *)
(* the query range.                                                                              *)
NoTies(chs) == \A c, d \in chs : (c.min = d.min /\ c.max = d.max) => c.samples = d.samples
Drift(e) ==
    /\ e.drift /\ e.err = ""
    /\ \E i \in DOMAIN e.series :
         LET G == Group(SReps(e), RLof(e), e.series[i].lbls)
             chs == GroupChunks(G, e.cfg.lo, e.cfg.hi) IN
         /\ G # {} /\ NoTies(chs)
         /\ InRange(e.series[i].samples, e.cfg.lo, e.cfg.hi) #
                (IF RLof(e) # {} THEN PipelineDedup(chs, e.cfg.lo, e.cfg.hi) ELSE PipelinePlain(chs, e.cfg.lo, e.cfg.hi))

VARIABLE l
TraceInit == l = 1
TraceNext == /\ l <= TraceLen
             /\ CaseReject(l, Trace[l], Judge(Trace[l]))
             /\ (IF Drift(Trace[l]) THEN PrintT(<<"DRIFT", l, Trace[l]["case"]>>) ELSE TRUE)
             /\ l' = l + 1
TraceSpec == TraceInit /\ [][TraceNext]_l
TraceAccepted == TLCGet("stats").diameter = TraceLen + 1
=============================================================================
