\* C01 leg A, sample kinds: 2 replicas, every sample a float or a native histogram, at most 2 samples
\* each on a 3-point grid (19^2 = 361 layouts + 19 identical), readers with at most one Seek
SPECIFICATION Spec
CONSTANTS InitPen = 5
          Grid = {0, 1, 7}
          NumReps = 2
          MaxLen = 2
          Ctr = FALSE
          Starts = {0}
          Incs = {0}
          Targets = {1, 7}
          EmitMod = 1
          MaxSeeks = 1
          Kinds = {"f", "h"}
INVARIANTS C01_StrictlyIncreasing C01_FromSomeReplica C01_UnchangedIfIdentical C01_SeekIsSuffix
           C01_FollowsFullStream StepwiseEqualsFunctional BoundedOutput OnlyDoneIsFinal
CHECK_DEADLOCK FALSE
