---------------------------- MODULE FrontendKeys ----------------------------
(***************************************************************************)
(* Results-cache keys of the query frontend (C43).                          *)
(*   pkg/queryfrontend/cache.go  thanosCacheKeyGenerator.GenerateCacheKey,  *)
(*                               generateQueryRangeCacheKey                 *)
(*   internal/cortex/tenant      tenant IDs may contain ':' (not '/', '\')  *)
(*                                                                         *)
(* Keys are concatenations of fields over an alphabet that contains the    *)
(* separators.  A free-text value is a sequence of tokens (TLA+ strings);   *)
(* the separator characters ":" "," and the escape "\" only ever occur as  *)
(* single-character tokens, so escaping tokens = escaping characters, and   *)
(* a key is the flat string of all its tokens (token boundaries are not     *)
(* part of a key -- that is exactly what makes unescaped keys ambiguous).   *)
(*                                                                         *)
(* Requests (records):                                                      *)
(*  range : kind, tenant, query, step, split, start, msr, shard, lookback,  *)
(*          engine, partial, replicas, analyze, dedup, storem, nostore      *)
(*  labels: kind, tenant, label, matchers, partial, split, start, storem,   *)
(*          nostore                                                         *)
(*  series: kind, tenant, matchers, partial, replicas, dedup, split, start, *)
(*          storem, nostore                                                 *)
(* tenant/query/engine/label: token sequences; replicas: sequence of token  *)
(* sequences; matchers: sequence of selector strings (opaque, printed by    *)
(* the code as a bracketed, quoted list -- self-delimiting, assumption);    *)
(* shard: [on, total, index, by, labels].                                   *)
(***************************************************************************)
EXTENDS Integers, Sequences, FiniteSets, TLC

RECURSIVE Flat(_)
Flat(toks) == IF toks = <<>> THEN "" ELSE toks[1] \o Flat(Tail(toks))
Rng(s) == { s[i] : i \in DOMAIN s }

(* ======================= property level (the statement of C43) ======================= *)

(* "cacheable frontend requests" are the requests the frontend sends through the results cache.  In  *)
(* traces that is OBSERVED (shouldCache of the real code said yes); ShouldCache is the algorithm-    *)
(* level transcription (deduplication on, no store matchers, no Cache-Control: no-store) used by     *)
(* the model and for conformance.                                                                   *)
ShouldCache(r) == r.storem = <<>> /\ ~r.nostore /\ (r.kind = "labels" \/ r.dedup)

(* resolution: max_source_resolution selects one of three data resolutions (raw / 5m / 1h); two  *)
(* values that select the same one cannot change the answer (weakest reading of "resolution").  *)
Level(msr) == IF msr >= 3600000 THEN 0 ELSE IF msr >= 300000 THEN 1 ELSE 2

FlatSet(list) == { Flat(list[i]) : i \in DOMAIN list }      \* replica labels act as a set

(* The parameters named by the statement, per request kind: the set of those in which a and b differ. *)
DiffFields(a, b) ==
    (IF Flat(a.tenant) # Flat(b.tenant) THEN {"tenant"} ELSE {})
    \cup (IF a.partial # b.partial THEN {"partial"} ELSE {})
    \cup (IF a.kind = "range" THEN
            (IF Flat(a.query) # Flat(b.query) THEN {"query"} ELSE {})
            \cup (IF a.step # b.step THEN {"step"} ELSE {})
            \cup (IF Level(a.msr) # Level(b.msr) THEN {"resolution"} ELSE {})
            \cup (IF <<a.shard.on, a.shard.total, a.shard.index>> # <<b.shard.on, b.shard.total, b.shard.index>>
                    THEN {"shard"} ELSE {})
            \cup (IF a.shard.on /\ b.shard.on /\ <<a.shard.by, Rng(a.shard.labels)>> # <<b.shard.by, Rng(b.shard.labels)>>
                    THEN {"shardlabels"} ELSE {})
            \cup (IF a.lookback # b.lookback THEN {"lookback"} ELSE {})
            \cup (IF Flat(a.engine) # Flat(b.engine) THEN {"engine"} ELSE {})
            \cup (IF a.analyze # b.analyze THEN {"analyze"} ELSE {})
          ELSE {})
    \cup (IF a.kind \in {"range", "series"} /\ FlatSet(a.replicas) # FlatSet(b.replicas) THEN {"replicas"} ELSE {})
    \cup (IF a.kind \in {"labels", "series"} /\ Rng(a.matchers) # Rng(b.matchers) THEN {"matchers"} ELSE {})
    \cup (IF a.kind = "labels" /\ Flat(a.label) # Flat(b.label) THEN {"label"} ELSE {})
    (* deduplication and store matchers change the answer as well; today such requests bypass the cache, *)
    (* so they only matter if an implementation starts caching them                                      *)
    \cup (IF a.kind \in {"range", "series"} /\ a.dedup # b.dedup THEN {"dedup"} ELSE {})
    \cup (IF Rng(a.storem) # Rng(b.storem) THEN {"storematchers"} ELSE {})

(* "Two cacheable frontend requests that differ in tenant or in any parameter that can change  *)
(* the answer ... never map to the same cache key."  Requests of one kind and one interval of   *)
(* one cache are compared (the time range is not a key parameter: extents handle it).          *)
SameSlot(a, b) == a.kind = b.kind /\ a.split = b.split /\ a.start \div a.split = b.start \div b.split
MustDifferIf(a, b, ca, cb) == SameSlot(a, b) /\ ca /\ cb /\ DiffFields(a, b) # {}
MustDiffer(a, b) == MustDifferIf(a, b, ShouldCache(a), ShouldCache(b))

(* Known findings (KNOWN_FINDINGS.jsonl), each decided from the pair of inputs alone: the pair   *)
(* differs ONLY in a parameter the key format does not contain.                                  *)
KnownFinding(a, b) ==
    LET d == DiffFields(a, b) IN
    IF a.kind = "series" /\ "replicas" \in d /\ d \subseteq {"replicas", "partial"} THEN "series-replica-labels"
    ELSE IF a.kind \in {"labels", "series"} /\ d = {"partial"} THEN "meta-partial-response"
    ELSE IF a.kind = "range" /\ d = {"shardlabels"} THEN "shard-labels"
    ELSE ""

(* ======================= algorithm level (the key builders as they are in /repo) ======================= *)

FieldSpecials == {":", "\\"}
ListSpecials == {":", ",", "\\"}
Esc(toks, specials) == [i \in DOMAIN toks |-> IF toks[i] \in specials THEN "\\" \o toks[i] ELSE toks[i]]
(* The escaping scheme is part of the key builders: the property is the injectivity of the ESCAPED  *)
(* concatenation, so the alphabet of the free-text fields contains the escape character "\\" itself  *)
(* (alone, trailing, doubled, in front of a separator) besides the separators.  Modes:              *)
(*   "full" the code as it is: every separator and every escape character of the field is escaped;  *)
(*   "none" the format before the fix (no escaping), used to enumerate the collisions it had;       *)
(*   "lazy" a tempting shortcut that is WRONG: a value without separators is written unchanged even *)
(*          if it contains the escape character -- a trailing "\\" then escapes the separator that   *)
(*          follows the field: replica labels <<"a\\", "b">> and <<"a,b">> both render as a\\,b.       *)
Bool(b) == IF b THEN "true" ELSE "false"
Text(toks, specials, mode) ==
    IF mode = "none" THEN Flat(toks)
    ELSE IF mode = "lazy" /\ \A i \in DOMAIN toks : toks[i] \notin (specials \ {"\\"}) THEN Flat(toks)
    ELSE Flat(Esc(toks, specials))

RECURSIVE JoinFrom(_, _, _)
JoinFrom(list, i, mode) ==
    IF i > Len(list) THEN ""
    ELSE (IF i > 1 THEN "," ELSE "") \o Text(list[i], ListSpecials, mode) \o JoinFrom(list, i + 1, mode)
ShardKey(sh) == IF ~sh.on THEN "-" ELSE ToString(sh.total) \o ":" \o ToString(sh.index)

(* how the code prints [][]*labels.Matcher with %s: "[" groups separated by spaces "]" *)
RECURSIVE PrintSelFrom(_, _)
PrintSelFrom(ms, i) == IF i > Len(ms) THEN "" ELSE (IF i > 1 THEN " " ELSE "") \o "[" \o ms[i] \o "]" \o PrintSelFrom(ms, i + 1)
PrintMatchers(ms) == "[" \o PrintSelFrom(ms, 1) \o "]"

(* The fields after "fe", in order; the key is "fe" followed by ":" + field for each.  *)
FieldsMode(r, mode) ==
    IF r.kind = "range" THEN
      << Text(r.tenant, FieldSpecials, mode), Flat(r.query), ToString(r.step), ToString(r.split),
         ToString(r.start \div r.split), ToString(Level(r.msr)), ShardKey(r.shard), ToString(r.lookback),
         Text(r.engine, FieldSpecials, mode), Bool(r.partial), JoinFrom(r.replicas, 1, mode), Bool(r.analyze) >>
    ELSE IF r.kind = "labels" THEN
      << Text(r.tenant, FieldSpecials, mode), Text(r.label, FieldSpecials, mode), PrintMatchers(r.matchers),
         ToString(r.split), ToString(r.start \div r.split) >>
    ELSE
      << Text(r.tenant, FieldSpecials, mode), PrintMatchers(r.matchers), ToString(r.split), ToString(r.start \div r.split) >>
RECURSIVE KeyFrom(_, _)
KeyFrom(fs, i) == IF i > Len(fs) THEN "" ELSE ":" \o fs[i] \o KeyFrom(fs, i + 1)
KeyMode(r, mode) == "fe" \o KeyFrom(FieldsMode(r, mode), 1)
(* esc = TRUE: the code as it is; esc = FALSE: the format before the fix *)
Fields(r, esc) == FieldsMode(r, IF esc THEN "full" ELSE "none")
Key(r, esc) == KeyMode(r, IF esc THEN "full" ELSE "none")
=============================================================================
