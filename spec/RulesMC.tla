------------------------------- MODULE RulesMC -------------------------------
(***************************************************************************)
(* Leg A for C45: algorithm-level model of GRPCClient.Rules                *)
(*   filterRulesByMatchers (one step per rule, matches() transcribed in    *)
(*   Rules.tla) -> dedupGroups (groups with one key merged) -> per group   *)
(*   removeReplicaLabels, sort, adjacent-duplicate scan (one step per j).  *)
(* Checked for every input in a small scope against the property-level     *)
(* relation RViolations.  sort.Slice is modelled as ANY permutation that   *)
(* puts equal rules next to each other (all the scan relies on; the real   *)
(* sort is not stable either).                                             *)
(*                                                                         *)
(* Input scope (constants): rules are sequences (length <= MaxRules) over  *)
(*   group x type x value of label "a" (AVals: "" = absent, "T"/"M" =      *)
(*   templated forms) x value of the replica label "r" (RVals) x alert     *)
(*   state; the evaluation time is the position in the sequence.  Selector *)
(*   sets: <= MaxSets sets, <= MaxMatchers matchers each, at most          *)
(*   MaxTotal matchers in total, matchers over MNames x MTypes x MVals     *)
(*   (regex matchers use the fixed alternations ReAlts).                   *)
(***************************************************************************)
EXTENDS Rules, TLC, Json, IOUtils, SequencesExt
CONSTANTS MaxRules, Groups, Types, AVals, RVals, States,
          MaxSets, MaxMatchers, MaxTotal, MNames, MTypes, MVals,
          CaseMaxRulesWithTwoSets      \* leg B: inputs with 2 sets are emitted up to this many rules

Tmpl(tok) == CASE tok = "T" -> "{{ $labels.x }}"      \* one action node
               [] tok = "M" -> "x{{ .y }}z"           \* text + action + text
               [] OTHER -> tok
IsTmpl(tok) == tok \in {"T", "M"}

MkLabels(a, r) ==
    (IF a = "" THEN <<>> ELSE <<[n |-> "a", v |-> Tmpl(a), t |-> IsTmpl(a)]>>) \o
    (IF r = "" THEN <<>> ELSE <<[n |-> "r", v |-> r, t |-> FALSE]>>)

RuleDom == { [file |-> "f", group |-> g, type |-> ty, name |-> "n", query |-> "q", dur |-> 0,
              labels |-> MkLabels(a, r), st |-> IF ty = "alert" THEN s ELSE 0, ev |-> 0]
             : g \in Groups, ty \in Types, a \in AVals, r \in RVals, s \in States }
RuleSeqs == UNION { { [i \in 1..n |-> [f[i] EXCEPT !.ev = i]] : f \in [1..n -> RuleDom] } : n \in 0..MaxRules }

ReAlts == { <<"1", "2">>, <<"", "2">> }
MatcherDom == { [name |-> n, type |-> ty, alts |-> <<v>>] : n \in MNames, ty \in MTypes \cap {"EQ", "NEQ"}, v \in MVals }
              \cup { [name |-> n, type |-> ty, alts |-> al] : n \in MNames, ty \in MTypes \cap {"RE", "NRE"}, al \in ReAlts }
SetDom == UNION { [1..n -> MatcherDom] : n \in 1..MaxMatchers }
RECURSIVE SumLen(_)
SumLen(ss) == IF ss = <<>> THEN 0 ELSE Len(Head(ss)) + SumLen(Tail(ss))
SetSeqs == { ss \in UNION { [1..n -> SetDom] : n \in 0..MaxSets } : SumLen(ss) <= MaxTotal }

Inputs == { [rules |-> rs, sets |-> ss, rep |-> <<"r">>] : rs \in RuleSeqs, ss \in SetSeqs }

VARIABLES in,     \* the request and what the rules servers sent
          pc,     \* "filter" | "groups" | "pick" | "scan" | "done"
          fi,     \* filter loop index
          kept,   \* rules that passed the filter
          todo,   \* group keys still to deduplicate
          cur,    \* rules of the group being deduplicated (replica labels removed, sorted)
          ci, cj, \* the scan's indices i and j
          out     \* rules returned
vars == <<in, pc, fi, kept, todo, cur, ci, cj, out>>

Init == /\ in \in Inputs
        /\ pc = "filter" /\ fi = 1 /\ kept = <<>> /\ todo = <<>> /\ cur = <<>> /\ ci = 0 /\ cj = 0 /\ out = <<>>

(* one iteration of the loop over rules in filterRulesByMatchers *)
FilterStep ==
    /\ pc = "filter"
    /\ IF fi > Len(in.rules)
         THEN pc' = "groups" /\ UNCHANGED <<fi, kept>>
         ELSE /\ kept' = IF RAlgoMatches(in.sets, in.rules[fi].labels) THEN Append(kept, in.rules[fi]) ELSE kept
              /\ fi' = fi + 1 /\ UNCHANGED pc
    /\ UNCHANGED <<in, todo, cur, ci, cj, out>>

(* dedupGroups: one group per key, rules concatenated *)
GroupStep ==
    /\ pc = "groups"
    /\ todo' = SetToSeq({ <<r.file, r.group>> : r \in RRan(kept) })
    /\ pc' = "pick"
    /\ UNCHANGED <<in, fi, kept, cur, ci, cj, out>>

StripReplica(r) == [r EXCEPT !.labels = RWithoutReplica(r.labels, RRan(in.rep))]
SameRule(x, y) == RIdOf(x, x.labels) = RIdOf(y, y.labels)          \* Rule.Compare = 0
SortedVersions(s) ==
    { [k \in DOMAIN s |-> s[p[k]]] : p \in { q \in Permutations(DOMAIN s) :
        \A a, b, c \in DOMAIN s : (a < b /\ b < c /\ SameRule(s[q[a]], s[q[c]])) => SameRule(s[q[a]], s[q[b]]) } }

(* dedupRules on the next group: remove replica labels, sort *)
PickStep ==
    /\ pc = "pick"
    /\ IF todo = <<>>
         THEN pc' = "done" /\ UNCHANGED <<todo, cur, ci, cj>>
         ELSE LET key == Head(todo)
                  mine == SelectSeq(kept, LAMBDA r : <<r.file, r.group>> = key)
                  stripped == [k \in DOMAIN mine |-> StripReplica(mine[k])]
              IN /\ cur' \in SortedVersions(stripped)
                 /\ ci' = 1 /\ cj' = 2 /\ todo' = Tail(todo) /\ pc' = "scan"
    /\ UNCHANGED <<in, fi, kept, out>>

OutRule(r) == [file |-> r.file, group |-> r.group, type |-> r.type, name |-> r.name, query |-> r.query,
               dur |-> r.dur, labels |-> [k \in DOMAIN r.labels |-> [n |-> r.labels[k].n, v |-> r.labels[k].v]],
               st |-> r.st, ev |-> r.ev]

(* one iteration of `for j := 1; j < len(rules); j++` *)
ScanStep ==
    /\ pc = "scan"
    /\ IF cj > Len(cur)
         THEN /\ out' = out \o [k \in 1..ci |-> OutRule(cur[k])]
              /\ pc' = "pick" /\ UNCHANGED <<cur, ci, cj>>
         ELSE /\ IF ~SameRule(cur[ci], cur[cj])
                   THEN ci' = ci + 1 /\ cur' = [cur EXCEPT ![ci + 1] = cur[cj]]
                   ELSE IF RWorse(cur[ci], cur[cj])
                          THEN cur' = [cur EXCEPT ![ci] = cur[cj]] /\ UNCHANGED ci
                          ELSE UNCHANGED <<cur, ci>>
              /\ cj' = cj + 1 /\ UNCHANGED <<out, pc>>
    /\ UNCHANGED <<in, fi, kept, todo>>

(* the call has returned; stuttering here lets CHECK_DEADLOCK find any other state without a successor *)
DoneStep == pc = "done" /\ UNCHANGED vars

Next == FilterStep \/ GroupStep \/ PickStep \/ ScanStep \/ DoneStep
Spec == Init /\ [][Next]_vars /\ WF_vars(Next)

(* ---- C45 on the algorithm ---- *)
C45_ResultSatisfiesProperty == pc = "done" => RViolations(in, out) = {}
(* the survivor prediction the trace spec uses for model conformance is what the scan computes *)
SurvivorPredictionHolds == pc = "done" =>
    \A k \in DOMAIN out : <<out[k].st, out[k].ev>> \in RAlgoSurvivors(in, ROutIdentity(out[k]))
(* Termination: every loop index only grows and is bounded, and no state other than "done" lacks a
   successor (CHECK_DEADLOCK TRUE with DoneStep); the temporal form is checked in the quick tier only
   (liveness checking dominates the run time on larger scopes). *)
Terminates == <>(pc = "done")
Progress == [][pc' = pc => (fi' > fi \/ cj' > cj \/ pc = "done")]_vars

(* ---- leg B: the inputs handed to the harness ---- *)
CasesFile == IF "VERIF_CASES" \in DOMAIN IOEnv THEN IOEnv.VERIF_CASES ELSE "cases.ndjson"
CaseSeq == SetToSeq({ i \in Inputs : Len(i.sets) <= 1 \/ Len(i.rules) <= CaseMaxRulesWithTwoSets })
ASSUME ndJsonSerialize(CasesFile, CaseSeq)
=============================================================================
