SPECIFICATION TraceSpec
CONSTANTS InitPen = 5000
          K = 120
POSTCONDITION TraceAccepted
CHECK_DEADLOCK FALSE
