------------------------------ MODULE C39Trace ------------------------------
(***************************************************************************)
(* Leg C for C39.  One trace line per executed case:                       *)
(*   in.lens[k]   0 = aggregate k-1 absent, n>0 = present (n units)        *)
(*   in.t         requested aggregate type 0..4                            *)
(*   chunks[k]    hex of the real sub-chunk bytes given to the encoder     *)
(*                ("" when absent), encs[k] its encoding byte              *)
(*   got          [kind: "chunk"|"notexist"|"error"|"panic", enc, data]    *)
(* Judged with the property-level operator Expected of AggrChunk.          *)
(***************************************************************************)
EXTENDS TraceLib, AggrChunk

ChksOf(e) == [k \in Types |->
                IF e.in.lens[k + 1] = 0 THEN Null
                ELSE [enc |-> e.encs[k + 1], data |-> e.chunks[k + 1]]]

(* Clause names are what the driver reports.  *)
Judge(e) ==
    LET want == Expected(ChksOf(e), e.in.t) IN
    (IF want.kind = "notexist" /\ e.got.kind # "notexist" THEN {"absent-reported-notexist"} ELSE {})
    \cup
    (IF want.kind = "chunk" /\ ~(e.got.kind = "chunk" /\ e.got.enc = want.enc /\ e.got.data = want.data)
       THEN {"present-returned-unchanged"} ELSE {})

(* Model conformance (never a verdict): does the algorithm-level model predict what the code  *)
(* answered?  Printed as DRIFT tuples, counted by the driver.                                  *)
Drift(e) == e.got.kind \in {"chunk", "notexist", "error"} /\
            LET p == GetAlgo(Encode(ChksOf(e)), e.in.t) IN
            ~(p.kind = e.got.kind /\ (p.kind = "chunk" => p.enc = e.got.enc /\ p.data = e.got.data))

VARIABLE l
TraceInit == l = 1
TraceNext == /\ l <= TraceLen
             /\ CaseReject(l, Trace[l], Judge(Trace[l]))
             /\ (IF Drift(Trace[l]) THEN PrintT(<<"DRIFT", l, Trace[l]["case"]>>) ELSE TRUE)
             /\ l' = l + 1
TraceSpec == TraceInit /\ [][TraceNext]_l
TraceAccepted == TLCGet("stats").diameter = TraceLen + 1
=============================================================================
