------------------------------ MODULE C39Trace ------------------------------
(***************************************************************************)
(* Leg C for C39.  One trace line per executed case:                       *)
(*   in.lens[k]   0 = aggregate k-1 absent, n>0 = present                  *)
(*   in.t         requested aggregate type 0..4                            *)
(*   chunks[k]    descriptor of the real sub-chunk given to the encoder:   *)
(*                enc, len (bytes), h (FNV-32a digest of the bytes), and   *)
(*                the bytes themselves when short (full = TRUE)            *)
(*   got          kind: "chunk"|"notexist"|"error"|"panic" + descriptor    *)
(* "Unchanged" is judged on <<enc, len, h>> (and on the bytes when both    *)
(* are recorded); a digest collision is the only way to miss a change.     *)
(* Judged with the property-level operator Expected of AggrChunk.          *)
(***************************************************************************)
EXTENDS TraceLib, AggrChunk

Present(e, k) == e.in.lens[k + 1] # 0

SameChunk(d, g) == /\ g.enc = d.enc /\ g.len = d.len /\ g.h = d.h
                   /\ (d.full /\ g.full => g.bytes = d.bytes)

(* Clause names are what the driver reports.  *)
Judge(e) ==
    LET t == e.in.t IN
    (* "reports each absent one as not existing" *)
    (IF ~Present(e, t) /\ e.got.kind # "notexist" THEN {"absent-reported-notexist"} ELSE {})
    \cup
    (* "returns each present aggregate unchanged" *)
    (IF Present(e, t) /\ ~(e.got.kind = "chunk" /\ SameChunk(e.chunks[t + 1], e.got))
       THEN {"present-returned-unchanged"} ELSE {})

(* Model conformance (never a verdict): when every sub-chunk is short enough to be recorded in    *)
(* full, does the algorithm-level model (radix 128) predict what the code answered?               *)
AllFull(e) == \A k \in 1..5 : e.in.lens[k] = 0 \/ e.chunks[k].full
ChksOf(e) == [k \in Types |-> IF e.in.lens[k + 1] = 0 THEN Null
                               ELSE [enc |-> e.chunks[k + 1].enc, data |-> e.chunks[k + 1].bytes]]
Drift(e) == AllFull(e) /\ e.got.kind \in {"chunk", "notexist", "error"} /\
            LET p == GetAlgo(Encode(ChksOf(e)), e.in.t) IN
            ~(p.kind = e.got.kind /\ (p.kind = "chunk" => p.enc = e.got.enc /\ p.data = e.got.bytes))

VARIABLE l
TraceInit == l = 1
TraceNext == /\ l <= TraceLen
             /\ CaseReject(l, Trace[l], Judge(Trace[l]))
             /\ (IF Drift(Trace[l]) THEN PrintT(<<"DRIFT", l, Trace[l]["case"]>>) ELSE TRUE)
             /\ l' = l + 1
TraceSpec == TraceInit /\ [][TraceNext]_l
TraceAccepted == TLCGet("stats").diameter = TraceLen + 1
=============================================================================
