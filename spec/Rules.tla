-------------------------------- MODULE Rules --------------------------------
(***************************************************************************)
(* Rules API of the querier (pkg/rules/rules.go: GRPCClient.Rules):        *)
(* label-selector filter (filterRulesByMatchers / matches) followed by     *)
(* group merge (dedupGroups) and replica deduplication (dedupRules).       *)
(*                                                                         *)
(* Data shapes (the same in the model, in TLC-generated cases and in the   *)
(* recorded trace):                                                        *)
(*   label    [n |-> name, v |-> value, t |-> templated?]                  *)
(*            t = TRUE iff the value contains a template action            *)
(*   rule     [file, group, type \in {"alert","rec"}, name, query, dur,    *)
(*             labels : Seq(label), st \in 1..3 (inactive, pending,        *)
(*             firing; alerts only), ev (last evaluation, seconds)]        *)
(*   matcher  [name, type \in {"EQ","NEQ","RE","NRE"}, alts : Seq(string)] *)
(*            EQ/NEQ compare with alts[1]; RE/NRE are fully anchored       *)
(*            alternations of the literals in alts                         *)
(*   input    [rules : Seq(rule), sets : Seq(Seq(matcher)), rep : Seq(name)]*)
(*   out rule [file, group, type, name, query, dur, labels : Seq([n, v]),  *)
(*             st, ev]                                                     *)
(*                                                                         *)
(* Property C45: a rule is returned iff its non-templated labels satisfy   *)
(* all selectors of at least one set (Prometheus: OR over match[] sets);   *)
(* rules from replicas are deduplicated to one per rule.                   *)
(***************************************************************************)
EXTENDS Naturals, Sequences, FiniteSets

RRan(s) == { s[i] : i \in DOMAIN s }

(* ======================= property level ======================= *)

(* Value a selector sees for label `name`: templated labels do not take    *)
(* part in matching, a label that is absent (or templated) reads "".       *)
RLabelVal(ls, name) ==
    IF \E i \in DOMAIN ls : ls[i].n = name /\ ~ls[i].t
      THEN ls[CHOOSE i \in DOMAIN ls : ls[i].n = name /\ ~ls[i].t].v
      ELSE ""

RMatcherHolds(m, v) ==
    CASE m.type = "EQ"  -> v = m.alts[1]
      [] m.type = "NEQ" -> v # m.alts[1]
      [] m.type = "RE"  -> v \in RRan(m.alts)
      [] m.type = "NRE" -> v \notin RRan(m.alts)

(* "satisfy all selectors of" one set *)
RSetHolds(ms, ls) == \A i \in DOMAIN ms : RMatcherHolds(ms[i], RLabelVal(ls, ms[i].name))
(* "... of at least one set"; no set at all = no filter *)
RSelected(sets, ls) == sets = <<>> \/ \E k \in DOMAIN sets : RSetHolds(sets[k], ls)

RWithoutReplica(ls, rep) == SelectSeq(ls, LAMBDA x : x.n \notin rep)

(* What makes two returned rules "the same rule" once replica labels are   *)
(* gone: group, type, name, remaining labels, query, and the duration of   *)
(* an alerting rule.                                                       *)
RIdOf(r, lbls) == [file |-> r.file, group |-> r.group, type |-> r.type, name |-> r.name,
                   query |-> r.query, dur |-> IF r.type = "alert" THEN r.dur ELSE 0,
                   labels |-> { <<x.n, x.v>> : x \in RRan(lbls) }]
RIdentity(r, rep) == RIdOf(r, RWithoutReplica(r.labels, rep))
ROutIdentity(o) == RIdOf(o, o.labels)

(* The statement does not say whether selectors see replica labels (filter *)
(* before or after the replica labels are dropped).  Weakest reading: an   *)
(* identity MUST be returned if some replica of it is selected under both  *)
(* readings, and MAY be returned if some replica is selected under either. *)
RSelBefore(in, r) == RSelected(in.sets, r.labels)
RSelAfter(in, r) == RSelected(in.sets, RWithoutReplica(r.labels, RRan(in.rep)))
RMust(in) == { RIdentity(r, RRan(in.rep)) : r \in { x \in RRan(in.rules) : RSelBefore(in, x) /\ RSelAfter(in, x) } }
RMay(in)  == { RIdentity(r, RRan(in.rep)) : r \in { x \in RRan(in.rules) : RSelBefore(in, x) \/ RSelAfter(in, x) } }

(* The clauses of C45 violated by answering `out` (a sequence of out rules) to `in`.  *)
RViolations(in, out) ==
    LET ids == [k \in DOMAIN out |-> ROutIdentity(out[k])] IN
    (* "a rule is returned if its non-templated labels satisfy all selectors of at least one set" *)
    (IF RMust(in) \subseteq RRan(ids) THEN {} ELSE {"rule-matching-some-set-returned"})
    \cup
    (* "as in Prometheus": the selectors are a filter; nothing is returned that no set selects, *)
    (* and nothing that was not among the rules received                                         *)
    (IF RRan(ids) \subseteq RMay(in) THEN {} ELSE {"rule-matching-no-set-filtered-out"})
    \cup
    (* "rules from replicas are deduplicated to one per rule" *)
    (IF \A a, b \in DOMAIN ids : a # b => ids[a] # ids[b] THEN {} ELSE {"replicas-deduplicated-to-one"})

(* ======================= algorithm level ======================= *)
(* matches(): builds the non-templated label set once, then loops over the *)
(* sets; a set is accepted when its matcher loop runs to the end.          *)
RECURSIVE RAlgoMatcherLoop(_, _, _), RAlgoSetLoop(_, _, _)
RAlgoMatcherLoop(ms, i, ls) ==
    IF i > Len(ms) THEN TRUE
    ELSE IF ~RMatcherHolds(ms[i], RLabelVal(ls, ms[i].name)) THEN FALSE
    ELSE RAlgoMatcherLoop(ms, i + 1, ls)
RAlgoSetLoop(sets, k, ls) ==
    IF k > Len(sets) THEN FALSE
    ELSE IF RAlgoMatcherLoop(sets[k], 1, ls) THEN TRUE
    ELSE RAlgoSetLoop(sets, k + 1, ls)
RAlgoMatches(sets, ls) == IF Len(sets) = 0 THEN TRUE ELSE RAlgoSetLoop(sets, 1, ls)

(* rules[i].Compare(rules[j]) > 0 inside one identity: j is "younger" —    *)
(* more critical alert state first, then later evaluation.                 *)
RWorse(x, y) ==
    IF x.type = "alert" THEN y.st > x.st \/ (y.st = x.st /\ y.ev > x.ev)
    ELSE y.ev > x.ev

(* Which replica the algorithm keeps for an identity: the best under RWorse among the      *)
(* replicas that passed the filter (filter runs before the replica labels are dropped).    *)
RAlgoSurvivors(in, id) ==
    LET cand == { r \in RRan(in.rules) : RAlgoMatches(in.sets, r.labels) /\ RIdentity(r, RRan(in.rep)) = id }
    IN { <<r.st, r.ev>> : r \in { x \in cand : \A y \in cand : ~RWorse(x, y) } }
(* ======================= phase 2: the whole request path ======================= *)
(* GRPCClient.Rules over the real fan-out rules.Proxy: several rules servers (replicas), each of which *)
(* may fail, a partial-response strategy, and the name / group / file filters next to match[].         *)
(*   req  [rules : Seq(rule + src (index of the sending client) + sent (did it leave the client     *)
(*         before that client failed?)), sets, rep, names, groups, files : Seq(string),               *)
(*         strategy \in {"WARN","ABORT"}, clients : Seq([fail \in {"none","warn","open","mid"}])]       *)
(*         "warn": the client sends a warning and all its rules; "open": the call fails; "mid": the   *)
(*         stream fails after some groups                                                             *)
(*   got  [err, warnings (count), rules : Seq(out rule)]                                              *)
(* As in Prometheus the filter kinds compose by AND, the values of one kind by OR.                     *)
RNameOK(req, r) == /\ (req.names = <<>> \/ r.name \in RRan(req.names))
                   /\ (req.groups = <<>> \/ r.group \in RRan(req.groups))
                   /\ (req.files = <<>> \/ r.file \in RRan(req.files))
RHealthy(req, r) == req.clients[r.src].fail \in {"none", "warn"}
RAnyFailed(req) == \E c \in DOMAIN req.clients : req.clients[c].fail \in {"open", "mid"}
RAnyTrouble(req) == \E c \in DOMAIN req.clients : req.clients[c].fail # "none"
(* must: rules of servers that answered completely; may: every rule that left its server *)
RMust2(req) == { RIdentity(r, RRan(req.rep)) : r \in { x \in RRan(req.rules) :
                    RHealthy(req, x) /\ RNameOK(req, x) /\ RSelBefore(req, x) /\ RSelAfter(req, x) } }
RMay2(req)  == { RIdentity(r, RRan(req.rep)) : r \in { x \in RRan(req.rules) :
                    x.sent /\ RNameOK(req, x) /\ (RSelBefore(req, x) \/ RSelAfter(req, x)) } }

RViolations2(req, got) ==
    IF got.err # ""
      (* only the ABORT strategy may turn a failing rules server into a failed request *)
      THEN (IF req.strategy = "ABORT" /\ RAnyFailed(req) THEN {} ELSE {"valid-request-answered"})
    ELSE
    LET ids == [k \in DOMAIN got.rules |-> ROutIdentity(got.rules[k])] IN
    (IF req.strategy = "ABORT" /\ RAnyFailed(req) THEN {"abort-strategy-fails-on-store-error"} ELSE {})
    \cup (IF RAnyTrouble(req) /\ got.warnings = 0 THEN {"partial-response-warned"} ELSE {})
    \cup (IF RMust2(req) \subseteq RRan(ids) THEN {} ELSE {"rule-matching-some-set-returned"})
    \cup (IF RRan(ids) \subseteq RMay2(req) THEN {} ELSE {"rule-matching-no-set-filtered-out"})
    \cup (IF \A a, b \in DOMAIN ids : a # b => ids[a] # ids[b] THEN {} ELSE {"replicas-deduplicated-to-one"})

(* algorithm level: what reaches the client (everything sent), kept by both filters, best replica wins *)
RAlgoKept(req) == { r \in RRan(req.rules) : r.sent /\ RAlgoMatches(req.sets, r.labels) /\ RNameOK(req, r) }
RAlgoIds2(req) == { RIdentity(r, RRan(req.rep)) : r \in RAlgoKept(req) }
RAlgoSurvivors2(req, id) ==
    LET cand == { r \in RAlgoKept(req) : RIdentity(r, RRan(req.rep)) = id }
    IN { <<r.st, r.ev>> : r \in { x \in cand : \A y \in cand : ~RWorse(x, y) } }
=============================================================================
