\* C16 leg A thorough, second run (liveness): 2 readers x 2 calls, 1 idle sweep, 1 Close, load may fail; under strong fairness every call, sweep and Close terminates
SPECIFICATION FairSpec
CONSTANTS Readers = {"r1", "r2"}
          Calls = 2
          Sweeps = 1
          Closers = {"closer"}
          LoadMayFail = TRUE
          HoldAnswers = FALSE
INVARIANTS UseOnlyLoadedOpen NeverUseClosed ClosedOnlyUnused CleanResults MutexOK
PROPERTY Terminates
CHECK_DEADLOCK TRUE
