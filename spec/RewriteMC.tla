------------------------------ MODULE RewriteMC ------------------------------
(***************************************************************************)
(* Leg A for C48: step-wise model of the rewrite with the deletion         *)
(* modifier: for every series of the block (outer loop of                  *)
(* delModifierSeriesSet.Next) decide whole-series deletion or collect the  *)
(* merged intervals of the applicable requests (DeletionsLoop), then one   *)
(* step per chunk (delGenericSeriesIterator.next + re-encoding), finally   *)
(* the writer skips series left without chunks.  Checked for every input   *)
(* of a small scope against the property-level relation WViolations.       *)
(*                                                                         *)
(* Two input families (constant Family):                                   *)
(*  "time"   one series {a="1"} with every chunk layout over the grid      *)
(*           0..G (every non-empty subset of grid points x every way of    *)
(*           cutting it into chunks), deleted by one request with <= 2     *)
(*           intervals (or none = whole series) or by two requests with    *)
(*           one interval each; matcher a="1".                             *)
(*  "labels" <= 2 series with labels a in {absent,"1","2"}, b in           *)
(*           {absent,"1"} (distinct label sets, unordered), layout          *)
(*           <<1,2>>,<<4>>;                                                 *)
(*           <= 2 requests with 1..2 matchers from MatcherPool, each with  *)
(*           no interval or [2,2] or [0,1],[4,4].                          *)
(***************************************************************************)
EXTENDS Rewrite, TLC, Json, IOUtils, FiniteSetsExt
CONSTANTS Family, G, LTwo,     \* LTwo: the labels family includes two-series blocks and two-request lists
          EmitTwoRequests, \* leg B also gets the inputs of the time family that have two requests
          Relabel          \* phase 2: relabel modifier applied before the deletion modifier:
                           \* "none" | "dropb" (labeldrop b) | "mapa" (a in {1,2} -> 0) | "dropa2" (drop series with a=2)

Val(i, t) == 1000 * i + t
MkChunks(i, tss) == [c \in DOMAIN tss |-> [k \in DOMAIN tss[c] |-> [t |-> tss[c][k], v |-> Val(i, tss[c][k])]]]

(* every way to cut the sorted sequence of a non-empty set of grid points into consecutive chunks *)
SortedSeq(S) == SortSeq(SetToSeq(S), LAMBDA a, b : a < b)
Cut(s, cuts) ==     \* cuts \subseteq 1..Len(s)-1: a chunk ends after position p for p \in cuts
    LET ends == SortedSeq(cuts \cup {Len(s)})
    IN [c \in DOMAIN ends |-> SubSeq(s, IF c = 1 THEN 1 ELSE ends[c - 1] + 1, ends[c])]
Layouts == UNION { { Cut(SortedSeq(S), cuts) : cuts \in SUBSET (1..(Cardinality(S) - 1)) } : S \in (SUBSET (0..G)) \ {{}} }

Ivs == { x \in [lo : 0..G, hi : 0..G] : x.lo <= x.hi }
IvLists == {<<>>} \cup { <<x>> : x \in Ivs } \cup { <<x, y>> : x \in Ivs, y \in Ivs }
M(n, ty, alts) == [name |-> n, type |-> ty, alts |-> alts]
Req(ms, ivs) == [matchers |-> ms, ivs |-> ivs]

TimeInputs ==
    { [series |-> << [labels |-> << [n |-> "a", v |-> "1"] >>, chunks |-> lay] >>, reqs |-> rs]
      : lay \in Layouts,
        rs \in ({ << Req(<< M("a", "EQ", <<"1">>) >>, l) >> : l \in { x \in IvLists : Len(x) < 2 \/ x[1].lo <= x[2].lo } }
               \cup { << Req(<< M("a", "EQ", <<"1">>) >>, <<x>>), Req(<< M("a", "RE", <<"1", "2">>) >>, <<y>>) >> : x \in Ivs, y \in Ivs }) }

WRelabel(ls) ==
    CASE Relabel = "dropb"  -> SelectSeq(ls, LAMBDA x : x.n # "b")
      [] Relabel = "mapa"   -> [k \in DOMAIN ls |-> IF ls[k].n = "a" /\ ls[k].v \in {"1", "2"} THEN [n |-> "a", v |-> "0"] ELSE ls[k]]
      [] Relabel = "dropa2" -> IF \E k \in DOMAIN ls : ls[k].n = "a" /\ ls[k].v = "2" THEN <<>> ELSE ls
      [] OTHER -> ls
MatcherPool == (IF Relabel = "mapa" THEN { M("a", "EQ", <<"0">>) } ELSE {}) \cup
               { M("a", "EQ", <<"1">>), M("a", "NEQ", <<"1">>), M("a", "EQ", <<"">>), M("a", "RE", <<"1", "2">>),
                 M("a", "NRE", <<"2">>), M("b", "EQ", <<"1">>), M("b", "NEQ", <<"1">>) }
LabelChoices == { (IF a = "" THEN <<>> ELSE << [n |-> "a", v |-> a] >>) \o (IF b = "" THEN <<>> ELSE << [n |-> "b", v |-> b] >>)
                  : a \in {"", "1", "2"}, b \in {"", "1"} }
LabelSeq == SetToSeq(LabelChoices)
LSeries == { <<x>> : x \in LabelChoices } \cup IF ~LTwo THEN {} ELSE UNION { { <<LabelSeq[i], LabelSeq[j]>> : j \in { k \in DOMAIN LabelSeq : k > i } } : i \in DOMAIN LabelSeq }
LIvs == { <<>>, << [lo |-> 2, hi |-> 2] >>, << [lo |-> 0, hi |-> 1], [lo |-> 4, hi |-> 4] >> }
LMatchers == { <<m>> : m \in MatcherPool } \cup { <<m1, m2>> : m1 \in MatcherPool, m2 \in MatcherPool }
LReqs == { Req(ms, iv) : ms \in LMatchers, iv \in LIvs }
LabelInputs ==
    { [series |-> [i \in DOMAIN ls |-> [labels |-> ls[i], chunks |-> <<<<1, 2>>, <<4>>>>]], reqs |-> rs]
      : ls \in LSeries, rs \in ({ <<r>> : r \in LReqs } \cup IF ~LTwo THEN {} ELSE { <<r1, r2>> : r1 \in { Req(<<m>>, iv) : m \in MatcherPool, iv \in LIvs }, r2 \in { Req(<<m>>, <<>>) : m \in MatcherPool } }) }

(* cases carry grid times only; the model (and the harness) give sample i-th series, time t the value 1000*i+t *)
AbstractInputs == IF Family = "time" THEN TimeInputs ELSE LabelInputs
Concrete(inp) == [series |-> [i \in DOMAIN inp.series |-> [labels |-> inp.series[i].labels, chunks |-> MkChunks(i, inp.series[i].chunks),
                                                            to |-> WRelabel(inp.series[i].labels)]],
                  reqs |-> inp.reqs]
(* RelabelModifier.Modify: series with one target merged into a single chunk, one sample per time (the  *)
(* value of the first series in block order that has it)                                               *)
Merged(ss) ==
    LET mk(lset) == LET idx == { i \in DOMAIN ss : ss[i].to # <<>> /\ LabelSet(ss[i].to) = lset }
                        pts == { x[1] : x \in UNION { SeriesSamples(ss[i]) : i \in idx } }
                        ts == SortSeq(SetToSeq(pts), LAMBDA a, b : a < b)
                        val(t) == LET i == CHOOSE i \in idx : (\E x \in SeriesSamples(ss[i]) : x[1] = t) /\ \A j \in idx : (\E x \in SeriesSamples(ss[j]) : x[1] = t) => i <= j
                                  IN (CHOOSE x \in SeriesSamples(ss[i]) : x[1] = t)[2]
                    IN [labels |-> ss[CHOOSE i \in idx : TRUE].to, chunks |-> << [k \in DOMAIN ts |-> [t |-> ts[k], v |-> val(ts[k])]] >>]
    IN SetToSeq({ mk(l) : l \in WTargets(ss) })

VARIABLES in,    \* the block and the requests (concrete)
          pc,    \* "series" | "chunks" | "done"
          si,    \* index of the series being processed
          ci,    \* index of the chunk being processed
          ivs,   \* merged deletion intervals of the current series
          cur,   \* chunks kept so far for the current series
          out    \* series written so far
vars == <<in, pc, si, ci, ivs, cur, out>>
(* what the deletion modifier iterates over *)
Work == IF Relabel = "none" THEN in.series ELSE Merged(in.series)

Init == /\ in \in { Concrete(x) : x \in AbstractInputs }
        /\ pc = "series" /\ si = 1 /\ ci = 0 /\ ivs = <<>> /\ cur = <<>> /\ out = <<>>

(* delModifierSeriesSet.Next for one series: DeletionsLoop *)
SeriesStep ==
    /\ pc = "series"
    /\ IF si > Len(Work)
         THEN pc' = "done" /\ UNCHANGED <<si, ci, ivs, cur>>
       ELSE IF WAlgoWhole(in.reqs, Work[si].labels)
         THEN si' = si + 1 /\ UNCHANGED <<pc, ci, ivs, cur>>                   \* continue SeriesLoop
       ELSE /\ ivs' = WAlgoIntervals(in.reqs, Work[si].labels)
            /\ ci' = 1 /\ cur' = <<>> /\ pc' = "chunks" /\ UNCHANGED si
    /\ UNCHANGED <<in, out>>

(* one chunk through delGenericSeriesIterator.next / delChunkSeriesIterator.Next; after the last chunk *)
(* the writer adds the series unless no chunk is left                                                  *)
ChunkStep ==
    /\ pc = "chunks"
    /\ IF ci > Len(Work[si].chunks)
         THEN /\ out' = IF cur = <<>> THEN out ELSE Append(out, [labels |-> Work[si].labels, chunks |-> cur])
              /\ si' = si + 1 /\ pc' = "series" /\ UNCHANGED <<ci, cur>>
         ELSE LET r == WAlgoChunk(Work[si].chunks[ci], ivs) IN
              /\ cur' = IF r.samples = <<>> THEN cur ELSE Append(cur, r.samples)
              /\ ci' = ci + 1 /\ UNCHANGED <<out, si, pc>>
    /\ UNCHANGED <<in, ivs>>

DoneStep == pc = "done" /\ UNCHANGED vars
Next == SeriesStep \/ ChunkStep \/ DoneStep
Spec == Init /\ [][Next]_vars

(* ---- C48 on the algorithm ---- *)
C48_ResultSatisfiesProperty == pc = "done" =>
    IF Relabel = "none" THEN WViolations(in.series, in.reqs, out) = {} ELSE WViolationsR(in.series, in.reqs, out) = {}
(* the functional form used by the trace spec for model conformance is what the steps compute *)
FunctionalFormAgrees == pc = "done" => /\ out = WAlgoOut(Work, in.reqs)
                                        /\ Relabel # "none" => WTimesOf(out) = WTimesOf(WAlgoOut(WAlgoMerged(in.series), in.reqs))
Progress == [][pc' = pc => (si' > si \/ ci' > ci \/ pc = "done")]_vars

(* ---- leg B ---- *)
CasesFile == IF "VERIF_CASES" \in DOMAIN IOEnv THEN IOEnv.VERIF_CASES ELSE "cases.ndjson"
ASSUME ndJsonSerialize(CasesFile, SetToSeq({ [series |-> x.series, reqs |-> x.reqs, relabel |-> Relabel] : x \in { x \in AbstractInputs : EmitTwoRequests \/ Family # "time" \/ Len(x.reqs) = 1 } }))
=============================================================================
