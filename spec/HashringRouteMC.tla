--------------------------- MODULE HashringRouteMC ---------------------------
(***************************************************************************)
(* Leg A for C27 "tenants are routed to the hashring their configuration   *)
(* selects": multiHashring.GetN (pkg/receive/hashring.go) as a machine     *)
(* with one process per concurrent request.  Steps of a request: read the  *)
(* tenant cache (RLock) -- hit: answer; miss: scan the configured          *)
(* hashrings in order, one entry per step (default entry, exact list, or   *)
(* glob patterns); on the first match store the choice in the cache (Lock) *)
(* and answer; no match: error (0).                                        *)
(*                                                                         *)
(* Init enumerates every configuration list of <= MaxEntries entries,      *)
(* each entry a default (no tenants) or one pattern of length <= MaxPatLen *)
(* over Alphabet, matched exactly or as a glob; every process asks for any *)
(* tenant over Letters of length <= 2.  Two processes cover repeated       *)
(* (one after the other: second hits the cache) and concurrent requests.   *)
(***************************************************************************)
EXTENDS Hashring, TLC, Json, IOUtils, SequencesExt
CONSTANTS Alphabet, Letters, MaxPatLen, MaxEntries, Procs

Strings(A, n) == UNION { [1..k -> A] : k \in 1..n }
Patterns == Strings(Alphabet, MaxPatLen)
Tenants == Strings(Letters, 2)
Entries == { [tenants |-> <<>>, glob |-> FALSE] }
           \cup { [tenants |-> <<pt>>, glob |-> g] : pt \in Patterns, g \in BOOLEAN }
Configs == UNION { [1..k -> Entries] : k \in 1..MaxEntries }

VARIABLES cfg, cache, pc, ten, idx, ans, hist
vars == <<cfg, cache, pc, ten, idx, ans, hist>>

NoTenant == <<>>
Init == /\ cfg \in Configs
        /\ cache = [t \in {} |-> 0]                     \* tenant -> hashring index
        /\ pc = [p \in Procs |-> "idle"]
        /\ ten = [p \in Procs |-> NoTenant]
        /\ idx = [p \in Procs |-> 0]
        /\ ans = [p \in Procs |-> -1]
        /\ hist = [t \in Tenants |-> {}]                \* every answer a tenant ever got

(* `m.mu.RLock(); h, ok := m.cache[tenant]; m.mu.RUnlock()` *)
Lookup(p) == /\ pc[p] = "idle"
             /\ \E t \in Tenants :
                  /\ ten' = [ten EXCEPT ![p] = t]
                  /\ IF t \in DOMAIN cache
                       THEN /\ ans' = [ans EXCEPT ![p] = cache[t]]
                            /\ hist' = [hist EXCEPT ![t] = @ \cup {cache[t]}]
                            /\ pc' = [pc EXCEPT ![p] = "done"] /\ UNCHANGED idx
                       ELSE /\ pc' = [pc EXCEPT ![p] = "scan"] /\ idx' = [idx EXCEPT ![p] = 1]
                            /\ UNCHANGED <<ans, hist>>
             /\ UNCHANGED <<cfg, cache>>
(* one iteration of `for i, t := range m.tenantSets` *)
Scan(p) == /\ pc[p] = "scan"
           /\ IF idx[p] > Len(cfg)
                THEN /\ ans' = [ans EXCEPT ![p] = 0]                     \* "no matching hashring"
                     /\ hist' = [hist EXCEPT ![ten[p]] = @ \cup {0}]
                     /\ pc' = [pc EXCEPT ![p] = "done"] /\ UNCHANGED idx
                ELSE IF IsDefaultEntry(cfg[idx[p]]) \/ EntryMatches(cfg[idx[p]], ten[p])
                THEN pc' = [pc EXCEPT ![p] = "store"] /\ UNCHANGED <<idx, ans, hist>>
                ELSE idx' = [idx EXCEPT ![p] = @ + 1] /\ UNCHANGED <<pc, ans, hist>>
           /\ UNCHANGED <<cfg, cache, ten>>
(* `m.mu.Lock(); m.cache[tenant] = m.hashrings[i]; m.mu.Unlock(); return m.hashrings[i].GetN(...)` *)
Store(p) == /\ pc[p] = "store"
            /\ cache' = [t \in DOMAIN cache \cup {ten[p]} |-> IF t = ten[p] THEN idx[p] ELSE cache[t]]
            /\ ans' = [ans EXCEPT ![p] = idx[p]]
            /\ hist' = [hist EXCEPT ![ten[p]] = @ \cup {idx[p]}]
            /\ pc' = [pc EXCEPT ![p] = "done"]
            /\ UNCHANGED <<cfg, ten, idx>>

Next == \E p \in Procs : Lookup(p) \/ Scan(p) \/ Store(p)
Spec == Init /\ [][Next]_vars /\ WF_vars(Next)

(* C27 as stated, on everything any request was ever answered *)
C27_Routed == \A t \in Tenants : hist[t] # {} => C27Clauses(hist[t], cfg, t) = {}
(* what the code does precisely: reading (a), first entry in order that is a default or matches *)
C27_FirstInOrder == \A t \in Tenants : hist[t] # {} => hist[t] \subseteq {RouteFirstInOrder(cfg, t)}
C27_CacheSound == \A t \in DOMAIN cache : cache[t] = RouteFirstInOrder(cfg, t)
C27_Terminates == <>(\A p \in Procs : pc[p] = "done")

(* Leg B: every configuration list, patterns as character sequences *)
CasesFile == IF "VERIF_CASES" \in DOMAIN IOEnv THEN IOEnv.VERIF_CASES ELSE "cases.ndjson"
ASSUME ndJsonSerialize(CasesFile, SetToSeq({ [cfg |-> c] : c \in Configs }))
=============================================================================
