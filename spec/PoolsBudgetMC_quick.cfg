\* C17(b) leg A quick: buckets {2,4,8}, budgets {0,6,12}, request sizes {1,3,5,9}, <= 3 outstanding, 5 operations;
\* every operation sequence of length 3 to the harness
SPECIFICATION Spec
CONSTANTS Sizes = {2, 4, 8}
          Maxes = {0, 6, 12}
          ReqSizes = {1, 3, 5, 9}
          MaxOut = 3
          MaxOps = 5
          CaseLen = 3
INVARIANTS C17_WithinMaximum C17_ZeroWhenAllReturned C17_AccountingExact C17_BudgetClausesHold
VIEW View
CHECK_DEADLOCK TRUE
