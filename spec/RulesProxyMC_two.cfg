\* C45 phase 2 leg A thorough (second entry): 2 rules servers with <= 1 rule each, fail modes none/warn/open/mid, WARN and ABORT,
\* 5 filter combinations; all interleavings.
SPECIFICATION Spec
CONSTANTS NClients = 2
          FailModes = {"none", "warn", "open", "mid"}
          Strategies = {"WARN", "ABORT"}
          MaxPerClient = 1
INVARIANTS C45_RequestPathSatisfiesProperty OrderIndependent
CHECK_DEADLOCK TRUE
