--------------------------- MODULE HashringBuildMC ---------------------------
(***************************************************************************)
(* Leg A for C19 "building a hashring terminates": the replica-selection   *)
(* loop reaches rf replicas from every zone layout, ring order and rf      *)
(* (liveness under weak fairness of the loop step), and -- the bounded-time *)
(* form -- never walks a full lap of the ring without accepting an         *)
(* endpoint.  Leg B: every zone-size vector up to CaseMaxN endpoints x rf  *)
(* (including rf = n + 1, which must be refused) is handed to the harness. *)
(***************************************************************************)
EXTENDS HashringLoop, Json, IOUtils, SequencesExt
CONSTANTS CaseMaxN

Spec == LoopSpec

C19_Terminates == <>LoopDone
C19_NoIdleLap == Walking => idle < Len(ring)
(* progress measure used in notes: picks never exceed rf, reps stay distinct *)
C19_TypeOK == Len(reps) <= rf /\ HNoDup(reps) /\ (Walking => pos \in 1..Len(ring))

ZoneVecs == { v \in [1..4 -> 0..CaseMaxN] :
                /\ v[1] >= 1
                /\ \A k \in 1..3 : v[k] >= v[k + 1]
                /\ v[1] + v[2] + v[3] + v[4] <= CaseMaxN }
CaseSet == { [zones |-> v, rf |-> r] : v \in ZoneVecs, r \in 1..(CaseMaxN + 1) }
Cases == { c \in CaseSet : c.rf <= c.zones[1] + c.zones[2] + c.zones[3] + c.zones[4] + 1 }
CasesFile == IF "VERIF_CASES" \in DOMAIN IOEnv THEN IOEnv.VERIF_CASES ELSE "cases.ndjson"
(* phase 2: validation paths -- wrong / unusual configurations x listed endpoints x rf *)
VKinds == {"malformed", "noaddr", "emptylist", "emptyeps", "dup", "unknownalgo", "partaz", "hashmodaz"}
ValCases == { [vkind |-> k, n |-> m, rf |-> r] : k \in VKinds, m \in 0..4, r \in 1..3 }
(* the algorithm-level answer never claims a ketama ring with fewer endpoints than replicas *)
ASSUME \A c \in ValCases : c.vkind \in {"emptyeps", "dup", "partaz"} /\ BuildOutcomeV(c.vkind, c.n, c.rf) = "ok" => c.n >= c.rf
ASSUME ndJsonSerialize(CasesFile, SetToSeq(Cases) \o SetToSeq(ValCases))
=============================================================================
