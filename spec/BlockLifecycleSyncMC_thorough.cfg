\* C33 leg A thorough: 4 blocks, <= 3 phases per iteration, 2 iterations, <= 4 mutations, <= 2 failing reads anywhere;
\* generated cases: the j-th sync read of each kind (call or body; body at byte 0 / middle / last) fails, j <= 40
SPECIFICATION Spec
CONSTANTS NBlocks = 4
          MaxPhases = 3
          MaxIters = 2
          MaxMuts = 4
          MaxFaults = 2
          CaseBodyJ = 12
          CaseJ = 40
INVARIANTS C33_NoMutationOnIncompleteView ActMeansCleanSync
CHECK_DEADLOCK FALSE
