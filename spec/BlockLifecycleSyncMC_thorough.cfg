\* C33 leg A thorough: 3 blocks, <= 3 phases per iteration, 2 iterations, <= 4 mutations, <= 2 failing reads anywhere;
\* generated cases: the j-th sync read of each kind fails, j <= 40
SPECIFICATION Spec
CONSTANTS NBlocks = 3
          MaxPhases = 3
          MaxIters = 2
          MaxMuts = 4
          MaxFaults = 2
          CaseJ = 40
INVARIANTS C33_NoMutationOnIncompleteView ActMeansCleanSync
CHECK_DEADLOCK FALSE
