\* C01 leg A thorough, 5 replicas (four nested pairwise merges): at most 1 sample per replica on a
\* 3-point grid (4^5 = 1 024 layouts + 4 identical), readers with at most one Seek (2 targets)
SPECIFICATION Spec
CONSTANTS InitPen = 5
          Grid = {0, 1, 7}
          NumReps = 5
          MaxLen = 1
          Ctr = FALSE
          Starts = {0}
          Incs = {0}
          Targets = {1, 7}
          EmitMod = 1
          MaxSeeks = 1
          Kinds = {"f"}
INVARIANTS C01_StrictlyIncreasing C01_FromSomeReplica C01_UnchangedIfIdentical C01_SeekIsSuffix
           C01_FollowsFullStream StepwiseEqualsFunctional BoundedOutput OnlyDoneIsFinal
CHECK_DEADLOCK FALSE
