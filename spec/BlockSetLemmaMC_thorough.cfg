\* C15 leg A (lemma) thorough: instants 0..4, layouts of <= 2 blocks, every subset as selection, all queries
SPECIFICATION Spec
CONSTANTS Grid = 4
CHECK_DEADLOCK FALSE
