\* C12 leg A quick: lists of <= 3 values in 0..4, <= 3 calls (Next, Seek 0..5), not streamed + chunk sizes 1..2,
\* 2-byte varints from difference 2; harness cases: lists <= 3 over 0..3 x op sequences <= 3
SPECIFICATION Spec
CONSTANTS MaxVal = 4
          MaxLen = 3
          MaxOps = 3
          ChunkSizes = {0, 1, 2}
          W2 = 2
          CaseVal = 3
          CaseLen = 3
          CaseOps = 3
INVARIANT C12_SeekAndNextBehaveAsOnOriginal
INVARIANT C12_RoundTrip
INVARIANT ChunkingInvisible
CHECK_DEADLOCK FALSE
