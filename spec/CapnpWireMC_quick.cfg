\* C25 leg A quick: strings {"", "a", "ab"}; symbols slice: one tenant with <= 2 series or two tenants with <= 1
\* series, label lists 0..1, optional exemplar without labels or (ExLabelMax) with one; payload slice: 324 histogram
\* shapes with 2 samples and 1 exemplar
SPECIFICATION Spec
CONSTANTS Strs3 <- StrsNone
          ExLabelMax = 0
          TwoSeries = TRUE
          Hints = {"0"}
          SampleCounts = {2}
          ExemplarCounts = {1}
INVARIANTS TableDistinct VisitedInterned OffsetsWellFormed ResolutionInvertsInterning
           C25_Lossless C25_LosslessWithoutCustomValues StepsMatchFunctions
PROPERTY Terminates
CHECK_DEADLOCK FALSE
