\* C33 leg A quick: 2 blocks, 3-stage sync (call and body steps), <= 2 phases per iteration, 2 iterations, <= 3 mutations, one failing step anywhere;
\* generated cases: the j-th sync read of each kind (call or body; body at byte 0 / middle / last) fails, j <= 8
SPECIFICATION Spec
CONSTANTS NBlocks = 2
          MaxPhases = 2
          MaxIters = 2
          MaxMuts = 3
          MaxFaults = 1
          CaseBodyJ = 3
          CaseJ = 8
INVARIANTS C33_NoMutationOnIncompleteView ActMeansCleanSync
CHECK_DEADLOCK FALSE
