------------------------------ MODULE C25Trace ------------------------------
(***************************************************************************)
(* Leg C for C25.  One trace line per write request:                       *)
(*   in.req     the request in the model's input form (strings as          *)
(*              character lists, numbers as tokens); in.model = TRUE when  *)
(*              the algorithm-level prediction is to be compared (DRIFT)   *)
(*   want       the request as a receiver gets it when nothing is lost:    *)
(*              sequence of [tenant, series] in DECODED form, produced     *)
(*              from the protobuf request by the conversion of the         *)
(*              protobuf replication path; every number a string (floats   *)
(*              by their bits)                                             *)
(*   got[p]     [path, err, tenants]: what the REAL decoder returned after *)
(*              the REAL encoder, per encode/transport path ("build",      *)
(*              "packed", "rpc", "rpc-single"); err # "" when encoding or  *)
(*              decoding failed or panicked                                *)
(* Judged with the property-level operator RoundTripClauses of CapnpWire.  *)
(***************************************************************************)
EXTENDS TraceLib, CapnpWire

(* "Encoding a multi-tenant write request ... and decoding it on the peer yields, per tenant, *)
(* the same series with the same labels, float samples, native histograms and exemplars."     *)
(* A failed or panicking decode yields nothing: clause decode-error.                          *)
PathClauses(e, p) == IF p.err # "" THEN {"decode-error"} ELSE RoundTripClauses(e.want, p.tenants)
Judge(e) == UNION { PathClauses(e, e.got[k]) : k \in DOMAIN e.got }

(* Model conformance (never a verdict): the algorithm-level model predicts the clauses. *)
Predicted(e) == RoundTripClauses(Expected(e["in"].req), Decode(Encode(e["in"].req)))
Drift(e) == e["in"].model /\ Predicted(e) # Judge(e)

VARIABLE l
TraceInit == l = 1
TraceNext == /\ l <= TraceLen
             /\ LET e == Trace[l] j == Judge(e) IN
                /\ CaseReject(l, e, j)
                /\ (IF j # {} /\ e.kf = ""
                      THEN PrintT(<<"NOTE", "C25", e["case"], { <<e.got[k].path, e.got[k].err, PathClauses(e, e.got[k])>> : k \in DOMAIN e.got }>>)
                      ELSE TRUE)
                /\ (IF Drift(e) THEN PrintT(<<"DRIFT", l, e["case"]>>) ELSE TRUE)
             /\ l' = l + 1
TraceSpec == TraceInit /\ [][TraceNext]_l
TraceAccepted == TLCGet("stats").diameter = TraceLen + 1
=============================================================================
