------------------------------ MODULE C25Trace ------------------------------
(***************************************************************************)
(* Leg C for C25.  One trace line per write request:                       *)
(*   in.req     the request in the model's input form (strings as          *)
(*              character lists, numbers as tokens); in.model = TRUE when  *)
(*              the algorithm-level prediction is to be compared (DRIFT)   *)
(*   want       the request as a receiver gets it when nothing is lost:    *)
(*              sequence of [tenant, series] in DECODED form, produced     *)
(*              from the protobuf request by the conversion of the         *)
(*              protobuf replication path; every number a string (floats   *)
(*              by their bits)                                             *)
(*   got[p]     [path, err, tenants]: what the REAL decoder returned after *)
(*              the REAL encoder, per encode/transport path ("build",      *)
(*              "packed", "rpc", "rpc-single"); err # "" when encoding or  *)
(*              decoding failed or panicked; ref = "decoded" (compare with  *)
(*              want) or "proto-writer" (compare with want2)               *)
(*   want2      end to end: what the protobuf replication path             *)
(*              (receive.Writer) appended to the tenants' storages for the *)
(*              same request; the got entry "e2e-capnp-server" holds what  *)
(*              the real Cap'n Proto server + handler + writer appended    *)
(*              (only for requests whose exemplar label sets are valid,    *)
(*              where both writers are meant to treat decoded series alike)*)
(* Judged with the property-level operator RoundTripClauses of CapnpWire.  *)
(***************************************************************************)
EXTENDS TraceLib, CapnpWire

(* "Encoding a multi-tenant write request ... and decoding it on the peer yields, per tenant, *)
(* the same series with the same labels, float samples, native histograms and exemplars."     *)
(* A failed or panicking decode yields nothing: clause decode-error.                          *)
DecodedClauses(e, p) == IF p.err # "" THEN {"decode-error"} ELSE RoundTripClauses(e.want, p.tenants)
(* The same sentence read end to end: the peer's storage receives what it receives over the    *)
(* protobuf replication path.  Clause names carry the prefix "e2e-".                            *)
EndToEndClauses(e, p) == { "e2e-" \o c : c \in (IF p.err # "" THEN {"decode-error"} ELSE RoundTripClauses(e.want2, p.tenants)) }
PathClauses(e, p) == IF p.ref = "proto-writer" THEN EndToEndClauses(e, p) ELSE DecodedClauses(e, p)
Judge(e) == UNION { PathClauses(e, e.got[k]) : k \in DOMAIN e.got }
JudgeDecoded(e) == UNION { DecodedClauses(e, e.got[k]) : k \in { j \in DOMAIN e.got : e.got[j].ref = "decoded" } }

(* Model conformance (never a verdict): the algorithm-level model predicts the clauses. *)
Predicted(e) == RoundTripClauses(Expected(e["in"].req), Decode(Encode(e["in"].req)))
Drift(e) == e["in"].model /\ Predicted(e) # JudgeDecoded(e)

VARIABLE l
TraceInit == l = 1
TraceNext == /\ l <= TraceLen
             /\ LET e == Trace[l] j == Judge(e) IN
                /\ CaseReject(l, e, j)
                /\ (IF j # {} /\ e.kf = ""
                      THEN PrintT(<<"NOTE", "C25", e["case"], { <<e.got[k].path, e.got[k].err, PathClauses(e, e.got[k])>> : k \in DOMAIN e.got }>>)
                      ELSE TRUE)
                /\ (IF Drift(e) THEN PrintT(<<"DRIFT", l, e["case"]>>) ELSE TRUE)
             /\ l' = l + 1
TraceSpec == TraceInit /\ [][TraceNext]_l
TraceAccepted == TLCGet("stats").diameter = TraceLen + 1
=============================================================================
