\* C37/C38 leg A thorough: grid 0..7, <= 4 samples, counter values {0,1,2} or NaN or stale marker,
\* r1 = 2, r2 in {4, 6}, level-1 chunk counts 1..3, level-2 chunk counts 1..2: 51 491 series x 12
\* (about 3.5 M states); series with <= 3 samples go to the harness
SPECIFICATION Spec
CONSTANTS GridLen = 8
          MaxSamples = 4
          Vals = {0, 1, 2}
          Tokens = {"NaN", "STALE"}
          R1 = 2
          Mults = {2, 3}
          Counts1 = {1, 2, 3}
          Counts2 = {1, 2}
          CaseSamples = 3
          CaseCounts1 = {1, 3}
INVARIANTS C37_Level1 C37_Level2 C37_NonEmpty C37_IncreasePreserved
           C38_TotalsConserved C38_Ordered C38_WithinSpan L2ExactWhenOnePart L2ChunksOrdered StepsAgreeWithAlgo
PROPERTY AlwaysProgress
CHECK_DEADLOCK TRUE
