\* C05 leg A quick: names {a,b}, values {x,y}, <= 1 advertised label set (of 9, incl. the empty one), 1 matcher (of 36:
\* =, != with "", x, y; =~, !~ with dot-star, dot-plus, x, x|y, "", |x), 8 time-range relations; every 2nd case to the harness
SPECIFICATION Spec
CONSTANTS MaxLsets = 1
          MaxMatchers = 1
          CaseStride = 2
INVARIANTS C05_PruningSound C05_LoopsEqualFunction
CHECK_DEADLOCK TRUE
