\* C09 leg A thorough: 3 block goroutines, 0..1 series per block with 1..2 chunks, 0..1 postings
\* without series, series limits {0,1,2,3}, chunk limits {0,2}, batch sizes {1,2}, lazy postings on/off,
\* SkipChunks on/off; all interleavings
SPECIFICATION Spec
CONSTANTS Blocks = {"b1", "b2", "b3"}
          MaxSeries = 1
          MaxChunks = 2
          MaxExtra = 1
          SLimits = {0, 1, 2, 3}
          CLimits = {0, 2}
          Batches = {1, 2}
          NonAtomic = FALSE
INVARIANTS C09_SuccessWithinLimits C09_ExceedingFails C09_VerdictIndependentOfSchedule
PROPERTY C09_Terminates
CHECK_DEADLOCK FALSE
