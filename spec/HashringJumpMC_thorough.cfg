\* C49 leg A thorough: 12-bit words (top 6 bits drive the jump), all 4096 key hashes, <= 8 buckets,
\* every rank of the added server; cases: 1..16 servers x rank
SPECIFICATION Spec
CONSTANTS W = 12
          S = 6
          A = 253
          MaxB = 8
          CaseMaxN = 16
INVARIANT C49_Progress
INVARIANT C49_Range
INVARIANT C49_Function
INVARIANT C49_Monotone
INVARIANT C49_AddLast
CHECK_DEADLOCK FALSE
