---------------------------- MODULE CapnpWireMC ----------------------------
(***************************************************************************)
(* Leg A for C25: the encoder and decoder as a step machine, for every     *)
(* request of a small scope.                                               *)
(*                                                                         *)
(*   intern   one step per string, in the order BuildInto visits them      *)
(*            (symboltable.Builder.AddEntry)                               *)
(*   marshal  marshalSymbols + the message with index pairs for labels     *)
(*   symbols  NewRequest: slice the data blob at the offsets               *)
(*   tenant   one step per tenant tuple: Request.At for all its series     *)
(*                                                                         *)
(* Scope.  Slice "symbols": strings from Strs (contains "", "a", "ab" so   *)
(* that empty strings and strings that are prefixes / concatenations of    *)
(* others occur), one tenant with up to 2 series or two tenants with up to *)
(* 1 series each, label lists of length 0..1, optional exemplar with 0..1  *)
(* labels: every pattern of shared / distinct / empty symbols across       *)
(* labels, exemplars, series and tenants.  Slice "payload": one series     *)
(* with 0..2 samples, 0..2 exemplars and 0..1 histogram of every shape:    *)
(* count int / float / unset, zero count of the same kind / unset / of the *)
(* other kind, spans present or empty, bucket lists empty / of the         *)
(* histogram's kind / of both kinds (positive and negative independently), *)
(* custom bucket boundaries present or not, two reset hints.               *)
(***************************************************************************)
EXTENDS CapnpWire, TLC, Json, IOUtils, SequencesExt
CONSTANTS Strs3, ExLabelMax, TwoSeries, Hints, SampleCounts, ExemplarCounts

(* ---- scope ---- *)
StrsNone == {}                       \* values for Strs3 (cfg files cannot spell tuples)
StrsB == {<<"b">>}
Strs == {<<>>, <<"a">>, <<"a", "b">>} \cup Strs3
LabelPairs == [n : Strs, v : Strs]
LabelLists(max) == UNION { [1..k -> LabelPairs] : k \in 0..max }
Ex(ls) == [labels |-> ls, value |-> "1.5", ts |-> "7"]
SymSeries == [labels : LabelLists(1), samples : {<<>>}, hists : {<<>>},
              exemplars : {<<>>} \cup { <<Ex(ls)>> : ls \in LabelLists(ExLabelMax) }]
SeriesLists(max) == UNION { [1..k -> SymSeries] : k \in 0..max }
T1 == <<"t", "1">>
T2 == <<"t", "2">>
SymRequests ==
    { <<[tenant |-> T1, series |-> ss]>> : ss \in SeriesLists(IF TwoSeries THEN 2 ELSE 1) }
    \cup { <<[tenant |-> T1, series |-> s1], [tenant |-> T2, series |-> s2]>> : s1 \in SeriesLists(1), s2 \in SeriesLists(1) }

Span == [o |-> "1", l |-> "2"]
BModes == {"none", "own", "both"}
Deltas(kind, mode) == IF mode = "both" \/ (mode = "own" /\ kind # "float") THEN <<"3", "-1">> ELSE <<>>
Counts(kind, mode) == IF mode = "both" \/ (mode = "own" /\ kind = "float") THEN <<"2.5", "0.5">> ELSE <<>>
ZKinds(ck) == {ck, "unset", IF ck = "float" THEN "int" ELSE "float"}
HistShapes ==
    { [ts |-> "9", ckind |-> ck, count |-> IF ck = "unset" THEN "0" ELSE "12",
       zkind |-> zk, zc |-> IF zk = "unset" THEN "0" ELSE "4",
       sum |-> "18.4", schema |-> IF cv = <<>> THEN "1" ELSE "-53", zt |-> "0.001", hint |-> hint,
       ps |-> IF sp THEN <<Span>> ELSE <<>>, ns |-> IF sp THEN <<Span, Span>> ELSE <<>>,
       pd |-> Deltas(ck, pm), nd |-> Deltas(ck, nm), pc |-> Counts(ck, pm), nc |-> Counts(ck, nm),
       cv |-> cv] :
      ck \in {"int", "float", "unset"}, zk \in {"int", "float", "unset"}, hint \in Hints, sp \in BOOLEAN,
      pm \in BModes, nm \in BModes, cv \in {<<>>, <<"1", "2", "3">>} }
Samples(n) == [k \in 1..n |-> [t |-> IF k = 1 THEN "1000" ELSE "2000", v |-> IF k = 1 THEN "0.5" ELSE "NaN"]]
Exemplars(n) == [k \in 1..n |-> Ex(IF k = 1 THEN <<[n |-> <<"a">>, v |-> <<"a", "b">>]>> ELSE <<[n |-> <<"a", "b">>, v |-> <<>>]>>)]
PayloadRequests ==
    { <<[tenant |-> T1, series |-> <<[labels |-> <<[n |-> <<"a">>, v |-> <<"a", "b">>]>>,
                                     samples |-> Samples(sn), hists |-> hs, exemplars |-> Exemplars(en)]>>]>> :
      sn \in SampleCounts, en \in ExemplarCounts, hs \in {<<>>} \cup { <<h>> : h \in HistShapes } }

Requests == SymRequests \cup PayloadRequests

(* ---- the step machine ---- *)
VARIABLES req, phase, todo, table, msg, strs, out
vars == <<req, phase, todo, table, msg, strs, out>>

Init == /\ req \in Requests
        /\ phase = "intern" /\ todo = ReqStrings(req) /\ table = <<>>
        /\ msg = <<>> /\ strs = <<>> /\ out = <<>>

Intern == /\ phase = "intern" /\ todo # <<>>
          /\ table' = AddEntry(table, Head(todo)) /\ todo' = Tail(todo)
          /\ UNCHANGED <<req, phase, msg, strs, out>>

Marshal == /\ phase = "intern" /\ todo = <<>>
           /\ msg' = [symbols |-> SymbolsWire(table),
                      data |-> [t \in 1..Len(req) |-> [tenant |-> req[t].tenant,
                                  series |-> [k \in 1..Len(req[t].series) |-> EncodeSeries(table, req[t].series[k])]]]]
           /\ phase' = "wire"
           /\ UNCHANGED <<req, todo, table, strs, out>>

ReadSymbols == /\ phase = "wire"
               /\ strs' = SymbolsRead(msg.symbols)
               /\ phase' = "decode"
               /\ UNCHANGED <<req, todo, table, msg, out>>

DecodeTenant == /\ phase = "decode" /\ Len(out) < Len(msg.data)
                /\ LET d == msg.data[Len(out) + 1] IN
                   out' = Append(out, [tenant |-> d.tenant,
                                       series |-> [k \in 1..Len(d.series) |-> DecodeSeries(strs, d.series[k])]])
                /\ UNCHANGED <<req, phase, todo, table, msg, strs>>

Finish == /\ phase = "decode" /\ Len(out) = Len(msg.data)
          /\ phase' = "done"
          /\ UNCHANGED <<req, todo, table, msg, strs, out>>

Next == Intern \/ Marshal \/ ReadSymbols \/ DecodeTenant \/ Finish
Spec == Init /\ [][Next]_vars /\ WF_vars(Next)

(* ---- invariants ---- *)
(* interning: no string twice; everything visited so far is in the table *)
TableDistinct == \A i, j \in 1..Len(table) : i # j => table[i] # table[j]
Visited == SubSeq(ReqStrings(req), 1, Len(ReqStrings(req)) - Len(todo))
VisitedInterned == \A k \in 1..Len(Visited) : CWHas(table, Visited[k])
(* the wire form of the symbols: offsets never decrease and end at the end of the blob ... *)
OffsetsWellFormed == phase \in {"wire", "decode", "done"} =>
    LET o == msg.symbols.offsets IN
    /\ \A k \in 1..Len(o) - 1 : o[k] <= o[k + 1]
    /\ (Len(o) > 0 => o[Len(o)] = Len(msg.symbols.data))
    /\ (Len(o) = 0 => msg.symbols.data = <<>>)
(* ... and resolution inverts interning *)
ResolutionInvertsInterning == phase \in {"decode", "done"} => strs = table
(* C25: what the peer decodes is what a receiver is meant to get, except that custom bucket  *)
(* boundaries are dropped (known finding: no field for them in the wire schema)               *)
C25_Lossless == phase = "done" => RoundTripClauses(Expected(req), out) \subseteq {"histogram-custom-values"}
C25_LosslessWithoutCustomValues == (phase = "done" /\ ~HasCustomValues(req)) => out = Expected(req)
(* the step machine computes the functions the trace spec uses to predict the code *)
StepsMatchFunctions == phase = "done" => out = Decode(Encode(req))
Terminates == <>(phase = "done")

(* ---- leg B ---- *)
CasesFile == IF "VERIF_CASES" \in DOMAIN IOEnv THEN IOEnv.VERIF_CASES ELSE "cases.ndjson"
ASSUME ndJsonSerialize(CasesFile, SetToSeq({ [req |-> r] : r \in Requests }))
=============================================================================
