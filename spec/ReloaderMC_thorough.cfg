\* C47 leg A thorough: contents {p1, p2 (plain), e1 (references the env var)}, config dir files {a,b}, watched dir
\* file {w}, env values {v1,v2}; every history with <= 4 changes/failing applies and any number of successful applies.
\* Leg B: all normal-form histories of <= 5 operations ending with an apply.
SPECIFICATION Spec
CONSTANTS Contents = {"p1", "p2", "e1"}
          DirNames = {"a", "b"}
          WatNames = {"w"}
          EnvVals = {"v1", "v2"}
          Budget = 4
          HistLen = 5
INVARIANT OutputsFollowInputs
PROPERTIES AppliesSatisfyProperty SummaryAgrees NoReloadOnceSynced EventuallySynced
CHECK_DEADLOCK FALSE
