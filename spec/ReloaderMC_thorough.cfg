\* C47 leg A thorough (safety): contents {p1, p2 (plain), e1 (references the env var)}, config dir 1 files {a,b}, config
\* dir 2 file {c}, watched dir file {w}, env {v1, v2, unset}, tolerance off and on; every history with <= 4
\* changes/failing applies and any number of successful applies.
\* Leg B: plain histories of <= 4 operations; fault histories (prefix + 6 operations, tolerance off and on).
SPECIFICATION Spec
CONSTANTS Contents = {"p1", "p2", "e1"}
          TwoDirs = TRUE
          WatNames = {"w"}
          EnvVals = {"v1", "v2", "unset"}
          TolVals = {FALSE, TRUE}
          Budget = 4
          HistLen = 4
          FaultLen = 6
INVARIANT OutputsFollowInputs
PROPERTIES AppliesSatisfyProperty SummaryAgrees FailsOnlyUnderFault NoReloadOnceSynced
CHECK_DEADLOCK FALSE
