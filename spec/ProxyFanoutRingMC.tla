-------------------------- MODULE ProxyFanoutRingMC --------------------------
(***************************************************************************)
(* Leg A of C03 (schedule part): the lazy respSet of the proxy             *)
(* (pkg/store/proxy_merge.go: lazyRespSet, ringBuffer) as threads.         *)
(*                                                                         *)
(* Per store i there is one producer goroutine (the loop around            *)
(* handleRecvResponse) and one ring buffer of K slots protected by a       *)
(* mutex with two condition variables:                                     *)
(*     slot[i]  bufferSlotEvent     the producer waits on it while full    *)
(*     data[i]  dataOrFinishEvent   the consumer waits on it while empty   *)
(* The single consumer is the request goroutine: the loser tree calls      *)
(* Next() on one respSet at a time (which one is left open here: any       *)
(* live store), Close() from the tree's exhaustion callback, and Close()   *)
(* on every respSet when the request returns (deferred), possibly early    *)
(* (limit reached, abort, client gone).                                    *)
(*                                                                         *)
(* Every Lock, Wait, Signal and Unlock is its own step; a critical section *)
(* without a Wait is one step (nobody can observe its inside).             *)
(* sync.Cond: Wait = unlock + sleep until signalled + lock again;          *)
(* Signal wakes one sleeper if there is one, else it is lost.              *)
(***************************************************************************)
EXTENDS Integers, Sequences, FiniteSets, TLC

CONSTANTS NP,        \* number of stores / producers
          N,         \* frames per store
          K,         \* ring capacity (lazyRetrievalMaxBufferedResponses)
          MayFail    \* a Recv may fail on its own (C06: the failure becomes a warning frame)

Stores == 1..NP
Frames == [i \in 1..N |-> i]
WARN == 0            \* the warning frame a failing stream turns into

VARIABLES
    mtx,        \* store -> "free" | "c" | "p"      who holds bufferedResponsesMtx
    ring,       \* store -> sequence of buffered frames
    closed,     \* store -> rb.closed
    noMore,     \* store -> noMoreData
    cancelled,  \* store -> the series context is cancelled (closeSeries called)
    slotSleep,  \* store -> producer sleeps in bufferSlotEvent.Wait
    dataSleep,  \* store -> consumer sleeps in dataOrFinishEvent.Wait
    sent,       \* store -> frames Recv has returned so far
    ppc,        \* store -> producer program counter
    pitem,      \* store -> frame the producer is about to append
    pdone,      \* store -> donec closed
    cpc,        \* consumer program counter
    cur,        \* store the consumer is working on
    phase,      \* "init" | "merge" | "closing" | "finished"
    exhausted,  \* stores whose Next returned false (closed by the tree callback)
    consumed,   \* store -> frames the consumer has popped, in order
    ncloses,    \* store -> completed Close calls
    early       \* the request stopped before the tree was exhausted
vars == <<mtx, ring, closed, noMore, cancelled, slotSleep, dataSleep, sent, ppc, pitem, pdone,
          cpc, cur, phase, exhausted, consumed, ncloses, early>>

Init ==
    /\ mtx = [i \in Stores |-> "free"] /\ ring = [i \in Stores |-> <<>>]
    /\ closed = [i \in Stores |-> FALSE] /\ noMore = [i \in Stores |-> FALSE]
    /\ cancelled = [i \in Stores |-> FALSE]
    /\ slotSleep = [i \in Stores |-> FALSE] /\ dataSleep = [i \in Stores |-> FALSE]
    /\ sent = [i \in Stores |-> 0] /\ ppc = [i \in Stores |-> "recv"] /\ pitem = [i \in Stores |-> 0]
    /\ pdone = [i \in Stores |-> FALSE]
    /\ cpc = "next" /\ cur = 1 /\ phase = "init" /\ exhausted = {}
    /\ consumed = [i \in Stores |-> <<>>] /\ ncloses = [i \in Stores |-> 0] /\ early = FALSE

Full(i) == Len(ring[i]) = K      \* a ring of K+1 slots holds K frames
Empty(i) == ring[i] = <<>>

(* ---------------------------- producer i ---------------------------- *)
PUNCH == <<cpc, cur, phase, exhausted, consumed, ncloses, early>>

(* cl.Recv(): a frame, EOF, or an error (context cancelled, or the stream fails) *)
PRecvData(i) ==
    /\ ppc[i] = "recv" /\ sent[i] < N
    /\ sent' = [sent EXCEPT ![i] = @ + 1] /\ pitem' = [pitem EXCEPT ![i] = sent[i] + 1]
    /\ ppc' = [ppc EXCEPT ![i] = "lock"]
    /\ UNCHANGED <<mtx, ring, closed, noMore, cancelled, slotSleep, dataSleep, pdone>> /\ UNCHANGED PUNCH
PRecvEOF(i) ==
    /\ ppc[i] = "recv" /\ sent[i] = N /\ ~cancelled[i]
    /\ ppc' = [ppc EXCEPT ![i] = "eof"]
    /\ UNCHANGED <<mtx, ring, closed, noMore, cancelled, slotSleep, dataSleep, sent, pitem, pdone>> /\ UNCHANGED PUNCH
PRecvErr(i) ==
    /\ ppc[i] = "recv" /\ (cancelled[i] \/ MayFail)
    /\ pitem' = [pitem EXCEPT ![i] = WARN] /\ ppc' = [ppc EXCEPT ![i] = "lock"]
    /\ UNCHANGED <<mtx, ring, closed, noMore, cancelled, slotSleep, dataSleep, sent, pdone>> /\ UNCHANGED PUNCH

(* EOF: Lock; noMoreData = true; dataOrFinishEvent.Signal(); Unlock; the goroutine ends *)
PEof(i) ==
    /\ ppc[i] = "eof" /\ mtx[i] = "free"
    /\ noMore' = [noMore EXCEPT ![i] = TRUE] /\ dataSleep' = [dataSleep EXCEPT ![i] = FALSE]
    /\ ppc' = [ppc EXCEPT ![i] = "done"] /\ pdone' = [pdone EXCEPT ![i] = TRUE]
    /\ UNCHANGED <<mtx, ring, closed, cancelled, slotSleep, sent, pitem>> /\ UNCHANGED PUNCH

PLock(i) ==
    /\ ppc[i] \in {"lock", "woken"} /\ mtx[i] = "free"
    /\ mtx' = [mtx EXCEPT ![i] = "p"] /\ ppc' = [ppc EXCEPT ![i] = "append"]
    /\ UNCHANGED <<ring, closed, noMore, cancelled, slotSleep, dataSleep, sent, pitem, pdone>> /\ UNCHANGED PUNCH

(* rb.append under the lock: wait while full and not closed *)
PWait(i) ==
    /\ ppc[i] = "append" /\ Full(i) /\ ~closed[i]
    /\ mtx' = [mtx EXCEPT ![i] = "free"] /\ slotSleep' = [slotSleep EXCEPT ![i] = TRUE]
    /\ ppc' = [ppc EXCEPT ![i] = "sleep"]
    /\ UNCHANGED <<ring, closed, noMore, cancelled, dataSleep, sent, pitem, pdone>> /\ UNCHANGED PUNCH
PWoken(i) ==                       \* a Signal has cleared slotSleep
    /\ ppc[i] = "sleep" /\ ~slotSleep[i]
    /\ ppc' = [ppc EXCEPT ![i] = "woken"]
    /\ UNCHANGED <<mtx, ring, closed, noMore, cancelled, slotSleep, dataSleep, sent, pitem, pdone>> /\ UNCHANGED PUNCH
(* the rest of the critical section: append unless closed, signal the consumer, unlock;   *)
(* a warning frame also sets noMoreData and ends the goroutine                              *)
PAppend(i) ==
    /\ ppc[i] = "append" /\ (~Full(i) \/ closed[i])
    /\ ring' = [ring EXCEPT ![i] = IF closed[i] THEN @ ELSE Append(@, pitem[i])]
    /\ dataSleep' = [dataSleep EXCEPT ![i] = IF closed[i] /\ pitem[i] # WARN THEN @ ELSE FALSE]
    /\ mtx' = [mtx EXCEPT ![i] = "free"]
    /\ IF pitem[i] = WARN
         THEN /\ noMore' = [noMore EXCEPT ![i] = TRUE]
              /\ ppc' = [ppc EXCEPT ![i] = "done"] /\ pdone' = [pdone EXCEPT ![i] = TRUE]
         ELSE /\ ppc' = [ppc EXCEPT ![i] = "recv"] /\ UNCHANGED <<noMore, pdone>>
    /\ UNCHANGED <<closed, cancelled, slotSleep, sent, pitem>> /\ UNCHANGED PUNCH

Producer(i) == PRecvData(i) \/ PRecvEOF(i) \/ PRecvErr(i) \/ PEof(i) \/ PLock(i) \/ PWait(i) \/ PWoken(i) \/ PAppend(i)

(* ---------------------------- consumer ---------------------------- *)
CUNCH == <<sent, ppc, pitem, pdone, slotSleep>>

(* respSet.Next(): Lock *)
CLock ==
    /\ cpc \in {"next", "woken"} /\ mtx[cur] = "free"
    /\ mtx' = [mtx EXCEPT ![cur] = "c"] /\ cpc' = "check"
    /\ UNCHANGED <<ring, closed, noMore, cancelled, dataSleep, cur, phase, exhausted, consumed, ncloses, early>> /\ UNCHANGED CUNCH
(* empty and more may come: dataOrFinishEvent.Wait() *)
CWait ==
    /\ cpc = "check" /\ Empty(cur) /\ ~noMore[cur]
    /\ mtx' = [mtx EXCEPT ![cur] = "free"] /\ dataSleep' = [dataSleep EXCEPT ![cur] = TRUE] /\ cpc' = "sleep"
    /\ UNCHANGED <<ring, closed, noMore, cancelled, cur, phase, exhausted, consumed, ncloses, early>> /\ UNCHANGED CUNCH
CWoken ==
    /\ cpc = "sleep" /\ ~dataSleep[cur]
    /\ cpc' = "woken"
    /\ UNCHANGED <<mtx, ring, closed, noMore, cancelled, dataSleep, cur, phase, exhausted, consumed, ncloses, early>> /\ UNCHANGED CUNCH

(* where the request goroutine goes after a Next()/Close() returned *)
AfterNext(ex) ==
    IF phase = "init" /\ cur < NP THEN [pc |-> "next", cur |-> cur + 1, phase |-> "init"]
    ELSE [pc |-> "pick", cur |-> cur, phase |-> "merge"]

(* a frame is there: pop it, bufferSlotEvent.Signal(), Unlock; Next returns true *)
CPop ==
    /\ cpc = "check" /\ ~Empty(cur)
    /\ consumed' = [consumed EXCEPT ![cur] = Append(@, Head(ring[cur]))]
    /\ ring' = [ring EXCEPT ![cur] = Tail(@)]
    /\ slotSleep' = [slotSleep EXCEPT ![cur] = FALSE]
    /\ mtx' = [mtx EXCEPT ![cur] = "free"]
    /\ LET a == AfterNext(exhausted) IN cpc' = a.pc /\ cur' = a.cur /\ phase' = a.phase
    /\ UNCHANGED <<closed, noMore, cancelled, dataSleep, exhausted, ncloses, early, sent, ppc, pitem, pdone>>
(* empty and nothing will come: Unlock; Next returns false; the tree's callback closes the respSet *)
CExhausted ==
    /\ cpc = "check" /\ Empty(cur) /\ noMore[cur]
    /\ mtx' = [mtx EXCEPT ![cur] = "free"] /\ exhausted' = exhausted \cup {cur} /\ cpc' = "close"
    /\ UNCHANGED <<ring, closed, noMore, cancelled, dataSleep, cur, phase, consumed, ncloses, early>> /\ UNCHANGED CUNCH

(* respSet.Close(), first half: Lock; closeSeries(); rb.close() (closed = true, bufferSlotEvent.Signal()); *)
(* noMoreData = true; dataOrFinishEvent.Signal(); Unlock                                                    *)
CClose ==
    /\ cpc = "close" /\ mtx[cur] = "free"
    /\ cancelled' = [cancelled EXCEPT ![cur] = TRUE] /\ closed' = [closed EXCEPT ![cur] = TRUE]
    /\ slotSleep' = [slotSleep EXCEPT ![cur] = FALSE]
    /\ noMore' = [noMore EXCEPT ![cur] = TRUE] /\ dataSleep' = [dataSleep EXCEPT ![cur] = FALSE]
    /\ cpc' = "join"
    /\ UNCHANGED <<mtx, ring, cur, phase, exhausted, consumed, ncloses, early, sent, ppc, pitem, pdone>>
(* second half: <-donec; shardMatcher.Close(); cl.CloseSend() *)
CJoin ==
    /\ cpc = "join" /\ pdone[cur]
    /\ ncloses' = [ncloses EXCEPT ![cur] = @ + 1]
    /\ IF phase = "closing"
         THEN IF cur > 1 THEN cpc' = "close" /\ cur' = cur - 1 /\ phase' = phase
              ELSE cpc' = "end" /\ cur' = cur /\ phase' = "finished"
         ELSE LET a == AfterNext(exhausted) IN cpc' = a.pc /\ cur' = a.cur /\ phase' = a.phase
    /\ UNCHANGED <<mtx, ring, closed, noMore, cancelled, dataSleep, exhausted, consumed, early>> /\ UNCHANGED CUNCH

(* the merge loop: Next() on some live store ... *)
CPick ==
    /\ cpc = "pick"
    /\ \E i \in Stores \ exhausted : cur' = i /\ cpc' = "next"
    /\ UNCHANGED <<mtx, ring, closed, noMore, cancelled, dataSleep, phase, exhausted, consumed, ncloses, early>> /\ UNCHANGED CUNCH
(* ... or the request returns (all exhausted, or early: limit / abort / send error):          *)
(* the deferred Close of every respSet runs, last opened first                                   *)
CReturn ==
    /\ cpc = "pick"
    /\ early' = (exhausted # Stores)
    /\ cpc' = "close" /\ cur' = NP /\ phase' = "closing"
    /\ UNCHANGED <<mtx, ring, closed, noMore, cancelled, dataSleep, exhausted, consumed, ncloses>> /\ UNCHANGED CUNCH

Consumer == CLock \/ CWait \/ CWoken \/ CPop \/ CExhausted \/ CClose \/ CJoin \/ CPick \/ CReturn

Finished == phase = "finished" /\ UNCHANGED vars
Next == Consumer \/ (\E i \in Stores : Producer(i)) \/ Finished
Fairness == WF_vars(Consumer) /\ \A i \in Stores : WF_vars(Producer(i))
Spec == Init /\ [][Next]_vars /\ Fairness

(* ---------------------------- properties ---------------------------- *)
IsPrefix(s, t) == Len(s) <= Len(t) /\ SubSeq(t, 1, Len(s)) = s
(* the consumer sees the frames of each store in stream order, nothing twice, nothing invented; *)
(* a warning can only be the last thing it sees                                                  *)
OrderPreserved ==
    \A i \in Stores : \/ IsPrefix(consumed[i], Frames)
                      \/ /\ consumed[i] # <<>> /\ consumed[i][Len(consumed[i])] = WARN
                         /\ IsPrefix(SubSeq(consumed[i], 1, Len(consumed[i]) - 1), Frames)
(* a stream that was read to its end without being closed from outside delivered everything *)
NothingLost == \A i \in exhausted : (\A k \in DOMAIN consumed[i] : consumed[i][k] # WARN) => consumed[i] = Frames
RingBounded == \A i \in Stores : Len(ring[i]) <= K
(* Close returns only after the producer goroutine has ended (the buffer of the shard matcher is *)
(* not in use any more when it goes back to the pool)                                            *)
CloseAfterProducer == \A i \in Stores : ncloses[i] > 0 => pdone[i]
(* every respSet is closed by the time the request returns; those the tree exhausted are closed *)
(* twice (callback + deferred Close): Close must therefore be idempotent (C17)                   *)
AllClosed == phase = "finished" => \A i \in Stores : ncloses[i] = (IF i \in exhausted THEN 2 ELSE 1)
(* "Close wakes a blocked producer", no lost wake-up, no deadlock *)
RequestReturns == <>(phase = "finished")
ProducersEnd == <>(\A i \in Stores : pdone[i])
=============================================================================
