\* C16 leg A quick: 2 readers x 1 call, 1 idle sweep, 1 Close, load may fail; all interleavings, safety + termination under strong fairness
SPECIFICATION FairSpec
CONSTANTS Readers = {"r1", "r2"}
          Calls = 1
          Sweeps = 1
          Closers = {"closer"}
          LoadMayFail = TRUE
          HoldAnswers = FALSE
INVARIANTS UseOnlyLoadedOpen NeverUseClosed ClosedOnlyUnused CleanResults MutexOK
PROPERTY Terminates
CHECK_DEADLOCK TRUE
