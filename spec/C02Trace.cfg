SPECIFICATION TraceSpec
CONSTANT InitPen = 5000
POSTCONDITION TraceAccepted
CHECK_DEADLOCK FALSE
