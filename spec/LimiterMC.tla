------------------------------ MODULE LimiterMC ------------------------------
(***************************************************************************)
(* Leg A for C09: all interleavings of the block goroutines of one         *)
(* BucketStore.Series call against the two shared limiters.                *)
(*                                                                         *)
(* Per block b: work[b] = chunk counts of the series the block contributes *)
(* (in posting order), extra[b] = postings that match the selectors but    *)
(* contribute no series (no chunk in the time range).  A goroutine         *)
(*   expand : ExpandPostings; eager postings reserve ALL postings of the   *)
(*            block on the series limiter (blockSeriesClient.ExpandPostings)*)
(*   chunk  : nextBatch, per series of the batch: reserve its chunks       *)
(*   batch  : end of nextBatch; lazy postings reserve the series that      *)
(*            matched in this batch on the series limiter; the batch is    *)
(*            handed to the merge                                          *)
(* Any failed Reserve ends the goroutine with ResourceExhausted and fails  *)
(* the call.  Postings without series come first in the block (worst case  *)
(* for batching); their position does not matter for the limiters.         *)
(***************************************************************************)
EXTENDS Limiter, TLC, Json, IOUtils, SequencesExt, FiniteSetsExt

CONSTANTS Blocks,        \* block ids
          MaxSeries,     \* series per block 0..MaxSeries
          MaxChunks,     \* chunks per series 1..MaxChunks
          MaxExtra,      \* postings without series per block 0..MaxExtra
          SLimits,       \* candidate series limits (0 = unlimited)
          CLimits,       \* candidate chunk limits (0 = unlimited)
          Batches,       \* candidate series batch sizes
          NonAtomic      \* FALSE; TRUE = broken limiter (load, then store) used for the sanity run

VARIABLES work, extra, sLimit, cLimit, lazy, batch, skip, \* the case (skip = SkipChunks: no chunks, no chunk reservations)
          sRes, cRes,                                     \* limiter counters
          pc, pos, inBatch, matched, tmp,                 \* per goroutine
          failed,                                         \* goroutines that hit a limit
          sent                                            \* per block: series handed to the merge
vars == <<work, extra, sLimit, cLimit, lazy, batch, skip, sRes, cRes, pc, pos, inBatch, matched, tmp, failed, sent>>

ChunkSeqs == UNION { [1..n -> 1..MaxChunks] : n \in 0..MaxSeries }

Init ==
    /\ work \in [Blocks -> ChunkSeqs]
    /\ extra \in [Blocks -> 0..MaxExtra]
    /\ sLimit \in SLimits /\ cLimit \in CLimits
    /\ lazy \in BOOLEAN /\ batch \in Batches
    /\ skip \in (IF cLimit = 0 THEN BOOLEAN ELSE {FALSE})    \* SkipChunks makes the chunk limit moot
    /\ sRes = 0 /\ cRes = 0
    /\ pc = [b \in Blocks |-> "expand"]
    /\ pos = [b \in Blocks |-> 0]          \* postings consumed
    /\ inBatch = [b \in Blocks |-> 0]      \* postings of the current batch still to visit
    /\ matched = [b \in Blocks |-> 0]      \* series matched in the current batch
    /\ tmp = [b \in Blocks |-> 0]
    /\ failed = {}
    /\ sent = [b \in Blocks |-> 0]

Postings(b) == extra[b] + Len(work[b])
Fail(b) == /\ failed' = failed \cup {b}
           /\ pc' = [pc EXCEPT ![b] = "done"]

StartBatch(b, p) ==     \* p = postings consumed so far
    IF p >= Postings(b)
      THEN pc' = [pc EXCEPT ![b] = "done"] /\ UNCHANGED <<inBatch, matched>>
      ELSE /\ pc' = [pc EXCEPT ![b] = "chunk"]
           /\ inBatch' = [inBatch EXCEPT ![b] = IF Postings(b) - p < batch THEN Postings(b) - p ELSE batch]
           /\ matched' = [matched EXCEPT ![b] = 0]

(* ExpandPostings *)
Expand(b) ==
    /\ pc[b] = "expand"
    /\ IF Postings(b) = 0
         THEN pc' = [pc EXCEPT ![b] = "done"] /\ UNCHANGED <<sRes, failed, inBatch, matched>>
       ELSE IF lazy
         THEN StartBatch(b, 0) /\ UNCHANGED <<sRes, failed>>
       ELSE /\ sRes' = ReserveNew(sRes, Postings(b))
            /\ IF ReserveOK(sRes, Postings(b), sLimit)
                 THEN StartBatch(b, 0) /\ UNCHANGED failed
                 ELSE Fail(b) /\ UNCHANGED <<inBatch, matched>>
    /\ UNCHANGED <<work, extra, sLimit, cLimit, lazy, batch, skip, cRes, pos, tmp, sent>>

(* nextBatch, one posting: a posting without series is skipped, a series reserves its chunks *)
Visit(b) ==
    /\ pc[b] = "chunk" /\ inBatch[b] > 0
    /\ LET p == pos[b] + 1 IN
       /\ pos' = [pos EXCEPT ![b] = p]
       /\ inBatch' = [inBatch EXCEPT ![b] = @ - 1]
       /\ IF p <= extra[b]
            THEN UNCHANGED <<cRes, matched, failed, pc>>
            ELSE LET n == IF skip THEN 0 ELSE work[b][p - extra[b]] IN   \* SkipChunks: nothing to reserve
                 /\ cRes' = ReserveNew(cRes, n)
                 /\ IF skip \/ ReserveOK(cRes, n, cLimit)
                      THEN matched' = [matched EXCEPT ![b] = @ + 1] /\ UNCHANGED <<failed, pc>>
                      ELSE Fail(b) /\ UNCHANGED matched
    /\ UNCHANGED <<work, extra, sLimit, cLimit, lazy, batch, skip, sRes, tmp, sent>>

(* end of nextBatch *)
EndBatch(b) ==
    /\ pc[b] = "chunk" /\ inBatch[b] = 0
    /\ IF lazy
         THEN /\ sRes' = ReserveNew(sRes, matched[b])
              /\ IF ReserveOK(sRes, matched[b], sLimit)
                   THEN /\ sent' = [sent EXCEPT ![b] = @ + matched[b]]
                        /\ StartBatch(b, pos[b]) /\ UNCHANGED failed
                   ELSE Fail(b) /\ UNCHANGED <<sent, inBatch, matched>>
         ELSE /\ sent' = [sent EXCEPT ![b] = @ + matched[b]]
              /\ StartBatch(b, pos[b]) /\ UNCHANGED <<sRes, failed>>
    /\ UNCHANGED <<work, extra, sLimit, cLimit, lazy, batch, skip, cRes, pos, tmp>>

(* ---- the broken limiter of the sanity run: load and store are two steps (NonAtomic = TRUE) ---- *)
LoadS(b) == /\ NonAtomic /\ pc[b] = "expand" /\ ~lazy
            /\ tmp' = [tmp EXCEPT ![b] = sRes] /\ pc' = [pc EXCEPT ![b] = "expand2"]
            /\ UNCHANGED <<work, extra, sLimit, cLimit, lazy, batch, skip, sRes, cRes, pos, inBatch, matched, failed, sent>>
StoreS(b) == /\ pc[b] = "expand2"
             /\ sRes' = tmp[b] + Postings(b)
             /\ IF sLimit = 0 \/ tmp[b] + Postings(b) <= sLimit
                  THEN StartBatch(b, 0) /\ UNCHANGED failed
                  ELSE Fail(b) /\ UNCHANGED <<inBatch, matched>>
             /\ UNCHANGED <<work, extra, sLimit, cLimit, lazy, batch, skip, cRes, pos, tmp, sent>>

Next == \E b \in Blocks : (IF NonAtomic /\ ~lazy THEN LoadS(b) \/ StoreS(b) ELSE Expand(b)) \/ Visit(b) \/ EndBatch(b)
Spec == Init /\ [][Next]_vars /\ WF_vars(Next)

(* ---------------- C09 ---------------- *)
AllDone == \A b \in Blocks : pc[b] = "done"
OK == failed = {}
BlockChunks(b) == IF skip THEN 0 ELSE SeqSum(work[b])
SumOver(S, F(_)) == FoldSet(LAMBDA x, acc : acc + F(x), 0, S)
TrueSeries == LET F(b) == Len(work[b]) IN SumOver(Blocks, F)      \* upper bound of the merged answer
TrueChunks == LET F(b) == BlockChunks(b) IN SumOver(Blocks, F)
SentSeries == LET F(b) == sent[b] IN SumOver(Blocks, F)
FullSeriesReservation == IF lazy THEN TrueSeries ELSE LET F(b) == Postings(b) IN SumOver(Blocks, F)

(* sentence 1: a call that succeeds returned at most the limits *)
C09_SuccessWithinLimits ==
    AllDone => LimSuccessWithinLimits(OK, SentSeries, TrueChunks, sLimit, cLimit)
(* sentence 2: a call whose unlimited answer exceeds a limit fails (with ResourceExhausted: the only error) *)
C09_ExceedingFails ==
    AllDone => LimExceedingFails(OK, TrueSeries, TrueChunks, sLimit, cLimit)
(* the verdict does not depend on the interleaving *)
C09_VerdictIndependentOfSchedule ==
    AllDone => (OK <=> ~LimExceeds(FullSeriesReservation, sLimit) /\ ~LimExceeds(TrueChunks, cLimit))
(* nothing is handed to the merge beyond the series limit while the call can still succeed *)
C09_NeverSendsBeyondLimit == OK => ~LimExceeds(SentSeries, sLimit) \/ ~lazy
C09_Terminates == <>AllDone

(* ---------------- leg B: workloads for the harness ---------------- *)
CasesFile == IF "VERIF_CASES" \in DOMAIN IOEnv THEN IOEnv.VERIF_CASES ELSE "cases.ndjson"
BlockSeq == SetToSeq(Blocks)
CaseSet == { [blocks |-> [i \in 1..Len(BlockSeq) |-> w[BlockSeq[i]]],
              extra |-> [i \in 1..Len(BlockSeq) |-> x[BlockSeq[i]]]] :
               w \in [Blocks -> ChunkSeqs], x \in [Blocks -> 0..MaxExtra] }
ASSUME ndJsonSerialize(CasesFile, SetToSeq(CaseSet))
=============================================================================
