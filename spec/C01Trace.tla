------------------------------ MODULE C01Trace ------------------------------
(***************************************************************************)
(* Leg C for C01.  One trace line per executed case (real pkg/dedup code): *)
(*   in.reps     replicas handed to dedup.NewSeriesSet: sequences of       *)
(*               samples <<t, v>> (strictly increasing t, integer v)       *)
(*   in.f        query function (not a counter function), in.src iterator  *)
(*               kind, in.targets seek targets, in.drift compare to model  *)
(*   next        the stream of a reader that only calls Next               *)
(*   seeks[k]    [x, s]: stream s of a reader on a fresh iterator whose    *)
(*               first call is Seek(x), followed by Next until exhausted   *)
(*   err         "" or the error / panic that ended the observation        *)
(* Judged with the property-level operators of Dedup only.                 *)
(***************************************************************************)
EXTENDS TraceLib, Dedup

Judge(e) ==
    (* the statement talks about the result of the merge: there must be one *)
    IF e.err # "" THEN {"merge-yields-a-result"} ELSE
    (* "the result has strictly increasing timestamps" *)
    (IF StrictlyIncreasing(e.next) THEN {} ELSE {"timestamps-strictly-increasing"})
    \cup
    (* "every sample it yields is a sample one of the replicas holds at that timestamp" *)
    (IF FromSomeReplica(e.next, e.in.reps) THEN {} ELSE {"sample-held-by-a-replica"})
    \cup
    (* "a single replica, or a set of identical replicas, comes out unchanged" *)
    (IF UnchangedIfIdentical(e.next, e.in.reps) THEN {} ELSE {"single-or-identical-unchanged"})
    \cup
    (* "a reader that first seeks to t sees exactly the suffix (from t on) of what a reader *)
    (* iterating from the start sees"                                                       *)
    (IF \A k \in DOMAIN e.seeks : SeekIsSuffix(e.next, e.seeks[k].x, e.seeks[k].s)
       THEN {} ELSE {"seek-first-is-suffix"})

(* Model conformance (never a verdict): the algorithm-level model predicts the streams.  *)
Drift(e) == /\ e.in.drift /\ e.err = ""
            /\ \/ e.next # RunNext(e.in.reps, e.in.ctr)
               \/ \E k \in DOMAIN e.seeks : e.seeks[k].s # RunSeek(e.in.reps, e.in.ctr, e.seeks[k].x)

VARIABLE l
TraceInit == l = 1
TraceNext == /\ l <= TraceLen
             /\ CaseReject(l, Trace[l], Judge(Trace[l]))
             /\ (IF Drift(Trace[l]) THEN PrintT(<<"DRIFT", l, Trace[l]["case"]>>) ELSE TRUE)
             /\ l' = l + 1
TraceSpec == TraceInit /\ [][TraceNext]_l
TraceAccepted == TLCGet("stats").diameter = TraceLen + 1
=============================================================================
