------------------------------ MODULE C01Trace ------------------------------
(***************************************************************************)
(* Leg C for C01.  One trace line per executed case (real pkg/dedup code): *)
(*   in.reps     replicas handed to dedup.NewSeriesSet: sequences of       *)
(*               samples <<t, v>> (strictly increasing t, integer v)       *)
(*   in.f        select-hint function, any but rate/irate/increase/resets   *)
(*               ("", gauge, *_over_time, x-functions); in.src iterator     *)
(*               kind, in.targets seek targets, in.drift compare to model  *)
(*   next        the stream of a reader that only calls Next               *)
(*   seeks[k]    [x, s]: stream s of a reader on a fresh iterator whose    *)
(*               first call is Seek(x), followed by Next until exhausted   *)
(*   logs[k]     calls of a reader that mixes Next and Seek on a fresh     *)
(*               iterator: [op, x, ok, s] per call (s = <<>> if none)      *)
(*   in.algo     "penalty" or "chain" (deduplication function)             *)
(*   err         "" or the error / panic that ended the observation        *)
(* Samples are <<t, v>> (float) or <<t, v, "h" | "fh">> (histogram with    *)
(* count v), read with the accessor of the value type Next/Seek returned.  *)
(* Judged with the property-level operators of Dedup only.                 *)
(***************************************************************************)
EXTENDS TraceLib, Dedup

Judge(e) ==
    (* the statement talks about the result of the merge: there must be one *)
    IF e.err # "" THEN {"merge-yields-a-result"} ELSE
    (* "the result has strictly increasing timestamps" *)
    (IF StrictlyIncreasing(e.next) THEN {} ELSE {"timestamps-strictly-increasing"})
    \cup
    (* "every sample it yields is a sample one of the replicas holds at that timestamp" *)
    (IF FromSomeReplica(e.next, e.in.reps) THEN {} ELSE {"sample-held-by-a-replica"})
    \cup
    (* "a single replica, or a set of identical replicas, comes out unchanged" *)
    (IF UnchangedIfIdentical(e.next, e.in.reps) THEN {} ELSE {"single-or-identical-unchanged"})
    \cup
    (* "a reader that first seeks to t sees exactly the suffix (from t on) of what a reader *)
    (* iterating from the start sees"                                                       *)
    (IF \A k \in DOMAIN e.seeks : SeekIsSuffix(e.next, e.seeks[k].x, e.seeks[k].s)
       THEN {} ELSE {"seek-first-is-suffix"})
    \cup
    (* the same for a reader that seeks in mid-stream (chunkenc.Iterator contract: Seek goes to *)
    (* the first sample at or after t, and is a no-op if the current sample already is)         *)
    (IF \A k \in DOMAIN e.logs : FollowsFullStream(e.next, e.logs[k])
       THEN {} ELSE {"reader-follows-from-start-stream"})

(* Model conformance (never a verdict): the algorithm-level model predicts the streams.  *)
OpsOf(log) == [k \in DOMAIN log |-> [op |-> log[k].op, x |-> log[k].x]]
Drift(e) == /\ e.in.drift /\ e.err = ""
            /\ IF e.in.algo = "chain"
                 THEN Len(e.in.reps) > 1 /\ [k \in DOMAIN e.next |-> T(e.next[k])] # ChainTimes(e.in.reps)
                 ELSE \/ e.next # RunNext(e.in.reps, e.in.ctr)
                      \/ \E k \in DOMAIN e.seeks : e.seeks[k].s # RunSeek(e.in.reps, e.in.ctr, e.seeks[k].x)
                      \/ \E k \in DOMAIN e.logs : e.logs[k] # RunOps(e.in.reps, e.in.ctr, OpsOf(e.logs[k]))

VARIABLE l
TraceInit == l = 1
TraceNext == /\ l <= TraceLen
             /\ CaseReject(l, Trace[l], Judge(Trace[l]))
             /\ (IF Drift(Trace[l]) THEN PrintT(<<"DRIFT", l, Trace[l]["case"]>>) ELSE TRUE)
             /\ l' = l + 1
TraceSpec == TraceInit /\ [][TraceNext]_l
TraceAccepted == TLCGet("stats").diameter = TraceLen + 1
=============================================================================
