\* C40 leg A thorough: encoder cap K = 2; 2 series on any non-empty subset of a 6-point grid, one
\* or two chunks each (192 chunkings per series; 36 864 pairs + 192 byte-identical pairs)
SPECIFICATION Spec
CONSTANTS InitPen = 1
          K = 2
          Grid = {0, 1, 2, 3, 4, 5}
          NSeries = 2
          MaxLen = 6
          WithCounterInputs = FALSE
INVARIANTS C40_EveryAggregateSampleKept EachChunkComplete NothingInvented ChunksInOrder OnlyDoneIsFinal
CHECK_DEADLOCK FALSE
