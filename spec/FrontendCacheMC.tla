--------------------------- MODULE FrontendCacheMC ---------------------------
(***************************************************************************)
(* Leg A of C42: the frontend chain (step align -> split by interval ->    *)
(* results cache per sub-query -> merge) as a state machine whose state is *)
(* the cache.  One step = one range query answered through the chain, or   *)
(* the loss of one cache entry ("whatever parts of earlier answers were    *)
(* cached").  With MaxHist = 0 the state is only the cache (VIEW), so TLC  *)
(* explores every reachable cache content, i.e. histories of unbounded     *)
(* length (used with one split interval covering the grid); with           *)
(* MaxHist = n every history of at most n queries (several intervals).     *)
(*                                                                         *)
(* Checked: every response equals the direct evaluation (action property,  *)
(* evaluated on every transition) and cached extents only hold what the    *)
(* querier would answer for their range.                                   *)
(*                                                                         *)
(* Known finding excluded by construction (see KnownFindingCase): with the *)
(* step-align middleware switched off, queries whose start or end is not a *)
(* multiple of their step share cache entries with differently phased      *)
(* queries.  Set Unaligned = TRUE to let TLC exhibit it.                   *)
(***************************************************************************)
EXTENDS Frontend, TLC, Json, IOUtils, SequencesExt
CONSTANTS T,          \* time grid 0..T
          StepSet,    \* steps of the queries
          Common,     \* steps that get alternative (finer-step) keys
          Ivs,        \* split intervals (one per behaviour)
          MinExt,     \* minimal extent length worth reusing
          WorldIds,   \* which of the worlds below are explored
          GridFix,    \* TRUE: partition keeps the running start on the request grid (code as fixed)
          Unaligned,  \* TRUE: also step-align off with unaligned queries (exhibits the known finding)
          MaxHist,    \* 0: histories of any length (state = cache); n > 0: at most n queries per history
          HistLen,    \* length of the histories serialised for the harness
          CaseWorlds  \* worlds whose histories are serialised

(* ---- worlds: series 1 sorts before series 2 ---- *)
Always == <<[lo |-> 0, hi |-> T]>>
World(i) ==
    CASE i = 1 -> <<Always>>                                              \* one series, always there
      [] i = 2 -> <<<<[lo |-> T \div 2, hi |-> T]>>, Always>>               \* first series appears mid-way
      [] i = 3 -> <<Always, <<[lo |-> 0, hi |-> T \div 2]>>>>               \* second series disappears
      [] i = 4 -> <<<<[lo |-> 0, hi |-> 1], [lo |-> T - 1, hi |-> T]>>, Always>>   \* first series has a gap
      [] i = 5 -> <<<<[lo |-> 2, hi |-> T \div 2]>>, <<[lo |-> (T \div 2) + 1, hi |-> T]>>>>  \* hand-over, nothing before 2
      [] OTHER -> <<Always>>

VARIABLES cache, cfg, w, q, resp, n
vars == <<cache, cfg, w, q, resp, n>>
View == <<cache, cfg, w, IF MaxHist = 0 THEN 0 ELSE n>>

NoQuery == [s |-> -1, e |-> -1, st |-> 1]
Queries(al) == { [s |-> a, e |-> b, st |-> c] : a \in 0..T, b \in 0..T, c \in StepSet }
AlignedQ(x) == x.s % x.st = 0 /\ x.e % x.st = 0
(* The known-finding class, decided from the input alone.  *)
KnownFindingCase(c, x) == ~c.align /\ ~AlignedQ(x)

Init ==
    /\ cache = << >>
    /\ cfg \in { [iv |-> i, minext |-> MinExt, common |-> Common, align |-> al, matching |-> FALSE, gridfix |-> GridFix] :
                    i \in Ivs, al \in (IF Unaligned THEN {TRUE, FALSE} ELSE {TRUE}) }
    /\ w \in { World(i) : i \in WorldIds }
    /\ q = NoQuery /\ resp = EmptyResp /\ n = 0

Ask(x) ==
    /\ x.s <= x.e
    /\ (MaxHist = 0 \/ n < MaxHist)
    /\ n' = n + 1
    /\ (cfg.align => AlignedQ(x))         \* with step align on, unaligned queries are first rounded to these
    /\ (Unaligned \/ ~KnownFindingCase(cfg, x))
    /\ LET d == FrontendDo(cfg, w, cache, x) IN cache' = d.cache /\ resp' = d.resp
    /\ q' = x
    /\ UNCHANGED <<cfg, w>>

Lose(k) ==
    /\ cache' = [j \in DOMAIN cache \ {k} |-> cache[j]]
    /\ q' = NoQuery /\ resp' = EmptyResp
    /\ UNCHANGED <<cfg, w, n>>

Next == (\E x \in Queries(cfg.align) : Ask(x)) \/ (\E k \in DOMAIN cache : Lose(k))
Spec == Init /\ [][Next]_vars

(* ---- C42 ---- *)
RespIsDirect == q # NoQuery => resp = Reference(w, q, cfg.align)
C42_ResponsesAreDirect == [][RespIsDirect']_vars
(* what is cached for a range is what the querier answers for it -- the reason later hits are right *)
C42_ExtentsHoldDirectData ==
    \A k \in DOMAIN cache : \A i \in DOMAIN cache[k] :
        LET x == cache[k][i] IN x.resp = Direct(w, x.start, x.end, k[1])
(* extents of one key are ordered and do not overlap *)
C42_ExtentsOrdered ==
    \A k \in DOMAIN cache : \A i \in DOMAIN cache[k] :
        /\ cache[k][i].start <= cache[k][i].end
        /\ i > 1 => cache[k][i - 1].end < cache[k][i].start

(* ---- leg B: all histories of HistLen aligned queries over a thinned grid, per interval and world ---- *)
CasesFile == IF "VERIF_CASES" \in DOMAIN IOEnv THEN IOEnv.VERIF_CASES ELSE "cases.ndjson"
GenQ == { x \in Queries(TRUE) : x.s <= x.e /\ AlignedQ(x) }
Hists == [1..HistLen -> GenQ]
CaseSet == { [iv |-> i, world |-> World(wi), minext |-> MinExt, T |-> T, hist |-> h] : i \in Ivs, wi \in CaseWorlds, h \in Hists }
ASSUME ndJsonSerialize(CasesFile, SetToSeq(CaseSet))
=============================================================================
