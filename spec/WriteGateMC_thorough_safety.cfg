\* C24 leg A thorough (2): 4 requests, each within or over a request limit, max 1..3, all interleavings, safety only ; emits no cases
SPECIFICATION Spec
CONSTANTS NReq = 4
          MaxSet = {1, 2, 3}
          DoneOnFailedStart = FALSE
          WithLimits = TRUE
          CaseLenReject = 1
          CaseLen = 1
          CaseReq = 1
          CaseMaxSet = {1}
INVARIANTS WithinLimitInv NoPanic SlotsExact
CHECK_DEADLOCK FALSE
