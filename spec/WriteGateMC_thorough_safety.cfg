\* C24 leg A thorough (2): 6 requests, max 1..3, all interleavings, safety only (610 k states); emits no cases
SPECIFICATION Spec
CONSTANTS NReq = 6
          MaxSet = {1, 2, 3}
          DoneOnFailedStart = FALSE
          CaseLen = 1
          CaseReq = 1
          CaseMaxSet = {1}
INVARIANTS WithinLimitInv NoPanic SlotsExact
CHECK_DEADLOCK FALSE
