\* C23 leg A quick: one series rf 1..4, two series rf 2 on 3 nodes, outcomes ok/conflict/unavailable.
\* cases: one series rf 1..4 (all multisets x arrangements), replicated rf 1..3
SPECIFICATION Spec
CONSTANTS RF1 = {1, 2, 3, 4}
          RF2 = {2}
          N2 = 3
          Outcomes = {"ok", "conflict", "unavailable", "notready"}
          Outcomes2 = {"ok", "conflict", "unavailable", "notready"}
          ReplThresholdIsQuorum = FALSE
          StaleMapReused = FALSE
          WithTimeout = FALSE
          CaseRF1 = {1, 2, 3, 4}
          CaseRFLocal = {1, 2, 3}
          CaseRF2 = {}
          CaseOutcomes = {"ok", "conflict", "unavailable"}
INVARIANTS C22Inv C23Inv OrderIndependent EarlyOnlyWhenDetermined
PROPERTIES Terminates
CHECK_DEADLOCK FALSE
