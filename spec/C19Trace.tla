------------------------------ MODULE C19Trace ------------------------------
(***************************************************************************)
(* Leg C for C19.  One trace line per hashring configuration that was      *)
(* loaded by the REAL NewMultiHashring in a worker subprocess:             *)
(*   in.algo, in.rf, in.eps (sequence of [a, z]), in.ss [size, nozone, ..] *)
(*   got.build  "ok" | "error" | "panic" | "deadline"   NewMultiHashring   *)
(*   got.probe  "ok" | "error" | "panic" | "deadline" | "foreign" | "none" *)
(*              GetN(0..rf-1) for some series of two tenants on the ring   *)
(*              that was built ("none" when nothing was built)             *)
(* Statement: "Loading any hashring configuration either produces a usable *)
(* hashring or reports an error in bounded time; it never hangs".  An      *)
(* error -- at load time or when the ring is asked -- is always accepted;  *)
(* a missing answer after the deadline (60 s for work that takes           *)
(* milliseconds) or a crash is not.                                        *)
(***************************************************************************)
EXTENDS TraceLib, Hashring

Judge(e) == C19Clauses(e.got.build, e.got.probe)

(* Model conformance (never a verdict): the algorithm-level BuildOutcome predicts whether    *)
(* the real constructor accepts the configuration.                                            *)
(* Validation cases (phase 2) carry in.vkind # "" and the raw hashring-file text they were     *)
(* loaded from; the same clauses apply: an answer or an error in bounded time, no crash, and   *)
(* a ring that was handed out answers with configured endpoints or errors ("never a partially  *)
(* usable ring": got.probe covers every replica 0..rf-1 of several series).                    *)
Drift(e) == e.got.build \in {"ok", "error"} /\
            e.got.build # (IF e.in.vkind # "" THEN BuildOutcomeV(e.in.vkind, e.in.n, e.in.rf)
                           ELSE BuildOutcome(IF e.in.algo = "ketama" THEN "ketama" ELSE "hashmod",
                                             e.in.eps, e.in.rf, e.in.ss.size))

VARIABLE l
TraceInit == l = 1
TraceNext == /\ l <= TraceLen
             /\ CaseReject(l, Trace[l], Judge(Trace[l]))
             /\ (IF Drift(Trace[l]) THEN PrintT(<<"DRIFT", l, Trace[l]["case"]>>) ELSE TRUE)
             /\ l' = l + 1
TraceSpec == TraceInit /\ [][TraceNext]_l
TraceAccepted == TLCGet("stats").diameter = TraceLen + 1
=============================================================================
