-------------------------- MODULE ProxyFanoutFailMC --------------------------
(***************************************************************************)
(* Leg A of C06: ProxyStore.Series under store failures, for the whole     *)
(* fault space of a small world.                                           *)
(*                                                                         *)
(*   Open(i)     newAsyncRespSet for store i, in order.  A store whose     *)
(*               Series call errors: ABORT returns the error, WARN sends a *)
(*               warning and goes on.  Otherwise its respSet will yield    *)
(*               the frames received before the failure point and then     *)
(*               one warning frame (handleRecvResponse turns a Recv error  *)
(*               or a response timeout into NewWarnSeriesResponse).        *)
(*   Merge(i)    one Next() of the loser tree: a minimal head; a warning   *)
(*               frame is smaller than any series (less() in               *)
(*               NewProxyResponseLoserTree).  ABORT returns codes.Aborted  *)
(*               on a warning frame, WARN forwards it.                     *)
(*   Finish      the tree is exhausted.                                    *)
(* The deduplicator and batching are as in ProxyFanoutMC and are applied   *)
(* functionally (GroupChain) to what was emitted.                          *)
(***************************************************************************)
EXTENDS ProxyFanout, TLC, Json, IOUtils, SequencesExt

CONSTANTS NStores, MaxK      \* stores; failure points after 0..MaxK responses

(* store i streams the series {a=1} (shared by all stores, its own chunk) and {a=1+i} *)
ChunkOf(i) == [mint |-> 0, maxt |-> 10, f |-> <<i, 0, 0, 0, 0, 0>>]
FramesOfStore(i) == << [ls |-> << <<1, 1>> >>, chunks |-> <<ChunkOf(i)>>],
                       [ls |-> << <<1, 1 + i>> >>, chunks |-> <<ChunkOf(i)>>] >>
FailOpts == { [kind |-> "none", k |-> 0], [kind |-> "open", k |-> 0] }
            \cup { [kind |-> kd, k |-> k] : kd \in {"after", "timeout"}, k \in 0..MaxK }
WorldOf(fails) == [stores |-> [i \in 1..NStores |-> [frames |-> FramesOfStore(i), strips |-> TRUE, fail |-> fails[i]]],
                   without |-> <<>>]
Strategies == {"ABORT", "WARN"}

VARIABLES w, strategy,
          opened,    \* stores 1..opened have been opened
          streams,   \* store -> frames its respSet yields; a warning frame is [warn |-> i]
          pos, emitted, nwarn, named, err, done
vars == <<w, strategy, opened, streams, pos, emitted, nwarn, named, err, done>>

IsWarn(fr) == "warn" \in DOMAIN fr
Delivered(st) == IF st.fail.kind \in {"after", "timeout"}
                   THEN SubSeq(st.frames, 1, IF st.fail.k < Len(st.frames) THEN st.fail.k ELSE Len(st.frames))
                   ELSE st.frames

Init == /\ \E fails \in [1..NStores -> FailOpts] : w = WorldOf(fails)
        /\ strategy \in Strategies
        /\ opened = 0 /\ streams = [i \in 1..NStores |-> <<>>] /\ pos = [i \in 1..NStores |-> 1]
        /\ emitted = <<>> /\ nwarn = 0 /\ named = [i \in 1..NStores |-> FALSE] /\ err = "" /\ done = FALSE

Open ==
    /\ ~done /\ opened < NStores
    /\ LET i == opened + 1
           st == w.stores[i]
       IN /\ opened' = i
          /\ IF st.fail.kind = "open"
               THEN IF strategy = "ABORT"
                      THEN err' = "fetch series" /\ done' = TRUE /\ UNCHANGED <<nwarn, named, streams>>
                      ELSE nwarn' = nwarn + 1 /\ named' = [named EXCEPT ![i] = TRUE] /\ UNCHANGED <<err, done, streams>>
               ELSE /\ streams' = [streams EXCEPT ![i] = Delivered(st) \o (IF st.fail.kind = "none" THEN <<>> ELSE <<[warn |-> i]>>)]
                    /\ UNCHANGED <<nwarn, named, err, done>>
    /\ UNCHANGED <<w, strategy, pos, emitted>>

Live == { i \in 1..NStores : pos[i] <= Len(streams[i]) }
HeadOf(i) == streams[i][pos[i]]
(* less() of the tree: non-series before series; series by labels *)
HeadLeq(a, b) == IF IsWarn(a) THEN TRUE ELSE IF IsWarn(b) THEN FALSE ELSE LsCmp(a.ls, b.ls) <= 0

Merge(i) ==
    /\ ~done /\ opened = NStores /\ i \in Live
    /\ \A j \in Live : HeadLeq(HeadOf(i), HeadOf(j))
    /\ pos' = [pos EXCEPT ![i] = @ + 1]
    /\ IF IsWarn(HeadOf(i))
         THEN IF strategy = "ABORT"
                THEN err' = "aborted" /\ done' = TRUE /\ UNCHANGED <<nwarn, named, emitted>>
                ELSE nwarn' = nwarn + 1 /\ named' = [named EXCEPT ![HeadOf(i).warn] = TRUE] /\ UNCHANGED <<err, done, emitted>>
         ELSE emitted' = Append(emitted, HeadOf(i)) /\ UNCHANGED <<nwarn, named, err, done>>
    /\ UNCHANGED <<w, strategy, opened, streams>>

Finish == /\ ~done /\ opened = NStores /\ Live = {}
          /\ done' = TRUE
          /\ UNCHANGED <<w, strategy, opened, streams, pos, emitted, nwarn, named, err>>
Finished == done /\ UNCHANGED vars
Next == Open \/ (\E i \in 1..NStores : Merge(i)) \/ Finish \/ Finished
Spec == Init /\ [][Next]_vars

Output == GroupChain(SortFrames(emitted))
(* C06, on the finished request *)
C06_StrategyHonoured == done => C06Clauses(w, strategy, err, nwarn, named, Output) = {}
(* what is emitted is label-sorted, whatever fails (warnings do not disturb the merge) *)
C06_MergeStillSorted == \A k \in 1..(Len(emitted) - 1) : LsCmp(emitted[k].ls, emitted[k + 1].ls) <= 0

(* leg B: the whole fault space, both strategies *)
CasesFile == IF "VERIF_CASES" \in DOMAIN IOEnv THEN IOEnv.VERIF_CASES ELSE "cases.ndjson"
CaseSeq == SetToSeq({ [stores |-> WorldOf(f).stores, without |-> <<>>, strategy |-> s] : f \in [1..NStores -> FailOpts], s \in Strategies })
ASSUME ndJsonSerialize(CasesFile, CaseSeq)
=============================================================================
