--------------------------- MODULE ReceiveWriteMC ---------------------------
(***************************************************************************)
(* Leg A of C22 / C23: Handler.fanoutForward for one request, all fault    *)
(* assignments and all orders in which the replica responses are           *)
(* accounted.                                                              *)
(*                                                                         *)
(* A request has nser series; series s is written as replica r to node     *)
(* (start[s] + r) mod nn (what distributeTimeseriesToReplicas does with a  *)
(* ring that places consecutive replicas on consecutive nodes).  One write *)
(* (batch) per <node, replica> carries every series mapped to it and gets  *)
(* ONE answer.  rep = 0: fresh request, replicas 0..rf-1; rep = k > 0:     *)
(* already replicated, only replica k-1, success threshold 1.              *)
(*                                                                         *)
(* ReplThresholdIsQuorum = TRUE models the code before the C23 fix         *)
(* (newReplicationErrors(successThreshold, ...)); the committed configs    *)
(* use FALSE (= failureThreshold), which is what /repo does now.           *)
(***************************************************************************)
EXTENDS ReceiveWrite, TLC, Json, IOUtils, SequencesExt
CONSTANTS RF1,          \* replication factors explored with one series
          Outcomes2,    \* outcomes explored for the two-series shapes (subset of Outcomes)
          RF2,          \* replication factors explored with two series on N2 nodes
          N2,
          Outcomes,     \* subset of {"ok","conflict","unavailable","other","noconn"}; "noconn" = the handler
                        \* has no connection to the node (peer in back-off after earlier failures: the failure
                        \* is decided in getConnection, before any RPC); it holds for a NODE, i.e. for every
                        \* write addressed to it.  (A failed dial is accounted like "other".)
                        \* "notready" = the write is a LOCAL one (the receiver is itself a replica, RouterIngestor)
                        \* and the tenant's TSDB is not ready; with it in Outcomes Init also picks the local node.
                        \* A write that carries several tenants is still ONE write with ONE answer.
          ReplThresholdIsQuorum,
          StaleMapReused,  \* TRUE models a handler that reuses the pooled distribution map of a request that was
                           \* rejected in distribution WITHOUT clearing it (series ids then appear twice in a write's
                           \* answer); the code clears the map before it goes back to the pool: FALSE
          WithTimeout,  \* also explore the forward timeout firing at any moment
          CaseRF1, CaseRF2, CaseRFLocal, CaseOutcomes   \* leg B case generation (see the end)

VARIABLES rf, nn, nser, start, rep,   \* the request (chosen at Init, then constant)
          rejectedBefore,             \* history: the previous request on this handler was rejected while its series were being
                                      \* distributed (invalid split-tenant label, no hashring for the tenant) after some of its
                                      \* series had been placed; invisible at property level: must not influence this request
          local,                      \* node that is the receiver itself (its write goes to the local TSDB), or -1
          outc,                       \* <node,replica> -> outcome (the fault assignment)
          pending,                    \* writes whose answer has not been accounted yet
          succ, fail, conf, errs,     \* per-series counters of fanoutForward
          result,                     \* 0 = still waiting, otherwise the HTTP status
          timedOut
vars == <<rf, nn, nser, start, rep, rejectedBefore, local, outc, pending, succ, fail, conf, errs, result, timedOut>>

ErsOf(rf_, nn_, nser_, start_, rep_) ==
    LET reps == IF rep_ = 0 THEN 0..(rf_ - 1) ELSE {rep_ - 1} IN
    { <<(start_[s] + r) % nn_, r>> : s \in 1..nser_, r \in reps }
Ers == ErsOf(rf, nn, nser, start, rep)
SeriesOf(er) == { s \in 1..nser : (start[s] + er[2]) % nn = er[1] }
S == 1..nser
Replicated == rep # 0
ST == SuccessThreshold(rf, Replicated)
FT == FailureThreshold(rf, Replicated)
TH == IF ReplThresholdIsQuorum THEN ST ELSE FT

OutcomesOf(k) == IF k = 1 THEN Outcomes ELSE Outcomes2
Shapes == { [rf |-> r, nn |-> r, nser |-> 1] : r \in RF1 } \cup { [rf |-> r, nn |-> N2, nser |-> 2] : r \in RF2 }

Init == /\ \E sh \in Shapes : rf = sh.rf /\ nn = sh.nn /\ nser = sh.nser
        /\ start \in { f \in [1..nser -> 0..(nn - 1)] : f[1] = 0 }
        /\ rep \in 0..rf
        /\ rejectedBefore \in BOOLEAN
        /\ local \in (IF "notready" \in OutcomesOf(nser) THEN -1..(nn - 1) ELSE {-1})
        /\ \E down \in (IF "noconn" \in OutcomesOf(nser) THEN SUBSET ((0..(nn - 1)) \ {local}) ELSE {{}}) :
              \* a local write fails with conflicts, "not ready" or something else, never with a gRPC status;
              \* only a local write can be "not ready"; the receiver is never in back-off towards itself
              outc \in { f \in [ErsOf(rf, nn, nser, start, rep) -> OutcomesOf(nser)] :
                           \A er \in DOMAIN f :
                              ((f[er] = "noconn") <=> (er[1] \in down))
                              /\ ((er[1] = local) => (f[er] \in {"ok", "conflict", "notready", "other"}))
                              /\ ((f[er] = "notready") => (er[1] = local)) }
        /\ pending = ErsOf(rf, nn, nser, start, rep)
        /\ succ = [s \in 1..nser |-> 0] /\ fail = [s \in 1..nser |-> 0] /\ conf = [s \in 1..nser |-> 0]
        /\ errs = [s \in 1..nser |-> [c |-> 0, u |-> 0, r |-> 0, l |-> 0, o |-> 0]]
        /\ result = 0 /\ timedOut = FALSE

(* one iteration of the select loop: a response is received and accounted *)
Respond(er) ==
    /\ result = 0 /\ er \in pending
    /\ pending' = pending \ {er}
    /\ LET o == outc[er]
           hit == SeriesOf(er)
           k == IF StaleMapReused /\ rejectedBefore THEN 2 ELSE 1   \* ids carried twice are counted twice
           succ1 == [s \in S |-> IF s \in hit /\ o = "ok" THEN succ[s] + k ELSE succ[s]]
           fail1 == [s \in S |-> IF s \in hit /\ o # "ok" THEN fail[s] + k ELSE fail[s]]
           conf1 == [s \in S |-> IF s \in hit /\ o = "conflict" THEN conf[s] + 1 ELSE conf[s]]
           errs1 == [s \in S |-> IF s \notin hit \/ o = "ok" THEN errs[s]
                                 ELSE [c |-> errs[s].c + (IF o = "conflict" THEN 1 ELSE 0),
                                       u |-> errs[s].u + (IF o = "unavailable" THEN 1 ELSE 0),
                                       r |-> errs[s].r + (IF o = "noconn" THEN 1 ELSE 0),
                                       l |-> errs[s].l + (IF o = "notready" THEN 1 ELSE 0),
                                       o |-> errs[s].o + (IF o = "other" THEN 1 ELSE 0)]]
       IN /\ succ' = succ1 /\ fail' = fail1 /\ conf' = conf1 /\ errs' = errs1
          /\ result' = IF CanReturnEarly(S, succ1, conf1, ST, FT) THEN Decide(S, fail1, errs1, FT, TH) ELSE 0
    /\ UNCHANGED <<rf, nn, nser, start, rep, rejectedBefore, local, outc, timedOut>>

(* all writes answered, channel closed *)
Closed == /\ result = 0 /\ pending = {}
          /\ result' = Decide(S, fail, errs, FT, TH)
          /\ UNCHANGED <<rf, nn, nser, start, rep, rejectedBefore, local, outc, pending, succ, fail, conf, errs, timedOut>>

(* forward timeout: ctx.Err() -> 500 *)
Timeout == /\ WithTimeout /\ result = 0
           /\ result' = 500 /\ timedOut' = TRUE
           /\ UNCHANGED <<rf, nn, nser, start, rep, rejectedBefore, local, outc, pending, succ, fail, conf, errs>>

Next == (\E er \in pending : Respond(er)) \/ Closed \/ Timeout
Spec == Init /\ [][Next]_vars /\ WF_vars((\E er \in pending : Respond(er)) \/ Closed)

(* ---------------- the properties ---------------- *)
Tot(s, o) == Cardinality({ er \in Ers : s \in SeriesOf(er) /\ outc[er] = o })
(* stored at answer time >= the successful writes whose answer was accounted; the model uses those (worst case) *)
Run == [status |-> result,
        series |-> [s \in S |-> [ok |-> Tot(s, "ok"), conflict |-> Tot(s, "conflict"),
                                 unavailable |-> Tot(s, "unavailable"), noconn |-> Tot(s, "noconn"), notready |-> Tot(s, "notready"),
                                 other |-> Tot(s, "other"),
                                 stored |-> Cardinality({ er \in Ers \ pending : s \in SeriesOf(er) /\ outc[er] = "ok" })]]]
N == ReplicasFor(rf, Replicated)
QS == QuorumsFor(rf, Replicated)

C22Inv == result # 0 => JudgeC22(Run, N, QS) = {}
C23Inv == (result # 0 /\ ~timedOut) => JudgeC23(Run, N, QS) = {}
(* order independence: whatever the order and the moment of the early return, the answer is the one *)
(* computed from the complete fault assignment                                                       *)
OrderIndependent == (result # 0 /\ ~timedOut) => result = PredictedStatus(Run, rf, Replicated)
(* an early return never leaves an undetermined series behind *)
EarlyOnlyWhenDetermined == (result # 0 /\ ~timedOut /\ pending # {}) => CanReturnEarly(S, succ, conf, ST, FT)
Terminates == <>(result # 0)

(* ---------------- leg B: cases for the real handler ---------------- *)
(* A case fixes the request shape and the fault assignment (outs[i] = outcome of ers[i]) and lists    *)
(* the response orders to execute; the harness runs the real handler once per order and records all  *)
(* runs on one trace line (so that order independence is judged inside the line).                     *)
CasesFile == IF "VERIF_CASES" \in DOMAIN IOEnv THEN IOEnv.VERIF_CASES ELSE "cases.ndjson"
OutSeq == SetToSeq(CaseOutcomes)
K == Len(OutSeq)
Count(f, k) == Cardinality({ i \in DOMAIN f : f[i] = k })
(* one series, rf replicas on rf nodes: multisets of outcomes (sorted index sequences) ...           *)
Multisets(n) == { f \in [1..n -> 1..K] : \A i \in 1..(n - 1) : f[i] <= f[i + 1] }
(* ... and for each arrangement of the multiset the response order that realises it                *)
Arrangements(m) == { a \in [1..Len(m) -> 1..K] : \A k \in 1..K : Count(a, k) = Count(m, k) }
OrderFor(m, a) == [i \in 1..Len(m) |->
                     LET k == a[i]
                         nth == Cardinality({ j \in 1..i : a[j] = k })
                     IN CHOOSE idx \in 1..Len(m) : m[idx] = k /\ Cardinality({ j \in 1..idx : m[j] = k }) = nth]
Case1(r, m) == [rf |-> r, nn |-> r, starts |-> <<0>>, rep |-> 0,
                ers |-> [i \in 1..r |-> [node |-> i - 1, replica |-> i - 1, series |-> <<1>>]],
                outs |-> [i \in 1..r |-> OutSeq[m[i]]],
                orders |-> SetToSeq({ OrderFor(m, a) : a \in Arrangements(m) })]
Perms(n) == { p \in [1..n -> 1..n] : \A i, j \in 1..n : i # j => p[i] # p[j] }
(* the receiver itself is replica 0 (node 0): local outcome lo, the other replicas a multiset, every order *)
LocalOutcomes == {"ok", "conflict", "notready", "other"}
CaseLocal(r, lo, m) == [rf |-> r, nn |-> r, starts |-> <<0>>, rep |-> 0, local |-> 0,
                        ers |-> [i \in 1..r |-> [node |-> i - 1, replica |-> i - 1, series |-> <<1>>]],
                        outs |-> [i \in 1..r |-> IF i = 1 THEN lo ELSE OutSeq[m[i - 1]]],
                        orders |-> SetToSeq(Perms(r))]
(* already replicated request: one write *)
CaseRep(r, k, o) == [rf |-> r, nn |-> r, starts |-> <<0>>, rep |-> k,
                     ers |-> <<[node |-> (k - 1) % r, replica |-> k - 1, series |-> <<1>>]>>,
                     outs |-> <<o>>, orders |-> << <<1>> >>]
(* two series on N2 nodes, second series starting at node b: every assignment, every order *)
Case2Set(r, b) ==
    LET st == <<0, b>>
        E == SetToSeq(ErsOf(r, N2, 2, st, 0))
        ersRec == [i \in 1..Len(E) |-> [node |-> E[i][1], replica |-> E[i][2],
                     series |-> SetToSeq({ s \in 1..2 : (st[s] + E[i][2]) % N2 = E[i][1] })]]
    IN { [rf |-> r, nn |-> N2, starts |-> st, rep |-> 0, ers |-> ersRec,
          outs |-> [i \in 1..Len(E) |-> OutSeq[f[i]]],
          orders |-> SetToSeq(Perms(Len(E)))] : f \in [1..Len(E) -> { k \in 1..K : OutSeq[k] # "noconn" }] }
RemoteMultisets(n) == { m \in Multisets(n) : \A i \in 1..n : OutSeq[m[i]] \notin {"noconn", "notready"} }
AllCases == UNION { { Case1(r, m) : m \in { x \in Multisets(r) : \A i \in 1..r : OutSeq[x[i]] # "notready" } } : r \in CaseRF1 }
            \cup UNION { { CaseLocal(r, lo, m) : lo \in LocalOutcomes, m \in RemoteMultisets(r - 1) } : r \in CaseRFLocal }
            \cup { CaseRep(r, k, o) : r \in { x \in CaseRF1 : x <= 3 }, k \in 1..3, o \in CaseOutcomes }
            \cup UNION { Case2Set(r, b) : r \in CaseRF2, b \in 0..(N2 - 1) }
ASSUME ndJsonSerialize(CasesFile, SetToSeq({ c \in AllCases : c.rep <= c.rf }))
=============================================================================
