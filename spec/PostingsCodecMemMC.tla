-------------------------- MODULE PostingsCodecMemMC --------------------------
(***************************************************************************)
(* Leg A for C12, second part: the streamed decoder over the CACHED BYTES. *)
(* A list is encoded, the varint stream cut into chunks of at most K bytes *)
(* (a 2-byte varint straddles a cut whenever it can), every chunk stored   *)
(* compressed or uncompressed (all combinations, so every transition       *)
(* u->u, u->c, c->u, c->c occurs at a straddle).  Two iterators decode the *)
(* SAME cached bytes, their Next calls interleaved in every order (which   *)
(* includes "decode, then decode again").  One action per Next call.       *)
(***************************************************************************)
EXTENDS PostingsCodec, TLC
CONSTANTS MaxVal, MaxLen, Ks, W2

RECURSIVE SortedSeqs(_, _, _)
SortedSeqs(n, lo, hi) == IF n = 0 THEN {<<>>}
                         ELSE UNION { { <<x>> \o s : s \in SortedSeqs(n - 1, x, hi) } : x \in lo..hi }
ListsUpTo(n, hi) == UNION { SortedSeqs(m, 0, hi) : m \in 0..n }

VARIABLES list, K, kinds,
          mem,       \* the cached bytes (shared by both iterators)
          its,       \* the two iterators
          outs,      \* values each has returned so far
          fin        \* fin[i]: iterator i has returned false
vars == <<list, K, kinds, mem, its, outs, fin>>

ChunksOf == MChunks(list, W2, K)

Init == /\ list \in ListsUpTo(MaxLen, MaxVal)
        /\ K \in Ks
        /\ kinds \in [1..Len(MChunks(list, W2, K)) -> {"u", "c"}]
        /\ mem = MMem(MChunks(list, W2, K), kinds)
        /\ its = <<MOpen, MOpen>>
        /\ outs = <<<<>>, <<>>>>
        /\ fin = <<FALSE, FALSE>>

CallNext(i) == /\ ~fin[i]
               /\ LET r == MNext(its[i], mem, ChunksOf, kinds, W2) IN
                    /\ its' = [its EXCEPT ![i] = r.it]
                    /\ mem' = r.mem
                    /\ outs' = IF r.ret THEN [outs EXCEPT ![i] = Append(outs[i], r.it.cur)] ELSE outs
                    /\ fin' = [fin EXCEPT ![i] = ~r.ret]
               /\ UNCHANGED <<list, K, kinds>>
Next == CallNext(1) \/ CallNext(2)
Spec == Init /\ [][Next]_vars

IsPrefix(a, b) == Len(a) <= Len(b) /\ SubSeq(b, 1, Len(a)) = a
(* "decodes to the same list" - each time the same cached bytes are decoded *)
C12_EveryDecodeGivesTheList == \A i \in 1..2 : /\ IsPrefix(outs[i], list)
                                               /\ fin[i] => (outs[i] = list /\ ~its[i].err)
(* which decoder reads which entry: the entry points that must read an encoding do, every other *)
(* combination refuses (never a different list)                                                  *)
Encs == {"dvs", "dss", "dss2", "be32"}
Decs == {"hdr", "cached", "dvs", "dss"}
MustRead == { <<"dvs", "hdr">>, <<"dvs", "cached">>, <<"dvs", "dvs">>, <<"dss", "hdr">>, <<"dss", "cached">>, <<"dss", "dss">>,
              <<"dss2", "hdr">>, <<"dss2", "cached">>, <<"dss2", "dss">>, <<"be32", "cached">> }
ASSUME \A enc \in Encs : \A dec \in Decs :
          DecodeOutcome(enc, dec) = (IF <<enc, dec>> \in MustRead THEN "list" ELSE "refuse")

(* decoding never modifies the cached bytes *)
CachedBytesIntact == mem = MMem(ChunksOf, kinds)
=============================================================================
