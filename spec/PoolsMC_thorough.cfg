\* C17(a) leg A thorough: 2 concurrent requests x 2 stores, open failures, early return, pool drops; Close gives back once
SPECIFICATION Spec
CONSTANTS NReq = 2
          NStores = 2
          Idempotent = TRUE
          MayFailOpen = TRUE
INVARIANTS C17_ReturnedAtMostOnce C17_NeverShared
PROPERTY C17_TraceClausesHold
CHECK_DEADLOCK TRUE
