\* C42 phase 2 leg A quick: metadata cache, grid 0..8, split interval 4, min extent 3 (active), label names only,
\* worlds 1,2, histories of at most 2 requests (+ losses)
SPECIFICATION Spec
CONSTANTS T = 8
          Ivs = {4}
          MinExt = 3
          WorldIds = {1, 2}
          MaxHist = 2
          CaseGrid = {0, 2, 3, 4, 6, 8}
          Kinds = {1}
INVARIANTS AnswerOK C42_MetaExtentsHoldDirectData C42_MetaExtentsOrdered
PROPERTIES C42_MetaAnswers
VIEW View
CHECK_DEADLOCK FALSE
