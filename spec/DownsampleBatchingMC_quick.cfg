\* C38/C37 leg A (batching of many input chunks) quick: 1..14 input chunks, numChunks 1..4,
\* coarse window of 2, 3 or 5 input samples: every remainder of len / batchSize
SPECIFICATION Spec
CONSTANTS MaxChunks = 14
          Counts = {1, 2, 3, 4}
          Widths = {2, 3, 5}
INVARIANTS BatchesDisjoint BatchesNonEmpty BatchesCoverAll BatchesConsecutive
           C38_TotalsConserved C38_AllConsumed C38_Ordered C38_WithinSpan C38_LastWindow C37_Counter
           L2ChunksOrdered OutputCount StepsAgreeWithAlgo
PROPERTY AlwaysProgress
CHECK_DEADLOCK TRUE
