------------------------------- MODULE RWv2MC -------------------------------
(***************************************************************************)
(* Leg A of C26: the reference-resolution loop of translateV2ToV1, one     *)
(* step per label pair, over every small symbol table and every choice of  *)
(* reference lists (in range, out of range, odd lengths).                  *)
(* The reference lists of a request are visited in the order of the code:  *)
(* a series' labels, then each of its exemplars' labels, then the next     *)
(* series.  BoundsChecked = FALSE models the code before the fix           *)
(* (w.Symbols[ref] without a check => index-out-of-range panic).           *)
(***************************************************************************)
EXTENDS RWv2, TLC, Json, IOUtils, SequencesExt
CONSTANTS MaxSym, MaxRef, MaxLen, MaxLists, BoundsChecked,
          CaseMaxSym, CaseMaxRef, CaseLabelLen, CaseExLen

AllSymbols == <<"", "a", "b", "c", "d">>
RefSeqs(maxRef, maxLen) == UNION { [1..n -> 0..maxRef] : n \in 0..maxLen }

VARIABLES symbols, lists,   \* the request: symbol table and its reference lists in visiting order
          li, pi,           \* current list, current pair
          acc, out,         \* resolved pairs of the current list / resolved lists so far
          res               \* "run" | "done" | "error" | "panic"
vars == <<symbols, lists, li, pi, acc, out, res>>

Init == /\ \E n \in 0..MaxSym : symbols = SubSeq(AllSymbols, 1, n)
        /\ \E k \in 1..MaxLists : lists \in [1..k -> RefSeqs(MaxRef, MaxLen)]
        /\ li = 1 /\ pi = 1 /\ acc = <<>> /\ out = <<>> /\ res = "run"

(* `for i := 0; i+1 < len(refs); i += 2` : one iteration *)
Pair == /\ res = "run" /\ li <= Len(lists) /\ pi <= PairCount(lists[li])
        /\ LET a == lists[li][2 * pi - 1]
               b == lists[li][2 * pi] IN
           IF InRange(symbols, a) /\ InRange(symbols, b)
             THEN /\ acc' = Append(acc, <<symbols[a + 1], symbols[b + 1]>>)
                  /\ pi' = pi + 1 /\ UNCHANGED <<res, out, li>>
             ELSE /\ res' = (IF BoundsChecked THEN "error" ELSE "panic")
                  /\ UNCHANGED <<acc, pi, out, li>>
        /\ UNCHANGED <<symbols, lists>>

(* list exhausted (a dangling last reference is never looked at) *)
NextList == /\ res = "run" /\ li <= Len(lists) /\ pi > PairCount(lists[li])
            /\ out' = Append(out, acc) /\ acc' = <<>> /\ li' = li + 1 /\ pi' = 1
            /\ UNCHANGED <<symbols, lists, res>>

Finish == /\ res = "run" /\ li > Len(lists)
          /\ res' = "done"
          /\ UNCHANGED <<symbols, lists, li, pi, acc, out>>

Next == Pair \/ NextList \/ Finish
Spec == Init /\ [][Next]_vars /\ WF_vars(Next)

(* ---------------- C26 on the loop ---------------- *)
AllResolvable == \A i \in DOMAIN lists : Resolvable(symbols, lists[i])
NeverPanics == res # "panic"
BadRefsRejected == (res = "done") => AllResolvable
RejectsOnlyBad == (res = "error") => ~AllResolvable
Faithful_ == (res = "done") => out = [i \in DOMAIN lists |-> Resolve(symbols, lists[i])]
Terminates == <>(res # "run")

(* ---------------- leg B: structural cases for the real handler ---------------- *)
(* one series with label refs l and at most one exemplar with label refs x, table of n symbols;  *)
(* the harness fills in real strings, samples, histograms and exemplar values.                    *)
CasesFile == IF "VERIF_CASES" \in DOMAIN IOEnv THEN IOEnv.VERIF_CASES ELSE "cases.ndjson"
ExChoices == { <<>> } \cup { <<x>> : x \in RefSeqs(CaseMaxRef, CaseExLen) }
CaseSet == { [nsym |-> n, series |-> << [lrefs |-> l, exrefs |-> xs] >>] :
               n \in 0..CaseMaxSym, l \in RefSeqs(CaseMaxRef, CaseLabelLen), xs \in ExChoices }
ASSUME ndJsonSerialize(CasesFile, SetToSeq(CaseSet))
=============================================================================
