------------------------------ MODULE C45Trace ------------------------------
(***************************************************************************)
(* Leg C for C45.  One trace line per executed case:                       *)
(*   in.rules   rules the (fake) rules servers sent, in sending order       *)
(*              (consecutive rules of one file/group travel in one group    *)
(*              message); labels carry t = TRUE iff the value is templated  *)
(*   in.sets    selector sets of the request (rendered to match[] strings   *)
(*              by the harness), in.rep replica labels of the client        *)
(*   req        the complete request (see below); got.warnings their count  *)
(*   got.err    "" or the error text of GRPCClient.Rules                    *)
(*   got.rules  the rules of all returned groups, flattened, in order       *)
(* Judged with the property-level operator RViolations of Rules.tla.        *)
(***************************************************************************)
EXTENDS TraceLib, Rules

(* e.req is the case completed to the request shape of Rules.tla phase 2 (cases of the first      *)
(* generation: one healthy rules server, no name / group / file filter, for which RViolations2      *)
(* coincides with RViolations); e.via tells whether the real fan-out rules.Proxy was in the path.   *)
Judge(e) == RViolations2(e.req, e.got)

(* Model conformance (never a verdict): the replica the algorithm-level model keeps for   *)
(* each returned rule (most critical state, then latest evaluation) is the one observed,  *)
(* and the algorithm-level filters select exactly the identities returned.                *)
Drift(e) ==
    /\ e.got.err = ""
    /\ \/ \E k \in DOMAIN e.got.rules :
            <<e.got.rules[k].st, e.got.rules[k].ev>> \notin RAlgoSurvivors2(e.req, ROutIdentity(e.got.rules[k]))
       \/ { ROutIdentity(e.got.rules[k]) : k \in DOMAIN e.got.rules } # RAlgoIds2(e.req)

VARIABLE l
TraceInit == l = 1
TraceNext == /\ l <= TraceLen
             /\ CaseReject(l, Trace[l], Judge(Trace[l]))
             /\ (IF Drift(Trace[l]) THEN PrintT(<<"DRIFT", l, Trace[l]["case"]>>) ELSE TRUE)
             /\ l' = l + 1
TraceSpec == TraceInit /\ [][TraceNext]_l
TraceAccepted == TLCGet("stats").diameter = TraceLen + 1
=============================================================================
