------------------------------ MODULE C45Trace ------------------------------
(***************************************************************************)
(* Leg C for C45.  One trace line per executed case:                       *)
(*   in.rules   rules the (fake) rules servers sent, in sending order       *)
(*              (consecutive rules of one file/group travel in one group    *)
(*              message); labels carry t = TRUE iff the value is templated  *)
(*   in.sets    selector sets of the request (rendered to match[] strings   *)
(*              by the harness), in.rep replica labels of the client        *)
(*   got.err    "" or the error text of GRPCClient.Rules                    *)
(*   got.rules  the rules of all returned groups, flattened, in order       *)
(* Judged with the property-level operator RViolations of Rules.tla.        *)
(***************************************************************************)
EXTENDS TraceLib, Rules

Judge(e) ==
    IF e.got.err # ""
      (* every generated request is well formed: the statement's "a rule is returned if ..." *)
      (* leaves no room for refusing it                                                      *)
      THEN {"valid-request-answered"}
      ELSE RViolations(e.in, e.got.rules)

(* Model conformance (never a verdict): the replica the algorithm-level model keeps for   *)
(* each returned rule (most critical state, then latest evaluation) is the one observed,  *)
(* and the algorithm-level filter selects exactly the identities returned.                *)
Drift(e) ==
    /\ e.got.err = ""
    /\ \/ \E k \in DOMAIN e.got.rules :
            <<e.got.rules[k].st, e.got.rules[k].ev>> \notin RAlgoSurvivors(e.in, ROutIdentity(e.got.rules[k]))
       \/ { ROutIdentity(e.got.rules[k]) : k \in DOMAIN e.got.rules }
            # { RIdentity(r, RRan(e.in.rep)) : r \in { x \in RRan(e.in.rules) : RAlgoMatches(e.in.sets, x.labels) } }

VARIABLE l
TraceInit == l = 1
TraceNext == /\ l <= TraceLen
             /\ CaseReject(l, Trace[l], Judge(Trace[l]))
             /\ (IF Drift(Trace[l]) THEN PrintT(<<"DRIFT", l, Trace[l]["case"]>>) ELSE TRUE)
             /\ l' = l + 1
TraceSpec == TraceInit /\ [][TraceNext]_l
TraceAccepted == TLCGet("stats").diameter = TraceLen + 1
=============================================================================
