---------------------------- MODULE QueryShardMC ----------------------------
(* Leg A of C44: for every expression of the mini algebra up to depth 2, every small world of      *)
(* series and EVERY hash function, the analyzer's decision makes sharded = unsharded evaluation.   *)
EXTENDS QueryShard, Json, IOUtils, SequencesExt
CONSTANTS NShards, MaxSeries, Vals, Ops, WithLrep, Depth2, Depth3   \* Depth3: "none" | "by" | "all"

Names == {MetricName, "a", "b"}
LNames == {"a", "b"}
(* label maps: __name__ in {m1,m2}; a in {absent,x,y}; b in {absent,x} *)
LabelMaps ==
    { [n \in ({MetricName} \cup da \cup db) |->
          IF n = MetricName THEN m ELSE IF n = "a" THEN va ELSE "x"]
      : m \in {"m1", "m2"}, va \in {"x", "y"}, da \in {{}, {"a"}}, db \in {{}, {"b"}} }
Worlds == UNION { UNION { { { [ls |-> l, v |-> f[l]] : l \in LS } : f \in [LS -> Vals] }
                          : LS \in kSubset(k, LabelMaps) }
                  : k \in 1..MaxSeries }      \* a label set identifies a series

Sels == { [k |-> "sel", name |-> n] : n \in {"m1", "m2", "*"} }
LSets == SUBSET LNames
Aggs(E) == { [k |-> "agg", op |-> o, by |-> b, ls |-> L, e |-> x] : o \in Ops, b \in BOOLEAN, L \in LSets, x \in E }
Bins(E1, E2) == { [k |-> "bin", on |-> o, ls |-> L, l |-> x, r |-> y] : o \in BOOLEAN, L \in LSets, x \in E1, y \in E2 }
Lreps(E) == IF WithLrep THEN { [k |-> "lrep", dst |-> d, src |-> s, e |-> x] : d \in LNames, s \in LNames, x \in E } ELSE {}

D1 == Aggs(Sels) \cup Bins(Sels, Sels) \cup Lreps(Sels)
D2 == IF Depth2 THEN Aggs(Bins(Sels, Sels)) \cup Aggs(Lreps(Sels)) \cup Bins(Aggs(Sels), Aggs(Sels)) \cup Aggs(Aggs(Sels)) ELSE {}
(* chains of three nested aggregations: the analyzer threads ONE running analysis through all    *)
(* grouping nodes in walk order, so what the third scope does depends on how the first two combined *)
Chain3(modes, sels) == { [k |-> "agg", op |-> "sum", by |-> b1, ls |-> L1, e |->
                           [k |-> "agg", op |-> "sum", by |-> b2, ls |-> L2, e |->
                             [k |-> "agg", op |-> "sum", by |-> b3, ls |-> L3, e |-> x]]]
                         : b1 \in modes, b2 \in modes, b3 \in modes, L1 \in LSets, L2 \in LSets, L3 \in LSets, x \in sels }
D3 == CASE Depth3 = "none" -> {}
        [] Depth3 = "by"   -> Chain3({TRUE}, { [k |-> "sel", name |-> "m1"] })
        [] Depth3 = "all"  -> Chain3(BOOLEAN, { [k |-> "sel", name |-> "m1"], [k |-> "sel", name |-> "*"] })
Exprs == D1 \cup D2 \cup D3

VARIABLES e, S, an, h, ok, phase
vars == <<e, S, an, h, ok, phase>>

Init == /\ e \in Exprs /\ S \in Worlds
        /\ an = NoAnalysis /\ h = <<>> /\ ok = TRUE /\ phase = "analyze"

DoAnalyze == /\ phase = "analyze"
             /\ an' = Analyze(e)
             /\ phase' = IF IsShardable(Analyze(e)) THEN "shard" ELSE "notsharded"
             /\ UNCHANGED <<e, S, h, ok>>

DoShard == /\ phase = "shard"
           /\ h' \in [ShardKeys(S, an) -> 0..(NShards - 1)]
           /\ ok' = SameResult(e, S, an, h', NShards)
           /\ phase' = "done"
           /\ UNCHANGED <<e, S, an>>

Next == DoAnalyze \/ DoShard
Spec == Init /\ [][Next]_vars

(* Leg B: every expression of the algebra goes to the harness, which renders it to PromQL and     *)
(* pairs it with seeded worlds of series.                                                          *)
CasesFile == IF "VERIF_CASES" \in DOMAIN IOEnv THEN IOEnv.VERIF_CASES ELSE "cases.ndjson"
ASSUME ndJsonSerialize(CasesFile, SetToSeq({ [expr |-> x] : x \in Exprs }))

(* Classes of expressions for which the real analyzer is known to be unsound (see notes/C44.md  *)
(* and KNOWN_FINDINGS.jsonl); TLC proves the rest of the space.                                  *)
KnownFindingCase == FALSE

C44_ShardedEqualsUnsharded == (phase = "done" /\ ~KnownFindingCase) => ok
=============================================================================
