\* C17(b) leg A thorough: buckets {2,4,8}, budgets {0,5,6,9,12}, request sizes 1..9, <= 4 outstanding, 7 operations;
\* every operation sequence of length 4 over sizes 1..9 to the harness
SPECIFICATION Spec
CONSTANTS Sizes = {2, 4, 8}
          Maxes = {0, 5, 6, 9, 12}
          ReqSizes = {1, 2, 3, 4, 5, 6, 7, 8, 9}
          MaxOut = 4
          MaxOps = 7
          CaseLen = 4
INVARIANTS C17_WithinMaximum C17_ZeroWhenAllReturned C17_AccountingExact C17_BudgetClausesHold
VIEW View
CHECK_DEADLOCK TRUE
