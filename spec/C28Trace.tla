------------------------------ MODULE C28Trace ------------------------------
(***************************************************************************)
(* Leg C for C28 (step trace).  The harness runs the REAL block.Upload,    *)
(* Shipper.Sync, replication pass and block.Delete over a recording        *)
(* bucket; the wrapper serialises every mutating bucket call and logs it   *)
(* together with the bucket state it produced.  Each logged state is the   *)
(* state a crash at that point would leave behind, so judging every line   *)
(* judges every crash point; runs that were cut off by an injected outage  *)
(* and the re-runs after them are part of the same case.                   *)
(*                                                                         *)
(*   case  header: in = generating case, objs0 = bucket before the first   *)
(*         recorded call (built by the harness, not judged), files = the   *)
(*         data files of the blocks on local disk (for DRIFT only)         *)
(*   Mut   op upload|delete, b/f = block alias and file, ok = the call     *)
(*         changed the bucket, objs = all objects after the call,          *)
(*         listed = what the meta.json objects now in the bucket list      *)
(*   End   end of the case                                                 *)
(* Verdicts come from the property-level operators of BlockLifecycle only. *)
(***************************************************************************)
EXTENDS TraceLib, BlockLifecycle

VARIABLES l, prev, delMarked, files
tvars == <<l, prev, delMarked, files>>

TraceInit == l = 1 /\ prev = {} /\ delMarked = {} /\ files = {}

IsEvent(n) == l <= TraceLen /\ Trace[l].ev = n /\ l' = l + 1

Header == /\ IsEvent("case")
          /\ prev' = Range(Trace[l].objs0) /\ delMarked' = {} /\ files' = Range(Trace[l].files)

(* Clause names are what the driver reports.                                                    *)
(*  meta-implies-listed-files: "a block whose meta.json is present in the bucket has all the    *)
(*     index and chunk files that meta.json lists with their recorded sizes"                    *)
(*  mark-kept-until-last: "a block whose deletion was started but not finished keeps its        *)
(*     deletion mark until all other files are gone"                                            *)
MutClauses(e, objs, dm) ==
    (IF C28_Incomplete(objs, Range(e.listed)) = {} THEN {} ELSE {"meta-implies-listed-files"})
    \cup (IF C28_MarkLost(objs, dm) = {} THEN {} ELSE {"mark-kept-until-last"})

(* model conformance (never a verdict): the step respects the order the code uses today *)
Drift(e) == e.ok /\ e.b # "" /\
            IF e.op = "upload" THEN ~AlgoUploadStepOK(prev, { x \in files : x.b = e.b }, e.b, e.f)
                               ELSE ~AlgoDeleteStepOK(prev, e.b, e.f)

Mut == /\ IsEvent("Mut")
       /\ LET e == Trace[l]
              objs == Range(e.objs)
              dm == IF e.ok /\ e.op = "delete" THEN DelMarkedAfterDelete(delMarked, prev, objs, e.b) ELSE delMarked
          IN /\ CaseReject(l, e, IF e.ok THEN MutClauses(e, objs, dm) ELSE {})
             /\ (IF Drift(e) THEN PrintT(<<"DRIFT", l, e["case"]>>) ELSE TRUE)
             /\ prev' = objs /\ delMarked' = dm
       /\ UNCHANGED files

End == IsEvent("End") /\ UNCHANGED <<prev, delMarked, files>>

TraceNext == Header \/ Mut \/ End
TraceSpec == TraceInit /\ [][TraceNext]_tvars
TraceAccepted == TLCGet("stats").diameter = TraceLen + 1
=============================================================================
