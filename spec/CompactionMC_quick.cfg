\* C29 leg A quick: layouts aligned5 (5 aligned blocks, ranges 1/4) and replica (2 overlapping replicas + 1, vertical),
\* delete delay 4 ticks (sync filter 2), store-gateway ignore delay 2, <= 1 crash at any action, any downtime
SPECIFICATION Spec
CONSTANTS Layouts <- LayoutsQuick
          DeleteDelay = 4
          IgnoreDelay = 2
          MaxCrashes = 1
          MaxId = 9
          MarkFirst = FALSE
INVARIANTS C29_AllServed C29_ExactlyOnceWhenQuiet C29_ResultsExact MetaImpliesData NeverHalts IdsSuffice
PROPERTY C29_RunsFinish
CHECK_DEADLOCK FALSE
