------------------------------- MODULE Postings -------------------------------
(***************************************************************************)
(* Series selection of the store gateway                                   *)
(* (pkg/store/bucket.go: ExpandedPostings, matchersToPostingGroups,        *)
(* toPostingGroup, mergeKeys, decodeSeriesForTime, blockSeriesClient;      *)
(* pkg/store/lazy_postings.go).                                            *)
(*                                                                         *)
(*   label set  function name -> value; an absent name has the value ""    *)
(*   series     [id, ls, chunks]: chunks = sequence of <<mint, maxt, h>>   *)
(*              in time order (h identifies the chunk's content)           *)
(*   block      [ext, series]: ext = external labels of the block          *)
(*   matcher    [name, type, kind, alts]: type in EQ NEQ RE NRE;           *)
(*              kind "lit" (EQ/NEQ: the literal alts[1]),                  *)
(*              "any" = dot-star, "nonempty" = dot-plus,                   *)
(*              "set" (alternation of the literals alts, "" allowed),      *)
(*              "cls" (a regex that is not an alternation but matches      *)
(*              exactly the universe's values in alts, e.g. [ab]+ )        *)
(*   query      [ms, mint, maxt]: set of matchers, closed time range       *)
(*                                                                         *)
(* Property C10: the store gateway returns exactly the series (labels plus *)
(* external labels) whose labels satisfy every selector, with exactly      *)
(* their chunks that overlap the range - whatever the cache state, lazy    *)
(* posting expansion, batch size or index-header sampling.                 *)
(***************************************************************************)
EXTENDS Integers, Sequences, FiniteSets

PRange(s) == { s[i] : i \in DOMAIN s }
LVal(ls, n) == IF n \in DOMAIN ls THEN ls[n] ELSE ""

(* ------------------------- property level ------------------------- *)
(* PromQL selector semantics, from the Prometheus documentation: = / != compare with the        *)
(* literal, =~ / !~ match the fully anchored regex; a missing label is the empty string.        *)
ValIn(m, v) == CASE m.kind = "any" -> TRUE
                 [] m.kind = "nonempty" -> v # ""
                 [] OTHER -> v \in PRange(m.alts)            \* lit, set, cls
Matches(m, v) == IF m.type \in {"EQ", "RE"} THEN ValIn(m, v) ELSE ~ValIn(m, v)

(* full label set of a series of a block: its own labels plus the block's external labels *)
FullLs(b, s) == [n \in DOMAIN s.ls \cup DOMAIN b.ext |-> IF n \in DOMAIN b.ext THEN b.ext[n] ELSE s.ls[n]]
Selected(b, s, ms) == \A m \in ms : Matches(m, LVal(FullLs(b, s), m.name))

ChunkOverlaps(c, mint, maxt) == c[1] <= maxt /\ c[2] >= mint
ChunksIn(s, mint, maxt) == { c \in PRange(s.chunks) : ChunkOverlaps(c, mint, maxt) }

(* "exactly the series ... and chunk contents ... for chunks overlapping that range": the       *)
(* answer as a set of [ls, chunks]; the same label set in several blocks is one series with     *)
(* the union of the chunks.                                                                      *)
Hits(blocks, q) == { h \in UNION { {b} \X b.series : b \in blocks } :
                        Selected(h[1], h[2], q.ms) /\ ChunksIn(h[2], q.mint, q.maxt) # {} }
Select(blocks, q) ==
    LET hits == Hits(blocks, q)
        lss == { FullLs(h[1], h[2]) : h \in hits }
    IN  { [ls |-> L, chunks |-> UNION { ChunksIn(h[2], q.mint, q.maxt) : h \in { x \in hits : FullLs(x[1], x[2]) = L } }] : L \in lss }

(* Chunk contents: c[3] is <<crc>> for a raw chunk; for an aggregate chunk of a downsampled block *)
(* the five sub-chunks <<count, sum, min, max, counter>>.  "chunk contents ... for the requested  *)
(* aggregates": of an aggregate chunk exactly the requested sub-chunks come back (A = set of      *)
(* requested aggregate numbers 1..5, -1 = not returned); a raw chunk comes back whole.            *)
ProjChunk(c, A) == IF Len(c[3]) = 1 THEN c ELSE <<c[1], c[2], [k \in 1..5 |-> IF k \in A THEN c[3][k] ELSE 0 - 1]>>
ProjSeries(s, A) == [id |-> s.id, ls |-> s.ls, chunks |-> [k \in DOMAIN s.chunks |-> ProjChunk(s.chunks[k], A)]]

(* ids of the series of one block (without external labels) that the matchers select *)
SelectIds(series, ms) == { s.id : s \in { x \in series : \A m \in ms : Matches(m, LVal(x.ls, m.name)) } }

(* ------------------------- algorithm level ------------------------- *)
(* The inverted index of a block. *)
P(series, n, v) == { s.id : s \in { x \in series : LVal(x.ls, n) = v /\ v # "" } }
AllIds(series) == { s.id : s \in series }
LabelValues(series, n) == { LVal(s.ls, n) : s \in series } \ {""}

(* matchers of which Prometheus' FastRegexMatcher reports SetMatches() *)
IsSet(m) == m.kind = "set" /\ "" \notin PRange(m.alts)

(* toPostingGroup: [all, add, rem] - "all postings minus rem" or "union of add" *)
PG(all, add, rem) == [all |-> all, add |-> add, rem |-> rem]
ToPostingGroup(series, m) ==
    LET lv == LabelValues(series, m.name) IN
    IF m.type = "RE" /\ m.kind = "any" THEN PG(TRUE, {}, {})
    ELSE IF m.type = "NRE" /\ m.kind = "any" THEN PG(FALSE, {}, {})
    ELSE IF Matches(m, "") THEN
         IF m.type = "NRE" /\ IsSet(m) THEN PG(TRUE, {}, PRange(m.alts))
         ELSE IF m.type = "NEQ" THEN PG(TRUE, {}, {m.alts[1]})
         ELSE IF m.type \in {"EQ", "RE"} /\ m.kind \in {"lit", "set"} /\ PRange(m.alts) = {""} THEN PG(TRUE, {}, lv)
         ELSE IF m.type = "NRE" /\ m.kind = "nonempty" THEN PG(TRUE, {}, lv)
         ELSE PG(TRUE, {}, { v \in lv : ~Matches(m, v) })
    ELSE IF m.type = "RE" /\ IsSet(m) THEN PG(FALSE, PRange(m.alts), {})
    ELSE IF m.type = "EQ" THEN PG(FALSE, {m.alts[1]}, {})
    ELSE IF m.type \in {"NEQ", "NRE"} /\ m.kind \in {"lit", "set"} /\ PRange(m.alts) = {""} THEN PG(FALSE, lv, {})
    ELSE IF m.type = "RE" /\ m.kind = "nonempty" THEN PG(FALSE, lv, {})
    ELSE PG(FALSE, { v \in lv : Matches(m, v) }, {})

(* mergeKeys: two groups of the same label name *)
MergeKeys(a, b) ==
    IF a.all /\ b.all THEN PG(TRUE, {}, a.rem \cup b.rem)
    ELSE IF a.all THEN PG(FALSE, b.add \ a.rem, {})
    ELSE IF b.all THEN PG(FALSE, a.add \ b.rem, {})
    ELSE PG(FALSE, a.add \cap b.add, {})
EmptyGroup(g) == ~g.all /\ g.add = {}

(* matchersToPostingGroups: one merged group per label name; "none" when some group (or a      *)
(* partial merge) adds nothing.  The merge order over a Go map is arbitrary: MergeAll tries the  *)
(* order given by CHOOSE; PostingsMC checks that every order gives the same groups.              *)
RECURSIVE MergeSeq(_, _)
MergeSeq(acc, gs) == IF gs = <<>> THEN acc ELSE MergeSeq(MergeKeys(acc, Head(gs)), Tail(gs))
RECURSIVE SetAsSeq(_)
SetAsSeq(S) == IF S = {} THEN <<>> ELSE LET x == CHOOSE y \in S : TRUE IN <<x>> \o SetAsSeq(S \ {x})
GroupOf(series, ms, n) ==
    LET gs == SetAsSeq({ ToPostingGroup(series, m) : m \in { x \in ms : x.name = n } })
    IN  MergeSeq(Head(gs), Tail(gs))
Names(ms) == { m.name : m \in ms }
(* any single group empty, or the merged one empty: no series (the code returns nil, nil) *)
NoneSelected(series, ms) ==
    \E n \in Names(ms) : \/ \E m \in { x \in ms : x.name = n } : EmptyGroup(ToPostingGroup(series, m))
                         \/ EmptyGroup(GroupOf(series, ms, n))

(* = UNION { P(series, n, v) : v \in keys }, in one pass over the series *)
UnionP(series, n, keys) == { s.id : s \in { x \in series : LVal(x.ls, n) # "" /\ LVal(x.ls, n) \in keys } }
UnionAdd(series, n, g) == UnionP(series, n, g.add)
UnionRem(series, n, g) == UnionP(series, n, g.rem)

(* ExpandedPostings + fetchLazyExpandedPostings + the lazy matchers applied in nextBatch.       *)
(* lazy = the set of label names whose group is NOT fetched (its matchers are checked on the     *)
(* fetched series instead); {} when lazy expansion is off.  The optimizer never makes the       *)
(* cheapest adding group lazy and only runs when there are >= 2 groups and some group adds.     *)
ExpandNames(series, ms, lazy) ==
    IF ms = {} \/ NoneSelected(series, ms) THEN {}
    ELSE LET ns == Names(ms)
             gf == [nn \in ns |-> GroupOf(series, ms, nn)]      \* evaluated once
             g(n) == gf[n]
             kept == { n \in ns : g(n).add # {} \/ g(n).rem # {} }          \* groups without keys are dropped
             allRequested == \E n \in ns : g(n).all
             hasAdds == \E n \in ns : g(n).add # {}
             fetched == kept \ lazy
             adders == { n \in fetched : g(n).add # {} }
             addSet == [nn \in adders |-> UnionAdd(series, nn, g(nn))]
             base == IF allRequested /\ ~hasAdds THEN AllIds(series)        \* the special "all postings" group
                     ELSE IF adders = {} THEN {}                            \* index.Intersect() of nothing
                     ELSE { i \in AllIds(series) : \A n \in adders : i \in addSet[n] }
             removed == UNION { UnionRem(series, n, g(n)) : n \in fetched }
             fromIndex == base \ removed
             lazyMs == { m \in ms : m.name \in lazy }
         IN  { s.id : s \in { x \in series : x.id \in fromIndex /\ \A m \in lazyMs : Matches(m, LVal(x.ls, m.name)) } }

(* lazy sets the optimizer may choose: any set of kept groups that leaves one adding group      *)
(* fetched; nothing when there is no adding group or fewer than two groups                      *)
LazyChoices(series, ms) ==
    IF ms = {} \/ NoneSelected(series, ms) THEN {{}}
    ELSE LET ns == Names(ms)
             gf == [nn \in ns |-> GroupOf(series, ms, nn)]      \* evaluated once
             g(n) == gf[n]
             kept == { n \in ns : g(n).add # {} \/ g(n).rem # {} }
             adders == { n \in kept : g(n).add # {} }
         IN  IF adders = {} \/ Cardinality(kept) < 2 THEN {{}}
             ELSE { L \in SUBSET kept : adders \ L # {} }

(* nextBatch with lazy groups: every fetched series is checked against the lazy matchers and,     *)
(* WHETHER OR NOT it has chunks in the requested range, recorded in expandedPostings, which is    *)
(* stored in the expanded-postings cache (key: block + matchers, no range) after the last batch;  *)
(* series without chunks in the range are skipped only afterwards.  Without lazy groups the cache *)
(* is written right after the expansion, before any series is read.  So a cache entry never       *)
(* depends on the range of the request that wrote it.  (Sanity: FALSE = "skip series without      *)
(* chunks in the range first" makes PostingsMC fail on a narrow-then-wide history.)               *)
LazyCacheIgnoresRange == TRUE
StoredInCache(ids, inRangeIds, lazy) == IF lazy = {} \/ LazyCacheIgnoresRange THEN ids ELSE ids \cap inRangeIds

(* populateChunk: a raw (XOR) chunk is copied to Raw; of an aggregate chunk the sub-chunk of each  *)
(* requested aggregate, in request order, goes into its own field; the other fields stay empty.   *)
(* aggrs = the request's aggregate list (a sequence, may repeat).                                  *)
RECURSIVE PopulateFrom(_, _, _)
PopulateFrom(c, aggrs, out) ==
    IF aggrs = <<>> THEN out
    ELSE PopulateFrom(c, Tail(aggrs), [out EXCEPT ![Head(aggrs)] = c[3][Head(aggrs)]])
PopulateChunk(c, aggrs) ==
    IF Len(c[3]) = 1 THEN c ELSE <<c[1], c[2], PopulateFrom(c, aggrs, [k \in 1..5 |-> 0 - 1])>>

(* decodeSeriesForTime: walk the chunk metas in order, stop at the first chunk that starts       *)
(* after the range, keep those that end at or after its start                                    *)
RECURSIVE ChunkWalk(_, _, _)
ChunkWalk(chks, mint, maxt) ==
    IF chks = <<>> THEN {}
    ELSE IF Head(chks)[1] > maxt THEN {}
    ELSE (IF Head(chks)[2] >= mint THEN {Head(chks)} ELSE {}) \cup ChunkWalk(Tail(chks), mint, maxt)
=============================================================================
