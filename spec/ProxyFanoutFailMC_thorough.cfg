\* C06 leg A thorough: 3 stores x 2 frames, failure none / at open / after 0..2 responses / timeout after 0..2, both strategies
SPECIFICATION Spec
CONSTANTS NStores = 3
          MaxK = 2
INVARIANTS C06_StrategyHonoured C06_MergeStillSorted
CHECK_DEADLOCK TRUE
