------------------------------ MODULE C15Trace ------------------------------
(***************************************************************************)
(* Leg C for C15.  One trace line per executed layout:                     *)
(*   blocks[k]  <<id, res, min, max>> of the blocks in the real            *)
(*              bucketBlockSet (milliseconds), as given to add()           *)
(*   adderr     "" or the error add() returned                             *)
(*   calls[j]   <<mint, maxt, maxres, ok, sel>>: one getFor call on that   *)
(*              set; sel = ids of the returned blocks in returned order    *)
(*              (-1: a block that was never added); ok = 0: it panicked    *)
(*   mcalls[j]  the same with block matchers of request hints:             *)
(*              <<mint, maxt, maxres, ok, sel, allowed>>, allowed = ids of *)
(*              the blocks that match                                      *)
(* Every call is judged with the property-level operator Judge of          *)
(* BlockSet (the four clauses of the statement, on the real timestamps).   *)
(***************************************************************************)
EXTENDS TraceLib, BlockSet

BlocksOf(e) == { [id |-> e.blocks[k][1], res |-> e.blocks[k][2], min |-> e.blocks[k][3], max |-> e.blocks[k][4]] : k \in DOMAIN e.blocks }
QueryOf(c) == [mint |-> c[1], maxt |-> c[2], maxres |-> c[3]]

JudgeCall(blocks, c) ==
    IF c[4] = 0 THEN {"returns-a-selection"}       \* the statement presupposes that a selection is returned
    ELSE Judge(blocks, QueryOf(c), c[5])

MQueryOf(c) == [mint |-> c[1], maxt |-> c[2], maxres |-> c[3], allowed |-> Range(c[6])]
JudgeMCall(blocks, c) == IF c[4] = 0 THEN {"returns-a-selection"} ELSE Judge(blocks, MQueryOf(c), c[5])
DriftMCall(blocks, c) == c[4] = 1 /\ c[3] >= 0 /\ BagOf(c[5]) # BagOf(GetFor(blocks, MQueryOf(c)))

JudgeLine(e) ==
    LET blocks == BlocksOf(e) IN
    (IF e.adderr = "" THEN {} ELSE {"layout-accepted-by-add"})
    \cup UNION { JudgeCall(blocks, e.calls[j]) : j \in DOMAIN e.calls }
    \cup UNION { JudgeMCall(blocks, e.mcalls[j]) : j \in DOMAIN e.mcalls }

(* Model conformance (never a verdict): the algorithm-level GetFor predicts the same multiset    *)
(* of blocks (order among blocks with identical ranges is unspecified in the code).              *)
DriftCall(blocks, c) == c[4] = 1 /\ c[3] >= 0 /\ BagOf(c[5]) # BagOf(GetFor(blocks, QueryOf(c)))
Drift(e) == LET blocks == BlocksOf(e) IN \/ \E j \in DOMAIN e.calls : DriftCall(blocks, e.calls[j])
                                         \/ \E j \in DOMAIN e.mcalls : DriftMCall(blocks, e.mcalls[j])

VARIABLE l
TraceInit == l = 1
TraceNext == /\ l <= TraceLen
             /\ CaseReject(l, Trace[l], JudgeLine(Trace[l]))
             /\ (IF Drift(Trace[l]) THEN PrintT(<<"DRIFT", l, Trace[l]["case"]>>) ELSE TRUE)
             /\ l' = l + 1
TraceSpec == TraceInit /\ [][TraceNext]_l
TraceAccepted == TLCGet("stats").diameter = TraceLen + 1
=============================================================================
