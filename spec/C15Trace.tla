------------------------------ MODULE C15Trace ------------------------------
(***************************************************************************)
(* Leg C for C15.  One trace line per executed layout:                     *)
(*   blocks[k]  [id, res, min, max] of the blocks in the real              *)
(*              bucketBlockSet (milliseconds)                              *)
(*   adderr     "" or the error add() returned                             *)
(*   qs[j]      [mint, maxt, maxres, ok, sel]: one getFor call on that     *)
(*              set; sel = ids of the returned blocks in returned order    *)
(*              (-1: a block that was never added); ok = FALSE: panic      *)
(* Every call is judged with the property-level operator Judge of          *)
(* BlockSet (the four clauses of the statement, on the real timestamps).   *)
(***************************************************************************)
EXTENDS TraceLib, BlockSet

BlocksOf(e) == { e.blocks[k] : k \in DOMAIN e.blocks }

JudgeCall(blocks, c) ==
    IF ~c.ok THEN {"returns-a-selection"}          \* the statement presupposes that a selection is returned
    ELSE Judge(blocks, [mint |-> c.mint, maxt |-> c.maxt, maxres |-> c.maxres], c.sel)

JudgeLine(e) ==
    (IF e.adderr = "" THEN {} ELSE {"layout-accepted-by-add"})
    \cup UNION { JudgeCall(BlocksOf(e), e.qs[j]) : j \in DOMAIN e.qs }

(* Model conformance (never a verdict): the algorithm-level GetFor predicts the same multiset    *)
(* of blocks (order among blocks with identical ranges is unspecified in the code).              *)
DriftCall(blocks, c) ==
    c.ok /\ c.maxres >= 0 /\
    BagOf(c.sel) # BagOf(GetFor(blocks, [mint |-> c.mint, maxt |-> c.maxt, maxres |-> c.maxres]))
Drift(e) == \E j \in DOMAIN e.qs : DriftCall(BlocksOf(e), e.qs[j])

VARIABLE l
TraceInit == l = 1
TraceNext == /\ l <= TraceLen
             /\ CaseReject(l, Trace[l], JudgeLine(Trace[l]))
             /\ (IF Drift(Trace[l]) THEN PrintT(<<"DRIFT", l, Trace[l]["case"]>>) ELSE TRUE)
             /\ l' = l + 1
TraceSpec == TraceInit /\ [][TraceNext]_l
TraceAccepted == TLCGet("stats").diameter = TraceLen + 1
=============================================================================
