------------------------------ MODULE C13Trace ------------------------------
(***************************************************************************)
(* Leg C for C13.  One trace line per executed GROUP of cached items:      *)
(*   in.space        "index" | "conv"                                      *)
(*   in.items[x]     the abstract item (strings as character lists)        *)
(*   items[x]        the concrete item given to the real code:             *)
(*                     [kind "P",  blk, name, value, comp]                 *)
(*                     [kind "EP", blk, comp, ms: <<[name,type,value]>>]   *)
(*                     [kind "S",  blk, id]                                *)
(*                     [kind "MC", name, type, value]                      *)
(*   keys[x]         the key the REAL builder returned for items[x]        *)
(*                   (CacheKey.String / matchers-cache cacheKey)           *)
(*   rkeys[x]        the key the real RemoteIndexCache used towards        *)
(*                   memcached when items[x] was stored ("" = not stored   *)
(*                   there)                                                *)
(*   got[b].owner[x] after storing every item of the group in real cache   *)
(*                   b and looking items[x] up again: the 0-based index of *)
(*                   the item whose data came back, -1 miss, -2 item not   *)
(*                   applicable to that cache                              *)
(* Judged with the property-level operators of Keys only.                  *)
(***************************************************************************)
EXTENDS TraceLib, Keys

Restrict(f, S) == [x \in S |-> f[x]]
InRemote(e) == { x \in DOMAIN e.rkeys : e.rkeys[x] # "" }

(* "a cache can never answer one lookup with another item's data" *)
WrongAnswers(e) ==
    { <<b, x>> \in (DOMAIN e.got) \X (DOMAIN e.items) :
        LET g == e.got[b].owner[x] IN g >= 0 /\ ~SameItem(e.items[g + 1], e.items[x]) }

Judge(e) ==
    (* "two different cached items ... never share a cache key" -- keys from the builders *)
    (IF KeysSeparate(e.items, e.keys) THEN {} ELSE {"key-shared"})
    \cup
    (* the same for the keys the remote index cache really sent to memcached *)
    (IF KeysSeparate(Restrict(e.items, InRemote(e)), Restrict(e.rkeys, InRemote(e))) THEN {}
     ELSE {"rkey-shared"})
    \cup
    (* "... so a cache can never answer one lookup with another item's data" *)
    (IF WrongAnswers(e) = {} THEN {} ELSE {"wrong-data"})

(* for the log: up to three offending pairs of a rejected group (quadratic, on rejection only) *)
Some(S) == IF S = {} THEN {} ELSE LET a == CHOOSE x \in S : TRUE IN
           IF S \ {a} = {} THEN {a} ELSE {a, CHOOSE y \in S \ {a} : TRUE}
Witness(e) ==
    [ sharedKey |-> { <<e.items[p[1]], e.items[p[2]], e.keys[p[1]]>> : p \in Some(SharedKeyPairs(e.items, e.keys)) },
      wrongAnswer |-> { <<e.got[w[1]].backend, e.items[w[2]], e.items[e.got[w[1]].owner[w[2]] + 1]>> : w \in Some(WrongAnswers(e)) } ]

(* Model conformance (never a verdict): the algorithm-level model of the builders predicts     *)
(* exactly the observed pattern of equal / different keys inside the group.                     *)
Drift(e) ==
    e["in"].model /\
    LET mk == [x \in DOMAIN e.items |-> Key(e["in"].items[x], {})]
        both == { <<mk[x], e.keys[x]>> : x \in DOMAIN e.items }
    IN ~(/\ Cardinality(both) = Cardinality({ mk[x] : x \in DOMAIN e.items })
         /\ Cardinality(both) = Cardinality({ e.keys[x] : x \in DOMAIN e.items }))

VARIABLE l
TraceInit == l = 1
TraceNext == /\ l <= TraceLen
             /\ LET e == Trace[l] j == Judge(e) IN
                /\ CaseReject(l, e, j)
                /\ (IF j # {} THEN PrintT(<<"NOTE", "C13 witness", e["case"], Witness(e)>>) ELSE TRUE)
                /\ (IF Drift(e) THEN PrintT(<<"DRIFT", l, e["case"]>>) ELSE TRUE)
             /\ l' = l + 1
TraceSpec == TraceInit /\ [][TraceNext]_l
TraceAccepted == TLCGet("stats").diameter = TraceLen + 1
=============================================================================
