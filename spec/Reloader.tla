------------------------------ MODULE Reloader ------------------------------
(***************************************************************************)
(* The config reloader (pkg/reloader/reloader.go: Reloader.apply).         *)
(*                                                                         *)
(* Inputs: one config file, the files of one config directory (both are    *)
(* copied to outputs with $(VAR) references substituted) and the files of  *)
(* one watched directory (only hashed).  Contents are content ids; the     *)
(* ids in EnvContents reference the environment variable, so their         *)
(* expansion depends on its value.                                         *)
(*                                                                         *)
(* Shapes shared by the model, the generated histories and the trace:      *)
(*   ins   [cfg |-> id, dir |-> Seq([n, c]), wat |-> Seq([n, c])]          *)
(*         (present files only)                                            *)
(*   outs  [cfg |-> [c, e], dir |-> Seq([n, c, e])]  decoded output files: *)
(*         c = content id, e = env value substituted ("" if the content    *)
(*         has no reference); c = "?" for bytes that decode to nothing,    *)
(*         c = "" for a missing config output                              *)
(*   an Apply observation: calls (reload requests that reached the         *)
(*         endpoint), oks (of them answered 200), err, outs (after apply), *)
(*         atok (outputs at the moment the endpoint answered 200)          *)
(*                                                                         *)
(* Property C47, step form: (1) when apply completes having reloaded       *)
(* successfully or having had no reason to reload, outputs = inputs with   *)
(* the environment substituted, and outputs whose inputs disappeared are   *)
(* gone; they are already in place when the endpoint is asked to reload;   *)
(* (2) a reload is triggered exactly when the content changed since the    *)
(* last successful reload; (3) a failed reload is retried.  The eventual   *)
(* form (files stop changing, reloads succeed => one more apply syncs and  *)
(* nothing further is reloaded) follows from (1)-(3) and is checked on the *)
(* model as a temporal property.                                           *)
(***************************************************************************)
EXTENDS Naturals, Sequences, FiniteSets

EnvContents == {"e1", "e2"}
(* phase 2: gzip-compressed inputs ("decompressed if needed"): content id xz is the gzip of x; it is a  *)
(* different content (other bytes: a change from x to xz is a content change) with the same expansion *)
GzBase == [p1z |-> "p1", e1z |-> "e1"]
Base(c) == IF c \in DOMAIN GzBase THEN GzBase[c] ELSE c
LRan(s) == { s[i] : i \in DOMAIN s }

(* ======================= property level ======================= *)
(* The environment variable is either set to a value or unset (env = Unset).  With the variable unset *)
(* "the inputs with environment variables substituted" is undefined for a file that references it:    *)
(* nothing is required of that file's output (the reloader either fails the apply - tolerance off -    *)
(* or leaves the reference as it is - tolerance on).                                                   *)
Unset == "unset"
EnvOf(c, env) == IF Base(c) \in EnvContents THEN env ELSE ""
Undefined(c, env) == Base(c) \in EnvContents /\ env = Unset

(* "output files equal to the inputs with environment variables substituted", and, because it is  *)
(* an equality of the whole directory, "removes outputs whose inputs disappeared"                 *)
ExpectedOut(ins, env) == [cfg |-> <<Base(ins.cfg), EnvOf(ins.cfg, env)>>,
                          dir |-> { <<x.n, Base(x.c), EnvOf(x.c, env)>> : x \in LRan(ins.dir) }]
ObservedOut(outs) == [cfg |-> <<outs.cfg.c, outs.cfg.e>>,
                      dir |-> { <<x.n, x.c, x.e>> : x \in LRan(outs.dir) }]

(* "the content": everything the reloader watches *)
Snapshot(ins) == [cfg |-> ins.cfg, dir |-> { <<x.n, x.c>> : x \in LRan(ins.dir) },
                  wat |-> { <<x.n, x.c>> : x \in LRan(ins.wat) }]

(* The one fault of the environment that may make an apply fail: tolerance for unset variables is off, *)
(* the variable is unset and some file that is expanded references it.                                *)
MayFail(ins, env, tol) == ~tol /\ (Undefined(ins.cfg, env) \/ \E x \in LRan(ins.dir) : Undefined(x.c, env))

(* What the property remembers between applies. *)
PInit == [hadOK |-> FALSE, lastOK |-> [cfg |-> "", dir |-> {}, wat |-> {}], lastEnv |-> "", pendingFail |-> FALSE]

(* "triggers a reload exactly when the content changed since the last successful reload, retrying *)
(* failed reloads".  Left open by the statement and therefore not judged either way: the very     *)
(* first apply (nothing was ever reloaded; if it does not reload, the content it saw becomes the  *)
(* baseline), a pure environment change, and a failed reload followed by the content returning to *)
(* what was last reloaded successfully.                                                           *)
MustTrigger(P, snap) == (P.hadOK /\ snap # P.lastOK) \/ (P.pendingFail /\ ~P.hadOK)
MustNotTrigger(P, snap, env) == P.hadOK /\ snap = P.lastOK /\ ~P.pendingFail /\ env = P.lastEnv

(* an apply that returned an error leaves the memory as it is *)
PNext(P, snap, env, err, calls, oks) ==
    IF err # "" THEN P
    ELSE IF oks >= 1 THEN [hadOK |-> TRUE, lastOK |-> snap, lastEnv |-> env, pendingFail |-> FALSE]
    ELSE IF calls >= 1 THEN [P EXCEPT !.pendingFail = TRUE]
    ELSE IF ~P.hadOK /\ ~P.pendingFail THEN [hadOK |-> TRUE, lastOK |-> snap, lastEnv |-> env, pendingFail |-> FALSE]
    ELSE P

(* The output clauses for a set of observed output files at a quiescent point: every input whose     *)
(* expansion is defined has exactly its expansion as output, and no output exists without an input.  *)
(* This is the eventual clause of the statement; it is judged after EVERY apply that completed        *)
(* without error and either reloaded successfully or had no reason to reload - in particular after    *)
(* the first such apply following a failed one (recovery).                                            *)
OutputClauses(ins, env, outs, suffix) ==
    LET want == ExpectedOut(ins, env)
        got  == ObservedOut(outs)
        undefNames == { x.n : x \in { y \in LRan(ins.dir) : Undefined(y.c, env) } }
        wantD == { x \in want.dir : x[1] \notin undefNames }
        gotD  == { x \in got.dir : x[1] \notin undefNames }
    IN
    (IF ~Undefined(ins.cfg, env) /\ got.cfg # want.cfg THEN {"config-output-equals-expanded-input" \o suffix} ELSE {})
    \cup (IF wantD \subseteq gotD /\ \A x \in gotD : x \in wantD \/ \A y \in want.dir : y[1] # x[1]
            THEN {} ELSE {"dir-outputs-equal-expanded-inputs" \o suffix})
    \cup (IF \E x \in got.dir : \A y \in want.dir : y[1] # x[1] THEN {"orphan-outputs-removed" \o suffix} ELSE {})

(* Clauses violated by one observed apply.  o = [calls, oks, err, outs, atok]; tol = tolerance for    *)
(* unset variables (configuration).                                                                   *)
ApplyClauses(P, ins, env, tol, o) ==
    LET snap == Snapshot(ins)
        settled == o.err = "" /\ (o.oks >= 1 \/ o.calls = 0)
    IN
    IF o.err # ""
      (* an apply may only fail because of the fault above; nothing else is judged about a failed apply *)
      THEN (IF MayFail(ins, env, tol) THEN {} ELSE {"apply-completes"})
    ELSE
    (IF MustTrigger(P, snap) /\ o.calls = 0
            THEN (IF P.hadOK /\ snap # P.lastOK THEN {"reload-when-content-changed"} ELSE {"failed-reload-retried"}) ELSE {})
    \cup (IF MustNotTrigger(P, snap, env) /\ o.calls > 0 THEN {"no-reload-when-unchanged"} ELSE {})
    \cup (IF o.oks > 1 THEN {"one-successful-reload-per-apply"} ELSE {})
    \cup (IF settled THEN OutputClauses(ins, env, o.outs, "") ELSE {})
    \cup (IF o.oks >= 1 THEN OutputClauses(ins, env, o.atok, "-when-reload-requested") ELSE {})

(* ---- phase 2: the real Watch loop (file-system events, watch interval, retry interval) ---- *)
(* Observed at a point where the driver stopped changing anything and waited until the outputs and    *)
(* the endpoint settled, or a generous deadline passed (stall detection, not a speed requirement):    *)
(*   w = [changed (did the content change since the last settled point?), oks (successful reloads     *)
(*        since the change), ins, env, outs, atok (outputs when the last 200 was answered)]            *)
(* "After configuration files stop changing, the reloader eventually writes ... and triggers a        *)
(* reload": by the deadline the outputs equal the expanded inputs, no orphan is left, and a changed   *)
(* content was reloaded successfully with the outputs already in place.                               *)
SettleClauses(w) ==
    OutputClauses(w.ins, w.env, w.outs, "-eventually")
    \cup (IF w.changed /\ w.oks = 0 THEN {"changed-content-eventually-reloaded"} ELSE {})
    \cup (IF w.changed /\ w.oks >= 1 THEN OutputClauses(w.ins, w.env, w.atok, "-when-last-reloaded") ELSE {})
(* ... "exactly when the content changed": an idle period after a settled point sees no reload request *)
IdleClauses(w) == IF w.calls > 0 THEN {"no-reload-while-nothing-changes"} ELSE {}

(* ======================= algorithm level ======================= *)
(* Summary of what apply() decides (the step-wise model with the three hashes, lastCfgDirFiles and    *)
(* forceReload is ReloaderMC, which also proves this summary equal to it): a reload is requested iff  *)
(* forceReload is set, nothing was reloaded yet, or some hash differs from the one stored at the      *)
(* last successful reload.  Used by the trace spec for model conformance only.                        *)
AInit == [have |-> FALSE, snap |-> PInit.lastOK, force |-> FALSE]
ATrigger(A, snap) == A.force \/ ~A.have \/ A.snap # snap
ANext(A, snap, err, calls, oks) ==
    IF err # "" THEN A
    ELSE IF oks >= 1 THEN [have |-> TRUE, snap |-> snap, force |-> FALSE]
    ELSE IF calls >= 1 THEN [A EXCEPT !.force = TRUE]
    ELSE A
=============================================================================
