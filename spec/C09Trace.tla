------------------------------ MODULE C09Trace ------------------------------
(***************************************************************************)
(* Leg C for C09 (series / chunk request limits are enforced).             *)
(* One trace line per executed case:                                       *)
(*   in.world, in.req   world and Series request (as in C08Trace)          *)
(*   in.cfg             store kind ("bucket": BucketStore with limiter     *)
(*                      factories; "tsdbl": TSDBStore behind               *)
(*                      NewLimitedStoreServer; "recvl": the receiver's     *)
(*                      proxy behind NewLimitedStoreServer), lazy postings,*)
(*                      batch size, SkipChunks, concurrent copies,         *)
(*                      how the limits are derived from the true counts    *)
(*   sl, cl             the series / chunk limits the limited store was    *)
(*                      configured with (0 = unlimited)                    *)
(*   unl                the same request on the same store WITHOUT limits: *)
(*                      [kind, code, ns = distinct series, nc = chunks]    *)
(*   lim                the request on the limited store: same fields      *)
(* Judged with the property-level operators of StoreAPIs (C09...).         *)
(* Weakest reading: a refusal below the limits is never a violation.       *)
(***************************************************************************)
EXTENDS TraceLib, StoreAPIs

SeriesOf(j) == { [l |-> LsOf(s.l), slots |-> SaRange(s.slots)] : s \in SaRange(j.series) }
SourceOf(j) == [ext |-> LsOf(j.ext), series |-> SeriesOf(j)]
HeadOf(e) == SourceOf(e.in.world.head)
BlocksOf(e) == { SourceOf(b) : b \in SaRange(e.in.world.blocks) }
TenantsOf(e) == { [ext |-> TenantExt(LsOf(e.in.world.head.ext), e.in.world.recv.tlabel, t.id), series |-> SeriesOf(t)] :
                    t \in SaRange(e.in.world.recv.tenants) }
WorldOf(e) == [W |-> e.in.world.W, head |-> HeadOf(e), blocks |-> BlocksOf(e), tenants |-> TenantsOf(e)]
ReqOf(e) == [ms |-> SaRange(e.in.req.ms), rl |-> SaRange(e.in.req.rl), mint |-> e.in.req.mint, maxt |-> e.in.req.maxt]

(* phase 2: `more` = the answers of further identical requests that ran concurrently on the same
   limited store (a limit is per request: each is judged exactly like `lim`) *)
Lims(e) == <<e.lim>> \o e.more
JudgeOne(e, lim) ==
    (* "A Series call that succeeds never returns more series than the configured series limit ..." *)
    (IF lim.kind = "ok" /\ Exceeds(lim.ns, e.sl) THEN {"success-returned-more-series-than-limit"} ELSE {})
    \cup
    (* "... or more chunks than the configured chunk limit" *)
    (IF lim.kind = "ok" /\ Exceeds(lim.nc, e.cl) THEN {"success-returned-more-chunks-than-limit"} ELSE {})
    \cup
    (* "a request that would exceed a limit fails with a resource-exhausted error instead of
       returning truncated data silently": the unlimited answer is what the request would return *)
    (IF e.unl.kind = "ok" /\ ~C09ExceedingFails(lim.code, e.unl.ns, e.unl.nc, e.sl, e.cl)
       THEN {"exceeding-request-did-not-fail-with-ResourceExhausted"} ELSE {})
    \cup
    (IF lim.kind = "panic" \/ e.unl.kind = "panic" THEN {"store-panicked"} ELSE {})
Judge(e) == UNION { JudgeOne(e, Lims(e)[i]) : i \in DOMAIN Lims(e) }

(* Model conformance (never a verdict): the unlimited answer has exactly the series the          *)
(* algorithm-level model selects, and with limits at or above the per-block reservation counts   *)
(* nothing is refused (checked only in the obvious case: both limits off).                        *)
Kind(e) == CASE e.in.cfg.store = "bucket" -> "bucket" [] e.in.cfg.store = "tsdbl" -> "tsdb" [] e.in.cfg.store = "recvl" -> "recv"
NoOpt == [skip |-> FALSE, samples |-> FALSE, pmatch |-> TRUE]
(* worlds with really downsampled blocks: the downsampler re-cuts chunks (one aggregate chunk may span
   several slots), which the slot model of the algorithm level does not describe: no prediction *)
HasDownsampled(e) == \E i \in DOMAIN e.in.world.blocks : e.in.world.blocks[i].res > 0
Drift(e) == ~HasDownsampled(e) /\
    ( (e.unl.kind = "ok" /\
         e.unl.ns # Cardinality(AlgoSeriesW(Kind(e), WorldOf(e), ReqOf(e), NoOpt).out))
      \/ (e.sl = 0 /\ e.cl = 0 /\ e.unl.kind = "ok" /\ \E i \in DOMAIN Lims(e) : Lims(e)[i].kind # "ok") )

VARIABLE l
TraceInit == l = 1
TraceNext == /\ l <= TraceLen
             /\ CaseReject(l, Trace[l], Judge(Trace[l]))
             /\ (IF Drift(Trace[l]) THEN PrintT(<<"DRIFT", l, Trace[l]["case"]>>) ELSE TRUE)
             /\ l' = l + 1
TraceSpec == TraceInit /\ [][TraceNext]_l
TraceAccepted == TLCGet("stats").diameter = TraceLen + 1
=============================================================================
