SPECIFICATION TraceSpec
CONSTANT Base = 128
POSTCONDITION TraceAccepted
CHECK_DEADLOCK FALSE
