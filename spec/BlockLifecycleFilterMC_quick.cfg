\* C31 leg A quick: <= 3 blocks (3-block inputs within one group, <= 2 blocks over 2 groups), sources within 1..3, 2 workers; all inputs, group orders, interleavings
SPECIFICATION Spec
CONSTANTS MaxBlocks = 3
          NSrc = 3
          NGrp = 2
          Workers = {"w1", "w2"}
          FullGrpBlocks = 2
          CaseBlocks = 3
INVARIANTS C31_HiddenOnlyIfCovered C31_KeptCoverEverySource C31_OutcomeIndependentOfSchedule NeverRemovesKept
PROPERTIES Terminates
CHECK_DEADLOCK FALSE
