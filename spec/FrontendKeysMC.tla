--------------------------- MODULE FrontendKeysMC ---------------------------
(***************************************************************************)
(* Leg A of C43.  The key builder as a state machine (one field appended    *)
(* per step) for every request of a domain whose free-text fields range     *)
(* over values containing the separators ":" "," the escape "\" and text    *)
(* that imitates the typed fields ("true", "false", numbers, "[]").         *)
(*                                                                         *)
(* Invariant (C43): once the key of a request is complete, no other         *)
(* request of the domain that must differ from it (other tenant or other    *)
(* result-changing parameter) has the same key -- except pairs of the       *)
(* known-finding classes (parameters the key format does not contain).      *)
(* The format before the fix (esc = FALSE) is evaluated at constant level   *)
(* to enumerate the collisions it had; those pairs (+ pairs differing in    *)
(* one field) are serialised for the harness (leg B).                       *)
(***************************************************************************)
EXTENDS FrontendKeys, Json, IOUtils, SequencesExt
CONSTANTS Big        \* FALSE: union of small slices (quick); TRUE: larger products (thorough)

Split == 3600000

Tenants == {<<"a">>, <<"a", ":", "b">>, <<"a", ":">>, <<"a", ":", "[]">>}
Queries == {<<"c">>, <<"b", ":", "c">>, <<":", "c">>, <<"c", ":", "1000">>, <<"c", ":", "1000", ":", "3600000">>}
(* the escape character itself: alone, trailing, doubled, in front of a separator *)
Engines == {<<>>, <<"e">>, <<"e", ":", "true">>, <<"e", ":", "false", ":">>,
            <<"e", "\\">>, <<"e", "\\", "\\">>, <<"e", "\\", ":", "true">>, <<"\\">>}
ReplicaLists == {<<>>, <<<<"r">>>>, <<<<"r">>, <<"s">>>>, <<<<"r", ",", "s">>>>, <<<<"false", ":">>>>, <<<<"r", ":">>>>,
                 <<<<"r", "\\">>, <<"s">>>>, <<<<"r", "\\">>>>, <<<<"r", "\\", "\\">>, <<"s">>>>,
                 <<<<"r", "\\", ",", "s">>>>, <<<<"\\">>, <<"s">>>>, <<<<"\\", ",", "s">>>>}
Labels == {<<>>, <<"c">>, <<"b", ":", "c">>, <<"c", ":", "[]">>, <<"c", "\\">>, <<"c", "\\", ":", "[]">>}
(* a matcher value ending in a backslash is printed Go-quoted: a="b\\\\" *)
MatcherLists == {<<>>, <<"a=\"b\"">>, <<"a=\"b:c\"">>, <<"a=\"b\"", "c=\"d\"">>, <<"a=\"b\\\\\"">>}
ShardOff == [on |-> FALSE, total |-> 0, index |-> 0, by |-> FALSE, labels |-> <<>>]
Shards == {ShardOff,
           [on |-> TRUE, total |-> 2, index |-> 0, by |-> TRUE, labels |-> <<"x">>],
           [on |-> TRUE, total |-> 2, index |-> 1, by |-> TRUE, labels |-> <<"x">>],
           [on |-> TRUE, total |-> 2, index |-> 0, by |-> FALSE, labels |-> <<"x">>],
           [on |-> TRUE, total |-> 2, index |-> 0, by |-> TRUE, labels |-> <<"y">>]}

BaseRange == [kind |-> "range", tenant |-> <<"a">>, query |-> <<"c">>, step |-> 1000, split |-> Split, start |-> 0,
              msr |-> 0, shard |-> ShardOff, lookback |-> 0, engine |-> <<>>, partial |-> FALSE,
              replicas |-> <<>>, analyze |-> FALSE, dedup |-> TRUE, storem |-> <<>>, nostore |-> FALSE]
BaseLabels == [kind |-> "labels", tenant |-> <<"a">>, label |-> <<>>, matchers |-> <<>>, partial |-> FALSE,
               split |-> Split, start |-> 0, storem |-> <<>>, nostore |-> FALSE]
BaseSeries == [kind |-> "series", tenant |-> <<"a">>, matchers |-> <<"a=\"b\"">>, partial |-> FALSE, replicas |-> <<>>,
               dedup |-> TRUE, split |-> Split, start |-> 0, storem |-> <<>>, nostore |-> FALSE]

(* slices: clusters of fields that can interact, the rest at the base values *)
SliceTenantQuery == { [BaseRange EXCEPT !.tenant = t, !.query = q, !.step = s] : t \in Tenants, q \in Queries, s \in {1000, 2000} }
SliceTail == { [BaseRange EXCEPT !.engine = e, !.partial = p, !.replicas = rl, !.analyze = an] :
                    e \in Engines, p \in BOOLEAN, rl \in ReplicaLists, an \in BOOLEAN }
SliceTyped == { [BaseRange EXCEPT !.step = s, !.msr = m, !.lookback = lb, !.shard = sh, !.start = st, !.analyze = an] :
                    s \in {1000, 2000}, m \in {0, 10000, 300000, 3600000}, lb \in {0, 1000}, sh \in Shards,
                    st \in {0, Split}, an \in BOOLEAN }
SliceQueryTail == { [BaseRange EXCEPT !.query = q, !.engine = e, !.replicas = rl, !.shard = sh] :
                    q \in Queries, e \in {<<>>, <<"e", ":", "true">>, <<"e", "\\">>},
                    rl \in {<<>>, <<<<"r">>>>, <<<<"r", "\\">>, <<"s">>>>, <<<<"r", ",", "s">>>>},
                    sh \in {ShardOff, CHOOSE x \in Shards : x.on} }
SliceUncached == { [BaseRange EXCEPT !.dedup = d, !.nostore = ns, !.storem = sm, !.query = q] :
                    d \in BOOLEAN, ns \in BOOLEAN, sm \in {<<>>, <<"a=\"b\"">>, <<"a=\"b\\\\\"">>}, q \in {<<"c">>, <<"b", ":", "c">>} }
BigRange == { [BaseRange EXCEPT !.tenant = t, !.query = q, !.engine = e, !.partial = p, !.replicas = rl, !.step = s] :
                    t \in Tenants, q \in Queries, e \in Engines, p \in BOOLEAN, rl \in ReplicaLists, s \in {1000, 2000} }
RangeReqs == SliceTenantQuery \cup SliceTail \cup SliceTyped \cup SliceQueryTail \cup SliceUncached
             \cup (IF Big THEN BigRange ELSE {})
LabelsReqs == { [BaseLabels EXCEPT !.tenant = t, !.label = l, !.matchers = m, !.partial = p] :
                    t \in Tenants, l \in Labels, m \in MatcherLists, p \in BOOLEAN }
SeriesReqs == { [BaseSeries EXCEPT !.tenant = t, !.matchers = m, !.partial = p, !.replicas = rl, !.dedup = d] :
                    t \in Tenants, m \in MatcherLists, p \in BOOLEAN, rl \in {<<>>, <<<<"r">>>>, <<<<"r">>, <<"s">>>>}, d \in BOOLEAN }
Reqs(kind) == IF kind = "range" THEN RangeReqs ELSE IF kind = "labels" THEN LabelsReqs ELSE SeriesReqs
AllReqs == RangeReqs \cup LabelsReqs \cup SeriesReqs

(* requests are numbered so that every table below is indexed by an integer (cheap lookups) *)
RS == SetToSeq(AllReqs)
N == Len(RS)
KeyTab == [i \in 1..N |-> Key(RS[i], TRUE)]
LegacyTab == [i \in 1..N |-> Key(RS[i], FALSE)]
LazyTab == [i \in 1..N |-> KeyMode(RS[i], "lazy")]

(* ---- the builder, field by field ---- *)
VARIABLES ri, pos, key
vars == <<ri, pos, key>>
r == RS[ri]
Init == ri \in 1..N /\ pos = 0 /\ key = "fe"
AppendField == /\ pos < Len(Fields(r, TRUE))
               /\ key' = key \o ":" \o Fields(r, TRUE)[pos + 1]
               /\ pos' = pos + 1
               /\ UNCHANGED ri
Next == AppendField
Spec == Init /\ [][Next]_vars
Done == pos = Len(Fields(r, TRUE))

BuilderAgrees == Done => key = KeyTab[ri]
(* C43 *)
C43_KeysSeparate ==
    Done => \A j \in 1..N : KeyTab[j] = key => ~(MustDiffer(r, RS[j]) /\ KnownFinding(r, RS[j]) = "")
(* ---- leg B ---- *)
CasesFile == IF "VERIF_CASES" \in DOMAIN IOEnv THEN IOEnv.VERIF_CASES ELSE "cases.ndjson"
(* cheap pre-computed form of the parameters, only used to select the pairs to serialise *)
Sem(x) == << Flat(x.tenant), x.partial,
             IF x.kind = "range" THEN Flat(x.query) ELSE IF x.kind = "labels" THEN Flat(x.label) ELSE "",
             IF x.kind = "range" THEN <<x.step, Level(x.msr), x.lookback, x.analyze, Flat(x.engine)>> ELSE <<>>,
             IF x.kind = "range" THEN <<x.shard.on, x.shard.total, x.shard.index>> ELSE <<>>,
             IF x.kind = "range" /\ x.shard.on THEN <<x.shard.by, Rng(x.shard.labels)>> ELSE <<>>,
             IF x.kind \in {"range", "series"} THEN FlatSet(x.replicas) ELSE {},
             IF x.kind \in {"labels", "series"} THEN Rng(x.matchers) ELSE {} >>
SemTab == [i \in 1..N |-> Sem(RS[i])]
SlotTab == [i \in 1..N |-> <<RS[i].kind, RS[i].split, RS[i].start \div RS[i].split>>]
SliceSet == SliceTenantQuery \cup SliceTail \cup SliceTyped \cup SliceQueryTail \cup SliceUncached \cup LabelsReqs \cup SeriesReqs
SliceTab == [i \in 1..N |-> RS[i] \in SliceSet]
OneOrNoDiff(i, j) == Cardinality({ k \in 1..8 : SemTab[i][k] # SemTab[j][k] }) <= 1
(* the known-finding classes are not empty words: each class really collides.  Only requests that  *)
(* agree on every keyed parameter can be in a known-finding class (cheap pre-filter).               *)
KFCandidate(i, j) == \A k \in {1, 3, 4, 5, 8} : SemTab[i][k] = SemTab[j][k]
KnownFindingsAreReal ==
    Done => \A j \in 1..N : (KFCandidate(ri, j) /\ KeyTab[j] # key) =>
                                ~(MustDiffer(r, RS[j]) /\ KnownFinding(r, RS[j]) # "")
SliceIdx == { i \in 1..N : SliceTab[i] }
(* Pairs for the harness (requests of the slices, same kind and interval): every pair the format     *)
(* before the fix confused, every pair with equal keys now (known-finding classes), and every pair   *)
(* differing in exactly one parameter.                                                               *)
CasePairs == { p \in SliceIdx \X SliceIdx :
                 /\ p[1] < p[2]
                 /\ SlotTab[p[1]] = SlotTab[p[2]]
                 /\ \/ LegacyTab[p[1]] = LegacyTab[p[2]]
                    \/ LazyTab[p[1]] = LazyTab[p[2]]
                    \/ KeyTab[p[1]] = KeyTab[p[2]]
                    \/ (OneOrNoDiff(p[1], p[2]) /\ Cardinality(DiffFields(RS[p[1]], RS[p[2]])) = 1) }
(* the domain bites: the format before the fix had collisions outside the known-finding classes *)
LegacyCollisions == { p \in CasePairs : /\ LegacyTab[p[1]] = LegacyTab[p[2]]
                                         /\ MustDiffer(RS[p[1]], RS[p[2]]) /\ KnownFinding(RS[p[1]], RS[p[2]]) = "" }
ASSUME LegacyCollisions # {}
(* ... and so has the "lazy" shortcut (escape character not escaped in values without separators): the   *)
(* alphabet contains the escape character where it matters                                              *)
LazyCollisions == { p \in CasePairs : /\ LazyTab[p[1]] = LazyTab[p[2]]
                                       /\ MustDiffer(RS[p[1]], RS[p[2]]) /\ KnownFinding(RS[p[1]], RS[p[2]]) = "" }
ASSUME LazyCollisions # {}
ASSUME ndJsonSerialize(CasesFile, SetToSeq({ [a |-> RS[p[1]], b |-> RS[p[2]]] : p \in CasePairs }))
=============================================================================
