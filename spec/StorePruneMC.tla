----------------------------- MODULE StorePruneMC -----------------------------
(***************************************************************************)
(* Leg A of C05: the pruning decision of the proxy for every store and     *)
(* query of a small universe (names a, b; values x, y; all four matcher    *)
(* types with empty values and set regexes; every relation of the two      *)
(* time ranges), one loop iteration per step.                              *)
(***************************************************************************)
EXTENDS StorePrune, TLC, Json, IOUtils, SequencesExt, FiniteSetsExt
CONSTANTS MaxLsets, MaxMatchers, CaseStride

NameU == {1, 2}
ValU == {1, 2}
LsetU == { <<>> } \cup { << <<n, v>> >> : n \in NameU, v \in ValU } \cup { << <<1, v1>>, <<2, v2>> >> : v1 \in ValU, v2 \in ValU }
ReU == { [kind |-> "any", alts |-> <<>>], [kind |-> "nonempty", alts |-> <<>>],
         [kind |-> "set", alts |-> <<1>>], [kind |-> "set", alts |-> <<1, 2>>],
         [kind |-> "set", alts |-> <<0>>], [kind |-> "set", alts |-> <<0, 1>>] }
NoRe == [kind |-> "any", alts |-> <<>>]
MatcherU == { [name |-> n, type |-> t, val |-> v, re |-> NoRe] : n \in NameU, t \in {"EQ", "NEQ"}, v \in {0, 1, 2} }
            \cup { [name |-> n, type |-> t, val |-> 0, re |-> r] : n \in NameU, t \in {"RE", "NRE"}, r \in ReU }
(* the query asks for [20,30]; store ranges before, touching, inside, around, after *)
RangeU == { <<0, 10>>, <<0, 20>>, <<20, 30>>, <<25, 26>>, <<30, 50>>, <<31, 50>>, <<0, 50>>, <<0, 19>> }

LsetSeqs == UNION { { SetToSeq(S) : S \in kSubset(n, LsetU) } : n \in 0..MaxLsets }
MatcherSeqs == UNION { { SetToSeq(S) : S \in kSubset(n, MatcherU) } : n \in 1..MaxMatchers }

VARIABLES st, q,
          k, i,          \* label-set index, matcher index of the two nested loops
          result         \* "?" while undecided, then "query" | "skip"
vars == <<st, q, k, i, result>>

Init == /\ \E ls \in LsetSeqs, r \in RangeU : st = [lsets |-> ls, smin |-> r[1], smax |-> r[2]]
        /\ \E ms \in MatcherSeqs : q = [matchers |-> ms, qmin |-> 20, qmax |-> 30]
        /\ k = 0 /\ i = 0 /\ result = "?"

(* storeMatches: the time test *)
TimeTest ==
    /\ result = "?" /\ k = 0
    /\ IF q.qmin > st.smax \/ q.qmax < st.smin THEN result' = "skip" /\ k' = k
       ELSE IF st.lsets = <<>> THEN result' = "query" /\ k' = k
       ELSE k' = 1 /\ result' = result
    /\ i' = 1 /\ UNCHANGED <<st, q>>
(* LabelSetsMatch: one iteration of the inner loop over the matchers *)
MatcherStep ==
    /\ result = "?" /\ k >= 1 /\ k <= Len(st.lsets)
    /\ IF i > Len(q.matchers) THEN result' = "query" /\ UNCHANGED <<k, i>>          \* no matcher rejected this set
       ELSE IF q.matchers[i].name \in Names(st.lsets[k]) /\ ~Matches(q.matchers[i], ValueOf(st.lsets[k], q.matchers[i].name))
              THEN k' = k + 1 /\ i' = 1 /\ UNCHANGED result                          \* break: next label set
       ELSE i' = i + 1 /\ UNCHANGED <<k, result>>
    /\ UNCHANGED <<st, q>>
(* all label sets rejected *)
AllRejected ==
    /\ result = "?" /\ k > Len(st.lsets) /\ k >= 1
    /\ result' = "skip" /\ UNCHANGED <<st, q, k, i>>
Decided == result # "?" /\ UNCHANGED vars
Next == TimeTest \/ MatcherStep \/ AllRejected \/ Decided
Spec == Init /\ [][Next]_vars

(* C05: a skipped store holds no matching data *)
C05_PruningSound == result = "skip" => ~MayHoldMatchingData(st, q)
(* the loops compute the functional description *)
C05_LoopsEqualFunction == result # "?" => (result = "query") = StoreMatches(st, q)
(* not part of C05 (pruning may be incomplete), recorded for information: with these universes  *)
(* the decision is also complete except for matchers no value can satisfy                        *)

(* leg B *)
CasesFile == IF "VERIF_CASES" \in DOMAIN IOEnv THEN IOEnv.VERIF_CASES ELSE "cases.ndjson"
AllCases == SetToSeq({ [stores |-> << [lsets |-> ls, smin |-> r[1], smax |-> r[2]] >>, query |-> [matchers |-> ms, qmin |-> 20, qmax |-> 30]] :
                        ls \in LsetSeqs, r \in RangeU, ms \in MatcherSeqs })
CaseSeq == LET idx == SetToSeq({ j \in 1..Len(AllCases) : j % CaseStride = 0 }) IN [n \in 1..Len(idx) |-> AllCases[idx[n]]]
ASSUME ndJsonSerialize(CasesFile, CaseSeq)
=============================================================================
