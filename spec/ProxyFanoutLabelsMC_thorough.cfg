\* C06 leg A (label APIs) thorough: 3 stores, each healthy or failing, stripping replica labels or not, both strategies, both APIs, any answer order
SPECIFICATION Spec
CONSTANTS NStores = 3
INVARIANT C06_LabelsStrategyHonoured
CHECK_DEADLOCK TRUE
