--------------------------- MODULE FrontendSplitMC ---------------------------
(***************************************************************************)
(* Leg A of C41: the split loops of pkg/queryfrontend/split_by_interval.go  *)
(* as a state machine, one loop iteration per step, for EVERY               *)
(* (start, end, step, interval) within the constants -- including steps     *)
(* larger than the interval, unaligned starts and start = end.              *)
(*   kind "range": ThanosQueryRangeRequest loop (nextIntervalBoundary)      *)
(*   kind "meta" : labels / series loop (fixed-width ranges)                *)
(* Invariants: when the loop has finished, the emitted sub-requests satisfy *)
(* the property-level operators of Frontend; the loop always terminates      *)
(* (progress + no stuck state).                                            *)
(* Also proves (ASSUME, constant level) that the arithmetic forms the trace *)
(* spec uses are equivalent to the literal set forms in small scope, and    *)
(* serialises the cases for the harness (leg B).                            *)
(***************************************************************************)
EXTENDS Frontend, TLC, Json, IOUtils, SequencesExt
CONSTANTS MaxT,        \* start, end \in 0..MaxT
          MaxStep,     \* step \in 1..MaxStep
          MaxIv,       \* interval \in 1..MaxIv
          EqT,         \* scope of the arithmetic = set equivalence check
          DynLevel     \* which dynamic split configurations <<min, max, horizontal shards>> are explored

Dyns == IF DynLevel = 0 THEN {<<2, 4, 2>>, <<3, 5, 2>>}
        ELSE {<<2, 4, 2>>, <<3, 5, 2>>, <<3, 8, 3>>, <<4, 6, 4>>, <<5, 12, 2>>, <<6, 9, 5>>}

VARIABLES kind, s, e, st, iv,   \* the request (inputs, never change); iv = static or dynamically computed interval
          dyn,                  \* <<0,0,0>> = static interval, else the dynamic configuration iv came from
          cur,                  \* loop variable `start`
          out,                  \* sub-requests appended so far
          done
vars == <<kind, s, e, st, iv, dyn, cur, out, done>>

Init ==
    /\ kind \in {"range", "meta"}
    /\ s \in 0..MaxT /\ e \in 0..MaxT /\ s <= e
    /\ st \in (IF kind = "range" THEN 1..MaxStep ELSE {1})
    /\ \/ dyn = <<0, 0, 0>> /\ iv \in 1..MaxIv
       \/ kind = "range" /\ dyn \in Dyns /\ iv = DynInterval(e - s, dyn[1], dyn[2], dyn[3])
    /\ cur = s /\ out = <<>> /\ done = FALSE

(* `if start == end { one request }` (both request families).  *)
Single ==
    /\ ~done /\ s = e /\ out = <<>>
    /\ out' = <<[start |-> s, end |-> s, step |-> st]>>
    /\ done' = TRUE
    /\ UNCHANGED <<kind, s, e, st, iv, dyn, cur>>

(* One iteration of `for ; start < end; start = nextIntervalBoundary(start) + step`.  *)
RangeIter ==
    /\ ~done /\ kind = "range" /\ s # e /\ cur < e
    /\ out' = Append(out, RangeIterSub(cur, e, st, iv))
    /\ cur' = RangeIterNext(cur, st, iv)
    /\ UNCHANGED <<kind, s, e, st, iv, dyn, done>>

(* One iteration of `for start < end; start += dur`.  *)
MetaIter ==
    /\ ~done /\ kind = "meta" /\ s # e /\ cur < e
    /\ out' = Append(out, [start |-> cur, end |-> Min2(cur + iv, e), step |-> 1])
    /\ cur' = cur + iv
    /\ UNCHANGED <<kind, s, e, st, iv, dyn, done>>

Exit ==
    /\ ~done /\ s # e /\ cur >= e
    /\ done' = TRUE
    /\ UNCHANGED <<kind, s, e, st, iv, dyn, cur, out>>

Next == Single \/ RangeIter \/ MetaIter \/ Exit
Spec == Init /\ [][Next]_vars

(* ---- C41 ---- *)
C41_RangeExactlyOnce == (done /\ kind = "range") => StepsExactlyOnceSet(s, e, st, out)
C41_RangeAligned     == kind = "range" => AllAligned(s, st, out)          \* holds at every iteration
C41_WellFormed       == AllWellFormed(out)
C41_MetaCovers       == (done /\ kind = "meta") => CoversSet(s, e, out)
(* Termination without the liveness machinery (it is slow for thousands of initial states):   *)
(* every loop iteration strictly advances the loop variable (action property), the graph is    *)
(* finite, and no unfinished state is stuck -- hence every behaviour reaches done.             *)
C41_Progress         == [][(~done' /\ s # e) => cur' > cur]_vars
C41_NotStuck         == ~done => ENABLED Next
(* the dynamically computed interval is usable (positive) and within the configured bounds whenever the *)
(* query is longer than the minimum                                                                    *)
C41_DynIntervalSane  == dyn # <<0, 0, 0>> => (iv >= 1 /\ iv <= dyn[2] /\ (e - s <= dyn[1] => iv = dyn[1]))
(* the step-wise machine equals the functional transcription used for model conformance in the trace spec *)
FunctionalFormAgrees == done => out = (IF kind = "range" THEN SplitRange(s, e, st, iv) ELSE SplitMeta(s, e, iv))
(* the arithmetic forms agree with the literal ones on what the code produces ...  *)
ArithAgreesOnOutput ==
    done => /\ (kind = "range" => (StepsExactlyOnceArith(s, e, st, out) <=> StepsExactlyOnceSet(s, e, st, out)))
            /\ (kind = "meta" => (CoversArith(s, e, out) <=> CoversSet(s, e, out)))

(* ... and on ARBITRARY lists of up to 3 well-formed aligned sub-queries over 0..EqT (constant level).  *)
EqSubs(ss, stp) == { [start |-> a, end |-> b, step |-> stp] : a \in { x \in 0..EqT : (x - ss) % stp = 0 }, b \in 0..EqT }
EqSubSeqs(ss, stp) == UNION { [1..n -> { x \in EqSubs(ss, stp) : x.start <= x.end }] : n \in 0..3 }
ArithEqualsSet ==
    \A ss \in 0..EqT, ee \in 0..EqT, stp \in 1..3 :
        ss <= ee => \A subs \in EqSubSeqs(ss, stp) :
            /\ StepsExactlyOnceArith(ss, ee, stp, subs) <=> StepsExactlyOnceSet(ss, ee, stp, subs)
            /\ CoversArith(ss, ee, subs) <=> CoversSet(ss, ee, subs)
ASSUME ArithEqualsSet

(* ---- leg B: every input of the model goes to the harness ---- *)
CasesFile == IF "VERIF_CASES" \in DOMAIN IOEnv THEN IOEnv.VERIF_CASES ELSE "cases.ndjson"
NoDyn == [min |-> 0, max |-> 0, shards |-> 0]
CaseSet ==
    { [kind |-> "range", s |-> a, e |-> b, step |-> c, iv |-> d, dyn |-> NoDyn] :
          a \in 0..MaxT, b \in 0..MaxT, c \in 1..MaxStep, d \in 1..MaxIv }
    \cup { [kind |-> "meta", s |-> a, e |-> b, step |-> 1, iv |-> d, dyn |-> NoDyn] : a \in 0..MaxT, b \in 0..MaxT, d \in 1..MaxIv }
    \cup { [kind |-> "range", s |-> a, e |-> b, step |-> c, iv |-> DynInterval(b - a, y[1], y[2], y[3]),
            dyn |-> [min |-> y[1], max |-> y[2], shards |-> y[3]]] :
          a \in { x \in 0..MaxT : x % 3 = 0 \/ x = 1 }, b \in 0..MaxT, c \in 1..MaxStep, y \in Dyns }
ASSUME ndJsonSerialize(CasesFile, SetToSeq({ c \in CaseSet : c.s <= c.e }))
=============================================================================
