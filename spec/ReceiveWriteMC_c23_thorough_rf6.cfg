\* C23 leg A thorough (2): one series rf 6, answers ok/conflict/unavailable; emits no cases
SPECIFICATION Spec
CONSTANTS RF1 = {6}
          RF2 = {}
          N2 = 3
          Outcomes = {"ok", "conflict", "unavailable"}
          Outcomes2 = {"ok", "conflict", "unavailable"}
          ReplThresholdIsQuorum = FALSE
          StaleMapReused = FALSE
          WithTimeout = FALSE
          CaseRF1 = {}
          CaseRFLocal = {}
          CaseRF2 = {}
          CaseOutcomes = {"ok", "conflict", "unavailable"}
INVARIANTS C22Inv C23Inv OrderIndependent EarlyOnlyWhenDetermined
PROPERTIES Terminates
CHECK_DEADLOCK FALSE
