--------------------------- MODULE HashringReloadMC ---------------------------
(***************************************************************************)
(* Leg A for C27 across a hashring configuration RELOAD.                   *)
(*                                                                         *)
(* Components (pkg/receive/config.go ConfigWatcher + ConfigFromWatcher,    *)
(* the apply loop of cmd/thanos/receive.go setupHashring, Handler.Hashring *)
(* swap, multiHashring.GetN):                                              *)
(*   Write     somebody rewrites the hashring file: a valid configuration  *)
(*             (an index into Catalog) or 0 = content that does not load   *)
(*   Refresh   the watcher (fsnotify event or ticker) reads the file: a    *)
(*             load error keeps everything as it is; content equal to the  *)
(*             last loaded one is skipped; otherwise it becomes the last   *)
(*             loaded one and is offered to the update channel             *)
(*   Send      the blocking hand-over into the channel (capacity 1)        *)
(*   Apply     the apply loop builds the new multi-hashring (with its own  *)
(*             empty tenant cache) and swaps it in under the handler lock  *)
(*   ReqStart  a request reads the hashring in force (RLock)               *)
(*   ReqRoute  ... and is routed by it, possibly after later swaps         *)
(* SharedCache = TRUE is the failing variant (a tenant cache that survives *)
(* the swap), run by hand with HashringReloadMC_sharedcache_mustfail.cfg.  *)
(***************************************************************************)
EXTENDS Hashring, TLC, Json, IOUtils, SequencesExt
CONSTANTS MaxWrites, Procs, MaxReqs, SharedCache, CatalogSize

Ch(s) == [k \in 1..Len(s) |-> s[k]]
Pat(str) == str                      \* patterns / tenants are sequences of characters
D == [tenants |-> <<>>, glob |-> FALSE]
Ex(p) == [tenants |-> <<p>>, glob |-> FALSE]
Gl(p) == [tenants |-> <<p>>, glob |-> TRUE]
(* configurations a reload moves between: specific entry added / removed / reordered, default *)
(* added / removed, exact replaced by glob                                                     *)
FullCatalog == << <<D>>,
              <<Ex(<<"a">>), D>>,
              <<D, Ex(<<"a">>)>>,
              <<Gl(<<"a", "*">>), Ex(<<"b">>)>>,
              <<Ex(<<"b">>), Gl(<<"*">>)>>,
              <<Ex(<<"a">>)>> >>
Catalog == SubSeq(FullCatalog, 1, CatalogSize)
K == Len(Catalog)
Tenants == { <<"a">>, <<"b">>, <<"a", "b">> }

VARIABLES file, written, left,           \* the file and its history
          loaded, wpc, wval, chan,       \* watcher
          cur, applied, cache,           \* handler: version in force, history, tenant caches per version
          rpc, rten, rver, nreq, looks   \* requests
vars == <<file, written, left, loaded, wpc, wval, chan, cur, applied, cache, rpc, rten, rver, nreq, looks>>

CacheId(v) == IF SharedCache THEN 1 ELSE v

Init == /\ file \in 1..K /\ written = <<file>> /\ left = MaxWrites
        /\ loaded = 0 /\ wpc = "idle" /\ wval = 0 /\ chan = <<>>
        /\ cur = 0 /\ applied = <<>>
        /\ cache = [v \in 1..K |-> [t \in {} |-> 0]]
        /\ rpc = [p \in Procs |-> "idle"] /\ rten = [p \in Procs |-> <<>>] /\ rver = [p \in Procs |-> 0]
        /\ nreq = 0 /\ looks = <<>>

Write == /\ left > 0
         /\ \E c \in 0..K : c # file /\ file' = c /\ written' = Append(written, c)
         /\ left' = left - 1
         /\ UNCHANGED <<loaded, wpc, wval, chan, cur, applied, cache, rpc, rten, rver, nreq, looks>>
(* refresh(): loadConfig error -> return; same hash as last loaded -> return; else remember and send *)
Refresh == /\ wpc = "idle"
           /\ file # 0 /\ file # loaded
           /\ loaded' = file /\ wval' = file /\ wpc' = "send"
           /\ UNCHANGED <<file, written, left, chan, cur, applied, cache, rpc, rten, rver, nreq, looks>>
Send == /\ wpc = "send" /\ chan = <<>>
        /\ chan' = <<wval>> /\ wpc' = "idle"
        /\ UNCHANGED <<file, written, left, loaded, wval, cur, applied, cache, rpc, rten, rver, nreq, looks>>
(* NewMultiHashring(c) ; webHandler.Hashring(h) *)
Apply == /\ chan # <<>>
         /\ cur' = Head(chan) /\ applied' = Append(applied, Head(chan)) /\ chan' = <<>>
         /\ cache' = IF SharedCache THEN cache ELSE [cache EXCEPT ![Head(chan)] = [t \in {} |-> 0]]
         /\ UNCHANGED <<file, written, left, loaded, wpc, wval, rpc, rten, rver, nreq, looks>>

ReqStart(p) == /\ rpc[p] = "idle" /\ nreq < MaxReqs /\ cur # 0
               /\ \E t \in Tenants : rten' = [rten EXCEPT ![p] = t]
               /\ rver' = [rver EXCEPT ![p] = cur]
               /\ rpc' = [rpc EXCEPT ![p] = "route"] /\ nreq' = nreq + 1
               /\ UNCHANGED <<file, written, left, loaded, wpc, wval, chan, cur, applied, cache, looks>>
(* multiHashring.GetN of the ring the request holds: tenant cache, else first match in order *)
ReqRoute(p) ==
    /\ rpc[p] = "route"
    /\ LET v == rver[p]
           c == cache[CacheId(v)]
           ans == IF rten[p] \in DOMAIN c THEN c[rten[p]] ELSE RouteFirstInOrder(Catalog[v], rten[p])
       IN /\ looks' = <<[ver |-> v, aver |-> v, aidx |-> ans, tc |-> rten[p]]>>     \* the latest answer only
          /\ cache' = [cache EXCEPT ![CacheId(v)] = [t \in DOMAIN c \cup {rten[p]} |-> IF t = rten[p] THEN ans ELSE c[t]]]
    /\ rpc' = [rpc EXCEPT ![p] = "idle"]
    /\ UNCHANGED <<file, written, left, loaded, wpc, wval, chan, cur, applied, rten, rver, nreq>>

Next == Write \/ Refresh \/ Send \/ Apply \/ \E p \in Procs : ReqStart(p) \/ ReqRoute(p)
Spec == Init /\ [][Next]_vars /\ WF_vars(Refresh) /\ WF_vars(Send) /\ WF_vars(Apply)
             /\ \A p \in Procs : WF_vars(ReqRoute(p))

CfgOf == [v \in 1..K |-> Catalog[v]]
LooksSeq == looks
(* the property-level clauses of C27Trace, on every reachable state *)
C27_Reload == C27ReloadClauses(written, applied, LooksSeq, 0, TRUE, CfgOf) = {}
C27_NoGap == applied # <<>> => cur # 0
C27_InForce == cur = (IF applied = <<>> THEN 0 ELSE applied[Len(applied)])
(* a valid final content takes effect; an invalid one leaves a previously written valid one in force *)
(* (cur = 0: the file became unloadable before the watcher ever read it -- the receiver never got ready) *)
C27_Converges == <>[](left = 0 => (IF file # 0 THEN cur = file ELSE cur \in HSeqRange(ValidWrites(written)) \cup {0}))

(* Leg B: write scripts (first element = initial content), 0 = content that does not load *)
Scripts == UNION { [1..n -> 0..K] : n \in 2..(MaxWrites + 1) }
ScriptSel == { s \in Scripts : s[1] # 0 /\ \A k \in 1..(Len(s) - 1) : s[k] # s[k + 1] }
CasesFile == IF "VERIF_CASES" \in DOMAIN IOEnv THEN IOEnv.VERIF_CASES ELSE "cases.ndjson"
ASSUME ndJsonSerialize(CasesFile, SetToSeq({ [script |-> s, catalog |-> Catalog] : s \in ScriptSel }))
=============================================================================
