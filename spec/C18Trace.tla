------------------------------ MODULE C18Trace ------------------------------
(***************************************************************************)
(* Leg C for C18.  One trace line per hashring configuration run on the    *)
(* REAL NewMultiHashring:                                                  *)
(*   in.algo "ketama" | "hashmod", in.rf, in.eps = sequence of [a, z]      *)
(*   built   FALSE when the constructor refused the configuration (then    *)
(*           nothing is judged: C18 speaks about chosen nodes)             *)
(*   zoned   every endpoint has a non-empty zone ("with availability zones *)
(*           configured"; layouts mixing zoned and zoneless endpoints are  *)
(*           not generated for C18)                                        *)
(*   obs     the distinct observations over (tenant, series):              *)
(*             r  replica list GetN(0..rf-1), endpoints as 1-based indices *)
(*                into in.eps (0 = an address that is not configured)      *)
(*             o  lists that DIFFER from r among the answers of three      *)
(*                hashrings built from permuted endpoint lists             *)
(*             g  lists that differ from r when the same ring is asked     *)
(*                again                                                    *)
(*             h  hashmod only: series hash mod number of endpoints        *)
(*   sorted  hashmod: endpoint indices in address order                    *)
(*   ring, table   ketama, when dumped: owners of the sections of a ring   *)
(*           with 2 sections per endpoint in real hash order, and the real *)
(*           pre-calculated replicas of each section (conformance only)    *)
(* Clauses (Hashring!C18Clauses) are sentence by sentence the statement:   *)
(* "pairwise distinct", "depend only on the tenant, the series labels and  *)
(* the set of configured endpoints (not their order)", "with availability  *)
(* zones configured the replica counts per zone differ by at most one      *)
(* whenever the zones can accommodate that".                               *)
(***************************************************************************)
EXTENDS TraceLib, Hashring

AzOf(e) == [k \in DOMAIN e.in.eps |-> e.in.eps[k].z]

Judge(e) ==
    IF ~e.built THEN {}
    ELSE LET az == AzOf(e) IN
         UNION { C18Clauses(e.obs[k].r, e.obs[k].o, e.obs[k].g, az, e.in.rf, e.zoned) : k \in DOMAIN e.obs }

(* Model conformance (never a verdict).  *)
Drift(e) ==
    e.built /\
    \/ e.in.algo = "ketama" /\ e.ring # <<>> /\
         \E i \in DOMAIN e.ring : SectionReplicas(e.ring, AzOf(e), e.in.rf, i) # e.table[i]
    \/ e.in.algo = "hashmod" /\
         \E k \in DOMAIN e.obs : HashmodReplicas(e.sorted, e.obs[k].h, e.in.rf) # e.obs[k].r

VARIABLE l
TraceInit == l = 1
TraceNext == /\ l <= TraceLen
             /\ CaseReject(l, Trace[l], Judge(Trace[l]))
             /\ (IF Drift(Trace[l]) THEN PrintT(<<"DRIFT", l, Trace[l]["case"]>>) ELSE TRUE)
             /\ l' = l + 1
TraceSpec == TraceInit /\ [][TraceNext]_l
TraceAccepted == TLCGet("stats").diameter = TraceLen + 1
=============================================================================
