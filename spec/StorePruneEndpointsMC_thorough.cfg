\* C05 leg A (endpoint set) thorough: 1 endpoint (endpoints do not interact in Update), 3 advertisements, timeout 8,
\* any number of rounds of arbitrary environment change + clock step 1 or 8; every 10th two-round scenario over 2
\* endpoints to the harness
SPECIFICATION Spec
CONSTANTS NEps = 1
          T = 8
          MaxRounds = 0
          CaseEps = 2
          CaseStride = 10
INVARIANTS C05_OfferedAndFresh C05_UpStoresContacted C05_UnhealthyNotOffered C05_TimedOutDropped
VIEW View
CHECK_DEADLOCK FALSE
