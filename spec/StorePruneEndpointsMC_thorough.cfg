\* C05 leg A (endpoint set) thorough: 2 endpoints, 3 advertisements, timeout 2, any number of rounds; every 3rd
\* two-round scenario over 2 endpoints to the harness
SPECIFICATION Spec
CONSTANTS NEps = 2
          T = 2
          MaxRounds = 0
          CaseEps = 2
          CaseStride = 3
INVARIANTS C05_OfferedAndFresh C05_UpStoresContacted C05_UnhealthyNotOffered C05_TimedOutDropped
VIEW View
CHECK_DEADLOCK FALSE
