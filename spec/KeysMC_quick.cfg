\* C13 leg A quick: alphabet { : = ~ " a } (+ digit 1 for the conversion cache), strings of length <= 2,
\* 2 blocks x 2 compression schemes; list slice: values up to 5 characters over { " ; = a }.
SPECIFICATION Spec
CONSTANTS Sigma <- SigmaQuick
          MaxLen = 2
          ConvSigma <- ConvSigmaQuick
          ListSigma <- ListSigma4
          ListValLen = 5
          ListTypes = {"EQ"}
          Blocks = {"B1", "B2"}
          Comps <- CompsBoth
          SeriesIds = {0, 1, 10}
          Legacy = {}
          GroupSyms = 2
          RecvValLen = 3
INVARIANTS C13_NoConflation
CHECK_DEADLOCK FALSE
