\* C21 leg A thorough: <= 6 endpoints (1 section each) / <= 4 endpoints (2 sections each), <= 3 zones,
\* shard size <= 6, <= 3 picks per zone, LRU of 1 entry, 4 requests; cases: zone vectors up to 10 endpoints
SPECIFICATION Spec
CONSTANTS MaxN = 6
          MaxZones = 3
          SecChoices = {1, 2}
          MaxSecs = 8
          MaxSize = 6
          MaxTake = 3
          CacheCap = 1
          MaxReqs = 4
          CaseMaxN = 10
INVARIANT C21_Size
INVARIANT C21_Deterministic
INVARIANT C21_InnerLoopFinds
INVARIANT C21_WithinZone
INVARIANT C21_CacheTransparent
INVARIANT C21_RefusedOnlyWhenTooSmall
CHECK_DEADLOCK FALSE
