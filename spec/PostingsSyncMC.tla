---------------------------- MODULE PostingsSyncMC ----------------------------
(***************************************************************************)
(* Leg A for C10, block-set dynamics: the bucket changes (a block is       *)
(* uploaded, deleted, two blocks are replaced by their compaction), the    *)
(* store gateway picks the change up at its next SyncBlocks, and keeps its *)
(* index cache across syncs.  A Series request is answered block by block  *)
(* from the expanded-postings cache (key: block id + matchers) or by       *)
(* expansion.  Property: every answer = the selection over the blocks the  *)
(* store had loaded at its last sync; entries of removed blocks linger in  *)
(* the cache but never answer for another block.                           *)
(***************************************************************************)
EXTENDS Postings, TLC
CONSTANTS MaxSteps

S1 == [id |-> 1, ls |-> [n0 |-> "a"]]
S2 == [id |-> 2, ls |-> [n0 |-> "b"]]
S3 == [id |-> 3, ls |-> [n0 |-> "a", n1 |-> "b"]]
(* blocks 1 and 2: two halves of a stream; 3: their compaction; 4: a block of another stream *)
Content == <<{S1, S3}, {S2}, {S1, S2, S3}, {S2, S3}>>
Ids == 1..4
Lit(nm, ty, v) == [name |-> nm, type |-> ty, kind |-> "lit", alts |-> <<v>>]
QSets == { {Lit("n0", "EQ", "a")}, {Lit("n0", "EQ", "b")}, {Lit("n0", "EQ", "a"), Lit("n1", "EQ", "b")},
           {Lit("n1", "EQ", "")}, {Lit("n0", "NEQ", "a"), Lit("n1", "NEQ", "")} }

(* The cache key of an expanded-postings entry contains the block.  (Sanity: FALSE - entries of  *)
(* one block answer for another - makes the invariant fail.)                                     *)
CacheKeyHasBlock == TRUE
Key(b, ms) == IF CacheKeyHasBlock THEN <<b, ms>> ELSE <<0, ms>>

VARIABLES bucket,    \* blocks in object storage
          gone,      \* blocks that were deleted (a ULID never comes back)
          loaded,    \* blocks the store has loaded (its view since the last sync)
          cache,     \* set of <<key, ids>>
          steps, last
vars == <<bucket, gone, loaded, cache, steps, last>>

Init == /\ bucket \in SUBSET {1, 2, 4} /\ gone = {} /\ loaded = bucket /\ cache = {} /\ steps = 0 /\ last = <<>>
Tick == steps < MaxSteps /\ steps' = steps + 1

Upload == \E b \in {1, 2, 4} \ (bucket \cup gone) :
            /\ Tick /\ bucket' = bucket \cup {b} /\ UNCHANGED <<gone, loaded, cache, last>>
Delete == \E b \in bucket :
            /\ Tick /\ bucket' = bucket \ {b} /\ gone' = gone \cup {b} /\ UNCHANGED <<loaded, cache, last>>
Compact == /\ {1, 2} \subseteq bucket /\ 3 \notin bucket \cup gone
           /\ Tick /\ bucket' = (bucket \ {1, 2}) \cup {3} /\ gone' = gone \cup {1, 2}
           /\ UNCHANGED <<loaded, cache, last>>
(* SyncBlocks: load what is new, drop what is gone; the index cache is untouched *)
Sync == /\ loaded # bucket /\ Tick /\ loaded' = bucket /\ UNCHANGED <<bucket, gone, cache, last>>

Entry(b, ms) == { e \in cache : e[1] = Key(b, ms) }
LazySets == { {}, {"n0"}, {"n1"} }
(* the expansion of every (block, selectors, lazy choice): a constant table, evaluated once *)
Expanded == [b \in Ids, ms \in QSets, L \in LazySets |->
                ExpandNames(Content[b], ms, IF L \in LazyChoices(Content[b], ms) THEN L ELSE {})]
PerBlock(b, ms, L) ==
    IF Entry(b, ms) # {} THEN (CHOOSE e \in Entry(b, ms) : TRUE)[2] ELSE Expanded[b, ms, L]
Query == \E ms \in QSets : \E L \in LazySets :
           /\ Tick
           /\ last' = <<ms, loaded, UNION { PerBlock(b, ms, L) : b \in loaded }>>
           /\ cache' = cache \cup { <<Key(b, ms), PerBlock(b, ms, L)>> : b \in { x \in loaded : Entry(x, ms) = {} } }
           /\ UNCHANGED <<bucket, gone, loaded>>
Evict == /\ cache # {} /\ Tick /\ \E e \in cache : cache' = cache \ {e}
         /\ UNCHANGED <<bucket, gone, loaded, last>>
Next == Upload \/ Delete \/ Compact \/ Sync \/ Query \/ Evict
Spec == Init /\ [][Next]_vars

Selection == [b \in Ids, ms \in QSets |-> SelectIds(Content[b], ms)]
C10_AnswerIsSelectionOverLoadedBlocks ==
    last # <<>> => last[3] = UNION { Selection[b, last[1]] : b \in last[2] }
LoadedFollowsBucketAtSync == loaded \subseteq bucket \cup gone
View == <<bucket, gone, loaded, cache, last>>     \* (not used: with breadth-first workers racing, a VIEW that hides the bound makes the explored set depend on timing)
=============================================================================
