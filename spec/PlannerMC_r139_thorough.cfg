\* C30 leg A thorough, planner "tsdb", ranges 1/3/9 on the grid 0..9 (blocks up to length 9, misaligned included),
\* <= 3 blocks, <= 1 no-compact mark
SPECIFICATION Spec
CONSTANTS Ranges <- R139
          LoNeg = 0
          Hi = 9
          MaxLen = 9
          MaxBlocks = 3
          MaxNC = 1
          MaxTomb = 0
          MaxFailed = 0
          TombVals = {0}
          Sizes = {1}
          Modes <- ModesTsdb
          CaseBlocks = 3
          CaseFlagBlocks = 2
INVARIANTS PlanSafe FixpointOK SortedInput
PROPERTIES Variant
VIEW View
CHECK_DEADLOCK FALSE
