------------------------------ MODULE C12Trace ------------------------------
(***************************************************************************)
(* Leg C for C12.  One trace line per (list, operation sequence):          *)
(*   list       the original list as runs <<start, step, count>> (integer  *)
(*              space: the values, or their order-preserving ranks)        *)
(*   ops        <<"n">> | <<"s", target>> in call order                    *)
(*   res[g]     one group of codec variants (encoder x decoder mode) that  *)
(*              were observed to behave identically:                       *)
(*     variants   names, e.g. "dss/pool"                                   *)
(*     encerr, decerr, drainerr, operr, panic   "" or the error            *)
(*     decoded    what a fresh decode returned through Next, as runs       *)
(*                (the same canonical compression as list)                 *)
(*     out[k]     <<ret, at>>: result of ops[k] and At() right after it    *)
(*     decoded2   the SAME encoded bytes decoded once more after all that, *)
(*                drained with Next; againerr its error                    *)
(*     seekwalk   the same bytes decoded again and walked with             *)
(*                Seek(At()+1) from the start (strict = the list has no    *)
(*                duplicates; otherwise not done)                          *)
(*     intact     the encoded bytes were not modified (informational)      *)
(*   cross[g]   which decoder reads which encoding: groups of combos        *)
(*              "<encoding>><decoder entry point>" with the same outcome    *)
(*              (err, panic, or the drained list as runs).  Encodings: dvs, *)
(*              dss, dss2, be32 (raw big-endian postings), and dvs/dss with *)
(*              a damaged, truncated or missing prefix, and the empty blob; *)
(*              entry points: hdr (decodePostings, dispatch on the prefix), *)
(*              cached (decodeCachedPostings), dvs, dss (own decoders)      *)
(*   sub        the list ("all"), the list without its first value         *)
(*              ("first") and without its last value ("last"), as runs     *)
(*   pooled[k]  after a decode + close of the whole list: codec, which of  *)
(*              the three lists was decoded (pooling on) while the others  *)
(*              were open too, what its interleaved Next calls returned    *)
(* Judged with the property-level operators of PostingsCodec only.         *)
(***************************************************************************)
EXTENDS TraceLib, PostingsCodec

(* run the recorded results through the contract; 0 = all accepted, k = the k-th call is the    *)
(* first whose result the contract does not allow                                                *)
RECURSIVE FirstBad(_, _, _, _, _)
FirstBad(R, S, ops, out, k) ==
    IF k > Len(ops) \/ k > Len(out) THEN 0
    ELSE LET S2 == StepStates(R, S, ops[k], out[k][1], out[k][2]) IN
         IF S2 = {} THEN k ELSE FirstBad(R, S2, ops, out, k + 1)

JudgeGroup(e, g) ==
    LET bad == FirstBad(e.list, Fresh, e.ops, g.out, 1) IN
    (IF g.panic = "" THEN {} ELSE {"no-panic"})
    \cup (IF g.encerr = "" /\ g.decerr = "" THEN {} ELSE {"sorted-list-encodes-and-decodes"})
    \cup (IF g.panic # "" \/ g.encerr # "" \/ g.decerr # "" THEN {}
          ELSE (* "decodes to the same list" *)
               (IF g.decoded = e.list /\ g.drainerr = "" THEN {} ELSE {"decodes-to-the-same-list"})
               (* a cached encoding is decoded many times: "decodes to the same list" holds each time *)
               \cup (IF g.decoded2 = e.list /\ g.againerr = "" THEN {} ELSE {"decodes-to-the-same-list-again"})
               (* seeking to (current value + 1) from the start visits every value of a duplicate-free list *)
               \cup (IF e.strict => g.seekwalk = e.list THEN {} ELSE {"seek-walk-visits-every-value"})
               (* "seeking in the decoded list behaves as seeking in the original" *)
               \cup (IF bad = 0 THEN {}
                     ELSE IF e.ops[bad][1] = "s" THEN {"seek-behaves-as-on-the-original"}
                     ELSE {"next-behaves-as-on-the-original"})
               \cup (IF Len(g.out) = Len(e.ops) /\ g.operr = "" THEN {} ELSE {"every-call-answered-without-error"}))

(* "encoded with any of the cache codecs decodes to the same list": the entry points that must   *)
(* read an encoding do; and no entry point ever hands out a DIFFERENT list for any blob (it      *)
(* returns the list or refuses) - a damaged or foreign prefix is rejected, not misread.          *)
MustDecode == { "dvs>hdr", "dvs>cached", "dvs>dvs", "dss>hdr", "dss>cached", "dss>dss",
                "dss2>hdr", "dss2>cached", "dss2>dss", "be32>cached" }
JudgeCross(e) ==
    LET ok(g) == e.cross[g].err = "" /\ e.cross[g].panic = ""
        tried == UNION { Range(e.cross[g].combos) : g \in DOMAIN e.cross }
        read == UNION { Range(e.cross[g].combos) : g \in { x \in DOMAIN e.cross : ok(x) /\ e.cross[x].decoded = e.list } }
    IN  (IF \A g \in DOMAIN e.cross : e.cross[g].panic = "" THEN {} ELSE {"no-panic"})
        \cup (IF \A g \in DOMAIN e.cross : ok(g) => e.cross[g].decoded = e.list THEN {} ELSE {"no-decoder-misreads-an-encoding"})
        \cup (IF (MustDecode \cap tried) \subseteq read THEN {} ELSE {"matching-decoder-reads-its-encoding"})

(* "decodes to the same list": also when other decoded lists are alive at the same time *)
JudgePooled(e) ==
    IF \A k \in DOMAIN e.pooled : e.pooled[k].err = "" /\ e.pooled[k].decoded = e.sub[e.pooled[k].which]
      THEN {} ELSE {"every-open-decoded-list-yields-its-own-values"}

JudgeLine(e) == UNION { JudgeGroup(e, e.res[g]) : g \in DOMAIN e.res } \cup JudgeCross(e) \cup JudgePooled(e)

(* Model conformance (never a verdict): the algorithm-level decoder predicts every <<ret, at>>  *)
(* (chunking is invisible - PostingsCodecMC - so the one-buffer decoder is used; short lists).  *)
Big == 2147483647
Drift(e) ==
    /\ RunsLen(e.list) <= 64
    /\ \E g \in DOMAIN e.res :
          /\ e.res[g].panic = "" /\ e.res[g].encerr = "" /\ e.res[g].decerr = ""
          /\ e.res[g].out # AlgoRun(AlgoOpen(Expand(e.list), Big, 0), e.ops, Big)

VARIABLE l
TraceInit == l = 1
TraceNext == /\ l <= TraceLen
             /\ CaseReject(l, Trace[l], JudgeLine(Trace[l]))
             /\ (IF Drift(Trace[l]) THEN PrintT(<<"DRIFT", l, Trace[l]["case"]>>) ELSE TRUE)
             /\ l' = l + 1
TraceSpec == TraceInit /\ [][TraceNext]_l
TraceAccepted == TLCGet("stats").diameter = TraceLen + 1
=============================================================================
