\* C21 leg A quick: <= 5 endpoints (1 section each) / <= 3 endpoints (2 sections each), <= 3 zones,
\* shard size <= 4, <= 3 picks per zone, LRU of 1 entry, 3 requests; cases: zone vectors up to 6 endpoints
SPECIFICATION Spec
CONSTANTS MaxN = 5
          MaxZones = 3
          SecChoices = {1, 2}
          MaxSecs = 6
          MaxSize = 4
          MaxTake = 3
          CacheCap = 1
          MaxReqs = 3
          CaseMaxN = 6
INVARIANT C21_Size
INVARIANT C21_Deterministic
INVARIANT C21_InnerLoopFinds
INVARIANT C21_WithinZone
INVARIANT C21_CacheTransparent
INVARIANT C21_RefusedOnlyWhenTooSmall
PROPERTY C21_Terminates
CHECK_DEADLOCK FALSE
