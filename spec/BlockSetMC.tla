----------------------------- MODULE BlockSetMC -----------------------------
(***************************************************************************)
(* Leg A for C15: the getFor recursion, one action per loop iteration /    *)
(* call / return, over every layout of <= MaxBlocks blocks on the time     *)
(* grid 0..Grid (any resolutions, gaps, overlaps, identical twins), every  *)
(* query range on the grid and every maximum resolution.                   *)
(***************************************************************************)
EXTENDS BlockSet, TLC, Json, IOUtils, SequencesExt
CONSTANTS Grid,          \* instants 0..Grid
          MaxBlocks,     \* layouts of 0..MaxBlocks blocks are model-checked
          CaseBlocks,    \* layouts of 0..CaseBlocks blocks are handed to the harness (leg B)
          WithMatchers   \* TRUE: requests also carry block matchers (every subset of the layout's blocks matches)

ResSet == { Resolutions[i] : i \in 1..3 }
Types == { [res |-> r, min |-> a, max |-> b] : r \in ResSet, a \in 0..Grid, b \in 0..Grid }
TypeSeq == SetToSeq({ ty \in Types : ty.min < ty.max })
T == Len(TypeSeq)

(* multisets of block types = non-decreasing index sequences; the id of a block is its position *)
RECURSIVE NonDec(_, _)
NonDec(n, lo) == IF n = 0 THEN {<<>>}
                 ELSE UNION { { <<ty>> \o s : s \in NonDec(n - 1, ty) } : ty \in lo..T }
Layout(s) == { [id |-> k, res |-> TypeSeq[s[k]].res, min |-> TypeSeq[s[k]].min, max |-> TypeSeq[s[k]].max] : k \in DOMAIN s }
LayoutsUpTo(n) == UNION { { Layout(s) : s \in NonDec(m, 1) } : m \in 0..n }
Queries == { [mint |-> m, maxt |-> n, maxres |-> r] : m \in 0..Grid, n \in 0..Grid, r \in ResSet }

(* -------- algorithm level: getFor with an explicit call stack -------- *)
(* A frame is one activation of getFor: level i, its range mint..maxt, the loop variables start *)
(* and k (index into the sorted level slice), and where it is: "enter" (range check), "loop"    *)
(* (top of the for loop), "blk" (the gap recursion before block k has returned; append the      *)
(* block, move start), "ret" (the trailing recursion has returned).                             *)
VARIABLES blocks, lv, q, stack, out, res, done, steps   \* lv[i] = the sorted slice s.blocks[i] (fixed per behaviour)
vars == <<blocks, lv, q, stack, out, res, done, steps>>

NotSet == {[id |-> 0, res |-> 0, min |-> 0, max |-> 0]}     \* value of `blocks` before the call
Tick == steps' = steps + 1
Top == stack[Len(stack)]
Pop == stack' = SubSeq(stack, 1, Len(stack) - 1)
SetTop(f) == stack' = [stack EXCEPT ![Len(stack)] = f]
SetTopPush(f, g) == stack' = Append([stack EXCEPT ![Len(stack)] = f], g)
Frame(i, lo, hi) == [i |-> i, mint |-> lo, maxt |-> hi, start |-> lo, k |-> 1, ph |-> "enter"]

Enter == /\ blocks # NotSet /\ ~done /\ stack # <<>> /\ Top.ph = "enter"
         /\ IF Top.mint > Top.maxt THEN Pop ELSE SetTop([Top EXCEPT !.ph = "loop"])
         /\ UNCHANGED <<blocks, lv, q, out, res, done>> /\ Tick

Loop == /\ ~done /\ stack # <<>> /\ Top.ph = "loop"
        /\ LET f == Top
               lvl == lv[f.i]
           IN  IF f.k > Len(lvl) \/ lvl[f.k].min > f.maxt
                 THEN (* loop over (or break): fill the rest with the finer level *)
                      IF f.i < 3 THEN SetTopPush([f EXCEPT !.ph = "ret"], Frame(f.i + 1, f.start, f.maxt))
                                 ELSE Pop
               ELSE IF lvl[f.k].max <= f.mint
                 THEN SetTop([f EXCEPT !.k = f.k + 1])                       \* continue
               ELSE IF f.i < 3
                 THEN SetTopPush([f EXCEPT !.ph = "blk"], Frame(f.i + 1, f.start, lvl[f.k].min - 1))
                 ELSE SetTop([f EXCEPT !.ph = "blk"])
        /\ UNCHANGED <<blocks, lv, q, out, res, done>> /\ Tick

Blk == /\ ~done /\ stack # <<>> /\ Top.ph = "blk"
       /\ LET f == Top
              b == lv[f.i][f.k]
          IN  /\ out' = (IF b.id \in AllowedIds(blocks, q) THEN Append(out, b.id) ELSE out)   \* block matchers
              /\ SetTop([f EXCEPT !.ph = "loop", !.k = f.k + 1, !.start = NewStart(f.start, b)])
       /\ UNCHANGED <<blocks, lv, q, res, done>> /\ Tick

Ret == /\ ~done /\ stack # <<>> /\ Top.ph = "ret"
       /\ Pop
       /\ UNCHANGED <<blocks, lv, q, out, res, done>> /\ Tick

Finish == /\ blocks # NotSet /\ ~done /\ stack = <<>>
          /\ res' = (IF DedupResult THEN DedupSeq(out, {}) ELSE out)
          /\ done' = TRUE
          /\ UNCHANGED <<blocks, lv, q, stack, out>> /\ Tick

Returned == done /\ UNCHANGED vars       \* the call has returned; nothing else happens

(* The query is chosen in Init, the layout by the first action (so that TLC's workers share the  *)
(* enumeration of the layouts instead of one thread computing every initial state).             *)
Init == /\ blocks = NotSet
        /\ lv = <<>>
        /\ q \in { qq \in Queries : qq.mint <= qq.maxt + 1 }     \* incl. the empty ranges mint = maxt+1
        /\ stack = <<>>
        /\ out = <<>>
        /\ res = <<>>
        /\ done = FALSE
        /\ steps = 0

Call == /\ blocks = NotSet
        /\ blocks' \in LayoutsUpTo(MaxBlocks)
        /\ lv' = [i \in 1..3 |-> Level(blocks', i)]
        /\ stack' = << Frame(FirstLevel(q.maxres), q.mint, q.maxt) >>
        /\ IF WithMatchers
             THEN \E al \in SUBSET { b.id : b \in blocks' } : q' = [mint |-> q.mint, maxt |-> q.maxt, maxres |-> q.maxres, allowed |-> al]
             ELSE q' = q
        /\ UNCHANGED <<out, res, done, steps>>

Next == Call \/ Enter \/ Loop \/ Blk \/ Ret \/ Finish \/ Returned

Spec == Init /\ [][Next]_vars

(* -------- C15 as an invariant of the algorithm -------- *)
C15_SelectionSatisfiesProperty == done => Judge(blocks, q, res) = {}
(* Termination without a temporal formula (liveness checking over 10^5..10^7 initial states is   *)
(* far too slow): every step increments `steps`, `steps` is bounded (so no behaviour loops       *)
(* before `done`), and the deadlock check shows that a step is always possible until `done`.     *)
C15_Terminates == steps <= 4 + 8 * (MaxBlocks + 1)
(* the functional transcription used by the trace spec (DRIFT) is the same algorithm *)
FunctionalFormAgrees == done => res = GetFor(blocks, q)
StackBounded == Len(stack) <= 3

(* -------- leg B: the layouts handed to the harness -------- *)
CasesFile == IF "VERIF_CASES" \in DOMAIN IOEnv THEN IOEnv.VERIF_CASES ELSE "cases.ndjson"
CaseOf(s) == [g |-> Grid, blocks |-> [k \in DOMAIN s |-> <<TypeSeq[s[k]].res, TypeSeq[s[k]].min, TypeSeq[s[k]].max>>]]
CaseSeq == SetToSeq(UNION { { CaseOf(s) : s \in NonDec(m, 1) } : m \in 0..CaseBlocks })
ASSUME ndJsonSerialize(CasesFile, CaseSeq)
=============================================================================
