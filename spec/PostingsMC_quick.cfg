\* C10 leg A quick: worlds of <= 2 series (names n0 n1, values a b absent), matcher sets of <= 2 from
\* 2 names x (EQ/NEQ x 3 literals + RE/NRE x {.*, .+, 2 alternations, 1 class}), every lazy choice;
\* histories of <= 2 queries x 3 time ranges + evictions over single = matchers on n0 and pairs n0= , n1=
SPECIFICATION Spec
CONSTANTS MaxSeries = 2
          MaxMatchers = 2
          MaxHistory = 2
          Lits = {"", "a", "c"}
          MatcherNames = {"n0", "n1"}
          HistLits = {"", "a"}
          HistNames = {"n0"}
          HistTypes = {"EQ"}
          SetAlts <- SetAltsQuick
          ClsAlts <- ClsAltsQuick
INVARIANT C10_AnswerIsTheSelection
INVARIANT CacheHoldsSelections
INVARIANT MergeOrderIrrelevant
CHECK_DEADLOCK FALSE
