\* C10 leg A quick: worlds of <= 2 series (names n0 n1, values a b absent), matcher sets of <= 2 from
\* 3 names x (EQ/NEQ x 4 literals + RE/NRE x {.*, .+, 3 alternations, 2 classes}), every lazy choice;
\* histories of <= 2 queries + evictions over the n0 matchers
SPECIFICATION Spec
CONSTANTS MaxSeries = 2
          MaxMatchers = 2
          MaxHistory = 2
          HistNames = {"n0"}
          SetAlts <- SetAltsQuick
          ClsAlts <- ClsAltsQuick
INVARIANT C10_AnswerIsTheSelection
INVARIANT CacheHoldsSelections
INVARIANT MergeOrderIrrelevant
CHECK_DEADLOCK FALSE
