\* C37/C38 leg A quick: grid 0..7, <= 3 samples, counter values {0,1,2} (growth, flat, resets; NaN / stale tokens: thorough tier and random cases), r1 = 2, r2 = 4,
\* level-1 chunk counts {1,3}, level-2 chunk counts 1..2: 1 789 series x 4; all go to the harness
SPECIFICATION Spec
CONSTANTS GridLen = 8
          MaxSamples = 3
          Vals = {0, 1, 2}
          Tokens = {}
          R1 = 2
          Mults = {2}
          Counts1 = {1, 3}
          Counts2 = {1, 2}
          CaseSamples = 3
          CaseCounts1 = {1, 3}
INVARIANTS C37_Level1 C37_Level2 C37_NonEmpty C37_IncreasePreserved
           C38_TotalsConserved C38_Ordered C38_WithinSpan L2ExactWhenOnePart L2ChunksOrdered StepsAgreeWithAlgo
PROPERTY AlwaysProgress
CHECK_DEADLOCK TRUE
