\* phase 2 leg A thorough (native histograms): grid 0..7, <= 4 samples, three histograms or a stale
\* marker, counter and gauge series, r1 = 2, r2 = 4, chunk counts {1,2,3} x {1,2}
SPECIFICATION Spec
CONSTANTS GridLen = 8
          MaxSamples = 4
          Vecs <- VecsDefault
          WithStale = TRUE
          R1 = 2
          Mults = {2}
          Counts1 = {1, 2, 3}
          Counts2 = {1, 2}
          CaseSamples = 3
INVARIANTS H36_Exact H36_Done H38_TotalsConserved H38_Ordered H38_LastWindow HCtrGaugeIsLast StepsAgreeWithAlgo
PROPERTY AlwaysProgress
CHECK_DEADLOCK TRUE
