\* C30 leg A thorough, planner "tsdb", all flags: ranges 1/2/4 on the grid -1..4, <= 3 blocks, <= 2 no-compact marks,
\* <= 1 block with tombstones (5 % = not enough, or 10 %), <= 1 block whose compaction failed
SPECIFICATION Spec
PROPERTY Terminates
CONSTANTS Ranges <- R124
          LoNeg = 1
          Hi = 4
          MaxLen = 4
          MaxBlocks = 3
          MaxNC = 2
          MaxTomb = 1
          MaxFailed = 1
          TombVals = {0, 1, 2}
          Sizes = {1}
          Modes <- ModesTsdb
          CaseBlocks = 1
          CaseFlagBlocks = 2
INVARIANTS PlanSafe FixpointOK SortedInput
PROPERTIES Variant
VIEW View
CHECK_DEADLOCK FALSE
