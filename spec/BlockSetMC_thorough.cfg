\* C15 leg A thorough: instants 0..4, layouts of <= 3 blocks (30 block types, multisets),
\* all query ranges x 3 max resolutions; all <=3-block layouts go to the harness
SPECIFICATION Spec
CONSTANTS Grid = 4
          MaxBlocks = 3
          CaseBlocks = 3
          WithMatchers = FALSE
INVARIANT C15_SelectionSatisfiesProperty
INVARIANT FunctionalFormAgrees
INVARIANT StackBounded
INVARIANT C15_Terminates
CHECK_DEADLOCK TRUE
