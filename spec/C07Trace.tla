------------------------------ MODULE C07Trace ------------------------------
(***************************************************************************)
(* Leg C for C07 (label name/value APIs cover every label seen by Series). *)
(* One trace line per executed case (see harness/storeapis/common.go):     *)
(*   in.world, in.req   as in C08Trace; the SAME selectors, time range and *)
(*                      replica-label list go into all three calls         *)
(*   tsdb / bucket / proxy / prom (sidecar) / recv (receiver) =            *)
(*     [series: [kind, code, ls: label-pair sequence per frame, ...],      *)
(*      names:  [kind, code, vals: names returned by LabelNames],          *)
(*      values: <<[n: label name, kind, code, vals: LabelValues(n)], ...>>]*)
(* Judged with the property-level operators C07NamesMissing /              *)
(* C07ValuesMissing of StoreAPIs.  Weakest reading: supersets are fine; a  *)
(* Series call that failed returned no series (nothing to cover); a label  *)
(* call that failed returned nothing.                                      *)
(***************************************************************************)
EXTENDS TraceLib, StoreAPIs

Kinds == <<"tsdb", "bucket", "proxy", "prom", "recv">>
NK == 5

SeriesOf(j) == { [l |-> LsOf(s.l), slots |-> SaRange(s.slots)] : s \in SaRange(j.series) }
SourceOf(j) == [ext |-> LsOf(j.ext), series |-> SeriesOf(j)]
HeadOf(e) == SourceOf(e.in.world.head)
BlocksOf(e) == { SourceOf(b) : b \in SaRange(e.in.world.blocks) }
(* phase 2: receiver tenants (external labels = the head's, overridden by tlabel = tenant id) *)
TenantsOf(e) == { [ext |-> TenantExt(LsOf(e.in.world.head.ext), e.in.world.recv.tlabel, t.id), series |-> SeriesOf(t)] :
                    t \in SaRange(e.in.world.recv.tenants) }
WorldOf(e) == [W |-> e.in.world.W, head |-> HeadOf(e), blocks |-> BlocksOf(e), tenants |-> TenantsOf(e)]
OptOf(e) == [skip |-> e.in.cfg.skip, samples |-> e.in.cfg.samples, pmatch |-> ~e.in.cfg.promold]
ReqOf(e) == [ms |-> SaRange(e.in.req.ms), rl |-> SaRange(e.in.req.rl), mint |-> e.in.req.mint, maxt |-> e.in.req.maxt]

Tag(kind, clauses) == { kind \o ":" \o c : c \in clauses }

(* the observation of one store as the property sees it *)
ReturnedSeries(o) == IF o.series.kind = "ok"
                       THEN { LsOf(o.series.ls[i]) : i \in { j \in DOMAIN o.series.ls : NoDupNames(o.series.ls[j]) } }
                       ELSE {}
ReturnedNames(o) == IF o.names.kind = "ok" THEN SaRange(o.names.vals) ELSE {}
ReturnedValues(o) == [ n \in { o.values[i].n : i \in DOMAIN o.values } |->
                         LET v == o.values[CHOOSE i \in DOMAIN o.values : o.values[i].n = n]
                         IN IF v.kind = "ok" THEN SaRange(v.vals) ELSE {} ]

(* The Prometheus HTTP API refuses selector sets that match the empty label set (StoreAPIs,     *)
(* PromRefuses): the sidecar then answers the label call with InvalidArgument.  A refused call   *)
(* gave no answer and is not judged.  The class is decided from the case input alone.            *)
Refused(e, kind, call) ==
    kind = "prom" /\ call.kind = "error" /\ call.code = "InvalidArgument" /\ PromRefuses(ReqOf(e).ms, HeadOf(e).ext)
JudgedValues(e, kind) ==
    LET o == e[kind]
        idx == { i \in DOMAIN o.values : ~Refused(e, kind, o.values[i]) }
    IN [ n \in { o.values[i].n : i \in idx } |->
           LET v == o.values[CHOOSE i \in idx : o.values[i].n = n]
           IN IF v.kind = "ok" THEN SaRange(v.vals) ELSE {} ]

JudgeStore(e, kind) ==
    LET o == e[kind] IN
    Tag(kind,
        (* "every label name ... that appears on a series returned by a store's Series call is also
           returned by that store's label-names ... call" *)
        (IF ~Refused(e, kind, o.names) /\ C07NamesMissing(ReturnedSeries(o), ReturnedNames(o)) # {}
           THEN {"label-name-on-series-missing-from-LabelNames"} ELSE {})
        \cup
        (* "... every value of a label ... is also returned by that store's ... label-values call" *)
        (IF C07ValuesMissing(ReturnedSeries(o), JudgedValues(e, kind)) # {}
           THEN {"label-value-on-series-missing-from-LabelValues"} ELSE {})
        \cup
        (IF o.series.kind = "panic" \/ o.names.kind = "panic" \/ \E i \in DOMAIN o.values : o.values[i].kind = "panic"
           THEN {"store-panicked"} ELSE {}))

Judge(e) == UNION { JudgeStore(e, Kinds[i]) : i \in 1..NK }

(* Model conformance (never a verdict): exact prediction of the three answers. *)
DriftStore(e, kind) ==
    LET o == e[kind]
        p == AlgoSeriesW(kind, WorldOf(e), ReqOf(e), OptOf(e))
    IN \/ (o.series.kind # "panic" /\ ~( (p.kind = "invalid") = (o.series.code = "InvalidArgument")
                                        /\ ReturnedSeries(o) = p.out ))
       \/ (o.names.kind = "ok" /\ ReturnedNames(o) # AlgoNamesW(kind, WorldOf(e), ReqOf(e), OptOf(e)))
       \/ \E i \in DOMAIN o.values :
            o.values[i].kind = "ok" /\
            SaRange(o.values[i].vals) # AlgoValuesW(kind, WorldOf(e), ReqOf(e), o.values[i].n, OptOf(e))
(* worlds with really downsampled blocks: the downsampler re-cuts chunks (one aggregate chunk may span
   several slots), which the slot model of the algorithm level does not describe: no prediction *)
HasDownsampled(e) == \E i \in DOMAIN e.in.world.blocks : e.in.world.blocks[i].res > 0
Drift(e) == ~HasDownsampled(e) /\ \E i \in 1..NK : DriftStore(e, Kinds[i])

VARIABLE l
TraceInit == l = 1
TraceNext == /\ l <= TraceLen
             /\ CaseReject(l, Trace[l], Judge(Trace[l]))
             /\ (IF Drift(Trace[l]) THEN PrintT(<<"DRIFT", l, Trace[l]["case"]>>) ELSE TRUE)
             /\ l' = l + 1
TraceSpec == TraceInit /\ [][TraceNext]_l
TraceAccepted == TLCGet("stats").diameter = TraceLen + 1
=============================================================================
