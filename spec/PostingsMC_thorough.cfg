\* C10 leg A thorough: worlds of <= 3 series, matcher sets of <= 2 from 3 names x (EQ/NEQ x 4 literals +
\* RE/NRE x {.*, .+, 6 alternations, 4 classes}), every lazy choice; histories of <= 3 queries + evictions
\* over single n0 matchers (= and !~)
SPECIFICATION Spec
CONSTANTS MaxSeries = 3
          MaxMatchers = 2
          MaxHistory = 3
          Lits = {"", "a", "b", "c"}
          MatcherNames = {"n0", "n1", "zz"}
          HistNames = {"n0"}
          HistTypes = {"EQ", "NRE"}
          SetAlts <- SetAltsThorough
          ClsAlts <- ClsAltsThorough
INVARIANT C10_AnswerIsTheSelection
INVARIANT CacheHoldsSelections
INVARIANT MergeOrderIrrelevant
CHECK_DEADLOCK FALSE
