\* C10 leg A thorough: worlds of <= 2 series (names n0 n1, values a b absent), matcher sets of <= 2 from
\* 3 names (n0, n1 and the unused zz) x (EQ/NEQ x 3 literals + RE/NRE x {.*, .+, 4 alternations, 2 classes}),
\* every lazy choice; histories of <= 3 queries x 3 time ranges + evictions over single = / != matchers on n0 and pairs n0= , n1=
SPECIFICATION Spec
CONSTANTS MaxSeries = 2
          MaxMatchers = 2
          MaxHistory = 3
          Lits = {"", "a", "c"}
          MatcherNames = {"n0", "n1", "zz"}
          HistLits = {"", "a", "c"}
          HistNames = {"n0"}
          HistTypes = {"EQ", "NEQ"}
          SetAlts <- SetAltsThorough
          ClsAlts <- ClsAltsThorough
INVARIANT C10_AnswerIsTheSelection
INVARIANT CacheHoldsSelections
INVARIANT MergeOrderIrrelevant
CHECK_DEADLOCK FALSE
