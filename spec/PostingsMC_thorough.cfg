\* C10 leg A thorough: worlds of <= 3 series, matcher sets of <= 2 from 3 names x (EQ/NEQ x 4 literals +
\* RE/NRE x {.*, .+, 6 alternations, 4 classes}), every lazy choice; histories of <= 3 queries + evictions
\* over the n0 matchers
SPECIFICATION Spec
CONSTANTS MaxSeries = 3
          MaxMatchers = 2
          MaxHistory = 3
          HistNames = {"n0"}
          SetAlts <- SetAltsThorough
          ClsAlts <- ClsAltsThorough
INVARIANT C10_AnswerIsTheSelection
INVARIANT CacheHoldsSelections
INVARIANT MergeOrderIrrelevant
CHECK_DEADLOCK FALSE
