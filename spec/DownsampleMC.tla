---------------------------- MODULE DownsampleMC ----------------------------
(***************************************************************************)
(* Leg A for C36 (and level 1 of C37): DownsampleRaw as a state machine,   *)
(* one step per iteration of the two nested loops                          *)
(*   downsampleRawLoop  (TakeBatch: cut a batch, extend it to the window   *)
(*                       end, drop NaN / stale samples)                    *)
(*   downsampleBatch    (Sample: one raw sample; Flush: the trailing add,  *)
(*                       the chunk is encoded)                             *)
(* checked for EVERY raw series over a small grid: every subset of at most *)
(* MaxSamples grid points, every assignment of Vals / NaN / stale tokens,  *)
(* every resolution in Resolutions, every target chunk count in Counts.    *)
(***************************************************************************)
EXTENDS Downsample, TLC, Json, IOUtils, SequencesExt

CONSTANTS GridLen,        \* timestamps 0..GridLen-1
          MaxSamples,     \* at most that many samples per series
          Vals,           \* sample values (integers >= 0)
          Tokens,         \* subset of {"NaN", "STALE"}
          Resolutions,    \* window lengths r
          Counts,         \* target chunk counts (numChunks)
          CaseSamples     \* leg B: shapes with at most that many samples are handed to the harness

VARIABLES tset, raw, r, nc, pc, p, batch, bi, st, chunks
vars == <<tset, raw, r, nc, pc, p, batch, bi, st, chunks>>

(* ---- all raw series of the scope ---- *)
Grid == 0..(GridLen - 1)
Cells == (Vals \X {"F"}) \cup ({0} \X Tokens)       \* <<value, kind>>
SeriesOn(T) ==        \* T: set of timestamps
    LET tseq == SetToSortSeq(T, <) IN
    { [ts |-> tseq, vs |-> [i \in 1..Len(tseq) |-> f[tseq[i]][1]], ks |-> [i \in 1..Len(tseq) |-> f[tseq[i]][2]]]
        : f \in [T -> Cells] }
TimeSets(maxn) == { S \in SUBSET Grid : Cardinality(S) <= maxn }
RawSeries(maxn) == UNION { SeriesOn(T) : T \in TimeSets(maxn) }
NoRaw == [ts |-> <<>>, vs |-> <<>>, ks |-> <<>>]

BatchSize == (N(raw) \div nc) + 1

(* The input is chosen in two steps (timestamps in Init, values in Assign) only so that TLC  *)
(* enumerates the series in parallel; the run proper starts at pc = "loop".                  *)
Init ==
    /\ tset \in TimeSets(MaxSamples)
    /\ r \in Resolutions
    /\ nc \in Counts
    /\ raw = NoRaw
    /\ pc = "assign" /\ p = 1 /\ batch = <<>> /\ bi = 0 /\ st = St0 /\ chunks = <<>>

Assign ==
    /\ pc = "assign"
    /\ raw' \in SeriesOn(tset)
    /\ pc' = "loop"
    /\ UNCHANGED <<tset, r, nc, p, batch, bi, st, chunks>>

(* downsampleRawLoop, one iteration of `for len(data) > 0`.  *)
TakeBatch ==
    /\ pc = "loop" /\ p <= N(raw)
    /\ LET j == RawBatchEnd(raw, r, BatchSize, p)
           b == RawBatch(raw, p, j)
       IN /\ p' = j + 1
          /\ batch' = b
          /\ IF b = <<>> THEN pc' = "loop" /\ bi' = 0 ELSE pc' = "batch" /\ bi' = 1
    /\ st' = St0
    /\ UNCHANGED <<tset, raw, r, nc, chunks>>

(* downsampleBatch, one iteration of `for _, s := range data`.  *)
Sample ==
    /\ pc = "batch" /\ bi <= Len(batch)
    /\ st' = BatchStep(st, batch[bi], r, batch[Len(batch)].t)
    /\ bi' = bi + 1
    /\ UNCHANGED <<tset, raw, r, nc, pc, p, batch, chunks>>

(* after the loop: trailing add, counter's last raw value, encode.  *)
Flush ==
    /\ pc = "batch" /\ bi > Len(batch)
    /\ chunks' = Append(chunks, ChunkOfRun(batch, BatchFlush(st)))
    /\ pc' = "loop" /\ batch' = <<>> /\ bi' = 0 /\ st' = St0
    /\ UNCHANGED <<tset, raw, r, nc, p>>

Finish ==
    /\ pc = "loop" /\ p > N(raw)
    /\ pc' = "done"
    /\ UNCHANGED <<tset, raw, r, nc, p, batch, bi, st, chunks>>

(* pc = "done" stutters, so that the only deadlock TLC can report is a loop that got stuck   *)
(* before finishing.  p and bi only grow: no deadlock = every run terminates.               *)
Done == pc = "done" /\ UNCHANGED vars
Next == Assign \/ TakeBatch \/ Sample \/ Flush \/ Finish \/ Done
Spec == Init /\ [][Next]_vars

(* ---- properties ---- *)
(* C36 at every step: whatever has been emitted so far (finished chunks and *)
(* the outputs of the batch in progress) is exact for its window.           *)
PartialChunk == [ts |-> Col(st.out, "t"), cnt |-> Col(st.out, "cnt"), sum |-> Col(st.out, "sum"),
                 min |-> Col(st.out, "min"), max |-> Col(st.out, "max")]
C36_EmittedExact == /\ ChunkExact(raw, r, PartialChunk)
                    /\ chunks # <<>> => ChunkExact(raw, r, chunks[Len(chunks)])   \* earlier chunks: earlier states
(* C36 at the end: exact, totals, chunk order.  *)
C36_Done == pc = "done" => /\ ChunksExact(raw, r, chunks)
                           /\ ChunksTotalsEqual(raw, chunks)
                           /\ ChunksOrdered(chunks)
(* C37 level 1: the reset-applying iterator over the counter aggregate.  *)
C37_Level1 == pc = "done" => LET em == CounterIter(chunks) IN
                             EmittedAdjusted(raw, em) /\ EmittedNonEmpty(raw, em)
(* the step machine and the closed-form transcription are the same algorithm *)
StepsAgreeWithAlgoRaw == pc = "done" => chunks = AlgoRaw(raw, r, nc)
(* the one-pass Adj table is the Adj of the statement *)
AdjTableIsAdjDef == pc = "loop" /\ p = 1 =>
    LET tab == AdjTable(raw) IN \A i \in AllNum(raw) : tab[i] = AdjDef(raw, i)
Progress == pc # "done" => (pc = "assign" \/ p' > p \/ bi' > bi \/ pc' = "done" \/ (pc = "batch" /\ pc' = "loop"))
AlwaysProgress == [][Progress]_vars      \* with deadlock checking on: termination

(* ---- leg B: every small shape x chunk count goes to the harness ---- *)
CasesFile == IF "VERIF_CASES" \in DOMAIN IOEnv THEN IOEnv.VERIF_CASES ELSE "cases.ndjson"
CaseSeq == SetToSeq({ [ts |-> s.ts, vs |-> s.vs, ks |-> s.ks, nc |-> c, r |-> rr, glen |-> GridLen]
                        : s \in RawSeries(CaseSamples), c \in Counts, rr \in Resolutions })
ASSUME ndJsonSerialize(CasesFile, CaseSeq)
=============================================================================
