\* C35 leg A thorough, second configuration (phase 2): 3 local blocks; one crash anywhere; one block may APPEAR LATE
\* (backfill / a compacted block becoming eligible); MultiTSDB pruning of the directory and the local TSDB retention
\* may run at any moment, guarded only by the shipper file
SPECIFICATION Spec
CONSTANTS N = 3
          MaxCrashes = 1
          Features = {"crash", "prune", "late"}
          MaxFails = 0
          MtLen = 3
          CaseN = 2
          CaseCrashes = 2
          CaseKinds = {"L1", "E", "L2"}
          CasePre = {"absent", "partial", "complete"}
INVARIANTS C35_PrunedOnlyWhenShipped C35_LocalDeleteOnlyWhenShipped C35_RecordedWereSeenComplete C35_SuccessfulSyncShippedAll C28_Holds
PROPERTIES EventuallyShipped
CHECK_DEADLOCK FALSE
