----------------------------- MODULE AggrChunkMC -----------------------------
(* Leg A for C39: every presence pattern x sub-chunk contents x requested type. *)
EXTENDS AggrChunk, TLC, Json, IOUtils, SequencesExt
CONSTANTS Bytes, Lens      \* Lens: the data lengths to enumerate (chosen around powers of Base)

(* -------- algorithm level: the Get loop, one iteration per step -------- *)
(* State of the loop: b = remaining bytes, i = aggregate index, x = last   *)
(* non-empty entry seen, res = result once decided.                        *)
VARIABLES chks, t, b, i, x, res
vars == <<chks, t, b, i, x, res>>

Undecided == [kind |-> "undecided"]

(* One iteration of `for i := 0; i <= t; i++`.  An explicitly zero length  *)
(* is examined before the size check (the entry has no payload at all).    *)
Iterate ==
    /\ res = Undecided
    /\ i <= t
    /\ LET d == DecodeUvarint(b) IN
       IF d.n < 1
         THEN res' = [kind |-> "error"] /\ UNCHANGED <<b, i, x>>
       ELSE LET l == d.val
                rest == SubSeqFrom(b, d.n + 1) IN
            IF l = 0
              THEN IF i = t
                     THEN res' = [kind |-> "notexist"] /\ UNCHANGED <<b, i, x>>
                     ELSE b' = rest /\ i' = i + 1 /\ UNCHANGED <<x, res>>
            ELSE IF Len(rest) < l + 1
              THEN res' = [kind |-> "error"] /\ UNCHANGED <<b, i, x>>
            ELSE /\ x' = SubSeq(rest, 1, l + 1)
                 /\ b' = SubSeqFrom(rest, l + 2)
                 /\ i' = i + 1
                 /\ UNCHANGED res
    /\ UNCHANGED <<chks, t>>

Finish ==
    /\ res = Undecided
    /\ i > t
    /\ res' = [kind |-> "chunk", enc |-> Head(x), data |-> Tail(x)]
    /\ UNCHANGED <<chks, t, b, i, x>>

Next == Iterate \/ Finish

(* -------- C39 as an invariant of the algorithm -------- *)
C39_GetMatchesExpected == res # Undecided => res = Expected(chks, t)
C39_Terminates == <>(res # Undecided)

(* -------- model -------- *)
DataSeqs == UNION { [1..n -> Bytes] : n \in Lens }
ChunkVals == {Null} \cup { [enc |-> 1, data |-> d] : d \in DataSeqs }

Init ==
    /\ chks \in [Types -> ChunkVals]
    /\ t \in Types
    /\ b = Encode(chks)
    /\ i = 0
    /\ x = <<>>
    /\ res = Undecided

Spec == Init /\ [][Next]_vars /\ WF_vars(Next)

(* Leg B: the structural cases (presence pattern, lengths, requested type) TLC hands to the   *)
(* harness, which fills them with real XOR chunks.  Written once, at startup.                 *)
CasesFile == IF "VERIF_CASES" \in DOMAIN IOEnv THEN IOEnv.VERIF_CASES ELSE "cases.ndjson"
Shapes == [Types -> {0} \cup Lens]    \* 0 = absent, n = present with abstract length n (the harness maps
                                      \* n to concrete byte lengths on the same side of the powers of 128)
CaseSeq == SetToSeq({ [lens |-> [k \in 1..5 |-> s[k - 1]], t |-> tt, base |-> Base] : s \in Shapes, tt \in Types })
ASSUME ndJsonSerialize(CasesFile, CaseSeq)
=============================================================================
