------------------------------ MODULE Downsample ------------------------------
(***************************************************************************)
(* Downsampling of float series (pkg/compact/downsample/downsample.go) and *)
(* reading the aggregates back (pkg/query/iter.go).  Properties C36, C37,  *)
(* C38.  Constant module: property-level operators (written from the       *)
(* statements in properties.jsonl, used for every verdict) and             *)
(* algorithm-level operators (a transcription of what the code does, used  *)
(* by the MC modules and for the informational DRIFT comparison).          *)
(*                                                                         *)
(* Conventions.  Time is an integer (ms), >= 0.  Sample values are         *)
(* integers (float64 sums are then exact).  A raw series is a record of    *)
(* three parallel sequences                                                *)
(*     raw.ts  strictly increasing timestamps                              *)
(*     raw.vs  values (0 where the sample is not a number)                 *)
(*     raw.ks  kind tokens: "F" float, "NaN" a NaN, "STALE" a stale marker *)
(* An aggregate chunk (observed from the code or predicted) is a record    *)
(*     mint, maxt           the chunk meta's time range                    *)
(*     ts, cnt, sum, min, max   the count/sum/min/max aggregates, parallel *)
(*     cts, cvs             the counter aggregate's samples as encoded     *)
(***************************************************************************)
EXTENDS Integers, Sequences, FiniteSets
LOCAL INSTANCE Functions        \* FoldFunctionOnSet  (Java override: iterative)
LOCAL INSTANCE SequencesExt     \* FoldLeft           (Java override: left to right, iterative)

Min2(a, b) == IF a < b THEN a ELSE b
Max2(a, b) == IF a > b THEN a ELSE b

(* ======================= property level ================================ *)

(* The downsampling window of an output timestamp T at resolution r:       *)
(* [T - T mod r, T - T mod r + r - 1]  (windows are the r-aligned cells).  *)
WinLo(T, r) == T - (T % r)
WinHi(T, r) == WinLo(T, r) + r - 1

(* Largest index i of the sorted sequence ts with ts[i] <= T (0: none).    *)
(* Bisection keeps the recursion depth logarithmic (long recorded series). *)
RECURSIVE Bisect(_, _, _, _)
Bisect(ts, T, lo, hi) ==
    IF lo >= hi THEN lo
    ELSE LET mid == (lo + hi + 1) \div 2 IN
         IF ts[mid] <= T THEN Bisect(ts, T, mid, hi) ELSE Bisect(ts, T, lo, mid - 1)
LastLE(ts, T) == Bisect(ts, T, 0, Len(ts))

N(raw) == Len(raw.ts)
IsNum(raw, i) == raw.ks[i] = "F"
NumIn(raw, lo, hi) == { i \in lo..hi : IsNum(raw, i) }
AllNum(raw) == NumIn(raw, 1, N(raw))
(* Indices of the non-NaN raw samples inside the window of T.  *)
WinIdx(raw, T, r) == NumIn(raw, LastLE(raw.ts, WinLo(T, r) - 1) + 1, LastLE(raw.ts, WinHi(T, r)))

SumOver(f, S) == FoldFunctionOnSet(+, 0, f, S)
MinOver(f, S) == LET x == CHOOSE i \in S : TRUE IN FoldFunctionOnSet(Min2, f[x], f, S)
MaxOver(f, S) == LET x == CHOOSE i \in S : TRUE IN FoldFunctionOnSet(Max2, f[x], f, S)
SumSeq(s) == SumOver(s, DOMAIN s)

(* Concatenation of one field over all chunks.  *)
Flat(chunks, fld) == FoldLeft(LAMBDA acc, c : acc \o c[fld], <<>>, chunks)

(* ---- C36 ---- *)
(* "count, sum, min and max at each output timestamp equal those of the raw *)
(* non-NaN samples in that downsampling window".  A window without any      *)
(* non-NaN sample has count 0 and sum 0; its min/max are undefined and not  *)
(* judged (weakest reading).                                                *)
SampleExact(raw, r, c, j) ==
    LET S == WinIdx(raw, c.ts[j], r) IN
    /\ c.cnt[j] = Cardinality(S)
    /\ c.sum[j] = SumOver(raw.vs, S)
    /\ S # {} => c.min[j] = MinOver(raw.vs, S) /\ c.max[j] = MaxOver(raw.vs, S)
ChunkExact(raw, r, c) == \A j \in DOMAIN c.ts : SampleExact(raw, r, c, j)
ChunksExact(raw, r, chunks) == \A k \in DOMAIN chunks : ChunkExact(raw, r, chunks[k])

(* "whose totals over the series equal the raw totals".  *)
TotalsEqual(raw, cnts, sums, mins, maxs) ==
    LET S == AllNum(raw)
        P == { j \in DOMAIN cnts : cnts[j] > 0 }     \* outputs that stand for at least one sample
    IN /\ SumSeq(cnts) = Cardinality(S)
       /\ SumSeq(sums) = SumOver(raw.vs, S)
       /\ S # {} => /\ P # {}
                    /\ MinOver(mins, P) = MinOver(raw.vs, S)
                    /\ MaxOver(maxs, P) = MaxOver(raw.vs, S)
ChunksTotalsEqual(raw, chunks) ==
    TotalsEqual(raw, Flat(chunks, "cnt"), Flat(chunks, "sum"), Flat(chunks, "min"), Flat(chunks, "max"))

(* "whose chunks are time-ordered and non-overlapping": every chunk covers *)
(* a non-empty range that contains its samples, samples ascend inside a    *)
(* chunk, and each chunk ends before the next one starts.                  *)
StrictlyAscending(s) == \A j \in 1..(Len(s) - 1) : s[j] < s[j + 1]
ChunkWellFormed(c) ==
    /\ Len(c.ts) > 0
    /\ c.mint <= c.maxt
    /\ \A j \in DOMAIN c.ts : c.mint <= c.ts[j] /\ c.ts[j] <= c.maxt
    /\ StrictlyAscending(c.ts)
ChunksOrdered(chunks) ==
    /\ \A k \in DOMAIN chunks : ChunkWellFormed(chunks[k])
    /\ \A k \in 1..(Len(chunks) - 1) : chunks[k].maxt < chunks[k + 1].mint

(* "reading an aggregate back through the querier yields these values":    *)
(* a select of one aggregate over [qlo, qhi] returns exactly the output     *)
(* samples of that aggregate whose timestamps lie in the range.             *)
InRange(ts, vs, qlo, qhi) ==
    LET a == LastLE(ts, qlo - 1) + 1
        b == LastLE(ts, qhi)
    IN [ts |-> SubSeq(ts, a, b), vs |-> SubSeq(vs, a, b)]
ReadBackYields(chunks, fld, got, qlo, qhi) ==
    LET want == InRange(Flat(chunks, "ts"), Flat(chunks, fld), qlo, qhi)
    IN got.ts = want.ts /\ got.vs = want.vs

(* ---- C37 ---- *)
(* Adj(raw, i) = raw[i] + sum of raw[j-1] over the resets j <= i (raw[j] < *)
(* raw[j-1]), taken over the non-NaN samples: "the raw counter value       *)
(* adjusted for all counter resets up to" sample i.  AdjDef is that        *)
(* sentence; AdjTable is the same function computed in one pass (for long  *)
(* recorded series); DownsampleMC checks that they agree.                  *)
NumSeq(raw) == SelectSeq([i \in 1..N(raw) |-> i], LAMBDA i : IsNum(raw, i))  \* indices of numbers
AdjDef(raw, i) ==      \* i: index into raw of a non-NaN sample
    LET idx == NumSeq(raw)
        R == { k \in 2..Len(idx) : idx[k] <= i /\ raw.vs[idx[k]] < raw.vs[idx[k - 1]] }
    IN raw.vs[i] + SumOver([k \in 1..Len(idx) |-> IF k > 1 THEN raw.vs[idx[k - 1]] ELSE 0], R)
(* AdjTable(raw)[i] = Adj at the last non-NaN sample at or before index i, *)
(* -1 while there is none.                                                 *)
AdjTable(raw) ==
    LET step(acc, i) ==
          IF ~IsNum(raw, i) THEN [acc EXCEPT !.out = Append(acc.out, IF acc.seen THEN acc.add + acc.last ELSE -1)]
          ELSE LET add == IF acc.seen /\ raw.vs[i] < acc.last THEN acc.add + acc.last ELSE acc.add
               IN [seen |-> TRUE, last |-> raw.vs[i], add |-> add, out |-> Append(acc.out, add + raw.vs[i])]
    IN FoldLeft(step, [seen |-> FALSE, last |-> 0, add |-> 0, out |-> <<>>], [i \in 1..N(raw) |-> i]).out

(* "yields at every emitted timestamp the raw counter value adjusted for   *)
(* all counter resets up to the last raw sample at or before that          *)
(* timestamp".  em = [ts, vs] as read from the reset-applying iterator.    *)
(* A value emitted before the first raw (non-NaN) sample has nothing it    *)
(* could stand for and is rejected too.                                    *)
EmittedAdjusted(raw, em) ==
    LET tab == AdjTable(raw) IN
    \A j \in DOMAIN em.ts :
        LET i == LastLE(raw.ts, em.ts[j]) IN
        i > 0 /\ tab[i] # -1 /\ em.vs[j] = tab[i]
(* Non-vacuity (title: "preserve the raw counter's increase"): a series    *)
(* with data yields data.                                                  *)
EmittedNonEmpty(raw, em) == AllNum(raw) # {} => Len(em.ts) > 0

(* Title of C37: "downsampled counters preserve the raw counter's increase".  Read over the   *)
(* whole series, the iterator therefore ends on the fully adjusted last raw value.             *)
IncreasePreserved(raw, em) ==
    AllNum(raw) # {} /\ Len(em.ts) > 0 =>
        LET tab == AdjTable(raw) IN em.vs[Len(em.vs)] = tab[Len(tab)]

(* ---- C38 ---- *)
(* "preserves the total sample count, the total sum, the overall minimum   *)
(* and the overall maximum of every series".                               *)
TotalsConserved(inC, outC) ==
    LET ic == Flat(inC, "cnt")  oc == Flat(outC, "cnt")
        Pi == { j \in DOMAIN ic : ic[j] > 0 }  Po == { j \in DOMAIN oc : oc[j] > 0 }
    IN /\ SumSeq(oc) = SumSeq(ic)
       /\ SumSeq(Flat(outC, "sum")) = SumSeq(Flat(inC, "sum"))
       /\ (Pi = {}) = (Po = {})
       /\ Pi # {} => /\ MinOver(Flat(outC, "min"), Po) = MinOver(Flat(inC, "min"), Pi)
                     /\ MaxOver(Flat(outC, "max"), Po) = MaxOver(Flat(inC, "max"), Pi)
(* "keeps output timestamps ordered within the input's time span".  *)
OutputsOrdered(outC) == StrictlyAscending(Flat(outC, "ts"))
OutputsWithin(outC, lo, hi) == LET T == Flat(outC, "ts") IN \A j \in DOMAIN T : lo <= T[j] /\ T[j] <= hi

(* The series' totals can only be preserved if the output reaches the end of the input: the  *)
(* window (at the output resolution r) of the last input sample has an output, and it is the  *)
(* last one.  (Any stamping inside the window is accepted: its end, the last input time, ...) *)
LastWindowHasOutput(inC, outC, r) ==
    LET Ti == Flat(inC, "ts")  To == Flat(outC, "ts") IN
    Ti # <<>> => To # <<>> /\ WinLo(To[Len(To)], r) = WinLo(Ti[Len(Ti)], r)

(* ======================= algorithm level =============================== *)
(* Transcription of downsample.go for float series.                        *)

Big == 2000000000                \* stands for math.MaxFloat64 (all values are far smaller)

(* currentWindow(t, r): end of the window t falls into.  *)
CurWin(t, r) == t - (t % r) + r - 1

(* floatAggregator  *)
Ag0 == [total |-> 0, count |-> 0, sum |-> 0, min |-> 0, max |-> 0, counter |-> 0, last |-> 0]
AgReset(a) == [a EXCEPT !.count = 0, !.sum = 0, !.min = Big, !.max = -Big]
AgAdd(a, v) ==
    [total |-> a.total + 1, count |-> a.count + 1, sum |-> a.sum + v,
     min |-> Min2(a.min, v), max |-> Max2(a.max, v),
     counter |-> IF a.total = 0 THEN v ELSE IF v < a.last THEN a.counter + v ELSE a.counter + (v - a.last),
     last |-> v]

(* downsampleBatch: st = [out, nextT, ag]; one BatchStep per sample.  *)
St0 == [out |-> <<>>, nextT |-> -1, ag |-> Ag0]
Emit(out, T, a) == Append(out, [t |-> T, cnt |-> a.count, sum |-> a.sum, min |-> a.min, max |-> a.max, counter |-> a.counter])
BatchStep(st, s, r, lastT) ==
    IF s.t > st.nextT
      THEN [out |-> IF st.nextT # -1 THEN Emit(st.out, st.nextT, st.ag) ELSE st.out,
            nextT |-> Min2(CurWin(s.t, r), lastT),
            ag |-> AgAdd(AgReset(st.ag), s.v)]
      ELSE [st EXCEPT !.ag = AgAdd(st.ag, s.v)]
BatchFlush(st) == IF st.ag.total > 0 THEN [st EXCEPT !.out = Emit(st.out, st.nextT, st.ag)] ELSE st
BatchRun(batch, r) ==      \* batch: non-empty sequence of [t, v]
    LET lastT == batch[Len(batch)].t IN
    BatchFlush(FoldLeft(LAMBDA st, s : BatchStep(st, s, r, lastT), St0, batch))

Col(out, fld) == [j \in 1..Len(out) |-> out[j][fld]]

(* downsampleFloatBatch: the chunk built from one batch.  The counter       *)
(* aggregate carries the first raw value in front and the last raw value    *)
(* behind (at the last emitted timestamp again).                            *)
ChunkOfRun(batch, run) ==
    LET out == run.out IN
    [mint |-> out[1].t, maxt |-> out[Len(out)].t,
     ts |-> Col(out, "t"), cnt |-> Col(out, "cnt"), sum |-> Col(out, "sum"),
     min |-> Col(out, "min"), max |-> Col(out, "max"),
     cts |-> <<batch[1].t>> \o Col(out, "t") \o <<run.nextT>>,
     cvs |-> <<batch[1].v>> \o Col(out, "counter") \o <<batch[Len(batch)].v>>]
FloatBatchChunk(batch, r) == ChunkOfRun(batch, BatchRun(batch, r))

(* downsampleRawLoop: the batch starting at raw index p holds bsz samples,  *)
(* is extended to the end of the window of its last sample, then loses its  *)
(* NaN / stale samples.  RawBatchEnd = last raw index of the batch.         *)
RawBatchEnd(raw, r, bsz, p) == LastLE(raw.ts, CurWin(raw.ts[Min2(p + bsz - 1, N(raw))], r))
RawBatch(raw, p, j) ==
    SelectSeq([k \in 1..(j - p + 1) |-> [t |-> raw.ts[p + k - 1], v |-> raw.vs[p + k - 1], k |-> raw.ks[p + k - 1]]],
              LAMBDA s : s.k = "F")
RECURSIVE RawLoop(_, _, _, _, _)
RawLoop(raw, r, bsz, p, acc) ==
    IF p > N(raw) THEN acc
    ELSE LET j == RawBatchEnd(raw, r, bsz, p)
             b == RawBatch(raw, p, j)
         IN RawLoop(raw, r, bsz, j + 1, IF b = <<>> THEN acc ELSE Append(acc, FloatBatchChunk(b, r)))
(* DownsampleRaw with numChunks = nc (targetChunkCount is not modelled; the *)
(* chunk count is an input).                                                *)
AlgoRaw(raw, r, nc) == IF N(raw) = 0 THEN <<>> ELSE RawLoop(raw, r, (N(raw) \div nc) + 1, 1, <<>>)

(* ApplyCounterResetsSeriesIterator.Next over the concatenated counter      *)
(* samples of the chunks (chunk borders need no special step: a new chunk   *)
(* is entered by seeking to lastT + 1, which is what "t > lastT" does).     *)
CI0 == [total |-> 0, lastT |-> 0, lastV |-> 0, totalV |-> 0, ts |-> <<>>, vs |-> <<>>]
CIStep(st, s) ==
    IF st.total = 0
      THEN [total |-> 1, lastT |-> s.t, lastV |-> s.v, totalV |-> s.v, ts |-> Append(st.ts, s.t), vs |-> Append(st.vs, s.v)]
    ELSE IF s.t > st.lastT
      THEN LET tv == IF s.v >= st.lastV THEN st.totalV + (s.v - st.lastV) ELSE st.totalV + s.v
           IN [total |-> st.total + 1, lastT |-> s.t, lastV |-> s.v, totalV |-> tv,
               ts |-> Append(st.ts, s.t), vs |-> Append(st.vs, tv)]
    ELSE IF s.t = st.lastT THEN [st EXCEPT !.lastV = s.v]     \* the "true last value" marker
    ELSE st
TVSeq(ts, vs) == [j \in 1..Len(ts) |-> [t |-> ts[j], v |-> vs[j]]]
CounterIterState(chunks) == FoldLeft(CIStep, CI0, TVSeq(Flat(chunks, "cts"), Flat(chunks, "cvs")))
CounterIter(chunks) == LET st == CounterIterState(chunks) IN [ts |-> st.ts, vs |-> st.vs]

(* downsampleFloatAggrBatch: one output chunk from a part (consecutive     *)
(* input chunks).  count/sum/min/max are re-aggregated independently by     *)
(* downsampleBatch (genericAggregate); the counter goes through the reset-  *)
(* applying iterator first and keeps first / last raw values.               *)
AggrPartChunk(part, r) ==
    LET T == Flat(part, "ts")
        rc == BatchRun(TVSeq(T, Flat(part, "cnt")), r).out
        rs == BatchRun(TVSeq(T, Flat(part, "sum")), r).out
        rmi == BatchRun(TVSeq(T, Flat(part, "min")), r).out
        rma == BatchRun(TVSeq(T, Flat(part, "max")), r).out
        ci == CounterIterState(part)
        buf == TVSeq(ci.ts, ci.vs)
        rk == BatchRun(buf, r)
    IN [mint |-> Min2(rc[1].t, rk.out[1].t), maxt |-> Max2(rc[Len(rc)].t, rk.out[Len(rk.out)].t),
        ts |-> Col(rc, "t"), cnt |-> Col(rc, "sum"), sum |-> Col(rs, "sum"),
        min |-> Col(rmi, "min"), max |-> Col(rma, "max"),
        cts |-> <<buf[1].t>> \o Col(rk.out, "t") \o <<rk.nextT>>,
        cvs |-> <<buf[1].v>> \o Col(rk.out, "counter") \o <<ci.lastV>>]
(* downsampleAggrLoop: parts of Len \div nc chunks (requires nc <= Len).  *)
RECURSIVE AggrLoop(_, _, _, _)
AggrLoop(chunks, r, bsz, acc) ==
    IF chunks = <<>> THEN acc
    ELSE LET j == Min2(bsz, Len(chunks))
         IN AggrLoop(SubSeq(chunks, j + 1, Len(chunks)), r, bsz, Append(acc, AggrPartChunk(SubSeq(chunks, 1, j), r)))
AlgoAggr(chunks, r, nc) == AggrLoop(chunks, r, Len(chunks) \div nc, <<>>)

(* ======================= native histograms ============================= *)
(* Phase 2.  A histogram sample is a vector (sequence of integers)         *)
(*     <<count, sum, bucket_1, ..., bucket_K>>                             *)
(* (FloatHistogram with integer-valued fields on one fixed bucket layout). *)
(* A raw histogram series: raw.ts, raw.ks ("H" | "STALE": a stale marker   *)
(* histogram), raw.hv (the vectors; a zero vector where stale), raw.gauge. *)
(* Downsampled histogram chunks carry three aggregates: count (how many    *)
(* histograms), sum (their component-wise sum, a gauge histogram) and      *)
(* counter (cumulative histogram): records [mint, maxt, ts, cnt, hsum,     *)
(* hctr].                                                                  *)

VAdd(a, b) == [i \in DOMAIN a |-> a[i] + b[i]]
VSub(a, b) == [i \in DOMAIN a |-> a[i] - b[i]]
VZero(a) == [i \in DOMAIN a |-> 0]
VSumOver(f, S, zero) == FoldFunctionOnSet(VAdd, zero, f, S)

(* ---- property level ---- *)
HIsNum(raw, i) == raw.ks[i] = "H"
HNumIn(raw, lo, hi) == { i \in lo..hi : HIsNum(raw, i) }
HWinIdx(raw, T, r) == HNumIn(raw, LastLE(raw.ts, WinLo(T, r) - 1) + 1, LastLE(raw.ts, WinHi(T, r)))
(* C36 read on a histogram series: "count ... and sum at each output timestamp equal those of *)
(* the raw non-stale samples in that downsampling window" (min / max do not exist here).      *)
HSampleExact(raw, r, c, j, zero) ==
    LET S == HWinIdx(raw, c.ts[j], r) IN
    /\ c.cnt[j] = Cardinality(S)
    /\ c.hsum[j] = VSumOver(raw.hv, S, zero)
HChunksExact(raw, r, chunks, zero) ==
    \A k \in DOMAIN chunks : \A j \in DOMAIN chunks[k].ts : HSampleExact(raw, r, chunks[k], j, zero)
HTotalsEqual(raw, chunks, zero) ==
    LET S == HNumIn(raw, 1, Len(raw.ts))
        hs == Flat(chunks, "hsum")
    IN /\ SumSeq(Flat(chunks, "cnt")) = Cardinality(S)
       /\ VSumOver(hs, DOMAIN hs, zero) = VSumOver(raw.hv, S, zero)
(* C38 read on histogram aggregates: total count and total sum are preserved.  *)
HTotalsConserved(inC, outC, zero) ==
    LET hi == Flat(inC, "hsum")  ho == Flat(outC, "hsum") IN
    /\ SumSeq(Flat(outC, "cnt")) = SumSeq(Flat(inC, "cnt"))
    /\ VSumOver(ho, DOMAIN ho, zero) = VSumOver(hi, DOMAIN hi, zero)

(* ---- algorithm level ---- *)
(* FloatHistogram.DetectReset on one layout: the count or some bucket went down.  *)
VDetectReset(cur, prev) == cur[1] < prev[1] \/ \E i \in 3..Len(cur) : cur[i] < prev[i]
(* histogramAggregator: total, count, sum (none = <<>>), counter, previous  *)
HAg0 == [total |-> 0, count |-> 0, sum |-> <<>>, counter |-> <<>>, prev |-> <<>>]
HAgReset(a) == [a EXCEPT !.count = 0, !.sum = <<>>]
HAgAdd(a, v, gauge) ==
    [total |-> a.total + 1, count |-> a.count + 1,
     sum |-> IF a.sum = <<>> THEN v ELSE VAdd(a.sum, v),
     counter |-> IF a.total = 0 THEN v
                 ELSE IF ~gauge /\ VDetectReset(v, a.prev) THEN VAdd(a.counter, v)
                 ELSE VAdd(a.counter, VSub(v, a.prev)),
     prev |-> v]
HEmit(out, T, a) == Append(out, [t |-> T, cnt |-> a.count, hsum |-> a.sum, hctr |-> a.counter])
HBatchStep(st, s, r, lastT, gauge) ==
    IF s.t > st.nextT
      THEN [out |-> IF st.nextT # -1 THEN HEmit(st.out, st.nextT, st.ag) ELSE st.out,
            nextT |-> Min2(CurWin(s.t, r), lastT),
            ag |-> HAgAdd(HAgReset(st.ag), s.v, gauge)]
      ELSE [st EXCEPT !.ag = HAgAdd(st.ag, s.v, gauge)]
HBatchRun(batch, r, gauge) ==      \* batch: non-empty sequence of [t, v] with v a vector
    LET lastT == batch[Len(batch)].t
        st == FoldLeft(LAMBDA acc, s : HBatchStep(acc, s, r, lastT, gauge), [out |-> <<>>, nextT |-> -1, ag |-> HAg0], batch)
    IN IF st.ag.total > 0 THEN HEmit(st.out, st.nextT, st.ag) ELSE st.out
(* downsampleHistogramBatch  *)
HBatchChunk(batch, r, gauge) ==
    LET out == HBatchRun(batch, r, gauge) IN
    [mint |-> out[1].t, maxt |-> out[Len(out)].t, ts |-> Col(out, "t"), cnt |-> Col(out, "cnt"),
     hsum |-> Col(out, "hsum"), hctr |-> Col(out, "hctr")]
HRawBatch(raw, p, j) ==
    SelectSeq([k \in 1..(j - p + 1) |-> [t |-> raw.ts[p + k - 1], v |-> raw.hv[p + k - 1], k |-> raw.ks[p + k - 1]]],
              LAMBDA s : s.k = "H")
RECURSIVE HRawLoop(_, _, _, _, _)
HRawLoop(raw, r, bsz, p, acc) ==
    IF p > N(raw) THEN acc
    ELSE LET j == RawBatchEnd(raw, r, bsz, p)
             b == HRawBatch(raw, p, j)
         IN HRawLoop(raw, r, bsz, j + 1, IF b = <<>> THEN acc ELSE Append(acc, HBatchChunk(b, r, raw.gauge)))
HAlgoRaw(raw, r, nc) == IF N(raw) = 0 THEN <<>> ELSE HRawLoop(raw, r, (N(raw) \div nc) + 1, 1, <<>>)
(* downsampleHistogramAggrBatch: counter and sum samples of the part's chunks are expanded  *)
(* and run through downsampleBatch with a fresh histogram aggregator each (its .counter /    *)
(* .sum is taken), the count through genericAggregate (sum of counts).                       *)
HAggrPartChunk(part, r, gauge) ==
    LET T == Flat(part, "ts")
        rk == HBatchRun(TVSeq(T, Flat(part, "hctr")), r, gauge)
        rs == HBatchRun(TVSeq(T, Flat(part, "hsum")), r, TRUE)      \* sums carry the gauge hint
        rc == BatchRun(TVSeq(T, Flat(part, "cnt")), r).out
    IN [mint |-> rc[1].t, maxt |-> rc[Len(rc)].t, ts |-> Col(rc, "t"), cnt |-> Col(rc, "sum"),
        hsum |-> Col(rs, "hsum"), hctr |-> Col(rk, "hctr")]
RECURSIVE HAggrLoop(_, _, _, _, _)
HAggrLoop(chunks, r, bsz, gauge, acc) ==
    IF chunks = <<>> THEN acc
    ELSE LET j == Min2(bsz, Len(chunks))
         IN HAggrLoop(SubSeq(chunks, j + 1, Len(chunks)), r, bsz, gauge, Append(acc, HAggrPartChunk(SubSeq(chunks, 1, j), r, gauge)))
HAlgoAggr(chunks, r, nc, gauge) == HAggrLoop(chunks, r, Len(chunks) \div nc, gauge, <<>>)

=============================================================================
