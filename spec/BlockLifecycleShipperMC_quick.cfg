\* C35 leg A quick: 2 local blocks (each level-1 / empty / compacted; absent / partial / complete in the bucket),
\* upload-compacted and out-of-order on/off, <= 2 crashes and <= 1 failed bucket call anywhere;
\* generated cases: 1..2 blocks (level-1 or compacted; empty blocks come from the random cases), pre-state absent/complete, <= 1 crash point
SPECIFICATION Spec
CONSTANTS N = 2
          MaxCrashes = 2
          Features = {"crash", "fail"}
          MaxFails = 1
          MtLen = 0
          CaseN = 2
          CaseCrashes = 1
          CaseKinds = {"L1", "L2"}
          CasePre = {"absent", "complete"}
INVARIANTS C35_PrunedOnlyWhenShipped C35_LocalDeleteOnlyWhenShipped C35_RecordedWereSeenComplete C35_SuccessfulSyncShippedAll C28_Holds
PROPERTIES EventuallyShipped
CHECK_DEADLOCK FALSE
