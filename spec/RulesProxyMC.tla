---------------------------- MODULE RulesProxyMC ----------------------------
(***************************************************************************)
(* Leg A for C45, phase 2: the fan-out in front of the filter/dedup        *)
(* (pkg/rules/proxy.go: Proxy.Rules + rulesStream.receive) composed with   *)
(* GRPCClient.Rules.  Every rules server streams its group messages        *)
(* concurrently into one channel; a server may send a warning, fail when   *)
(* the call is opened or fail in mid-stream.  Under ABORT the first        *)
(* failure fails the request (the errgroup cancels the other streams);     *)
(* under WARN it becomes a warning and what was received is kept.  All     *)
(* interleavings of the servers are explored: the answer (as a set of rule *)
(* identities, and the replica kept for each) must not depend on the       *)
(* arrival order, and must satisfy RViolations2.                           *)
(* Then match[] and the name / group / file filters (composed by AND) and  *)
(* the dedup are applied to what arrived (functional form of Rules.tla;    *)
(* the step-wise form is RulesMC).                                         *)
(*                                                                         *)
(* Scope: NClients servers, each with one group of <= MaxPerClient rules   *)
(* (0 = a reduced choice of single rules) drawn from                       *)
(* names {n,m} x label a in {absent,"1"} x replica label r = server index; *)
(* fail mode per server; strategy; one of a few filter combinations.       *)
(***************************************************************************)
EXTENDS Rules, TLC, Json, IOUtils, SequencesExt
CONSTANTS NClients, FailModes, Strategies, MaxPerClient

Clients == 1..NClients
RuleOf(c, nm, a, k) ==
    [file |-> "f", group |-> "g", type |-> "alert", name |-> nm, query |-> "q", dur |-> 0,
     labels |-> (IF a = "" THEN <<>> ELSE <<[n |-> "a", v |-> a, t |-> FALSE]>>) \o <<[n |-> "r", v |-> ToString(c), t |-> FALSE]>>,
     st |-> IF c = 1 THEN 1 ELSE 3, ev |-> 10 * c + k, src |-> c, sent |-> TRUE]
RuleChoices(c) == IF MaxPerClient = 0 THEN { <<>>, <<RuleOf(c, "n", "", 1)>>, <<RuleOf(c, "m", "1", 1)>>, <<RuleOf(c, "n", "1", 1)>> } ELSE
                  { <<>> } \cup { <<RuleOf(c, nm, a, 1)>> : nm \in {"n", "m"}, a \in {"", "1"} }
                  \cup (IF MaxPerClient < 2 THEN {} ELSE { <<RuleOf(c, "n", a, 1), RuleOf(c, "m", b, 2)>> : a \in {"", "1"}, b \in {"", "1"} })
Filters == { [sets |-> <<>>, names |-> <<>>, groups |-> <<>>, files |-> <<>>],
             [sets |-> <<>>, names |-> <<"n">>, groups |-> <<>>, files |-> <<>>],
             [sets |-> << <<[name |-> "a", type |-> "EQ", alts |-> <<"1">>]>> >>, names |-> <<"n", "x">>, groups |-> <<"g">>, files |-> <<>>],
             [sets |-> << <<[name |-> "a", type |-> "EQ", alts |-> <<"">>]>>, <<[name |-> "r", type |-> "EQ", alts |-> <<"2">>]>> >>, names |-> <<>>, groups |-> <<>>, files |-> <<"f">>],
             [sets |-> <<>>, names |-> <<"n">>, groups |-> <<"other">>, files |-> <<>>] }

(* a mid-stream failure happens before the server's group message: none of its rules is sent *)
MkReq(rs, fm, strat, flt) ==
    [rules |-> FoldLeft(LAMBDA acc, c : acc \o [k \in DOMAIN rs[c] |-> [rs[c][k] EXCEPT !.sent = fm[c] \in {"none", "warn"}]], <<>>, [c \in Clients |-> c]),
     sets |-> flt.sets, rep |-> <<"r">>, names |-> flt.names, groups |-> flt.groups, files |-> flt.files,
     strategy |-> strat, clients |-> [c \in Clients |-> [fail |-> fm[c]]]]
Reqs == { MkReq(rs, fm, strat, flt) : rs \in [Clients -> UNION { RuleChoices(c) : c \in Clients }] \cap { f \in [Clients -> UNION { RuleChoices(c) : c \in Clients }] : \A c \in Clients : f[c] \in RuleChoices(c) },
          fm \in [Clients -> FailModes], strat \in Strategies, flt \in Filters }

VARIABLES req, cpc, arrived, warns, err, pc, out
vars == <<req, cpc, arrived, warns, err, pc, out>>
(* cpc[c]: "start" | "warned" | "done"; arrived: rules in arrival order *)

Init == /\ req \in Reqs /\ cpc = [c \in Clients |-> "start"] /\ arrived = <<>> /\ warns = 0 /\ err = "" /\ pc = "fanout" /\ out = <<>>

Mine(c) == SelectSeq(req.rules, LAMBDA r : r.src = c)
ClientStep(c) ==
    /\ pc = "fanout" /\ err = "" /\ cpc[c] # "done"
    /\ LET fm == req.clients[c].fail IN
       IF fm \in {"open", "mid"}
         THEN IF req.strategy = "ABORT"
                THEN err' = "fetching rules" /\ cpc' = [cpc EXCEPT ![c] = "done"] /\ UNCHANGED <<arrived, warns>>
                ELSE warns' = warns + 1 /\ cpc' = [cpc EXCEPT ![c] = "done"] /\ UNCHANGED <<arrived, err>>
       ELSE IF fm = "warn" /\ cpc[c] = "start"
         THEN warns' = warns + 1 /\ cpc' = [cpc EXCEPT ![c] = "warned"] /\ UNCHANGED <<arrived, err>>
       ELSE arrived' = arrived \o Mine(c) /\ cpc' = [cpc EXCEPT ![c] = "done"] /\ UNCHANGED <<warns, err>>
    /\ UNCHANGED <<req, pc, out>>

OutRule(r) == [file |-> r.file, group |-> r.group, type |-> r.type, name |-> r.name, query |-> r.query,
               dur |-> r.dur, labels |-> [k \in DOMAIN RWithoutReplica(r.labels, RRan(req.rep)) |->
                                             [n |-> RWithoutReplica(r.labels, RRan(req.rep))[k].n, v |-> RWithoutReplica(r.labels, RRan(req.rep))[k].v]],
               st |-> r.st, ev |-> r.ev]
(* filter + dedup of what arrived: one rule per identity, the best replica *)
Answer ==
    LET kept == { r \in RRan(arrived) : RAlgoMatches(req.sets, r.labels) /\ RNameOK(req, r) }
        ids == { RIdentity(r, RRan(req.rep)) : r \in kept }
        best(id) == CHOOSE r \in kept : RIdentity(r, RRan(req.rep)) = id /\ \A y \in kept : RIdentity(y, RRan(req.rep)) = id => ~RWorse(r, y)
    IN SetToSeq({ OutRule(best(id)) : id \in ids })
Finish ==
    /\ pc = "fanout"
    /\ err # "" \/ \A c \in Clients : cpc[c] = "done"
    /\ pc' = "done" /\ out' = IF err # "" THEN <<>> ELSE Answer
    /\ UNCHANGED <<req, cpc, arrived, warns, err>>
DoneStep == pc = "done" /\ UNCHANGED vars
Next == (\E c \in Clients : ClientStep(c)) \/ Finish \/ DoneStep
Spec == Init /\ [][Next]_vars

Got == [err |-> err, warnings |-> warns, rules |-> out]
C45_RequestPathSatisfiesProperty == pc = "done" => RViolations2(req, Got) = {}
(* independent of the arrival order: the identities and survivors are those of the functional model *)
OrderIndependent == (pc = "done" /\ err = "") =>
    /\ { ROutIdentity(out[k]) : k \in DOMAIN out } = RAlgoIds2(req)
    /\ \A k \in DOMAIN out : <<out[k].st, out[k].ev>> \in RAlgoSurvivors2(req, ROutIdentity(out[k]))

CasesFile == IF "VERIF_CASES" \in DOMAIN IOEnv THEN IOEnv.VERIF_CASES ELSE "cases.ndjson"
ASSUME ndJsonSerialize(CasesFile, SetToSeq(Reqs))
=============================================================================
