------------------------ MODULE BlockLifecycleSyncMC ------------------------
(***************************************************************************)
(* Leg A of C33: the compactor's iteration structure                       *)
(* (cmd/thanos/compact.go compactMainFn, BucketCompactor.Compact,          *)
(* Syncer.SyncMetas, BaseFetcher.fetch + filters).                         *)
(* An iteration is a sequence of phases; every phase starts with a sync:   *)
(* list the bucket, then for every block (concurrently, any order) check   *)
(* meta.json exists, read meta.json, read deletion-mark.json, read         *)
(* no-compact-mark.json.  A failed read makes the fetcher report an        *)
(* incomplete view (the other reads still drain), SyncMetas returns the    *)
(* error and the iteration is abandoned.  After a complete sync the phase  *)
(* mutates the bucket (clean marked blocks, garbage-collect, compact,      *)
(* retention, partial-upload cleanup) and either syncs again or ends the   *)
(* iteration.  One read of any kind at any position fails (<= MaxFaults).  *)
(***************************************************************************)
EXTENDS BlockLifecycle, TLC, Json, IOUtils, SequencesExt
CONSTANTS NBlocks, MaxPhases, MaxIters, MaxMuts, MaxFaults,
          CaseJ      \* leg B: the j-th sync read of a kind fails, j in 1..CaseJ

Kinds == {"exists", "meta", "delmark", "nocompact"}
AllReads == { <<b, k>> : b \in 1..NBlocks, k \in Kinds }

VARIABLES pc,        \* "idle" | "list" | "reads" | "act"
          todo,      \* reads of the running sync not yet done
          errs,      \* the running sync saw a failed read
          iter, phase, muts, faults,
          dirty, bad \* property-level history (C33_DirtyAfter / C33_Forbidden)
vars == <<pc, todo, errs, iter, phase, muts, faults, dirty, bad>>

Init == pc = "idle" /\ todo = {} /\ errs = FALSE /\ iter = 0 /\ phase = 0 /\ muts = 0 /\ faults = 0 /\ dirty = FALSE /\ bad = FALSE

Ev(e) == /\ bad' = (bad \/ C33_Forbidden(dirty, e))
         /\ dirty' = C33_DirtyAfter(dirty, e)

BeginIter == /\ pc = "idle" /\ iter < MaxIters
             /\ iter' = iter + 1 /\ phase' = 1 /\ pc' = "list" /\ errs' = FALSE /\ todo' = {}
             /\ Ev([ev |-> "Iter"]) /\ UNCHANGED <<muts, faults>>
(* the sync begins with the listing *)
List == /\ pc = "list"
        /\ \/ /\ todo' = AllReads /\ errs' = FALSE /\ UNCHANGED <<faults>>
              /\ bad' = (bad \/ C33_Forbidden(dirty, [ev |-> "SyncBegin"])) /\ dirty' = FALSE
           \/ /\ faults < MaxFaults /\ faults' = faults + 1 /\ errs' = TRUE /\ todo' = {}      \* the listing itself fails
              /\ bad' = bad /\ dirty' = TRUE                                              \* SyncBegin, then ReadFail(insync)
        /\ pc' = "reads" /\ UNCHANGED <<iter, phase, muts>>
Read == /\ pc = "reads" /\ todo # {}
        /\ \E r \in todo :
             /\ todo' = todo \ {r}
             /\ \/ UNCHANGED <<errs, faults>> /\ Ev([ev |-> "ReadOK"])
                \/ /\ faults < MaxFaults /\ faults' = faults + 1 /\ errs' = TRUE
                   /\ Ev([ev |-> "ReadFail", insync |-> TRUE])
        /\ UNCHANGED <<pc, iter, phase, muts>>
(* SyncMetas returns: error => the iteration is abandoned *)
SyncEnd == /\ pc = "reads" /\ todo = {}
           /\ pc' = IF errs THEN "idle" ELSE "act"
           /\ Ev([ev |-> "SyncEnd"]) /\ UNCHANGED <<todo, errs, iter, phase, muts, faults>>
Mutate == /\ pc = "act" /\ muts < MaxMuts
          /\ muts' = muts + 1
          /\ Ev([ev |-> "Mut", ok |-> TRUE]) /\ UNCHANGED <<pc, todo, errs, iter, phase, faults>>
NextPhase == /\ pc = "act"
             /\ IF phase < MaxPhases THEN phase' = phase + 1 /\ pc' = "list" ELSE phase' = phase /\ pc' = "idle"
             /\ Ev([ev |-> "PhaseEnd"]) /\ UNCHANGED <<todo, errs, iter, muts, faults>>
EndIter == /\ pc = "act" /\ pc' = "idle"
           /\ Ev([ev |-> "IterEnd"]) /\ UNCHANGED <<todo, errs, iter, phase, muts, faults>>

Next == BeginIter \/ List \/ Read \/ SyncEnd \/ Mutate \/ NextPhase \/ EndIter
Spec == Init /\ [][Next]_vars

(* ---- C33 ---- *)
C33_NoMutationOnIncompleteView == ~bad
(* the algorithm-level reason: mutations only happen in "act", which is entered only after a sync without failed reads *)
ActMeansCleanSync == pc = "act" => ~dirty
(* non-vacuity: mutations do happen *)
SomeMutation == muts = 0        \* expected to be VIOLATED when checked on its own (see notes); not in the cfg

View == <<pc, todo, errs, iter, phase, muts, faults, dirty, bad>>

(* ---- leg B ---- *)
CasesFile == IF "VERIF_CASES" \in DOMAIN IOEnv THEN IOEnv.VERIF_CASES ELSE "cases.ndjson"
CaseSet == { [lister |-> ls, kind |-> k, j |-> j] : ls \in {"concurrent", "recursive"}, k \in Kinds \cup {"list"}, j \in 1..CaseJ }
CaseOK(c) == (c.kind = "exists" => c.lister = "concurrent") /\ (c.kind = "list" => c.j <= 6)
ASSUME ndJsonSerialize(CasesFile, SetToSeq({ c \in CaseSet : CaseOK(c) }))
=============================================================================
