------------------------ MODULE BlockLifecycleSyncMC ------------------------
(***************************************************************************)
(* Leg A of C33: the compactor's iteration structure                       *)
(* (cmd/thanos/compact.go compactMainFn, BucketCompactor.Compact,          *)
(* Syncer.SyncMetas, BaseFetcher.fetch + filters).                         *)
(* An iteration is a sequence of phases; every phase starts with a sync:   *)
(* list the bucket, then for every block (concurrently, any order) check   *)
(* meta.json exists, read meta.json, read deletion-mark.json, read         *)
(* no-compact-mark.json; every object read is a Get call followed by       *)
(* reading the body from the returned reader, and EITHER step may fail     *)
(* (fault kinds exists, meta, delmark, nocompact, list and meta_body,      *)
(* delmark_body, nocompact_body).  A failed read makes the fetcher report an *)
(* incomplete view (the other reads still drain), SyncMetas returns the    *)
(* error and the iteration is abandoned.  After a complete sync the phase  *)
(* mutates the bucket (clean marked blocks, garbage-collect, compact,      *)
(* retention, partial-upload cleanup) and either syncs again or ends the   *)
(* iteration.  One read of any kind at any position fails (<= MaxFaults).  *)
(***************************************************************************)
EXTENDS BlockLifecycle, TLC, Json, IOUtils, SequencesExt
CONSTANTS NBlocks, MaxPhases, MaxIters, MaxMuts, MaxFaults,
          CaseJ,     \* leg B: the j-th sync read (call) of a kind fails, j in 1..CaseJ
          CaseBodyJ  \* leg B: the body of the j-th Get of a kind fails, j in 1..CaseBodyJ

(* A sync runs in three stages (BaseFetcher.fetchMetadata, then the filters in order); inside a stage the   *)
(* blocks are handled concurrently (any order), the reads of one block in sequence.  Reading an object is    *)
(* two steps: the Get call, and - when it succeeded - reading the BODY from the returned reader; either may  *)
(* fail.  A failed step ends the chain of that block in that stage.                                          *)
Chain(stage) == CASE stage = 1 -> <<"exists", "meta", "meta_body">>
                  [] stage = 2 -> <<"delmark", "delmark_body">>
                  [] stage = 3 -> <<"nocompact", "nocompact_body">>
Kinds == {"exists", "meta", "delmark", "nocompact"}
BodyKinds == {"meta_body", "delmark_body", "nocompact_body"}
Blocks == 1..NBlocks

VARIABLES pc,        \* "idle" | "list" | "reads" | "act"
          stage,     \* 1..3 while pc = "reads"
          prog,      \* block -> number of steps of the current stage's chain already done
          errs,      \* the running sync saw a failed read
          iter, phase, muts, faults,
          dirty, bad \* property-level history (C33_DirtyAfter / C33_Forbidden)
vars == <<pc, stage, prog, errs, iter, phase, muts, faults, dirty, bad>>

Zero == [b \in Blocks |-> 0]
Init == pc = "idle" /\ stage = 1 /\ prog = Zero /\ errs = FALSE /\ iter = 0 /\ phase = 0 /\ muts = 0 /\ faults = 0 /\ dirty = FALSE /\ bad = FALSE

Ev(e) == /\ bad' = (bad \/ C33_Forbidden(dirty, e))
         /\ dirty' = C33_DirtyAfter(dirty, e)

BeginIter == /\ pc = "idle" /\ iter < MaxIters
             /\ iter' = iter + 1 /\ phase' = 1 /\ pc' = "list" /\ errs' = FALSE /\ stage' = 1 /\ prog' = Zero
             /\ Ev([ev |-> "Iter"]) /\ UNCHANGED <<muts, faults>>
(* the sync begins with the listing; a failed listing ends the sync at once *)
List == /\ pc = "list"
        /\ \/ /\ errs' = FALSE /\ stage' = 1 /\ prog' = Zero /\ UNCHANGED <<faults>>
              /\ bad' = (bad \/ C33_Forbidden(dirty, [ev |-> "SyncBegin"])) /\ dirty' = FALSE
           \/ /\ faults < MaxFaults /\ faults' = faults + 1 /\ errs' = TRUE
              /\ stage' = 3 /\ prog' = [b \in Blocks |-> Len(Chain(3))]
              /\ bad' = bad /\ dirty' = TRUE                                              \* SyncBegin, then ReadFail(insync)
        /\ pc' = "reads" /\ UNCHANGED <<iter, phase, muts>>
(* one step (a Get / Exists call, or reading the body of a successful Get) of one block in the current stage *)
Read == /\ pc = "reads"
        /\ \E b \in Blocks :
             /\ prog[b] < Len(Chain(stage))
             /\ \/ /\ prog' = [prog EXCEPT ![b] = @ + 1] /\ UNCHANGED <<errs, faults>> /\ Ev([ev |-> "ReadOK"])
                \/ /\ faults < MaxFaults /\ faults' = faults + 1 /\ errs' = TRUE
                   /\ prog' = [prog EXCEPT ![b] = Len(Chain(stage))]
                   /\ Ev([ev |-> "ReadFail", insync |-> TRUE, kind |-> Chain(stage)[prog[b] + 1]])
        /\ UNCHANGED <<pc, stage, iter, phase, muts>>
StageDone == \A b \in Blocks : prog[b] = Len(Chain(stage))
NextStage == /\ pc = "reads" /\ StageDone /\ stage < 3
             /\ stage' = stage + 1 /\ prog' = Zero
             /\ UNCHANGED <<pc, errs, iter, phase, muts, faults, dirty, bad>>
(* SyncMetas returns: error => the iteration is abandoned *)
SyncEnd == /\ pc = "reads" /\ StageDone /\ stage = 3
           /\ pc' = IF errs THEN "idle" ELSE "act"
           /\ Ev([ev |-> "SyncEnd"]) /\ UNCHANGED <<stage, prog, errs, iter, phase, muts, faults>>
Mutate == /\ pc = "act" /\ muts < MaxMuts
          /\ muts' = muts + 1
          /\ Ev([ev |-> "Mut", ok |-> TRUE]) /\ UNCHANGED <<pc, stage, prog, errs, iter, phase, faults>>
NextPhase == /\ pc = "act"
             /\ IF phase < MaxPhases THEN phase' = phase + 1 /\ pc' = "list" ELSE phase' = phase /\ pc' = "idle"
             /\ Ev([ev |-> "PhaseEnd"]) /\ UNCHANGED <<stage, prog, errs, iter, muts, faults>>
EndIter == /\ pc = "act" /\ pc' = "idle"
           /\ Ev([ev |-> "IterEnd"]) /\ UNCHANGED <<stage, prog, errs, iter, phase, muts, faults>>

Next == BeginIter \/ List \/ Read \/ NextStage \/ SyncEnd \/ Mutate \/ NextPhase \/ EndIter
Spec == Init /\ [][Next]_vars

(* ---- C33 ---- *)
C33_NoMutationOnIncompleteView == ~bad
(* the algorithm-level reason: mutations only happen in "act", which is entered only after a sync without failed reads *)
ActMeansCleanSync == pc = "act" => ~dirty
(* non-vacuity: mutations do happen *)
SomeMutation == muts = 0        \* expected to be VIOLATED when checked on its own (see notes); not in the cfg


(* ---- leg B ---- *)
CasesFile == IF "VERIF_CASES" \in DOMAIN IOEnv THEN IOEnv.VERIF_CASES ELSE "cases.ndjson"
CaseSet == { [lister |-> ls, kind |-> k, j |-> j, pos |-> "none"] : ls \in {"concurrent", "recursive"}, k \in Kinds \cup {"list"}, j \in 1..CaseJ }
           \cup { [lister |-> ls, kind |-> k, j |-> j, pos |-> p] : ls \in {"concurrent", "recursive"}, k \in BodyKinds, j \in 1..CaseJ, p \in {"zero", "mid", "last"} }
CaseOK(c) == (c.kind = "exists" => c.lister = "concurrent") /\ (c.kind = "list" => c.j <= 6)
             /\ (c.kind \in BodyKinds => c.j <= (IF c.lister = "recursive" THEN CaseBodyJ \div 3 ELSE CaseBodyJ))   \* the body paths do not depend on the lister
ASSUME ndJsonSerialize(CasesFile, SetToSeq({ c \in CaseSet : CaseOK(c) }))
=============================================================================
