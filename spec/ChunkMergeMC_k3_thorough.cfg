\* C40 leg A thorough: encoder cap K = 3; 2 series on any non-empty subset of a 5-point grid, one
\* or two chunks each (6 400 pairs + 80 byte-identical pairs)
SPECIFICATION Spec
CONSTANTS InitPen = 1
          K = 3
          Grid = {0, 1, 2, 3, 4}
          NSeries = 2
          MaxLen = 5
          WithCounterInputs = FALSE
INVARIANTS C40_EveryAggregateSampleKept EachChunkComplete NothingInvented ChunksInOrder OnlyDoneIsFinal
CHECK_DEADLOCK FALSE
