-------------------------------- MODULE Keys --------------------------------
(***************************************************************************)
(* Cache keys of the store gateway (property C13).                         *)
(*                                                                         *)
(*   pkg/store/cache/cache.go          CacheKey.String  (P: / EP: / S:)    *)
(*                                     LabelMatchersToString               *)
(*   pkg/store/cache/matchers_cache.go cacheKey (matcher-conversion LRU)   *)
(*                                                                         *)
(* Cached items:                                                           *)
(*   P   postings of one label pair   [blk, name, value, comp]             *)
(*   EP  expanded postings of a selector set  [blk, ms, comp]              *)
(*       ms = sequence of matchers [name, type, value]                     *)
(*   S   one series                   [blk, id]   (id: its decimal digits) *)
(*   MC  a converted label matcher    [name, type, value]                  *)
(*   RP  expanded postings of a selector set in the RECEIVER's cache       *)
(*       (pkg/receive/expandedpostingscache, cacheKey)   [blk, ms]         *)
(* P, EP and S items share one key space (one memcached / one LRU); MC     *)
(* items live in a cache of their own, and so do RP items.                 *)
(*                                                                         *)
(* Strings are sequences of one-character strings over an alphabet that    *)
(* CONTAINS the separator characters the builders use, so that a           *)
(* component may contain a separator.  A key is a sequence of tokens: a    *)
(* token is a character, or one of the fixed-width, separator-free fields  *)
(* (block ULID, digest, compression scheme, decimal number), each of which *)
(* is ONE token.  Digests are injective by assumption: Digest(s) is the    *)
(* token "#<s>".                                                           *)
(*                                                                         *)
(* In traces (leg C) strings and keys are atomic TLA+ strings; the         *)
(* property-level operators only use equality, so they serve both.         *)
(***************************************************************************)
EXTENDS Naturals, Sequences, FiniteSets, TLC

KRange(s) == { s[x] : x \in DOMAIN s }

(* ======================= property level ================================ *)
(* Identity of cached items, from the statement of C13: "posting lists for *)
(* different label pairs, expanded postings for different selector SETS,   *)
(* converted label matchers".  The block and the compression scheme are    *)
(* part of the identity of P / EP items (the cached bytes differ).  Two    *)
(* matcher lists that are equal as sets denote the same selector set:      *)
(* sharing a key between them is allowed (weakest reading).                *)
Ident(i) == IF i.kind = "EP" THEN [kind |-> "EP", blk |-> i.blk, comp |-> i.comp, ms |-> KRange(i.ms)]
            ELSE IF i.kind = "RP" THEN [kind |-> "RP", blk |-> i.blk, ms |-> KRange(i.ms)]
            ELSE i
SameItem(i, j) == Ident(i) = Ident(j)

(* Which cache an item lives in.  *)
Space(i) == IF i.kind = "MC" THEN "conv" ELSE IF i.kind = "RP" THEN "recv" ELSE "index"

(* C13 for a finite family of items with their keys (two sequences of equal *)
(* length): "two different cached items never share a cache key".  The      *)
(* pairs that violate it:                                                   *)
SharedKeyPairs(items, keys) ==
    { p \in (DOMAIN items) \X (DOMAIN items) :
        /\ p[1] < p[2]
        /\ Space(items[p[1]]) = Space(items[p[2]])
        /\ keys[p[1]] = keys[p[2]]
        /\ ~SameItem(items[p[1]], items[p[2]]) }
(* The same question without enumerating pairs: every <<cache, key>> is     *)
(* used by exactly one item identity.                                       *)
KeysSeparate(items, keys) ==
    LET ki == { <<Space(items[x]), keys[x], Ident(items[x])>> : x \in DOMAIN items }
    IN  Cardinality(ki) = Cardinality({ <<t[1], t[2]>> : t \in ki })

(* ======================= algorithm level =============================== *)
RECURSIVE KFlatten(_)
KFlatten(ss) == IF ss = <<>> THEN <<>> ELSE Head(ss) \o KFlatten(Tail(ss))

RECURSIVE KJoin(_, _)
KJoin(ss, sep) == IF ss = <<>> THEN <<>>
                  ELSE IF Len(ss) = 1 THEN ss[1]
                  ELSE ss[1] \o <<sep>> \o KJoin(Tail(ss), sep)

Digest(s) == "#" \o ToString(s)                 \* blake2b-256 + base64url: one fixed-width token

(* decimal rendering of a small natural number, digit by digit *)
Dec(n) == IF n < 10 THEN <<ToString(n)>> ELSE <<ToString(n \div 10), ToString(n % 10)>>

Digits == {"0", "1", "2", "3", "4", "5", "6", "7", "8", "9"}
AsciiLetters == {"a", "b", "c", "d", "e", "f", "g", "h", "i", "j", "k", "l", "m", "n", "o", "p", "q", "r", "s", "t",
                 "u", "v", "w", "x", "y", "z", "A", "B", "C", "D", "E", "F", "G", "H", "I", "J", "K", "L", "M", "N",
                 "O", "P", "Q", "R", "S", "T", "U", "V", "W", "X", "Y", "Z"}

(* --- url.QueryEscape: unreserved characters stay, every other character   *)
(* becomes %XX.  %XX is modelled as the single token "%c": '%' itself is    *)
(* always escaped, so a '%' in the output always starts an escape and the   *)
(* tokenisation of the output is unique.                                    *)
QueryUnreserved == AsciiLetters \cup Digits \cup {"~", "-", "_", "."}
QueryEscape(s) == [x \in DOMAIN s |-> IF s[x] \in QueryUnreserved THEN s[x] ELSE "%" \o s[x]]

(* --- postings key ------------------------------------------------------- *)
(* Before the fix: name ":" value for every label.                          *)
PostingsInputLegacy(name, value) == name \o <<":">> \o value
(* Now: that form only for names without ':'; a name that contains ':' is   *)
(* hashed in a form that contains no ':' at all.                            *)
PostingsInput(name, value) ==
    IF ":" \notin KRange(name) THEN name \o <<":">> \o value
    ELSE QueryEscape(name) \o <<"&">> \o QueryEscape(value)

CompSuffix(comp) == IF comp = <<>> THEN <<>> ELSE <<":">> \o comp

PostingsKey(i, legacy) ==
    <<"P", ":", i.blk, ":">>
    \o <<Digest(IF legacy THEN PostingsInputLegacy(i.name, i.value) ELSE PostingsInput(i.name, i.value))>>
    \o CompSuffix(i.comp)

(* --- expanded-postings key: labels.Matcher.String joined with ';' -------- *)
TypeStr(t) == CASE t = "EQ" -> <<"=">> [] t = "NEQ" -> <<"!", "=">>
                [] t = "RE" -> <<"=", "~">> [] t = "NRE" -> <<"!", "~">>

(* strconv.Quote restricted to printable characters *)
Quote(s) == <<"\"">> \o KFlatten([x \in DOMAIN s |-> IF s[x] \in {"\"", "\\"} THEN <<"\\", s[x]>> ELSE <<s[x]>>]) \o <<"\"">>

NameStart == AsciiLetters \cup {"_"}
(* Matcher.shouldQuoteName: a non-legacy name is printed quoted *)
IsLegacyName(s) == /\ s # <<>>
                   /\ \A x \in DOMAIN s : s[x] \in NameStart \/ (x > 1 /\ s[x] \in Digits)
MatcherStr(m) == (IF IsLegacyName(m.name) THEN m.name ELSE Quote(m.name)) \o TypeStr(m.type) \o Quote(m.value)
MatchersStr(ms) == KJoin([x \in DOMAIN ms |-> MatcherStr(ms[x])], ";")

ExpandedKey(i) == <<"E", "P", ":", i.blk, ":", Digest(MatchersStr(i.ms))>> \o CompSuffix(i.comp)

(* --- series key ----------------------------------------------------------- *)
SeriesKey(i) == <<"S", ":", i.blk, ":">> \o i.id

(* --- matcher-conversion key ---------------------------------------------- *)
(* Before the fix: name, type, value glued together.                         *)
ConvKeyLegacy(i) == i.name \o TypeStr(i.type) \o i.value
(* Now: type, length of the name, ':', name, value.                          *)
ConvKey(i) == TypeStr(i.type) \o Dec(Len(i.name)) \o <<":">> \o i.name \o i.value

(* --- receiver's expanded-postings cache key (expandedpostingscache.cacheKey) ---------------- *)
(* The matchers are sorted by (type, name, value) first, so permutations of a list get the    *)
(* same key.  Type order is labels.MatchType: = , != , =~ , !~ ; strings compare bytewise;     *)
(* KnownChars lists the characters of the model's alphabets in byte order.                     *)
KnownChars == <<"!", "\"", "1", ":", ";", "=", "\\", "a", "b", "|", "~">>
CharOrd(c) == CHOOSE k \in 1..Len(KnownChars) : KnownChars[k] = c
TypeOrd(t) == CASE t = "EQ" -> 0 [] t = "NEQ" -> 1 [] t = "RE" -> 2 [] t = "NRE" -> 3
RECURSIVE StrLess(_, _)
StrLess(a, b) == IF b = <<>> THEN FALSE
                 ELSE IF a = <<>> THEN TRUE
                 ELSE IF Head(a) = Head(b) THEN StrLess(Tail(a), Tail(b))
                 ELSE CharOrd(Head(a)) < CharOrd(Head(b))
MatcherLess(m, n) == IF m.type # n.type THEN TypeOrd(m.type) < TypeOrd(n.type)
                     ELSE IF m.name # n.name THEN StrLess(m.name, n.name)
                     ELSE StrLess(m.value, n.value)
(* insertion sort (lists are short) *)
RECURSIVE InsertSorted(_, _)
InsertSorted(sorted, m) == IF sorted = <<>> THEN <<m>>
                           ELSE IF MatcherLess(m, Head(sorted)) THEN <<m>> \o sorted
                           ELSE <<Head(sorted)>> \o InsertSorted(Tail(sorted), m)
RECURSIVE SortMatchers(_)
SortMatchers(ms) == IF ms = <<>> THEN <<>> ELSE InsertSorted(SortMatchers(Tail(ms)), Head(ms))
(* Before the fix: seed "|" block, then name type value "|" glued together per matcher.        *)
(* Now: each matcher rendered by labels.Matcher.String (quoted), then "|".  The seed is a      *)
(* decimal number chosen per metric name for head blocks and empty for persisted blocks; it    *)
(* is one token here.                                                                          *)
RecvMatcher(m, legacy) == IF legacy THEN m.name \o TypeStr(m.type) \o m.value ELSE MatcherStr(m)
RecvKey(i, legacy) ==
    LET sm == SortMatchers(i.ms) IN
    <<"seed", "|", i.blk>> \o KFlatten([x \in DOMAIN sm |-> RecvMatcher(sm[x], legacy) \o <<"|">>])

(* `legacy` is the set of item kinds for which the builder as it was BEFORE its fix is used    *)
(* ({} = the code as it is now; used to break the model on purpose).                          *)
Key(i, legacy) ==
    CASE i.kind = "P"  -> PostingsKey(i, "P" \in legacy)
      [] i.kind = "RP" -> RecvKey(i, "RP" \in legacy)
      [] i.kind = "EP" -> ExpandedKey(i)
      [] i.kind = "S"  -> SeriesKey(i)
      [] i.kind = "MC" -> IF "MC" \in legacy THEN ConvKeyLegacy(i) ELSE ConvKey(i)
=============================================================================
