\* C49 leg A quick: 8-bit words (top 4 bits drive the jump), all 256 key hashes, <= 6 buckets,
\* every rank of the added server; cases: 1..8 servers x rank
SPECIFICATION Spec
CONSTANTS W = 8
          S = 4
          A = 253
          MaxB = 6
          CaseMaxN = 8
INVARIANT C49_Progress
INVARIANT C49_Range
INVARIANT C49_Function
INVARIANT C49_Monotone
INVARIANT C49_AddLast
PROPERTY C49_Terminates
CHECK_DEADLOCK FALSE
