------------------------------ MODULE Frontend ------------------------------
(***************************************************************************)
(* Query frontend: split by interval (C41) and results cache (C42).        *)
(*   pkg/queryfrontend/split_by_interval.go   splitQuery, nextIntervalBoundary *)
(*   internal/cortex/querier/queryrange/results_cache.go  Do, handleHit,   *)
(*        partition, extract(ForStep), merge of extents                    *)
(*   internal/cortex/querier/queryrange/query_range.go    matrixMerge      *)
(*   pkg/queryfrontend/cache.go  alternative (lower-step) cache keys       *)
(*                                                                         *)
(* Time is an integer (ms in traces, abstract units in the MC modules).    *)
(* A range query is [start, end, step]; it is evaluated at                 *)
(*   Steps(start, end, step) = start, start+step, ... <= end.              *)
(*                                                                         *)
(* Constant module: property-level operators (what the statements of C41 / *)
(* C42 demand) first, then the algorithm-level transcription of the code.  *)
(***************************************************************************)
EXTENDS Integers, Sequences, FiniteSets

Max2(a, b) == IF a >= b THEN a ELSE b
Min2(a, b) == IF a <= b THEN a ELSE b
Dom(f) == DOMAIN f
RECURSIVE SumTo(_, _)
SumTo(f, n) == IF n = 0 THEN 0 ELSE f[n] + SumTo(f, n - 1)     \* f[1] + ... + f[n]

(* ======================================================================= *)
(* C41 -- property level                                                   *)
(* ======================================================================= *)

(* Evaluation timestamps of a range query; empty when end < start.  *)
Steps(s, e, st) == { s + k * st : k \in 0..((e - s) \div st) }

(* A sub-query is [start, end, step].  *)
SubSteps(sub) == Steps(sub.start, sub.end, sub.step)

(* "every sub-query stays aligned with the original step": same step, and its first timestamp *)
(* lies on the original query's grid.                                                         *)
SubAligned(s, st, sub) == sub.step = st /\ (sub.start - s) % st = 0
AllAligned(s, st, subs) == \A i \in Dom(subs) : SubAligned(s, st, subs[i])

(* A sub-query is itself a range query: the query_range API (and the frontend's own codec)   *)
(* rejects end < start, so such a sub-query evaluates nothing and fails the whole request.    *)
SubWellFormed(sub) == sub.start <= sub.end
AllWellFormed(subs) == \A i \in Dom(subs) : SubWellFormed(subs[i])

(* "the sub-queries' evaluation timestamps together are exactly the original query's          *)
(* timestamps, each appearing once" -- literal, set-based form.                               *)
StepsExactlyOnceSet(s, e, st, subs) ==
    /\ UNION { SubSteps(subs[i]) : i \in Dom(subs) } = Steps(s, e, st)
    /\ \A i, j \in Dom(subs) : i # j => SubSteps(subs[i]) \cap SubSteps(subs[j]) = {}

(* The same for well-formed, aligned sub-queries, by index arithmetic (no enumeration of the   *)
(* timestamps, so it can judge week-long queries in traces).  Sub-query i covers the grid     *)
(* indices lo(i)..hi(i); they must be pairwise disjoint, inside 0..N and N+1 in total.         *)
(* FrontendSplitMC proves the two forms equivalent in small scope (ArithEqualsSet).           *)
GridIdx(s, st, t) == (t - s) \div st
StepsExactlyOnceArith(s, e, st, subs) ==
    LET N == GridIdx(s, st, e)
        lo(i) == GridIdx(s, st, subs[i].start)
        hi(i) == GridIdx(s, st, subs[i].end)
        cnt == [i \in Dom(subs) |-> hi(i) - lo(i) + 1]
    IN /\ \A i \in Dom(subs) : lo(i) >= 0 /\ hi(i) <= N
       /\ \A i, j \in Dom(subs) : i < j => (hi(i) < lo(j) \/ hi(j) < lo(i))
       /\ SumTo(cnt, Len(subs)) = N + 1

(* "label and series requests are split into ranges that together cover the original range":  *)
(* every (integer ms) instant of [s, e] lies in some sub-range.  Literal form and a form that  *)
(* only looks at the candidate first-uncovered instants (s and each sub.end + 1).             *)
CoversSet(s, e, subs) == \A t \in s..e : \E i \in Dom(subs) : subs[i].start <= t /\ t <= subs[i].end
Covered(t, subs) == \E i \in Dom(subs) : subs[i].start <= t /\ t <= subs[i].end
CoversArith(s, e, subs) ==
    \A c \in {s} \cup { subs[i].end + 1 : i \in Dom(subs) } : (s <= c /\ c <= e) => Covered(c, subs)

(* ======================================================================= *)
(* C41 -- algorithm level (splitQuery as it is in /repo)                   *)
(* ======================================================================= *)

(* nextIntervalBoundary: the last step of t's grid strictly before the next interval start.   *)
NextBoundary(t, st, iv) ==
    LET son == ((t \div iv) + 1) * iv
        target == son - ((son - t) % st)
    IN IF target = son THEN target - st ELSE target

(* One iteration of the range loop starting at cur: the sub-query and the next cur.  *)
RangeIterSub(cur, e, st, iv) ==
    LET nb == NextBoundary(cur, st, iv)
    IN [start |-> cur, end |-> (IF nb + st >= e THEN e ELSE nb), step |-> st]
RangeIterNext(cur, st, iv) == NextBoundary(cur, st, iv) + st

RECURSIVE SplitRangeFrom(_, _, _, _)
SplitRangeFrom(cur, e, st, iv) ==
    IF cur >= e THEN <<>>
    ELSE <<RangeIterSub(cur, e, st, iv)>> \o SplitRangeFrom(RangeIterNext(cur, st, iv), e, st, iv)
SplitRange(s, e, st, iv) ==
    IF s = e THEN <<[start |-> s, end |-> s, step |-> st]>> ELSE SplitRangeFrom(s, e, st, iv)

(* dynamicIntervalFn (roundtrip.go): without a static split interval the interval depends on the     *)
(* query length: twice the maximum or longer -> the maximum; longer than the minimum -> length /       *)
(* horizontal shards; otherwise the minimum.  (Config.Validate demands all three > 0.)                 *)
DynInterval(len, mn, mx, sh) == IF len \div mx >= 2 THEN mx ELSE IF len > mn THEN len \div sh ELSE mn

(* Labels / series requests (step is reported as 1 by the request types).  The loop does not  *)
(* run at all for start = end; splitQuery then falls back to one sub-request [s, s].          *)
RECURSIVE SplitMetaFrom(_, _, _)
SplitMetaFrom(cur, e, iv) ==
    IF cur >= e THEN <<>>
    ELSE <<[start |-> cur, end |-> Min2(cur + iv, e), step |-> 1]>> \o SplitMetaFrom(cur + iv, e, iv)
SplitMeta(s, e, iv) ==
    IF s = e THEN <<[start |-> s, end |-> s, step |-> 1]>> ELSE SplitMetaFrom(s, e, iv)


(* ======================================================================= *)
(* C42 -- property level                                                   *)
(* ======================================================================= *)
(* The data "does not change": a world is a sequence (index = series id,   *)
(* ids ordered like the series' label strings) of presence windows         *)
(* <<[lo, hi], ...>> (ordered, disjoint).  Series k has a sample at t iff  *)
(* t lies in one of its windows; its value is a pure function of (k, t).   *)
(* A response maps each series that has at least one sample to the         *)
(* sequence of its sample timestamps.                                      *)

CeilDiv(a, b) == (a + b - 1) \div b

(* timestamps of Steps(s, e, st) inside the window [lo, hi], ascending *)
WinSeq(s, e, st, lo, hi) ==
    LET i0 == Max2(0, CeilDiv(lo - s, st))
        i1 == Min2((e - s) \div st, (hi - s) \div st)
    IN IF e < s \/ i1 < i0 THEN <<>> ELSE [i \in 1..(i1 - i0 + 1) |-> s + (i0 + i - 1) * st]

RECURSIVE WinsSeqFrom(_, _, _, _, _)
WinsSeqFrom(wins, i, s, e, st) ==
    IF i > Len(wins) THEN <<>>
    ELSE WinSeq(s, e, st, wins[i].lo, wins[i].hi) \o WinsSeqFrom(wins, i + 1, s, e, st)

NonEmptyPart(full) == [k \in { k \in DOMAIN full : full[k] # <<>> } |-> full[k]]

(* "answering each query directly": the samples of every series at the query's timestamps.  *)
Direct(w, s, e, st) == NonEmptyPart([k \in 1..Len(w) |-> WinsSeqFrom(w[k], 1, s, e, st)])

(* The frontend's documented step alignment ("mutate incoming queries to align their start   *)
(* and end with their step", on by default) is not part of the cache: with it the reference  *)
(* is the direct answer to the aligned query.                                                *)
AlignQ(q) == [s |-> q.s - (q.s % q.st), e |-> q.e - (q.e % q.st), st |-> q.st]
Reference(w, q, align) == LET a == IF align THEN AlignQ(q) ELSE q IN Direct(w, a.s, a.e, a.st)

(* ======================================================================= *)
(* C42 -- algorithm level (results cache as it is in /repo)                *)
(* ======================================================================= *)
(* cfg = [iv: split interval, minext: smallest extent worth using,         *)
(*        common: the "common dashboard steps" that get alternative keys,  *)
(*        align: step-align middleware on]                                 *)
(* request r = [s, e, st];  extent = [start, end, resp]                    *)
(* cache: function from keys <<step, interval index>> to extent sequences  *)
(* (tenant, query text and the other key fields are fixed in this model).  *)

EmptyResp == [k \in {} |-> <<>>]
Down(w, r) == Direct(w, r.s, r.e, r.st)          \* the querier answers faithfully

(* PrometheusResponse.minTime: the earliest first sample over all series, -1 when empty.       *)
(* (Before the fix it looked at the first series only -- MinTimeAllSeries = FALSE reproduces    *)
(* that: a series that starts exactly at an extent boundary then ties with the neighbouring     *)
(* response, the stable sort keeps the later response first and matrixMerge drops samples.)     *)
MinTimeAllSeries == TRUE
MinSeries(S) == CHOOSE k \in S : \A j \in S : k <= j
RespMinTime(r) ==
    IF DOMAIN r = {} THEN -1
    ELSE IF MinTimeAllSeries
      THEN LET firsts == { r[k][1] : k \in DOMAIN r } IN CHOOSE m \in firsts : \A x \in firsts : m <= x
      ELSE r[MinSeries(DOMAIN r)][1]

(* sort.Sort(byFirstTime) on fewer than 12 elements is an insertion sort: stable.  *)
RECURSIVE InsertByMinTime(_, _)
InsertByMinTime(sorted, x) ==
    IF sorted = <<>> THEN <<x>>
    ELSE IF RespMinTime(x) < RespMinTime(sorted[Len(sorted)])
         THEN Append(InsertByMinTime(SubSeq(sorted, 1, Len(sorted) - 1), x), sorted[Len(sorted)])
         ELSE Append(sorted, x)
RECURSIVE SortByMinTimeFrom(_, _, _)
SortByMinTimeFrom(rs, i, acc) ==
    IF i > Len(rs) THEN acc ELSE SortByMinTimeFrom(rs, i + 1, InsertByMinTime(acc, rs[i]))
SortByMinTime(rs) == SortByMinTimeFrom(rs, 1, <<>>)

(* matrixMerge, one stream appended to what exists for that series.  *)
(* SliceSamples: the suffix starting at the first timestamp strictly greater than m *)
DropWhileLE(seq, m) ==
    LET later == { i \in DOMAIN seq : seq[i] > m }
    IN IF later = {} THEN <<>> ELSE SubSeq(seq, CHOOSE i \in later : \A j \in later : i <= j, Len(seq))
MergeStream(existing, stream) ==
    IF existing = <<>> \/ stream = <<>> THEN existing \o stream
    ELSE LET last == existing[Len(existing)] IN
         IF last = stream[1] THEN existing \o Tail(stream)
         ELSE IF last > stream[1] THEN existing \o DropWhileLE(stream, last)     \* SliceSamples
         ELSE existing \o stream
MergeInto(out, r) ==
    [k \in DOMAIN out \cup DOMAIN r |->
        IF k \notin DOMAIN r THEN out[k]
        ELSE MergeStream(IF k \in DOMAIN out THEN out[k] ELSE <<>>, r[k])]
RECURSIVE MatrixMergeFrom(_, _, _)
MatrixMergeFrom(rs, i, out) == IF i > Len(rs) THEN out ELSE MatrixMergeFrom(rs, i + 1, MergeInto(out, rs[i]))
(* Codec.MergeResponse: sort by minTime, then matrixMerge.  *)
MergeResponses(rs) == MatrixMergeFrom(SortByMinTime(rs), 1, EmptyResp)

(* Extractor.Extract / ExtractForStep (isTimestampAtStep); series left without samples vanish.  *)
ExtractResp(resp, from, to, st) ==
    NonEmptyPart([k \in DOMAIN resp |->
        SelectSeq(resp[k], LAMBDA t : from <= t /\ t <= to /\ (st <= 0 \/ (t - from) % st = 0))])

(* The last timestamp of r's grid at or before t (t >= r.s).  *)
GridFloor(r, t) == r.s + ((t - r.s) \div r.st) * r.st

(* partition: which pieces come from the extents and which sub-requests are still needed.      *)
(* matching = the extents were found under an alternative (finer-step) key.                    *)
RECURSIVE PartitionFrom(_, _, _, _, _, _, _)
PartitionFrom(cfg, r, exts, i, start, reqs, cached) ==
    IF i > Len(exts) THEN [start |-> start, reqs |-> reqs, cached |-> cached]
    ELSE LET x == exts[i] IN
         IF x.end < start \/ x.start > r.e
           THEN PartitionFrom(cfg, r, exts, i + 1, start, reqs, cached)
         ELSE IF r.s # r.e /\ r.e - r.s > cfg.minext /\ x.end - x.start < cfg.minext
           THEN PartitionFrom(cfg, r, exts, i + 1, start, reqs, cached)
         ELSE LET reqs2 == IF start < x.start THEN Append(reqs, [s |-> start, e |-> x.start, st |-> r.st]) ELSE reqs
                  piece == ExtractResp(x.resp, start, r.e, IF cfg.matching THEN r.st ELSE 0)
                  (* in matching-step mode the running start stays on the request's grid *)
                  nstart == IF cfg.matching /\ cfg.gridfix THEN GridFloor(r, x.end) ELSE x.end
              IN PartitionFrom(cfg, r, exts, i + 1, nstart, reqs2, Append(cached, piece))
Partition(cfg, r, exts) ==
    LET p == PartitionFrom(cfg, r, exts, 1, r.s, <<>>, <<>>)
        reqs1 == IF p.start < r.e THEN Append(p.reqs, [s |-> p.start, e |-> r.e, st |-> r.st]) ELSE p.reqs
        reqs2 == IF r.s = r.e /\ p.cached = <<>> THEN Append(reqs1, r) ELSE reqs1
    IN [reqs |-> reqs2, cached |-> p.cached]

(* sort extents by start, larger extent first on equal starts (insertion sort) *)
ExtentBefore(a, b) == a.start < b.start \/ (a.start = b.start /\ a.end > b.end)
RECURSIVE InsertExtent(_, _)
InsertExtent(sorted, x) ==
    IF sorted = <<>> THEN <<x>>
    ELSE IF ExtentBefore(x, sorted[Len(sorted)])
         THEN Append(InsertExtent(SubSeq(sorted, 1, Len(sorted) - 1), x), sorted[Len(sorted)])
         ELSE Append(sorted, x)
RECURSIVE SortExtentsFrom(_, _, _)
SortExtentsFrom(xs, i, acc) == IF i > Len(xs) THEN acc ELSE SortExtentsFrom(xs, i + 1, InsertExtent(acc, xs[i]))

(* the accumulator loop of handleHit: merge touching / overlapping extents *)
RECURSIVE AccumulateFrom(_, _, _, _, _)
AccumulateFrom(xs, i, acc, out, st) ==
    IF i > Len(xs) THEN Append(out, acc)
    ELSE LET x == xs[i] IN
         IF acc.end + st < x.start THEN AccumulateFrom(xs, i + 1, x, Append(out, acc), st)
         ELSE IF acc.end >= x.end THEN AccumulateFrom(xs, i + 1, acc, out, st)
         ELSE AccumulateFrom(xs, i + 1,
                  [start |-> acc.start, end |-> x.end, resp |-> MergeResponses(<<acc.resp, x.resp>>)], out, st)

(* handleHit: returns the response and the extents to write back (<<>> = nothing to write).  *)
HandleHit(cfg, w, r, exts) ==
    LET p == Partition(cfg, r, exts) IN
    IF p.reqs = <<>> THEN [resp |-> MergeResponses(p.cached), exts |-> <<>>]
    ELSE LET rr == [i \in DOMAIN p.reqs |-> Down(w, p.reqs[i])]
             newx == [i \in DOMAIN p.reqs |-> [start |-> p.reqs[i].s, end |-> p.reqs[i].e, resp |-> rr[i]]]
             sorted == SortExtentsFrom(exts \o newx, 1, <<>>)
         IN [resp |-> MergeResponses(p.cached \o rr),
             exts |-> AccumulateFrom(sorted, 2, sorted[1], <<>>, r.st)]

(* lowerStepCacheCandidates / GenerateCacheKeyAlternatives: finer common steps, largest first.  *)
AltSteps(cfg, r) ==
    IF r.st \notin cfg.common THEN {}
    ELSE { c \in cfg.common : c < r.st /\ r.st % c = 0 /\ r.s % c = 0 }
Key(cfg, r, st) == <<st, r.s \div cfg.iv>>
FirstAlt(cfg, cache, r) ==
    LET have == { c \in AltSteps(cfg, r) : Key(cfg, r, c) \in DOMAIN cache }
    IN IF have = {} THEN 0 ELSE CHOOSE c \in have : \A d \in have : d <= c

Put(cache, key, exts) == [k \in DOMAIN cache \cup {key} |-> IF k = key THEN exts ELSE cache[k]]

(* resultsCache.Do for one (sub-)request.  *)
CacheDo(cfg, w, cache, r) ==
    LET key == Key(cfg, r, r.st) IN
    IF key \in DOMAIN cache
      THEN LET h == HandleHit([cfg EXCEPT !.matching = FALSE], w, r, cache[key])
           IN [resp |-> h.resp, cache |-> IF h.exts # <<>> THEN Put(cache, key, h.exts) ELSE cache]
    ELSE LET c == FirstAlt(cfg, cache, r) IN
         IF c # 0
           THEN [resp |-> HandleHit([cfg EXCEPT !.matching = TRUE], w, r, cache[Key(cfg, r, c)]).resp,
                 cache |-> cache]                                            \* no write-back
         ELSE LET d == Down(w, r)
              IN [resp |-> d, cache |-> Put(cache, key, <<[start |-> r.s, end |-> r.e, resp |-> d]>>)]

(* The whole chain for one query: (step align) -> split by interval -> cache per sub-query -> merge.  *)
RECURSIVE SubsDoFrom(_, _, _, _, _, _)
SubsDoFrom(cfg, w, cache, subs, i, resps) ==
    IF i > Len(subs) THEN [resps |-> resps, cache |-> cache]
    ELSE LET d == CacheDo(cfg, w, cache, [s |-> subs[i].start, e |-> subs[i].end, st |-> subs[i].step])
         IN SubsDoFrom(cfg, w, d.cache, subs, i + 1, Append(resps, d.resp))
FrontendDo(cfg, w, cache, q) ==
    LET a == IF cfg.align THEN AlignQ(q) ELSE q
        d == SubsDoFrom(cfg, w, cache, SplitRange(a.s, a.e, a.st, cfg.iv), 1, <<>>)
    IN [resp |-> MergeResponses(d.resps), cache |-> d.cache]

(* extents of a cache as a set of <<step, start, end>> (what the harness can observe)  *)
CacheRanges(cache) ==
    UNION { { <<k[1], cache[k][i].start, cache[k][i].end>> : i \in DOMAIN cache[k] } : k \in DOMAIN cache }


(* ======================================================================= *)
(* Phase 2: metadata requests (label names, label values, series) go       *)
(* through the SAME results cache code (labels tripperware: split by       *)
(* interval -> results cache with ThanosResponseExtractor), and instant    *)
(* queries pass the tripperware without cache or split.                    *)
(* ======================================================================= *)
(* property level: a metadata answer is determined by the set of series that have a sample in the   *)
(* requested range (ids; label names / values / label sets are functions of that set).  Label APIs  *)
(* may return supersets (DESIGN 2.2), so the cache must not LOSE anything the direct answer has and  *)
(* must not invent series that do not exist at all.  An instant query is answered directly.          *)
PresentIn(wins, s, e) == \E i \in DOMAIN wins : wins[i].lo <= e /\ s <= wins[i].hi
MetaDirect(w, s, e) == { k \in 1..Len(w) : PresentIn(w[k], s, e) }
MetaNothingLost(resp, w, s, e) == MetaDirect(w, s, e) \subseteq resp
MetaNothingInvented(resp, w) == resp \subseteq { k \in 1..Len(w) : w[k] # <<>> }

(* algorithm level.  request r = [kind, s, e]; key = <<kind, interval index>>; the step of these      *)
(* requests is 1; the extractor returns a cached response WHOLE, whatever part of it overlaps.         *)
MetaExtentBefore(a, b) == a.start < b.start \/ (a.start = b.start /\ a.end > b.end)
RECURSIVE MetaInsertExtent(_, _)
MetaInsertExtent(sorted, x) ==
    IF sorted = <<>> THEN <<x>>
    ELSE IF MetaExtentBefore(x, sorted[Len(sorted)])
         THEN Append(MetaInsertExtent(SubSeq(sorted, 1, Len(sorted) - 1), x), sorted[Len(sorted)])
         ELSE Append(sorted, x)
RECURSIVE MetaSortFrom(_, _, _)
MetaSortFrom(xs, i, acc) == IF i > Len(xs) THEN acc ELSE MetaSortFrom(xs, i + 1, MetaInsertExtent(acc, xs[i]))
RECURSIVE MetaAccumulateFrom(_, _, _, _)
MetaAccumulateFrom(xs, i, acc, out) ==
    IF i > Len(xs) THEN Append(out, acc)
    ELSE LET x == xs[i] IN
         IF acc.end + 1 < x.start THEN MetaAccumulateFrom(xs, i + 1, x, Append(out, acc))
         ELSE IF acc.end >= x.end THEN MetaAccumulateFrom(xs, i + 1, acc, out)
         ELSE MetaAccumulateFrom(xs, i + 1, [start |-> acc.start, end |-> x.end, resp |-> acc.resp \cup x.resp], out)
RECURSIVE MetaPartitionFrom(_, _, _, _, _, _, _)
MetaPartitionFrom(cfg, r, exts, i, start, reqs, cached) ==
    IF i > Len(exts) THEN [start |-> start, reqs |-> reqs, cached |-> cached]
    ELSE LET x == exts[i] IN
         IF x.end < start \/ x.start > r.e THEN MetaPartitionFrom(cfg, r, exts, i + 1, start, reqs, cached)
         ELSE IF r.s # r.e /\ r.e - r.s > cfg.minext /\ x.end - x.start < cfg.minext
           THEN MetaPartitionFrom(cfg, r, exts, i + 1, start, reqs, cached)
         ELSE MetaPartitionFrom(cfg, r, exts, i + 1, x.end,
                  IF start < x.start THEN Append(reqs, [s |-> start, e |-> x.start]) ELSE reqs,
                  Append(cached, x.resp))
SeqUnion(ss) == UNION { ss[i] : i \in DOMAIN ss }
MetaHandleHit(cfg, w, r, exts) ==
    LET p == MetaPartitionFrom(cfg, r, exts, 1, r.s, <<>>, <<>>)
        reqs1 == IF p.start < r.e THEN Append(p.reqs, [s |-> p.start, e |-> r.e]) ELSE p.reqs
        reqs == IF r.s = r.e /\ p.cached = <<>> THEN Append(reqs1, [s |-> r.s, e |-> r.e]) ELSE reqs1
    IN IF reqs = <<>> THEN [resp |-> SeqUnion(p.cached), exts |-> <<>>]
       ELSE LET rr == [i \in DOMAIN reqs |-> MetaDirect(w, reqs[i].s, reqs[i].e)]
                newx == [i \in DOMAIN reqs |-> [start |-> reqs[i].s, end |-> reqs[i].e, resp |-> rr[i]]]
                sorted == MetaSortFrom(exts \o newx, 1, <<>>)
            IN [resp |-> SeqUnion(p.cached) \cup SeqUnion(rr),
                exts |-> MetaAccumulateFrom(sorted, 2, sorted[1], <<>>)]
MetaCacheDo(cfg, w, cache, kind, r) ==
    LET key == <<kind, r.s \div cfg.iv>> IN
    IF key \in DOMAIN cache
      THEN LET h == MetaHandleHit(cfg, w, r, cache[key])
           IN [resp |-> h.resp, cache |-> IF h.exts # <<>> THEN Put(cache, key, h.exts) ELSE cache]
    ELSE LET d == MetaDirect(w, r.s, r.e)
         IN [resp |-> d, cache |-> Put(cache, key, <<[start |-> r.s, end |-> r.e, resp |-> d]>>)]
RECURSIVE MetaSubsDoFrom(_, _, _, _, _, _, _)
MetaSubsDoFrom(cfg, w, cache, kind, subs, i, resp) ==
    IF i > Len(subs) THEN [resp |-> resp, cache |-> cache]
    ELSE LET d == MetaCacheDo(cfg, w, cache, kind, [s |-> subs[i].start, e |-> subs[i].end])
         IN MetaSubsDoFrom(cfg, w, d.cache, kind, subs, i + 1, resp \cup d.resp)
(* q = [kind, s, e]; kind 0 = instant query (no split, no cache), 1 = label names, 2 = label values, 3 = series *)
MetaFrontendDo(cfg, w, cache, q) ==
    IF q.kind = 0 THEN [resp |-> MetaDirect(w, q.s, q.s), cache |-> cache]
    ELSE MetaSubsDoFrom(cfg, w, cache, q.kind, SplitMeta(q.s, q.e, cfg.iv), 1, {})
=============================================================================
