\* C47 leg A quick (liveness): same alphabet without the second directory, <= 2 changes/failing applies; weak fairness
\* on successful applies; eventual form of the property: <>[](fault still present \/ Synced).
\* (HistLen = FaultLen = 0..1: this run emits no useful cases for leg B.)
SPECIFICATION Spec
CONSTANTS Contents = {"p1", "e1"}
          TwoDirs = FALSE
          WatNames = {"w"}
          EnvVals = {"v1", "unset"}
          TolVals = {FALSE, TRUE}
          Budget = 2
          HistLen = 1
          FaultLen = 1
PROPERTIES EventuallySynced
CHECK_DEADLOCK FALSE
