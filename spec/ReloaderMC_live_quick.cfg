\* C47 leg A quick (liveness): same alphabet, <= 2 changes/failing applies; weak fairness on successful applies;
\* eventual form of the property: <>[]Synced.  (HistLen = 1: this run emits no cases for leg B.)
SPECIFICATION Spec
CONSTANTS Contents = {"p1", "e1"}
          DirNames = {"a", "b"}
          WatNames = {"w"}
          EnvVals = {"v1", "v2"}
          Budget = 2
          HistLen = 1
PROPERTIES EventuallySynced
CHECK_DEADLOCK FALSE
