\* C12 leg A thorough: lists of <= 5 values in 0..7, <= 4 calls (Next, Seek 0..8), not streamed + chunk sizes 1..4,
\* 2-byte varints from difference 2; harness cases: lists <= 4 over 0..3 x op sequences <= 3
SPECIFICATION Spec
CONSTANTS MaxVal = 7
          MaxLen = 5
          MaxOps = 4
          ChunkSizes = {0, 1, 2, 3, 4}
          W2 = 2
          CaseVal = 3
          CaseLen = 4
          CaseOps = 3
INVARIANT C12_SeekAndNextBehaveAsOnOriginal
INVARIANT C12_RoundTrip
INVARIANT ChunkingInvisible
CHECK_DEADLOCK FALSE
