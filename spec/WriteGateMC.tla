----------------------------- MODULE WriteGateMC -----------------------------
(***************************************************************************)
(* Leg A of C24: all interleavings of request arrivals, admissions,        *)
(* client cancellations (while queued and while running), failed Starts    *)
(* and completions, for the handler code as it is in /repo now:            *)
(*                                                                         *)
(*     err = writeGate.Start(r.Context())                                  *)
(*     if err != nil { ...500...; return }      \* no Done: no slot taken  *)
(*     defer writeGate.Done()                                              *)
(*                                                                         *)
(* DoneOnFailedStart = TRUE models the order the code had before the fix   *)
(* (`defer writeGate.Done()` registered before the error check): the       *)
(* failed request then releases a slot it never took.  The committed       *)
(* configs use FALSE; flipping it to TRUE makes WithinLimitInv and NoPanic *)
(* fail (non-vacuity, see notes/C24.md).                                   *)
(***************************************************************************)
EXTENDS WriteGate, TLC, Json, IOUtils, Sequences, SequencesExt
CONSTANTS NReq, MaxSet, DoneOnFailedStart, WithLimits, CaseLen, CaseReq, CaseMaxSet, CaseLenReject

Reqs == 1..NReq

VARIABLES pc,         \* request -> state
          slots,      \* occupancy of the gate's channel
          cancelled,  \* request -> the client gave up (request context done)
          max,        \* configured maximum write concurrency (chosen at Init)
          overLimit,  \* request -> it exceeds a request limit (size / series / samples, or the tenant's
                      \* head-series limit): the limiters are consulted AFTER the gate admitted the
                      \* request, which is then answered 413 / 429 and releases its slot without any work
          panicked    \* Done was called on an empty gate
vars == <<pc, slots, cancelled, max, overLimit, panicked>>

Init == /\ pc = [r \in Reqs |-> "idle"]
        /\ slots = 0
        /\ cancelled = [r \in Reqs |-> FALSE]
        /\ max \in MaxSet
        /\ overLimit \in (IF WithLimits THEN [Reqs -> BOOLEAN] ELSE {[r \in Reqs |-> FALSE]})
        /\ panicked = FALSE

(* The client sends the request; the handler calls Start.  *)
Arrive(r) == /\ pc[r] = "idle"
             /\ pc' = [pc EXCEPT ![r] = "waiting"]
             /\ UNCHANGED <<slots, cancelled, max, overLimit, panicked>>

(* Start's select takes the channel-send branch (possible even when the context is already   *)
(* done: Go chooses among ready branches at random).                                          *)
Admit(r) == /\ pc[r] = "waiting"
            /\ CanAdmit(slots, max)
            /\ slots' = slots + 1
            /\ pc' = [pc EXCEPT ![r] = "running"]
            /\ UNCHANGED <<cancelled, max, overLimit, panicked>>

(* The client gives up (closes the connection): the request context is cancelled.  While     *)
(* running this has no effect on the gate (the forward uses its own context).                *)
Cancel(r) == /\ pc[r] \in {"waiting", "running"}
             /\ ~cancelled[r]
             /\ cancelled' = [cancelled EXCEPT ![r] = TRUE]
             /\ UNCHANGED <<pc, slots, max, overLimit, panicked>>

(* Start's select takes the ctx.Done branch and returns the error.  *)
StartFails(r) == /\ pc[r] = "waiting"
                 /\ cancelled[r]
                 /\ pc' = [pc EXCEPT ![r] = "failed"]
                 /\ UNCHANGED <<slots, cancelled, max, overLimit, panicked>>

(* The failed request writes its 500 and returns; deferred calls run.  *)
FailedReturns(r) ==
    /\ pc[r] = "failed"
    /\ pc' = [pc EXCEPT ![r] = "done"]
    /\ IF DoneOnFailedStart
         THEN /\ slots' = AfterDone(slots)
              /\ panicked' = (panicked \/ DonePanics(slots))
         ELSE UNCHANGED <<slots, panicked>>
    /\ UNCHANGED <<cancelled, max, overLimit>>

(* An admitted request that exceeds a limit is refused (413 / 429); the deferred Done releases its slot. *)
Refused(r) == /\ pc[r] = "running" /\ overLimit[r]
              /\ pc' = [pc EXCEPT ![r] = "done"]
              /\ slots' = AfterDone(slots)
              /\ panicked' = (panicked \/ DonePanics(slots))
              /\ UNCHANGED <<cancelled, max, overLimit>>

(* An admitted request finishes; the deferred Done releases its slot.  *)
Finish(r) == /\ pc[r] = "running" /\ ~overLimit[r]
             /\ pc' = [pc EXCEPT ![r] = "done"]
             /\ slots' = AfterDone(slots)
             /\ panicked' = (panicked \/ DonePanics(slots))
             /\ UNCHANGED <<cancelled, max, overLimit>>

Next == \E r \in Reqs : Arrive(r) \/ Admit(r) \/ Cancel(r) \/ StartFails(r) \/ FailedReturns(r) \/ Refused(r) \/ Finish(r)

(* Fairness: the server side makes progress; clients are free to never send / never cancel. *)
(* A cancelled waiting request may be admitted or fail; an uncancelled one must be admitted  *)
(* once a slot is free.                                                                       *)
Spec == Init /\ [][Next]_vars
        /\ \A r \in Reqs : /\ WF_vars(Admit(r) \/ StartFails(r))
                           /\ WF_vars(FailedReturns(r))
                           /\ WF_vars(Refused(r))
                           /\ WF_vars(Finish(r))

(* ---------------- C24 ---------------- *)
Running == { r \in Reqs : pc[r] = "running" }
WithinLimitInv == WithinLimit(Running, max)                 \* never more than Max processed at once
NoPanic == ~panicked                                         \* waiting requests never crash the receiver
SlotsExact == slots = Cardinality(Running)                   \* the semaphore counts exactly the running requests
(* no slot is leaked: whoever waits is eventually served or told to go away *)
NoStarvation == \A r \in Reqs : (pc[r] = "waiting") ~> (pc[r] # "waiting")
EventuallyIdle == <>[](slots = 0)

(* ---------------- leg B: driver scripts for the real handler ---------------- *)
(* The harness controls arrive / cancel / finish(= let the blocking peer answer); admission  *)
(* is the code's own step and is only observed.  Requests are numbered in arrival order      *)
(* (they are interchangeable).  finish(r) of a request that is still queued means "answer it *)
(* as soon as it shows up at the peer".                                                       *)
CasesFile == IF "VERIF_CASES" \in DOMAIN IOEnv THEN IOEnv.VERIF_CASES ELSE "cases.ndjson"
DriverOps == [op : {"arrive", "cancel", "finish"}, r : 1..CaseReq]
ArrivedIn(s) == { s[i].r : i \in { j \in 1..Len(s) : s[j].op = "arrive" } }
ClosedIn(s) == { s[i].r : i \in { j \in 1..Len(s) : s[j].op # "arrive" } }
OpOk(s, o) == IF o.op = "arrive" THEN o.r = Cardinality(ArrivedIn(s)) + 1
              ELSE o.r \in ArrivedIn(s) \ ClosedIn(s)
RECURSIVE Gen(_)
Gen(n) == IF n = 0 THEN {<<>>}
          ELSE LET P == Gen(n - 1) IN
               P \cup UNION { { Append(s, o) : o \in { x \in DriverOps : OpOk(s, x) } } : s \in { p \in P : Len(p) = n - 1 } }
(* only scripts that can tell something: at least max+1 arrivals *)
CaseSet == { [max |-> m, ops |-> s] : m \in CaseMaxSet, s \in { x \in Gen(CaseLen) : Cardinality(ArrivedIn(x)) > 1 } }
(* scripts in which one request exceeds a request limit (the harness picks size or series count) *)
RejectCaseSet == { [max |-> m, ops |-> s, reject |-> <<r>>] : m \in CaseMaxSet,
                     s \in { x \in Gen(CaseLenReject) : Cardinality(ArrivedIn(x)) > 1 }, r \in 1..CaseReq }
ASSUME ndJsonSerialize(CasesFile,
         SetToSeq({ [max |-> c.max, ops |-> c.ops, reject |-> <<>>] : c \in { x \in CaseSet : Cardinality(ArrivedIn(x.ops)) > x.max } }
                  \cup { c \in RejectCaseSet : Cardinality(ArrivedIn(c.ops)) > c.max /\ c.reject[1] \in ArrivedIn(c.ops) }))
=============================================================================
